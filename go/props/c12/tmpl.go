package main

import (
	"fmt"
	"strconv"
	"strings"

	"github.com/open2b/scriggo"
	"github.com/open2b/scriggo/native"

	"verifharness/internal/hx"
	"verifharness/internal/proto"
)

// The template stream: {the way a native function is reached} × {what it does} × {where the
// call stands in a template: a statement, a show, the body of a macro, a show in the body of a
// macro, a function literal that recovers}, checked against the documentation alone (no model,
// no gc): an unrecovered panic of native code comes back from Run as a *PanicError carrying the
// value, Stop(err) as err, Fatal(v) as a panic of Run with v, and nothing is rendered after the
// call.

// natives with a result, for {{ … }}
func hRPanic(v int) string                 { panic(v) }
func hRStop(env native.Env, k int) string  { env.Stop(stopErrs[k]); return "r" }
func hRFatal(env native.Env, v int) string { env.Fatal(v); return "r" }
func hRCall(f func()) string               { f(); return "r" }

func (HT) RPanic(v int) string                 { panic(v) }
func (HT) RStop(env native.Env, k int) string  { return hRStop(env, k) }
func (HT) RFatal(env native.Env, v int) string { return hRFatal(env, v) }
func (HT) RCall(f func()) string               { f(); return "r" }

func tmplGlobals() native.Declarations {
	g := native.Declarations{}
	for k, v := range hPackage["h"].(native.Package).Declarations {
		g[k] = v
	}
	g["RPanic"], g["RStop"], g["RFatal"], g["RCall"] = hRPanic, hRStop, hRFatal, hRCall
	return g
}

type tmplWhat struct {
	name string
	nc   nativeCall  // for statements
	rnc  *nativeCall // for shows (nil: the native function has no variant with a result)
	want string      // panic:<text> | stop:<k> | fatal:<v> | done
}

var tmplWhats = []tmplWhat{
	{"panic-int", nativeCall{name: "Panic", typ: "func(int)", args: "5"}, &nativeCall{name: "RPanic", typ: "func(int) string", args: "5", ret: "string"}, "panic:5"},
	{"panic-string", nativeCall{name: "PanicS", typ: "func(int)", args: "5"}, nil, "panic:s5"},
	{"panic-error", nativeCall{name: "PanicE", typ: "func(int)", args: "5"}, nil, "panic:e5"},
	{"panic-custom", nativeCall{name: "PanicC", typ: "func(int)", args: "5"}, nil, "panic:c5"},
	{"stop", nativeCall{name: "Stop", typ: "func(int)", args: "1", env: true}, &nativeCall{name: "RStop", typ: "func(int) string", args: "1", env: true, ret: "string"}, "stop:1"},
	{"fatal", nativeCall{name: "Fatal", typ: "func(int)", args: "7", env: true}, &nativeCall{name: "RFatal", typ: "func(int) string", args: "7", env: true, ret: "string"}, "fatal:7"},
	{"callback-panics", nativeCall{name: "Call", typ: "func(func())", args: "func() { panic(5) }"}, &nativeCall{name: "RCall", typ: "func(func()) string", args: "func() { panic(5) }", ret: "string"}, "panic:5"},
	{"callback-stops", nativeCall{name: "Call", typ: "func(func())", args: "func() { Stop(1) }"}, &nativeCall{name: "RCall", typ: "func(func()) string", args: "func() { Stop(1) }", ret: "string"}, "stop:1"},
	{"callback-fatals", nativeCall{name: "Call", typ: "func(func())", args: "func() { Fatal(7) }"}, &nativeCall{name: "RCall", typ: "func(func()) string", args: "func() { Fatal(7) }", ret: "string"}, "fatal:7"},
	{"callback-recovers-then-stops", nativeCall{name: "Call", typ: "func(func())", args: "func() { recover(); Stop(1) }"}, nil, "stop:1"},
	{"callback-returns", nativeCall{name: "Call", typ: "func(func())", args: "func() {}"}, &nativeCall{name: "RCall", typ: "func(func()) string", args: "func() {}", ret: "string"}, "done"},
}

var tmplPositions = []string{"statement", "show", "macro", "macro-show", "recovering-literal", "deferred-while-panicking", "macro-deferred-while-panicking", "deferred-after-recover"}

type tmplCase struct {
	reach     int
	what, pos int
}

func (t tmplCase) id() string {
	return fmt.Sprintf("C12 tmpl %s %s %s", reachNames[t.reach], tmplWhats[t.what].name, tmplPositions[t.pos])
}

// source returns the template, the documented result and the documented output ("" when the
// combination does not exist).
func (t tmplCase) source() (src, want, wantOut string) {
	w := tmplWhats[t.what]
	show := t.pos == 1 || t.pos == 3
	nc := w.nc
	if show {
		if w.rnc == nil {
			return "", "", ""
		}
		nc = *w.rnc
	}
	if nc.env && (t.reach == reachField || t.reach == reachSlice) {
		return "", "", "" // known finding env-native-in-composite
	}
	n := 0
	fresh := func(base string) string { n++; return base + strconv.Itoa(n) }
	pre, call := nc.write(t.reach, fresh)
	unq := func(s string) string { return strings.ReplaceAll(s, "h.", "") } // globals, not a package
	call = unq(call)
	var stmts strings.Builder
	for _, l := range pre {
		stmts.WriteString("{% " + unq(l) + " %}")
	}
	val := ""
	if w.want == "done" && show {
		val = "r"
	}
	switch t.pos {
	case 0:
		src = "a" + stmts.String() + "{% " + call + " %}b"
		wantOut = "a"
	case 1:
		src = "a" + stmts.String() + "{{ " + call + " }}b"
		wantOut = "a"
	case 2:
		src = "{% macro M %}m" + stmts.String() + "{% " + call + " %}n{% end %}a{{ M() }}b"
		wantOut = "am"
	case 3:
		src = "{% macro M %}m" + stmts.String() + "{{ " + call + " }}n{% end %}a{{ M() }}b"
		wantOut = "am"
	case 4:
		var lits strings.Builder
		for _, l := range pre {
			lits.WriteString(unq(l) + "; ")
		}
		src = "a{% func() { defer func() { recover() }(); " + lits.String() + call + " }() %}b"
		wantOut = "a"
	}
	if t.pos >= 5 {
		// a deferred closure runs the call while panic(3) is active: decided for Stop and Fatal only
		if !strings.HasPrefix(w.want, "stop:") && !strings.HasPrefix(w.want, "fatal:") {
			return "", "", ""
		}
		var lits strings.Builder
		for _, l := range pre {
			lits.WriteString(unq(l) + "; ")
		}
		wantOut = "a"
		switch t.pos {
		case 5:
			src = "a{% func() { defer func() { " + lits.String() + call + " }(); panic(3) }() %}b"
		case 6:
			src = "{% macro M %}m" + stmts.String() + "{% " + call + " %}n{% end %}a{% func() { defer func() { _ = M() }(); panic(3) }() %}b"
		case 7:
			src = "a{% func() { defer func() { recover(); " + lits.String() + call + " }(); panic(3) }() %}b"
		}
	}
	want = w.want
	if t.pos == 4 && strings.HasPrefix(want, "panic:") {
		want = "done"
	}
	if want == "done" {
		switch t.pos {
		case 0, 4:
			wantOut = "ab"
		case 1:
			wantOut = "a" + val + "b"
		case 2:
			wantOut = "amnb"
		case 3:
			wantOut = "am" + val + "nb"
		}
	}
	return src, want, wantOut
}

// runTemplate builds and runs the template and reports "out=<text> res=<result>".
func runTemplate(src string) (got string) {
	var out strings.Builder
	res := ""
	defer func() {
		if r := recover(); r != nil {
			if v, ok := r.(int); ok {
				res = fmt.Sprintf("fatal:%d", v)
			} else {
				res = "hostpanic:" + strings.ReplaceAll(fmt.Sprintf("%T:%v", r, r), " ", "_")
			}
		}
		got = "out=" + dash(out.String()) + " res=" + res
	}()
	t, err := scriggo.BuildTemplate(scriggo.Files{"index.txt": []byte(src)}, "index.txt", &scriggo.BuildOptions{Globals: tmplGlobals()})
	if err != nil {
		res = "builderror:" + strings.ReplaceAll(err.Error(), " ", "_")
		return
	}
	err = t.Run(&out, nil, &scriggo.RunOptions{Print: func(any) {}})
	switch e := err.(type) {
	case nil:
		res = "done"
	case *scriggo.PanicError:
		_, texts, problem := chainOf(e)
		res = "panic:" + strings.NewReplacer("\x00", ",", "\x01", "[recovered]").Replace(texts)
		if problem != "" {
			res += "(" + strings.ReplaceAll(problem, " ", "_") + ")"
		}
	default:
		res = "error:" + strings.ReplaceAll(err.Error(), " ", "_")
		for k, se := range stopErrs {
			if se != nil && err == se {
				res = fmt.Sprintf("stop:%d", k)
			}
		}
	}
	return
}

func tmplCases() []tmplCase {
	var out []tmplCase
	for w := range tmplWhats {
		for pos := range tmplPositions {
			for reach := 0; reach < nReach; reach++ {
				out = append(out, tmplCase{reach, w, pos})
			}
		}
	}
	return out
}

func checkTemplates(c *hx.Ctx, cases []tmplCase) {
	res := c.Res
	for _, t := range cases {
		src, want, wantOut := t.source()
		if src == "" {
			continue
		}
		got := runTemplate(src)
		res.Count(t.id(), want != "done")
		res.Hist("stream-template")
		res.Hist("template-" + tmplPositions[t.pos])
		res.Hist("native-reach-" + reachNames[t.reach])
		if exp := "out=" + dash(wantOut) + " res=" + want; got != exp {
			res.AddBreak(proto.Break{Kind: "property", Name: "template-native-outcome-is-documented", Case: t.id(), Human: src, Impl: got, Model: "documented: " + exp})
		}
	}
}

// parseTmplCase reads the case line of a replay.
func parseTmplCase(line string) (tmplCase, bool) {
	f := strings.Fields(line)
	if len(f) != 5 || f[1] != "tmpl" {
		return tmplCase{}, false
	}
	t := tmplCase{reach: -1, what: -1, pos: -1}
	for i, n := range reachNames {
		if n == f[2] {
			t.reach = i
		}
	}
	for i, w := range tmplWhats {
		if w.name == f[3] {
			t.what = i
		}
	}
	for i, p := range tmplPositions {
		if p == f[4] {
			t.pos = i
		}
	}
	return t, t.reach >= 0 && t.what >= 0 && t.pos >= 0
}
