package main

import (
	"fmt"
	"os"
	"path/filepath"
	"strings"

	"verifharness/internal/hx"
	"verifharness/internal/proto"
)

// C12: Run reports Stop, Fatal and unrecovered panics as documented; the defer/panic/recover
// frame machine of internal/runtime (Model/Frames.lean) against the real VM and, through the
// same Go source compiled by gc, against Go itself.
func main() { hx.Main("C12", run) }

const fuel = 5000

// expected turns a model answer ("ok out=… res=…") into the outcome the host must see.
func modelOutcome(ans string) string {
	s := strings.TrimPrefix(ans, "ok ")
	// Stop(nil): Run returns nil
	return strings.Replace(s, "res=stop:0", "res=done", 1)
}

type tcase struct {
	p       *prog
	src     string
	real    outcome
	stream  string
	noGc    bool   // gc is run on it only when model and VM disagree (exhaustive stream: a sample goes to gc)
	finding string // replay of this recorded finding: its breaks are known
}

func run(c *hx.Ctx) error {
	res := c.Res
	res.Rule = "reach: {the way a native function is reached: direct call, function value in a variable / passed as argument / returned / in a struct field / in a slice, method, method value, method expression, the same three through a native interface type} x {what it does: panic(int/string/error/custom error), nothing, print, Stop, Fatal, calling back a Scriggo function that panics, raises a run-time error, recovers, recovers its own panic, returns, Stops, Fatals} x {called, deferred, deferred while unwinding; no recover, recover in a deferred closure, defer recover(), re-panic, second panic, one and two calls deep}, all on the VM and the Lean machines, a sample and every disagreement by gc; stop-state: {Stop(err), Stop(nil), Fatal(v) by the native function itself or in a Scriggo callback it calls, there also after recover()} x {called by a deferred closure (plain, after its own recover(), followed by a print, deferring it in turn), deferred directly as function, function value, method value, method expression, interface method value, argument} x {no panic, a panic active in this frame, in an outer frame, in a callee, recovered earlier, two active panics} x {bare, inside a function whose deferred closure recovers}, decided by the documentation through the marker printed before every Stop/Fatal (Stop(err) => Run returns err, Fatal(v) => Run panics with v, nothing runs afterwards — whatever panics are active); template: the same reaches x {statement, show, macro body, show in a macro body, recovering function literal} against the documentation; and three streams. uniform: random function tables (2–7 functions, acyclic references, ≤ 6 instructions each) over call/defer/defer recover()/return/panic/recover/re-panic/print (+ Stop/Fatal in a third); grammar: nested functions with 0–3 deferred calls each whose deferred functions recover, re-panic, panic again, defer and call further functions (depth ≤ 3); exhaustive: every program main(≤3 instr)/f1(≤2)/f2(≤2) over defer/call/panic/recover(/re-panic in f2), all run on the VM and the Lean machines, a seed-dependent sample of them and every disagreement also by gc. Functions written as top-level function, literal or closure variable, panics as builtin, native function or native method; non-trivial: a panic is raised at run time; distinct by abstract program"
	if c.Replay != "" {
		return replay(c)
	}
	var cases []*tcase
	for _, f := range c.Findings { // recorded findings are replayed first
		if i := strings.Index(f.Minimal, "P "); i >= 0 {
			if p, err := parseAbstract(f.Minimal[i:]); err == nil {
				cases = append(cases, &tcase{p: p, stream: "finding", finding: f.ID})
			}
		}
	}
	for i := 0; i < c.N(200, 3000); i++ {
		cases = append(cases, &tcase{p: genProg(c.R, i%3 == 2), stream: "uniform"})
	}
	for i := 0; i < c.N(500, 6000); i++ {
		cases = append(cases, &tcase{p: genGrammar(c.R, i%5 == 4), stream: "grammar"})
	}
	every := c.N(96, 12)
	off := int(c.Seed % uint64(every))
	for i, p := range exhaustivePrograms() {
		cases = append(cases, &tcase{p: p, stream: "exhaustive", noGc: i%every != off})
	}
	for i, p := range reachMatrix() {
		cases = append(cases, &tcase{p: p, stream: "reach", noGc: i%every != off})
	}
	for _, p := range stopMatrix() {
		cases = append(cases, &tcase{p: p, stream: "stop-state", noGc: true})
	}
	if err := checkCases(c, cases, true); err != nil {
		return err
	}
	checkTemplates(c, tmplCases())
	return nil
}

func checkCases(c *hx.Ctx, cases []*tcase, shrink bool) error {
	res := c.Res
	// 1. the real code
	for _, t := range cases {
		t.src = t.p.render("", "h")
		t.real = runScriggo(t.src)
	}
	// 2. the Lean machines
	var frames, godefer []string
	if c.D != nil {
		var lines []string
		for _, t := range cases {
			lines = append(lines, fmt.Sprintf("C12 frames %d %s", fuel, t.p.abstract()))
		}
		for _, t := range cases {
			lines = append(lines, fmt.Sprintf("C12 go %d %s", fuel, t.p.abstract()))
		}
		ans, err := c.D.Batch(lines)
		if err != nil {
			return err
		}
		frames, godefer = ans[:len(cases)], ans[len(cases):]
	}
	// 3. gc on the Stop/Fatal-free ones
	var gcIdx []int
	var gcProgs []*prog
	for i, t := range cases {
		if t.noGc && (frames == nil || modelOutcome(frames[i]) == noMarker(t.real.String())) {
			continue
		}
		if !t.p.usesStopFatal() {
			gcIdx = append(gcIdx, i)
			gcProgs = append(gcProgs, t.p)
		}
	}
	gcRes := map[int]gcResult{}
	const chunk = 1500
	for lo := 0; lo < len(gcProgs); lo += chunk {
		hi := min(lo+chunk, len(gcProgs))
		r, err := gcBatch(gcProgs[lo:hi])
		if err != nil {
			return err
		}
		for k, x := range r {
			gcRes[gcIdx[lo+k]] = x
		}
	}
	// 4. compare
	seen := map[string]bool{} // shrink the first break of each kind only
	addBreak := func(t *tcase, b proto.Break) {
		b.Finding = t.finding
		res.AddBreak(b)
	}
	var walks, walkWant []string
	for i, t := range cases {
		key := t.p.abstract()
		real := t.real.String()
		nontrivial := strings.Contains(real, "res=panic") || strings.Contains(t.real.Events, "r") && strings.Contains(strings.ReplaceAll(t.real.Events, "rn", ""), "r")
		res.Count(key, nontrivial)
		res.Hist("outcome-" + strings.SplitN(t.real.Res, ":", 2)[0])
		res.Hist("stream-" + t.stream)
		res.Hist(fmt.Sprintf("panic-sites-%d", min(t.p.count(opPanic), 6)))
		for _, h := range t.p.nativeHist() {
			res.Hist(h)
		}
		if i%97 == 0 && nontrivial {
			res.Sample(map[string]string{"program": key, "scriggo": real})
		}
		human := "abstract: " + key + "\n" + t.src
		// the property's own oracle, independent of the model
		if strings.Contains(t.real.Extra, "Next()") {
			b := proto.Break{Kind: "property", Name: "next-terminates", Case: "C12 frames " + fmt.Sprint(fuel) + " " + key + t.p.styleSuffix(), Human: human, Impl: real, Model: "following Next() reaches nil"}
			if shrink && t.finding == "" && !seen[b.Name] {
				seen[b.Name] = true
				b = shrinkDoc(t.p, b, func(o outcome) bool { return strings.Contains(o.Extra, "Next()") })
			}
			addBreak(t, b)
		} else if g, ok := gcRes[i]; ok {
			want := "out=" + dash(g.Events) + " res=" + gcForm(g.Res)
			got := "out=" + dash(t.real.Events) + " res=" + gcForm(t.real.Res)
			if t.real.Extra != "" {
				got += " extra=" + t.real.Extra
			}
			if got != want {
				b := proto.Break{Kind: "property", Name: "same-behaviour-as-gc", Case: "C12 frames " + fmt.Sprint(fuel) + " " + key + t.p.styleSuffix(), Human: human, Impl: got, Model: "gc: " + want}
				if shrink && t.finding == "" && !seen[b.Name] {
					seen[b.Name] = true
					b = shrinkGc(c, t.p, b)
				}
				addBreak(t, b)
			}
			// validation of the specification (Spec/GoDefer.lean) against gc
			if godefer != nil {
				res.SpecChecks["GoDefer.run-vs-gc"]++
				if m := strings.TrimPrefix(godefer[i], "ok "); gcFormLine(m) != want {
					res.AddBreak(proto.Break{Kind: "correspondence", Name: "spec GoDefer.run vs gc", Case: "C12 go " + fmt.Sprint(fuel) + " " + key, Human: human, Impl: "gc: " + want, Model: godefer[i]})
				}
			}
		} else {
			if clause := docOracle(t); clause != "" {
				b := proto.Break{Kind: "property", Name: clause, Case: "C12 frames " + fmt.Sprint(fuel) + " " + key + t.p.styleSuffix(), Human: human, Impl: real, Model: "documented behaviour of Stop/Fatal/PanicError"}
				if shrink && t.finding == "" && !seen[b.Name] {
					seen[b.Name] = true
					b = shrinkDoc(t.p, b, func(o outcome) bool { return docOracle(&tcase{p: t.p, real: o}) == clause })
				}
				addBreak(t, b)
			}
		}
		// correspondence: the model of the accessor layer (Pub.walk) against a walk of the real chain
		if c.D != nil && strings.HasPrefix(t.real.Res, "panic:") && t.real.Extra == "" {
			chain := strings.TrimPrefix(t.real.Res, "panic:")
			walks = append(walks, "C12 walk new "+chain)
			walkWant = append(walkWant, "ok "+chain)
		}
		// correspondence: the model of the frame machine against the VM
		if frames != nil {
			if want := modelOutcome(frames[i]); want != noMarker(real) {
				b := proto.Break{Kind: "correspondence", Name: "Frames.run vs scriggo Run", Case: "C12 frames " + fmt.Sprint(fuel) + " " + key + t.p.styleSuffix(), Human: human, Impl: real, Model: frames[i]}
				if shrink && t.finding == "" && !seen[b.Name] {
					seen[b.Name] = true
					b = shrinkModel(c, t.p, b)
				}
				addBreak(t, b)
			}
		}
	}
	if len(walks) > 0 {
		ans, err := c.D.Batch(walks)
		if err != nil {
			return err
		}
		for i := range ans {
			if ans[i] != walkWant[i] {
				res.AddBreak(proto.Break{Kind: "correspondence", Name: "Pub.walk vs PanicError accessors", Case: walks[i], Impl: walkWant[i], Model: ans[i]})
			}
		}
	}
	return nil
}

// noMarker removes the "S" events (printed by the generated source just before Stop/Fatal for
// the documentation oracle; not part of the abstract program).
func noMarker(s string) string {
	i := strings.Index(s, " res=")
	if i < 0 || !strings.HasPrefix(s, "out=") {
		return s
	}
	var ev []string
	for _, e := range strings.Split(s[4:i], ",") {
		if !strings.HasPrefix(e, "S") && e != "-" {
			ev = append(ev, e)
		}
	}
	return "out=" + dash(strings.Join(ev, ",")) + s[i:]
}

func gcFormLine(s string) string {
	i := strings.Index(s, " res=")
	if i < 0 {
		return s
	}
	return s[:i] + " res=" + gcForm(s[i+5:])
}

// docOracle checks a Stop/Fatal program against the documentation alone. Every call of Stop and
// Fatal prints a marker just before ("Ss<k>", "Sf<v>"), so the run itself says whether and with
// what value Stop or Fatal was reached: Stop(err) ⇒ Run returns err itself, Fatal(v) ⇒ Run panics
// with v — whatever panics are active or were recovered at that moment, also inside a Scriggo
// function called back by native code — and nothing runs after the call (the marker is the last
// output); without a marker Run neither panics nor returns a Stop error; an unrecovered panic
// comes back as *PanicError whose chain ends.
func docOracle(t *tcase) string {
	r := t.real
	if r.Res == "builderror" || r.Res == "error" {
		return "run-result-is-documented"
	}
	var ev []string
	if r.Events != "" {
		ev = strings.Split(r.Events, ",")
	}
	first := -1
	for i, e := range ev {
		if strings.HasPrefix(e, "S") {
			first = i
			break
		}
	}
	if first < 0 {
		switch {
		case r.Res == "hostpanic" || strings.HasPrefix(r.Res, "fatal:"):
			return "no-host-panic-except-Fatal" // Run panicked although Fatal was never called
		case strings.HasPrefix(r.Res, "stop:"):
			return "value-given-to-Stop-or-Fatal"
		}
	} else {
		m := ev[first]
		want := "stop:" + m[2:]
		clause := "Stop-returns-its-error-whatever-panics-are-active"
		if m[1] == 'f' {
			want, clause = "fatal:"+m[2:], "Fatal-panics-with-its-value-whatever-panics-are-active"
		} else if want == "stop:0" {
			want = "done" // Stop(nil): Run returns nil
		}
		if r.Res != want {
			return clause
		}
		if first != len(ev)-1 {
			return "nothing-runs-after-Stop-or-Fatal"
		}
	}
	if r.Extra != "" {
		return "panic-error-accessors"
	}
	return ""
}

// candidates returns the programs obtained by deleting one instruction or emptying one function.
func candidates(p *prog) []*prog {
	var out []*prog
	for i, f := range p.Funcs {
		for j := range f {
			q := (&prog{}).withStyleOf(p)
			for k, g := range p.Funcs {
				if k == i {
					h := append(append([]instr{}, g[:j]...), g[j+1:]...)
					q.Funcs = append(q.Funcs, h)
				} else {
					q.Funcs = append(q.Funcs, g)
				}
			}
			out = append(out, q)
		}
	}
	return out
}

func plainStyle(p *prog) *prog {
	return &prog{Funcs: p.Funcs, Style: make([]int, len(p.Funcs)), Native: nil}
}

// shrinkModel: smallest program on which model and VM still differ.
func shrinkModel(c *hx.Ctx, p *prog, b proto.Break) proto.Break {
	differs := func(q *prog) (bool, string, string) {
		real := runScriggo(q.render("", "h")).String()
		ans, err := c.D.Ask(fmt.Sprintf("C12 frames %d %s", fuel, q.abstract()))
		if err != nil {
			return false, "", ""
		}
		return modelOutcome(ans) != noMarker(real), real, ans
	}
	cur := p
	if d, _, _ := differs(plainStyle(p)); d {
		cur = plainStyle(p)
	}
	for progress := true; progress; {
		progress = false
		for _, q := range candidates(cur) {
			if d, _, _ := differs(q); d {
				cur, progress = q, true
				break
			}
		}
	}
	_, real, ans := differs(cur)
	b.Case = fmt.Sprintf("C12 frames %d %s", fuel, cur.abstract()+cur.styleSuffix())
	b.Human = "abstract: " + cur.abstract() + "\n" + cur.render("", "h")
	b.Impl, b.Model = real, ans
	return b
}

// shrinkDoc: smallest program whose run on the real code still fails the same way (no gc, no model).
func shrinkDoc(p *prog, b proto.Break, failing func(outcome) bool) proto.Break {
	cur := p
	if failing(runScriggo(plainStyle(p).render("", "h"))) {
		cur = plainStyle(p)
	}
	for progress := true; progress; {
		progress = false
		for _, q := range candidates(cur) {
			if failing(runScriggo(q.render("", "h"))) {
				cur, progress = q, true
				break
			}
		}
	}
	b.Case = fmt.Sprintf("C12 frames %d %s", fuel, cur.abstract()+cur.styleSuffix())
	b.Human = "abstract: " + cur.abstract() + "\n" + cur.render("", "h")
	b.Impl = runScriggo(cur.render("", "h")).String()
	return b
}

// shrinkGc: smallest program on which Scriggo and gc still differ (one gc build per round).
func shrinkGc(c *hx.Ctx, p *prog, b proto.Break) proto.Break {
	differs := func(qs []*prog) (int, string, string) {
		gr, err := gcBatch(qs)
		if err != nil {
			return -1, "", ""
		}
		for i, q := range qs {
			r := runScriggo(q.render("", "h"))
			want := "out=" + dash(gr[i].Events) + " res=" + gcForm(gr[i].Res)
			got := "out=" + dash(r.Events) + " res=" + gcForm(r.Res)
			if r.Extra != "" {
				got += " extra=" + r.Extra
			}
			if got != want {
				return i, got, want
			}
		}
		return -1, "", ""
	}
	cur := p
	got, want := b.Impl, b.Model
	if i, g, w := differs([]*prog{plainStyle(p)}); i == 0 {
		cur, got, want = plainStyle(p), g, "gc: "+w
	}
	for round := 0; round < 40; round++ {
		qs := candidates(cur)
		if len(qs) == 0 {
			break
		}
		i, g, w := differs(qs)
		if i < 0 {
			break
		}
		cur, got, want = qs[i], g, "gc: "+w
	}
	b.Case = fmt.Sprintf("C12 frames %d %s", fuel, cur.abstract()+cur.styleSuffix())
	b.Human = "abstract: " + cur.abstract() + "\n" + cur.render("", "h")
	b.Impl, b.Model = got, want
	return b
}

// replay re-runs the case of a replay file written by ./check.
func replay(c *hx.Ctx) error {
	data, err := os.ReadFile(c.Replay)
	if err != nil && !filepath.IsAbs(c.Replay) {
		// ./check runs the harness in go/; replay paths are relative to the verification root
		data, err = os.ReadFile(filepath.Join("..", c.Replay))
	}
	if err != nil {
		return err
	}
	line := jsonField(string(data), "case")
	if t, ok := parseTmplCase(line); ok {
		checkTemplates(c, []tmplCase{t})
		return nil
	}
	i := strings.Index(line, "P ")
	if i < 0 {
		return fmt.Errorf("replay file has no program")
	}
	p, err := parseAbstract(line[i:])
	if err != nil {
		return err
	}
	return checkCases(c, []*tcase{{p: p}}, false)
}

func jsonField(data, name string) string {
	var m map[string]any
	if err := jsonUnmarshal([]byte(data), &m); err != nil {
		return ""
	}
	s, _ := m[name].(string)
	return s
}
