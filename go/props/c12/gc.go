package main

import (
	"bytes"
	"fmt"
	"os"
	"os/exec"
	"path/filepath"
	"strings"
	"time"
)

// gcBatch compiles many generated programs into one binary with real gc (offline) and runs
// them one process each (an unrecovered panic ends the process). It returns, per program, the
// behaviour gc shows: the printed events and the final "panic: …" chain text.
type gcResult struct {
	Events string
	Res    string // done | panic:<chain oldest first, as printed: v, vr (recovered), vR (recovered, repanicked)>
	Raw    string
}

func gcBatch(progs []*prog) ([]gcResult, error) {
	dir, err := os.MkdirTemp("", "verif-c12-gc-")
	if err != nil {
		return nil, err
	}
	defer os.RemoveAll(dir)
	write := func(name, text string) error {
		p := filepath.Join(dir, name)
		os.MkdirAll(filepath.Dir(p), 0o755)
		return os.WriteFile(p, []byte(text), 0o644)
	}
	write("go.mod", "module gcbatch\n\ngo 1.25.0\n")
	write("h/h.go", gcHSource)
	var m strings.Builder
	m.WriteString("package main\n\nimport (\n\t\"os\"\n\t\"strconv\"\n\n\t\"gcbatch/h\"\n)\n\nvar _ h.T\n\nfunc main() {\n\tlo, _ := strconv.Atoi(os.Args[1])\n\thi, _ := strconv.Atoi(os.Args[2])\n\tfor n := lo; n < hi; n++ {\n\t\tprintln(\"#BEGIN\")\n\t\trun(n)\n\t}\n}\n\nfunc run(n int) {\n\tswitch n {\n")
	for i, p := range progs {
		pre := fmt.Sprintf("p%d_", i)
		fmt.Fprintf(&m, "\tcase %d:\n\t\t%smain()\n", i, pre)
		src := p.render(pre, "gcbatch/h")
		if err := write(fmt.Sprintf("p%d.go", i), src); err != nil {
			return nil, err
		}
	}
	m.WriteString("\t}\n}\n")
	write("main.go", m.String())
	bin := filepath.Join(dir, "batch")
	cmd := exec.Command("go", "build", "-o", bin, ".")
	cmd.Dir = dir
	cmd.Env = append(os.Environ(), "GOFLAGS=-mod=mod", "GOPROXY=off", "GOWORK=off")
	t0 := time.Now()
	out, err := cmd.CombinedOutput()
	if os.Getenv("C12_TIMING") != "" {
		fmt.Fprintln(os.Stderr, "gc build", len(progs), time.Since(t0))
		defer func(t time.Time) { fmt.Fprintln(os.Stderr, "gc runs", time.Since(t)) }(time.Now())
	}
	if err != nil {
		return nil, fmt.Errorf("go build of the gc batch failed: %v\n%s", err, tail(string(out), 1500))
	}
	res := make([]gcResult, len(progs))
	// One process runs the programs lo, lo+1, … in sequence until one of them dies of an
	// unrecovered panic; a new process continues after it. Sixteen ranges run concurrently.
	runRange := func(lo, hi int) error {
		for lo < hi {
			var stderr bytes.Buffer
			c := exec.Command(bin, fmt.Sprint(lo), fmt.Sprint(hi))
			c.Stderr = &stderr
			c.Env = []string{"GOTRACEBACK=none"}
			done := make(chan error, 1)
			if err := c.Start(); err != nil {
				return err
			}
			go func() { done <- c.Wait() }()
			select {
			case <-done:
			case <-time.After(60 * time.Second):
				c.Process.Kill()
				return fmt.Errorf("gc programs %d… do not terminate", lo)
			}
			parts := strings.Split(stderr.String(), "#BEGIN\n")
			if len(parts) < 2 {
				return fmt.Errorf("gc batch printed nothing for program %d", lo)
			}
			for _, part := range parts[1:] {
				res[lo] = parseGc(part)
				lo++
			}
		}
		return nil
	}
	const workers = 16
	errs := make(chan error, workers)
	per := (len(progs) + workers - 1) / workers
	for w := 0; w < workers; w++ {
		lo, hi := min(w*per, len(progs)), min((w+1)*per, len(progs))
		go func() { errs <- runRange(lo, hi) }()
	}
	for w := 0; w < workers; w++ {
		if e := <-errs; e != nil {
			err = e
		}
	}
	if err != nil {
		return nil, err
	}
	return res, nil
}

func tail(s string, n int) string {
	if len(s) > n {
		return s[len(s)-n:]
	}
	return s
}

// parseGc splits gc's stderr into the println lines and the panic chain.
func parseGc(text string) gcResult {
	r := gcResult{Raw: text, Res: "done"}
	var outLines []string
	var chain []string
	lines := strings.Split(text, "\n")
	for i := 0; i < len(lines); i++ {
		l := lines[i]
		if strings.HasPrefix(l, "panic: ") || (len(chain) > 0 && strings.HasPrefix(l, "\tpanic: ")) {
			l = strings.TrimPrefix(strings.TrimPrefix(l, "\t"), "panic: ")
			switch {
			case strings.HasSuffix(l, " [recovered, repanicked]"):
				chain = append(chain, valCode(strings.TrimSuffix(l, " [recovered, repanicked]"))+"R")
			case strings.HasSuffix(l, " [recovered]"):
				chain = append(chain, valCode(strings.TrimSuffix(l, " [recovered]"))+"r")
			default:
				chain = append(chain, valCode(l))
			}
			continue
		}
		if len(chain) > 0 {
			break // blank line, "goroutine 1 [running]" …
		}
		outLines = append(outLines, l)
	}
	r.Events, _ = eventsOf(strings.Join(outLines, "\n"))
	if len(chain) > 0 {
		r.Res = "panic:" + strings.Join(chain, ",")
	}
	return r
}

// gcForm rewrites a chain "3r,3,5" (oldest first; r = recovered) the way gc prints it:
// a run of equal values is shown once as "[recovered, repanicked]" (R).
func gcForm(res string) string {
	if !strings.HasPrefix(res, "panic:") {
		return res
	}
	// (gc contracts two links only when they hold the identical interface value: always for
	// our integer constants and for a re-panic, not for two separately raised index errors;
	// both sides are therefore compared with every run of equal values contracted)
	val := func(l string) string { return strings.TrimSuffix(strings.TrimSuffix(l, "r"), "R") }
	links := strings.Split(strings.TrimPrefix(res, "panic:"), ",")
	var out []string
	for i := 0; i < len(links); i++ {
		v := val(links[i])
		j := i
		for j+1 < len(links) && val(links[j+1]) == v {
			j++
		}
		if j > i || strings.HasSuffix(links[i], "R") {
			out = append(out, v+"R")
		} else {
			out = append(out, links[i])
		}
		i = j
	}
	return "panic:" + strings.Join(out, ",")
}

// gcHSource is package h for gc: the same functions and methods as the natives given to Scriggo
// (without Stop and Fatal). Nothing is inlined: gc would otherwise let a callback recover() as if
// the deferred native call were the callback itself.
const gcHSource = `package h

import (
	"errors"
	"strconv"
)

type T struct{}

type I interface {
	Panic(int)
	PanicS(int)
	PanicE(int)
	PanicC(int)
	Nop()
	Call(func())
	CallN(int, func())
}

type Cus struct{ N int }

func (c Cus) Error() string { return "c" + strconv.Itoa(c.N) }

//go:noinline
func Err(v int) error { return errors.New("e" + strconv.Itoa(v)) }

//go:noinline
func Panic(v int) { panic(v) }

//go:noinline
func PanicS(v int) { panic("s" + strconv.Itoa(v)) }

//go:noinline
func PanicE(v int) { panic(Err(v)) }

//go:noinline
func PanicC(v int) { panic(Cus{v}) }

//go:noinline
func Print(x int) { println("O", x) }

//go:noinline
func Nop() {}

//go:noinline
func Call(f func()) { f() }

//go:noinline
func CallN(n int, f func()) {
	for i := 0; i < n; i++ {
		f()
	}
}

//go:noinline
func (T) Panic(v int) { panic(v) }

//go:noinline
func (T) PanicS(v int) { PanicS(v) }

//go:noinline
func (T) PanicE(v int) { PanicE(v) }

//go:noinline
func (T) PanicC(v int) { PanicC(v) }

//go:noinline
func (T) Print(x int) { println("O", x) }

//go:noinline
func (T) Nop() {}

//go:noinline
func (T) Call(f func()) { f() }

//go:noinline
func (T) CallN(n int, f func()) {
	for i := 0; i < n; i++ {
		f()
	}
}
`
