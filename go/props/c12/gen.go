package main

import (
	"fmt"
	"strconv"
	"strings"

	"verifharness/internal/proto"
)

// The abstract instruction language shared with the Lean machines (Model/Frames.lean,
// Spec/GoDefer.lean). A program is a function table; function 0 is main.
const (
	opCall     = "c"  // call f
	opDefer    = "d"  // defer f()
	opDeferRec = "dr" // defer recover()
	opRet      = "r"  // return
	opPanic    = "p"  // panic(v)
	opRecover  = "rc" // pr(recover())
	opRepanic  = "rp" // r := recover(); pr(r); if r != nil { panic(r) }
	opStop     = "s"  // h.Stop(k)   (k = 0: nil error)
	opFatal    = "f"  // h.Fatal(v)
	opPrint    = "o"  // println("O", x)
)

type instr struct {
	Op  string
	Arg int
}

// how a function of the table is written in Go
const (
	styleTop = iota // func fN() { … }
	styleLit        // a function literal at every place it is called or deferred
	styleVar        // fN := func() { … } in the function that uses it, called through the variable
	// a native function of package h wherever the function is called or deferred, for bodies of
	// the shapes [] h.Nop(), [panic v] h.Panic(v), [print x] h.Print(x), [Stop k] h.Stop(k),
	// [Fatal v] h.Fatal(v) and [call g] h.Call(g) / h.CallN(1, g): a native calling back g
	styleNative
)

// how a native function is reached at a call or defer site (the abstract program is the same:
// all forms are the same call in Go)
const (
	reachDirect      = iota // h.F(x)
	reachVar                // g := h.F; g(x)
	reachArg                // func(g func(int)) { g(x) }(h.F): passed as an argument and called there
	reachRet                // func() func(int) { return h.F }()(x): returned by a function
	reachMethod             // var t h.T; t.F(x)
	reachMethodValue        // var t h.T; g := t.F; g(x)
	reachMethodExpr         // var t h.T; h.T.F(t, x)
	reachIface              // var t h.T; var i h.I = t; i.F(x)   (h.I: a native interface type)
	reachField              // s := struct{ f func(int) }{h.F}; s.f(x)
	reachSlice              // fs := []func(int){h.F}; fs[0](x)
	reachIfaceValue         // var i h.I = t; g := i.F; g(x)
	reachIfaceExpr          // var i h.I = t; h.I.F(i, x)
	nReach
)

var reachNames = [nReach]string{"direct", "var", "arg", "ret", "method", "methodvalue", "methodexpr", "iface", "field", "slice", "ifacevalue", "ifaceexpr"}

const reachDigits = "0123456789ab"

// what a panic value is in the Go source (in the abstract program every value is a number)
const (
	kindInt    = iota // 5
	kindString        // "s5"
	kindError         // h.Err(5): errors.New("e5")
	kindCustom        // h.Cus{N: 5}: a struct type with an Error method, "c5"
	nKind
)

var kindNames = [nKind]string{"int", "string", "error", "custom"}

// panic values from errBase on stand for run-time errors raised by the interpreted code itself
const errBase = 900000

var errTexts = map[int]string{
	errBase + 1: "runtime error: integer divide by zero",
	errBase + 2: "assignment to entry in nil map",
	errBase + 3: "runtime error: index out of range [3] with length 0",
}

// valCode maps the text of a panic value, as printed, to its number in the abstract program.
func valCode(text string) string {
	for c, t := range errTexts {
		if t == text {
			return strconv.Itoa(c)
		}
	}
	if _, err := strconv.Atoi(text); err == nil {
		return text
	}
	if len(text) > 1 && strings.IndexByte("sec", text[0]) >= 0 && isDigits(text[1:]) {
		return text[1:]
	}
	return "?" + strings.NewReplacer(" ", "_", ",", ";").Replace(text)
}

func isDigits(s string) bool {
	for _, ch := range s {
		if ch < '0' || ch > '9' {
			return false
		}
	}
	return s != ""
}

// kindTagOf says which kind of value a printed text must come from: "i", "s", "e", "c" ("" = none).
func kindTagOf(text string) string {
	for _, t := range errTexts {
		if t == text {
			return "e"
		}
	}
	switch {
	case isDigits(text):
		return "i"
	case len(text) > 1 && isDigits(text[1:]) && strings.IndexByte("sec", text[0]) >= 0:
		return text[:1]
	}
	return ""
}

// nativeShape reports whether function i can be written as a native function.
func (p *prog) nativeShape(i int) bool {
	b := p.Funcs[i]
	if i == 0 || len(b) > 1 {
		return false
	}
	if len(b) == 0 {
		return true
	}
	switch b[0].Op {
	case opPanic:
		return b[0].Arg < errBase
	case opPrint, opStop, opFatal:
		return true
	case opCall:
		// the callback runs in a VM of its own and only the newest of its panics comes back
		// (known difference from gc, finding callback-chain-flattened): generated callbacks
		// raise at most one panic; a replay may force the style
		return p.forceNative || p.maxPanics(b[0].Arg) <= 1
	}
	return false
}

// maxPanics bounds the number of panics raised by one call of function i.
func (p *prog) maxPanics(i int) int {
	n := 0
	for _, in := range p.Funcs[i] {
		switch in.Op {
		case opPanic, opRepanic:
			n++
		case opCall, opDefer:
			n += p.maxPanics(in.Arg)
		}
		if n > 1000 {
			return n
		}
	}
	return n
}

// setStyles chooses how every function is written, how every native function is reached and
// what kind of value every panic site raises.
func (p *prog) setStyles(r *proto.Rand) {
	for i := 1; i < len(p.Funcs); i++ {
		p.Style[i] = r.Intn(3)
		if p.nativeShape(i) && r.Intn(2) == 0 {
			p.Style[i] = styleNative
		}
	}
	p.Reach = make([]int, len(p.Funcs))
	for i := range p.Reach {
		if r.Intn(2) == 0 {
			p.Reach[i] = r.Intn(nReach)
			if p.envNative(i) && (p.Reach[i] == reachField || p.Reach[i] == reachSlice) {
				// known finding env-native-in-composite: not generated
				p.Reach[i] = reachVar
			}
		}
	}
	p.ReachV = make([]int, len(p.Native))
	p.Kind = make([]int, len(p.Native))
	for v := range p.ReachV {
		p.ReachV[v] = -1
		if r.Intn(2) == 0 {
			p.ReachV[v] = r.Intn(nReach)
		}
		if r.Intn(3) == 0 {
			p.Kind[v] = r.Intn(nKind)
		}
	}
}

// envNative reports whether the native function written for function j takes a native.Env
// (h.Print, h.Stop, h.Fatal).
func (p *prog) envNative(j int) bool {
	if len(p.Funcs[j]) != 1 {
		return false
	}
	switch p.Funcs[j][0].Op {
	case opPrint, opStop, opFatal:
		return true
	}
	return false
}

// reachOf: how the native function written for function j is reached.
func (p *prog) reachOf(j int) int {
	if j < len(p.Reach) && p.Reach[j] >= 0 && p.Reach[j] < nReach {
		return p.Reach[j]
	}
	return reachDirect
}

// reachOfVal: how the native function that raises panic value v is reached. Values without a
// choice keep the form of the first version of this harness: h.Panic(v) for even values, a
// method call on a variable of type h.T for odd ones.
func (p *prog) reachOfVal(v int) int {
	if v < len(p.ReachV) && p.ReachV[v] >= 0 && p.ReachV[v] < nReach {
		return p.ReachV[v]
	}
	if v%2 == 0 {
		return reachDirect
	}
	return reachMethod
}

func (p *prog) kindOf(v int) int {
	if v >= 0 && v < len(p.Kind) && p.Kind[v] > 0 && p.Kind[v] < nKind {
		return p.Kind[v]
	}
	return kindInt
}

// valueText is the text a panic value is printed as.
func (p *prog) valueText(v int) string {
	if t, ok := errTexts[v]; ok {
		return t
	}
	return [nKind]string{"", "s", "e", "c"}[p.kindOf(v)] + strconv.Itoa(v)
}

// valueExpr is the Go expression of a panic value raised by interpreted code.
func (p *prog) valueExpr(v int) string {
	switch p.kindOf(v) {
	case kindString:
		return fmt.Sprintf("\"s%d\"", v)
	case kindError:
		return fmt.Sprintf("h.Err(%d)", v)
	case kindCustom:
		return fmt.Sprintf("h.Cus{N: %d}", v)
	}
	return strconv.Itoa(v)
}

// panicNative is the name of the native function (and method of h.T) that panics with value v.
func (p *prog) panicNative(v int) string {
	return "Panic" + [nKind]string{"", "S", "E", "C"}[p.kindOf(v)]
}

// nativeHist lists, for the histogram of the run, how the native functions of the program are
// reached and what kinds of values its panic sites raise.
func (p *prog) nativeHist() []string {
	seen := map[string]bool{}
	var out []string
	add := func(s string) {
		if !seen[s] {
			seen[s] = true
			out = append(out, s)
		}
	}
	refd := map[int]bool{}
	for _, f := range p.Funcs {
		for _, in := range f {
			switch in.Op {
			case opCall, opDefer:
				refd[in.Arg] = true
			case opPanic:
				if in.Arg < errBase {
					add("panic-kind-" + kindNames[p.kindOf(in.Arg)])
					if in.Arg < len(p.Native) && p.Native[in.Arg] {
						add("native-reach-" + reachNames[p.reachOfVal(in.Arg)])
					}
				}
			}
		}
	}
	for j := range p.Funcs {
		if refd[j] && p.Style[j] == styleNative {
			add("native-reach-" + reachNames[p.reachOf(j)])
		}
	}
	return out
}

func (p *prog) usesCustom() bool {
	for _, f := range p.Funcs {
		for _, in := range f {
			if in.Op == opPanic && in.Arg < errBase && p.kindOf(in.Arg) == kindCustom {
				return true
			}
		}
	}
	return false
}

// styleSuffix encodes the way the program is written, for replays:
// "# <style digits> <native panic values> [force] [R<reach digit per function>] [V<v>:<reach>,…] [K<v>:<kind>,…]".
func (p *prog) styleSuffix() string {
	var b strings.Builder
	b.WriteString(" # ")
	for _, st := range p.Style {
		b.WriteString(strconv.Itoa(st))
	}
	b.WriteString(" ")
	any := false
	for v, n := range p.Native {
		if n {
			if any {
				b.WriteString(",")
			}
			b.WriteString(strconv.Itoa(v))
			any = true
		}
	}
	if !any {
		b.WriteString("-")
	}
	if p.forceNative {
		b.WriteString(" force")
	}
	anyReach := false
	for j := range p.Funcs {
		anyReach = anyReach || p.reachOf(j) != reachDirect
	}
	if anyReach {
		b.WriteString(" R")
		for j := range p.Funcs {
			b.WriteByte(reachDigits[p.reachOf(j)])
		}
	}
	pairs := func(tag string, vals []int, skip int) {
		var w []string
		for v, x := range vals {
			if x != skip && x >= 0 {
				w = append(w, fmt.Sprintf("%d:%d", v, x))
			}
		}
		if len(w) > 0 {
			b.WriteString(" " + tag + strings.Join(w, ","))
		}
	}
	pairs("V", p.ReachV, -1)
	pairs("K", p.Kind, kindInt)
	return b.String()
}

type prog struct {
	Funcs  [][]instr
	Style  []int  // per function
	Native []bool // per panic site (indexed by the panic value): raised by a native function or method
	Reach  []int  // per function written as a native function: how the native function is reached
	ReachV []int  // per panic value raised by a native function: how it is reached (-1: see reachOfVal)
	Kind   []int  // per panic value: int, string, error, custom error type

	forceNative bool // replay of a recorded finding: native style also for callbacks that panic more than once
}

// withStyleOf returns the program q written the way p is.
func (q *prog) withStyleOf(p *prog) *prog {
	q.Style, q.Native, q.Reach, q.ReachV, q.Kind, q.forceNative = p.Style, p.Native, p.Reach, p.ReachV, p.Kind, p.forceNative
	return q
}

func hasArg(op string) bool {
	switch op {
	case opRet, opRecover, opRepanic, opDeferRec:
		return false
	}
	return true
}

// abstract renders the program in the prefix notation of the protocol.
func (p *prog) abstract() string {
	var b strings.Builder
	fmt.Fprintf(&b, "P %d", len(p.Funcs))
	for _, f := range p.Funcs {
		fmt.Fprintf(&b, " %d", len(f))
		for _, in := range f {
			b.WriteString(" " + in.Op)
			if hasArg(in.Op) {
				b.WriteString(" " + strconv.Itoa(in.Arg))
			}
		}
	}
	return b.String()
}

func parseAbstract(s string) (*prog, error) {
	suffix := ""
	if i := strings.Index(s, " # "); i >= 0 {
		s, suffix = s[:i], s[i+3:]
	}
	p, err := parseAbstract1(s)
	if err != nil || suffix == "" {
		return p, err
	}
	f := strings.Fields(suffix)
	if len(f) < 2 || len(f[0]) != len(p.Funcs) {
		return nil, fmt.Errorf("bad style suffix")
	}
	pairs := func(w string) ([]int, error) {
		var out []int
		for _, kv := range strings.Split(w, ",") {
			a, b, ok := strings.Cut(kv, ":")
			v, err1 := strconv.Atoi(a)
			x, err2 := strconv.Atoi(b)
			if !ok || err1 != nil || err2 != nil || v < 0 || v > 1<<20 || x < 0 {
				return nil, fmt.Errorf("bad pair list")
			}
			for len(out) <= v {
				out = append(out, -1)
			}
			out[v] = x
		}
		return out, nil
	}
	for _, w := range f[2:] {
		var err error
		switch {
		case w == "force":
			p.forceNative = true
		case strings.HasPrefix(w, "R") && len(w) == 1+len(p.Funcs):
			p.Reach = make([]int, len(p.Funcs))
			for i, ch := range w[1:] {
				if p.Reach[i] = strings.IndexRune(reachDigits, ch); p.Reach[i] < 0 {
					err = fmt.Errorf("bad reach")
				}
			}
		case strings.HasPrefix(w, "V"):
			p.ReachV, err = pairs(w[1:])
		case strings.HasPrefix(w, "K"):
			p.Kind, err = pairs(w[1:])
		default:
			err = fmt.Errorf("bad style suffix")
		}
		if err != nil {
			return nil, err
		}
	}
	for i, ch := range f[0] {
		p.Style[i] = int(ch - '0')
		if p.Style[i] == styleNative && !p.nativeShape(i) {
			p.Style[i] = styleTop
		}
	}
	if f[1] != "-" {
		for _, w := range strings.Split(f[1], ",") {
			v, err := strconv.Atoi(w)
			if err != nil || v < 0 || v > 1<<20 {
				return nil, fmt.Errorf("bad native list")
			}
			for len(p.Native) <= v {
				p.Native = append(p.Native, false)
			}
			p.Native[v] = true
		}
	}
	return p, nil
}

func parseAbstract1(s string) (*prog, error) {
	t := strings.Fields(s)
	pos := 0
	next := func() (string, error) {
		if pos >= len(t) {
			return "", fmt.Errorf("short program")
		}
		pos++
		return t[pos-1], nil
	}
	num := func() (int, error) {
		w, err := next()
		if err != nil {
			return 0, err
		}
		return strconv.Atoi(w)
	}
	if w, _ := next(); w != "P" {
		return nil, fmt.Errorf("no P")
	}
	n, err := num()
	if err != nil {
		return nil, err
	}
	p := &prog{}
	for i := 0; i < n; i++ {
		k, err := num()
		if err != nil {
			return nil, err
		}
		body := []instr{}
		for j := 0; j < k; j++ {
			op, err := next()
			if err != nil {
				return nil, err
			}
			in := instr{Op: op}
			if hasArg(op) {
				if in.Arg, err = num(); err != nil {
					return nil, err
				}
			}
			body = append(body, in)
		}
		p.Funcs = append(p.Funcs, body)
	}
	p.Style = make([]int, n)
	return p, nil
}

// usesStopFatal reports whether the program text contains Stop or Fatal.
func (p *prog) usesStopFatal() bool {
	for _, f := range p.Funcs {
		for _, in := range f {
			if in.Op == opStop || in.Op == opFatal {
				return true
			}
		}
	}
	return false
}

func (p *prog) count(op string) int {
	n := 0
	for _, f := range p.Funcs {
		for _, in := range f {
			if in.Op == op {
				n++
			}
		}
	}
	return n
}

// genProg generates a program whose call graph is acyclic (function i refers only to
// functions j > i), so every run terminates; the number of executed instructions is bounded.
// Bodies are generated top-down: a function that is deferred somewhere is more likely to
// recover, re-panic and call functions that panic and recover themselves.
func genProg(r *proto.Rand, stopFatal bool) *prog {
	for {
		if p := tryGenProg(r, stopFatal); p != nil {
			return p
		}
	}
}

func tryGenProg(r *proto.Rand, stopFatal bool) *prog {
	n := 2 + r.Intn(6)
	p := &prog{Funcs: make([][]instr, n), Style: make([]int, n)}
	deferredRole := make([]bool, n)
	nextVal := 1
	for i := 0; i < n; i++ {
		k := r.Intn(6)
		if i == 0 {
			k = 2 + r.Intn(5)
		}
		// weights: print call defer deferrec ret panic recover repanic stop fatal
		w := [10]int{14, 16, 26, 3, 3, 16, 8, 3, 2, 2}
		if deferredRole[i] {
			w = [10]int{10, 18, 16, 4, 3, 16, 22, 7, 2, 2}
		}
		if !stopFatal {
			w[8], w[9] = 0, 0
		}
		if i == n-1 {
			w[1], w[2] = 0, 0
		}
		tot := 0
		for _, x := range w {
			tot += x
		}
		body := []instr{}
		for j := 0; j < k; j++ {
			x := r.Intn(tot)
			c := 0
			for x >= w[c] {
				x -= w[c]
				c++
			}
			target := func() int {
				// mostly the next functions, so that chains of nested calls are frequent
				t := i + 1 + r.Intn(min(3, n-1-i))
				if r.Intn(4) == 0 {
					t = i + 1 + r.Intn(n-1-i)
				}
				return t
			}
			var in instr
			switch c {
			case 0:
				in = instr{opPrint, nextVal}
				nextVal++
			case 1:
				in = instr{opCall, target()}
			case 2:
				in = instr{opDefer, target()}
				deferredRole[in.Arg] = true
			case 3:
				in = instr{opDeferRec, 0}
			case 4:
				in = instr{opRet, 0}
			case 5:
				if r.Intn(8) == 0 {
					in = instr{opPanic, errBase + 1 + r.Intn(3)}
				} else {
					in = instr{opPanic, nextVal}
					nextVal++
				}
			case 6:
				in = instr{opRecover, 0}
			case 7:
				in = instr{opRepanic, 0}
			case 8:
				in = instr{opStop, r.Intn(3)}
			case 9:
				in = instr{opFatal, nextVal}
				nextVal++
			}
			body = append(body, in)
		}
		p.Funcs[i] = body
	}
	// bound on the number of executed instructions
	cost := make([]int, n)
	for i := n - 1; i >= 0; i-- {
		c := 1
		for _, in := range p.Funcs[i] {
			c++
			if in.Op == opCall || in.Op == opDefer {
				c += cost[in.Arg]
			}
		}
		cost[i] = c
		if c > 600 {
			return nil
		}
	}
	p.Native = make([]bool, nextVal+1)
	for i := range p.Native {
		p.Native[i] = r.Intn(5) == 0
	}
	p.setStyles(r)
	for i := 1; i < n; i++ {
		if p.Style[i] == styleLit && cost[i] > 40 {
			p.Style[i] = styleTop // keep the source small
		}
	}
	return p
}

// nativeCall is one call of a native function of package h in the generated source.
type nativeCall struct {
	name string // Panic, PanicS, PanicE, PanicC, Print, Nop, Stop, Fatal, Call, CallN
	typ  string // the Go type of the function: "func(int)"
	args string
	env  bool   // the Scriggo version takes a native.Env (no call through an interface declared in the source)
	ret  string // the result type, if the call is used as a value
}

// write renders the call reached the given way: the statements that prepare it and the call expression.
func (nc nativeCall) write(reach int, fresh func(string) string) (pre []string, call string) {
	fn := "h." + nc.name
	recvArgs := func(t string) string {
		if nc.args == "" {
			return t
		}
		return t + ", " + nc.args
	}
	if nc.env { // (Scriggo has no calls of methods that take a native.Env through an interface)
		switch reach {
		case reachIface:
			reach = reachMethod
		case reachIfaceValue:
			reach = reachMethodValue
		case reachIfaceExpr:
			reach = reachMethodExpr
		}
	}
	switch reach {
	case reachVar:
		g := fresh("g")
		return []string{g + " := " + fn}, g + "(" + nc.args + ")"
	case reachArg:
		if nc.ret != "" {
			return nil, "func(g " + nc.typ + ") " + nc.ret + " { return g(" + nc.args + ") }(" + fn + ")"
		}
		return nil, "func(g " + nc.typ + ") { g(" + nc.args + ") }(" + fn + ")"
	case reachRet:
		return nil, "func() " + nc.typ + " { return " + fn + " }()(" + nc.args + ")"
	case reachMethod:
		t := fresh("t")
		return []string{"var " + t + " h.T"}, t + "." + nc.name + "(" + nc.args + ")"
	case reachMethodValue:
		t, g := fresh("t"), fresh("g")
		return []string{"var " + t + " h.T", g + " := " + t + "." + nc.name}, g + "(" + nc.args + ")"
	case reachMethodExpr:
		t := fresh("t")
		return []string{"var " + t + " h.T"}, "h.T." + nc.name + "(" + recvArgs(t) + ")"
	case reachIface:
		t, i := fresh("t"), fresh("i")
		return []string{"var " + t + " h.T", "var " + i + " h.I = " + t}, i + "." + nc.name + "(" + nc.args + ")"
	case reachIfaceValue:
		t, i, g := fresh("t"), fresh("i"), fresh("g")
		return []string{"var " + t + " h.T", "var " + i + " h.I = " + t, g + " := " + i + "." + nc.name}, g + "(" + nc.args + ")"
	case reachIfaceExpr:
		t, i := fresh("t"), fresh("i")
		return []string{"var " + t + " h.T", "var " + i + " h.I = " + t}, "h.I." + nc.name + "(" + recvArgs(i) + ")"
	case reachField:
		x := fresh("s")
		return []string{x + " := struct{ f " + nc.typ + " }{" + fn + "}"}, x + ".f(" + nc.args + ")"
	case reachSlice:
		x := fresh("fs")
		return []string{x + " := []" + nc.typ + "{" + fn + "}"}, x + "[0](" + nc.args + ")"
	}
	return nil, fn + "(" + nc.args + ")"
}

// render writes the program as Go source. With prefix "" it is a Scriggo/Go program
// (package main, func main); with a prefix every top-level name is prefixed so that many
// programs fit into one package of the gc batch. hpkg is the import path of the natives.
func (p *prog) render(prefix, hpkg string) string {
	var b strings.Builder
	pr := prefix + "pr"
	cus := ""
	if p.usesCustom() {
		cus = "\tcase h.Cus:\n\t\tprintln(\"R c\", x.Error())\n"
	}
	fmt.Fprintf(&b, "func %s(v interface{}) {\n\tswitch x := v.(type) {\n\tcase nil:\n\t\tprintln(\"R nil\")\n%s\tcase error:\n\t\tprintln(\"R e\", x.Error())\n\tcase string:\n\t\tprintln(\"R s\", x)\n\tcase int:\n\t\tprintln(\"R i\", x)\n\t}\n}\n\n", pr, cus)
	name := func(i int) string {
		if i == 0 {
			if prefix == "" {
				return "main"
			}
			return prefix + "main"
		}
		return fmt.Sprintf("%sf%d", prefix, i)
	}
	nvar := 0
	fresh := func(base string) string {
		nvar++
		return fmt.Sprintf("%s%d", base, nvar)
	}
	var body func(i int, ind string) string
	lit := func(i int, ind string) string {
		return "func() {\n" + body(i, ind+"\t") + ind + "}"
	}
	body = func(i int, ind string) string {
		var s strings.Builder
		declared := map[int]bool{}
		// value: an expression for function j as a function value
		value := func(j int) string {
			switch p.Style[j] {
			case styleLit, styleNative:
				return lit(j, ind)
			case styleVar:
				v := fmt.Sprintf("v%d", j)
				if !declared[j] {
					declared[j] = true
					fmt.Fprintf(&s, "%s%s := %s\n", ind, v, lit(j, ind))
				}
				return v
			}
			return name(j)
		}
		// call: the call expression for function j and the statements that prepare it
		call := func(j int, deferred bool) ([]string, string) {
			if p.Style[j] != styleNative {
				return nil, value(j) + "()"
			}
			nc := nativeCall{name: "Nop", typ: "func()"}
			if len(p.Funcs[j]) > 0 {
				in := p.Funcs[j][0]
				switch in.Op {
				case opPanic:
					nc = nativeCall{name: p.panicNative(in.Arg), typ: "func(int)", args: strconv.Itoa(in.Arg)}
				case opPrint:
					nc = nativeCall{name: "Print", typ: "func(int)", args: strconv.Itoa(in.Arg), env: true}
				case opStop:
					nc = nativeCall{name: "Stop", typ: "func(int)", args: strconv.Itoa(in.Arg), env: true}
				case opFatal:
					nc = nativeCall{name: "Fatal", typ: "func(int)", args: strconv.Itoa(in.Arg), env: true}
				case opCall:
					if j%2 == 0 {
						nc = nativeCall{name: "CallN", typ: "func(int, func())", args: "1, " + value(in.Arg)}
					} else {
						nc = nativeCall{name: "Call", typ: "func(func())", args: value(in.Arg)}
					}
				default:
					return nil, value(j) + "()"
				}
			}
			reach := p.reachOf(j)
			if deferred && reach == reachIface {
				// `defer i.F(x)` with i of an interface type is not implemented by the compiler
				reach = reachIfaceValue
			}
			return nc.write(reach, fresh)
		}
		// stmt writes a call statement (kw "" or "defer ") with the statements that prepare it
		stmt := func(kw string, pre []string, f string) {
			if len(pre) == 0 {
				fmt.Fprintf(&s, "%s%s%s\n", ind, kw, f)
				return
			}
			fmt.Fprintf(&s, "%s{\n", ind)
			for _, l := range pre {
				fmt.Fprintf(&s, "%s\t%s\n", ind, l)
			}
			fmt.Fprintf(&s, "%s\t%s%s\n%s}\n", ind, kw, f, ind)
		}
		for _, in := range p.Funcs[i] {
			switch in.Op {
			case opPrint:
				fmt.Fprintf(&s, "%sprintln(\"O\", %d)\n", ind, in.Arg)
			case opCall:
				pre, f := call(in.Arg, false)
				stmt("", pre, f)
			case opDefer:
				pre, f := call(in.Arg, true)
				stmt("defer ", pre, f)
			case opDeferRec:
				fmt.Fprintf(&s, "%sdefer recover()\n", ind)
			case opRet:
				fmt.Fprintf(&s, "%sif true {\n%s\treturn\n%s}\n", ind, ind, ind)
			case opPanic:
				switch {
				case in.Arg == errBase+1:
					fmt.Fprintf(&s, "%s{\n%s\tz := 0\n%s\tz = 1 / z\n%s\t_ = z\n%s}\n", ind, ind, ind, ind, ind)
				case in.Arg == errBase+2:
					fmt.Fprintf(&s, "%s{\n%s\tvar m map[int]int\n%s\tm[1] = 1\n%s}\n", ind, ind, ind, ind)
				case in.Arg == errBase+3:
					fmt.Fprintf(&s, "%s{\n%s\tvar a []int\n%s\ta[3] = 1\n%s}\n", ind, ind, ind, ind)
				case in.Arg < len(p.Native) && p.Native[in.Arg]:
					nc := nativeCall{name: p.panicNative(in.Arg), typ: "func(int)", args: strconv.Itoa(in.Arg)}
					pre, f := nc.write(p.reachOfVal(in.Arg), fresh)
					stmt("", pre, f)
				default:
					fmt.Fprintf(&s, "%sif true {\n%s\tpanic(%s)\n%s}\n", ind, ind, p.valueExpr(in.Arg), ind)
				}
			case opRecover:
				fmt.Fprintf(&s, "%s%s(recover())\n", ind, pr)
			case opRepanic:
				fmt.Fprintf(&s, "%sif r := recover(); r != nil {\n%s\t%s(r)\n%s\tpanic(r)\n%s} else {\n%s\t%s(nil)\n%s}\n", ind, ind, pr, ind, ind, ind, pr, ind)
			case opStop:
				fmt.Fprintf(&s, "%sh.Stop(%d)\n", ind, in.Arg)
			case opFatal:
				fmt.Fprintf(&s, "%sh.Fatal(%d)\n", ind, in.Arg)
			}
		}
		return s.String()
	}
	for i := range p.Funcs {
		if i > 0 && p.Style[i] != styleTop {
			continue
		}
		fmt.Fprintf(&b, "func %s() {\n%s}\n\n", name(i), body(i, "\t"))
	}
	head := "package main\n\n"
	if strings.Contains(b.String(), "h.") {
		head += fmt.Sprintf("import \"%s\"\n\n", hpkg)
	}
	return head + b.String()
}
