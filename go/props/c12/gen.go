package main

import (
	"fmt"
	"strconv"
	"strings"

	"verifharness/internal/proto"
)

// The abstract instruction language shared with the Lean machines (Model/Frames.lean,
// Spec/GoDefer.lean). A program is a function table; function 0 is main.
const (
	opCall     = "c"  // call f
	opDefer    = "d"  // defer f()
	opDeferRec = "dr" // defer recover()
	opRet      = "r"  // return
	opPanic    = "p"  // panic(v)
	opRecover  = "rc" // pr(recover())
	opRepanic  = "rp" // r := recover(); pr(r); if r != nil { panic(r) }
	opStop     = "s"  // h.Stop(k)   (k = 0: nil error)
	opFatal    = "f"  // h.Fatal(v)
	opPrint    = "o"  // println("O", x)
)

type instr struct {
	Op  string
	Arg int
}

// how a function of the table is written in Go
const (
	styleTop = iota // func fN() { … }
	styleLit        // a function literal at every place it is called or deferred
	styleVar        // fN := func() { … } in the function that uses it, called through the variable
	// a native function of package h wherever the function is called or deferred, for bodies of
	// the shapes [] h.Nop(), [panic v] h.Panic(v), [print x] h.Print(x), [Stop k] h.Stop(k),
	// [Fatal v] h.Fatal(v) and [call g] h.Call(g) / h.CallN(1, g): a native calling back g
	styleNative
)

// panic values from errBase on stand for run-time errors raised by the interpreted code itself
const errBase = 900000

var errTexts = map[int]string{
	errBase + 1: "runtime error: integer divide by zero",
	errBase + 2: "assignment to entry in nil map",
	errBase + 3: "runtime error: index out of range [3] with length 0",
}

// valCode maps the text of a panic value, as printed, to its number in the abstract program.
func valCode(text string) string {
	for c, t := range errTexts {
		if t == text {
			return strconv.Itoa(c)
		}
	}
	if _, err := strconv.Atoi(text); err == nil {
		return text
	}
	return "?" + strings.NewReplacer(" ", "_", ",", ";").Replace(text)
}

func valText(code string) string {
	if n, err := strconv.Atoi(code); err == nil {
		if t, ok := errTexts[n]; ok {
			return t
		}
	}
	return code
}

// nativeShape reports whether function i can be written as a native function.
func (p *prog) nativeShape(i int) bool {
	b := p.Funcs[i]
	if i == 0 || len(b) > 1 {
		return false
	}
	if len(b) == 0 {
		return true
	}
	switch b[0].Op {
	case opPanic:
		return b[0].Arg < errBase
	case opPrint, opStop, opFatal:
		return true
	case opCall:
		// the callback runs in a VM of its own and only the newest of its panics comes back
		// (known difference from gc, finding callback-chain-flattened): generated callbacks
		// raise at most one panic; a replay may force the style
		return p.forceNative || p.maxPanics(b[0].Arg) <= 1
	}
	return false
}

// maxPanics bounds the number of panics raised by one call of function i.
func (p *prog) maxPanics(i int) int {
	n := 0
	for _, in := range p.Funcs[i] {
		switch in.Op {
		case opPanic, opRepanic:
			n++
		case opCall, opDefer:
			n += p.maxPanics(in.Arg)
		}
		if n > 1000 {
			return n
		}
	}
	return n
}

// setStyles chooses how every function is written.
func (p *prog) setStyles(r *proto.Rand) {
	for i := 1; i < len(p.Funcs); i++ {
		p.Style[i] = r.Intn(3)
		if p.nativeShape(i) && r.Intn(2) == 0 {
			p.Style[i] = styleNative
		}
	}
}

// styleSuffix encodes the way the program is written, for replays: "# <style digits> <native panic values>".
func (p *prog) styleSuffix() string {
	var b strings.Builder
	b.WriteString(" # ")
	for _, st := range p.Style {
		b.WriteString(strconv.Itoa(st))
	}
	b.WriteString(" ")
	any := false
	for v, n := range p.Native {
		if n {
			if any {
				b.WriteString(",")
			}
			b.WriteString(strconv.Itoa(v))
			any = true
		}
	}
	if !any {
		b.WriteString("-")
	}
	if p.forceNative {
		b.WriteString(" force")
	}
	return b.String()
}

type prog struct {
	Funcs  [][]instr
	Style  []int  // per function
	Native []bool // per panic site (indexed by the panic value): written as h.Panic(v) / t.Panic(v)

	forceNative bool // replay of a recorded finding: native style also for callbacks that panic more than once
}

func hasArg(op string) bool {
	switch op {
	case opRet, opRecover, opRepanic, opDeferRec:
		return false
	}
	return true
}

// abstract renders the program in the prefix notation of the protocol.
func (p *prog) abstract() string {
	var b strings.Builder
	fmt.Fprintf(&b, "P %d", len(p.Funcs))
	for _, f := range p.Funcs {
		fmt.Fprintf(&b, " %d", len(f))
		for _, in := range f {
			b.WriteString(" " + in.Op)
			if hasArg(in.Op) {
				b.WriteString(" " + strconv.Itoa(in.Arg))
			}
		}
	}
	return b.String()
}

func parseAbstract(s string) (*prog, error) {
	suffix := ""
	if i := strings.Index(s, " # "); i >= 0 {
		s, suffix = s[:i], s[i+3:]
	}
	p, err := parseAbstract1(s)
	if err != nil || suffix == "" {
		return p, err
	}
	f := strings.Fields(suffix)
	if len(f) == 3 && f[2] == "force" {
		p.forceNative = true
		f = f[:2]
	}
	if len(f) != 2 || len(f[0]) != len(p.Funcs) {
		return nil, fmt.Errorf("bad style suffix")
	}
	for i, ch := range f[0] {
		p.Style[i] = int(ch - '0')
		if p.Style[i] == styleNative && !p.nativeShape(i) {
			p.Style[i] = styleTop
		}
	}
	if f[1] != "-" {
		for _, w := range strings.Split(f[1], ",") {
			v, err := strconv.Atoi(w)
			if err != nil || v < 0 || v > 1<<20 {
				return nil, fmt.Errorf("bad native list")
			}
			for len(p.Native) <= v {
				p.Native = append(p.Native, false)
			}
			p.Native[v] = true
		}
	}
	return p, nil
}

func parseAbstract1(s string) (*prog, error) {
	t := strings.Fields(s)
	pos := 0
	next := func() (string, error) {
		if pos >= len(t) {
			return "", fmt.Errorf("short program")
		}
		pos++
		return t[pos-1], nil
	}
	num := func() (int, error) {
		w, err := next()
		if err != nil {
			return 0, err
		}
		return strconv.Atoi(w)
	}
	if w, _ := next(); w != "P" {
		return nil, fmt.Errorf("no P")
	}
	n, err := num()
	if err != nil {
		return nil, err
	}
	p := &prog{}
	for i := 0; i < n; i++ {
		k, err := num()
		if err != nil {
			return nil, err
		}
		body := []instr{}
		for j := 0; j < k; j++ {
			op, err := next()
			if err != nil {
				return nil, err
			}
			in := instr{Op: op}
			if hasArg(op) {
				if in.Arg, err = num(); err != nil {
					return nil, err
				}
			}
			body = append(body, in)
		}
		p.Funcs = append(p.Funcs, body)
	}
	p.Style = make([]int, n)
	return p, nil
}

// usesStopFatal reports whether the program text contains Stop or Fatal.
func (p *prog) usesStopFatal() bool {
	for _, f := range p.Funcs {
		for _, in := range f {
			if in.Op == opStop || in.Op == opFatal {
				return true
			}
		}
	}
	return false
}

func (p *prog) count(op string) int {
	n := 0
	for _, f := range p.Funcs {
		for _, in := range f {
			if in.Op == op {
				n++
			}
		}
	}
	return n
}

// genProg generates a program whose call graph is acyclic (function i refers only to
// functions j > i), so every run terminates; the number of executed instructions is bounded.
// Bodies are generated top-down: a function that is deferred somewhere is more likely to
// recover, re-panic and call functions that panic and recover themselves.
func genProg(r *proto.Rand, stopFatal bool) *prog {
	for {
		if p := tryGenProg(r, stopFatal); p != nil {
			return p
		}
	}
}

func tryGenProg(r *proto.Rand, stopFatal bool) *prog {
	n := 2 + r.Intn(6)
	p := &prog{Funcs: make([][]instr, n), Style: make([]int, n)}
	deferredRole := make([]bool, n)
	nextVal := 1
	for i := 0; i < n; i++ {
		k := r.Intn(6)
		if i == 0 {
			k = 2 + r.Intn(5)
		}
		// weights: print call defer deferrec ret panic recover repanic stop fatal
		w := [10]int{14, 16, 26, 3, 3, 16, 8, 3, 2, 2}
		if deferredRole[i] {
			w = [10]int{10, 18, 16, 4, 3, 16, 22, 7, 2, 2}
		}
		if !stopFatal {
			w[8], w[9] = 0, 0
		}
		if i == n-1 {
			w[1], w[2] = 0, 0
		}
		tot := 0
		for _, x := range w {
			tot += x
		}
		body := []instr{}
		for j := 0; j < k; j++ {
			x := r.Intn(tot)
			c := 0
			for x >= w[c] {
				x -= w[c]
				c++
			}
			target := func() int {
				// mostly the next functions, so that chains of nested calls are frequent
				t := i + 1 + r.Intn(min(3, n-1-i))
				if r.Intn(4) == 0 {
					t = i + 1 + r.Intn(n-1-i)
				}
				return t
			}
			var in instr
			switch c {
			case 0:
				in = instr{opPrint, nextVal}
				nextVal++
			case 1:
				in = instr{opCall, target()}
			case 2:
				in = instr{opDefer, target()}
				deferredRole[in.Arg] = true
			case 3:
				in = instr{opDeferRec, 0}
			case 4:
				in = instr{opRet, 0}
			case 5:
				if r.Intn(8) == 0 {
					in = instr{opPanic, errBase + 1 + r.Intn(3)}
				} else {
					in = instr{opPanic, nextVal}
					nextVal++
				}
			case 6:
				in = instr{opRecover, 0}
			case 7:
				in = instr{opRepanic, 0}
			case 8:
				in = instr{opStop, r.Intn(3)}
			case 9:
				in = instr{opFatal, nextVal}
				nextVal++
			}
			body = append(body, in)
		}
		p.Funcs[i] = body
	}
	// bound on the number of executed instructions
	cost := make([]int, n)
	for i := n - 1; i >= 0; i-- {
		c := 1
		for _, in := range p.Funcs[i] {
			c++
			if in.Op == opCall || in.Op == opDefer {
				c += cost[in.Arg]
			}
		}
		cost[i] = c
		if c > 600 {
			return nil
		}
	}
	p.Native = make([]bool, nextVal+1)
	for i := range p.Native {
		p.Native[i] = r.Intn(5) == 0
	}
	p.setStyles(r)
	for i := 1; i < n; i++ {
		if p.Style[i] == styleLit && cost[i] > 40 {
			p.Style[i] = styleTop // keep the source small
		}
	}
	return p
}

// render writes the program as Go source. With prefix "" it is a Scriggo/Go program
// (package main, func main); with a prefix every top-level name is prefixed so that many
// programs fit into one package of the gc batch. hpkg is the import path of the natives.
func (p *prog) render(prefix, hpkg string) string {
	var b strings.Builder
	pr := prefix + "pr"
	fmt.Fprintf(&b, "func %s(v interface{}) {\n\tif v == nil {\n\t\tprintln(\"R nil\")\n\t\treturn\n\t}\n\tif e, ok := v.(error); ok {\n\t\tprintln(\"R\", e.Error())\n\t\treturn\n\t}\n\tprintln(\"R\", v.(int))\n}\n\n", pr)
	name := func(i int) string {
		if i == 0 {
			if prefix == "" {
				return "main"
			}
			return prefix + "main"
		}
		return fmt.Sprintf("%sf%d", prefix, i)
	}
	var body func(i int, ind string) string
	lit := func(i int, ind string) string {
		return "func() {\n" + body(i, ind+"\t") + ind + "}"
	}
	body = func(i int, ind string) string {
		var s strings.Builder
		declared := map[int]bool{}
		// value: an expression for function j as a function value
		value := func(j int) string {
			switch p.Style[j] {
			case styleLit, styleNative:
				return lit(j, ind)
			case styleVar:
				v := fmt.Sprintf("v%d", j)
				if !declared[j] {
					declared[j] = true
					fmt.Fprintf(&s, "%s%s := %s\n", ind, v, lit(j, ind))
				}
				return v
			}
			return name(j)
		}
		// call: the call expression for function j
		call := func(j int) string {
			if p.Style[j] != styleNative {
				return value(j) + "()"
			}
			if len(p.Funcs[j]) == 0 {
				return "h.Nop()"
			}
			in := p.Funcs[j][0]
			switch in.Op {
			case opPanic:
				return fmt.Sprintf("h.Panic(%d)", in.Arg)
			case opPrint:
				return fmt.Sprintf("h.Print(%d)", in.Arg)
			case opStop:
				return fmt.Sprintf("h.Stop(%d)", in.Arg)
			case opFatal:
				return fmt.Sprintf("h.Fatal(%d)", in.Arg)
			case opCall:
				if j%2 == 0 {
					return "h.CallN(1, " + value(in.Arg) + ")"
				}
				return "h.Call(" + value(in.Arg) + ")"
			}
			return value(j) + "()"
		}
		for _, in := range p.Funcs[i] {
			switch in.Op {
			case opPrint:
				fmt.Fprintf(&s, "%sprintln(\"O\", %d)\n", ind, in.Arg)
			case opCall:
				f := call(in.Arg)
				fmt.Fprintf(&s, "%s%s\n", ind, f)
			case opDefer:
				f := call(in.Arg)
				fmt.Fprintf(&s, "%sdefer %s\n", ind, f)
			case opDeferRec:
				fmt.Fprintf(&s, "%sdefer recover()\n", ind)
			case opRet:
				fmt.Fprintf(&s, "%sif true {\n%s\treturn\n%s}\n", ind, ind, ind)
			case opPanic:
				switch {
				case in.Arg == errBase+1:
					fmt.Fprintf(&s, "%s{\n%s\tz := 0\n%s\tz = 1 / z\n%s\t_ = z\n%s}\n", ind, ind, ind, ind, ind)
				case in.Arg == errBase+2:
					fmt.Fprintf(&s, "%s{\n%s\tvar m map[int]int\n%s\tm[1] = 1\n%s}\n", ind, ind, ind, ind)
				case in.Arg == errBase+3:
					fmt.Fprintf(&s, "%s{\n%s\tvar a []int\n%s\ta[3] = 1\n%s}\n", ind, ind, ind, ind)
				case in.Arg < len(p.Native) && p.Native[in.Arg]:
					if in.Arg%2 == 0 {
						fmt.Fprintf(&s, "%sh.Panic(%d)\n", ind, in.Arg)
					} else {
						fmt.Fprintf(&s, "%s{\n%s\tvar t h.T\n%s\tt.Panic(%d)\n%s}\n", ind, ind, ind, in.Arg, ind)
					}
				default:
					fmt.Fprintf(&s, "%sif true {\n%s\tpanic(%d)\n%s}\n", ind, ind, in.Arg, ind)
				}
			case opRecover:
				fmt.Fprintf(&s, "%s%s(recover())\n", ind, pr)
			case opRepanic:
				fmt.Fprintf(&s, "%sif r := recover(); r != nil {\n%s\t%s(r)\n%s\tpanic(r)\n%s} else {\n%s\t%s(nil)\n%s}\n", ind, ind, pr, ind, ind, ind, pr, ind)
			case opStop:
				fmt.Fprintf(&s, "%sh.Stop(%d)\n", ind, in.Arg)
			case opFatal:
				fmt.Fprintf(&s, "%sh.Fatal(%d)\n", ind, in.Arg)
			}
		}
		return s.String()
	}
	for i := range p.Funcs {
		if i > 0 && p.Style[i] != styleTop {
			continue
		}
		fmt.Fprintf(&b, "func %s() {\n%s}\n\n", name(i), body(i, "\t"))
	}
	head := "package main\n\n"
	if strings.Contains(b.String(), "h.") {
		head += fmt.Sprintf("import \"%s\"\n\n", hpkg)
	}
	return head + b.String()
}
