package main

import (
	"bytes"
	"fmt"
	"reflect"
	"sort"
	"strings"

	"github.com/open2b/scriggo/ast"
	"github.com/open2b/scriggo/ast/astutil"

	"verifharness/internal/proto"
)

// The attributes every node shares — parenthesis count (expressions), position — and the
// cloning functions other than CloneNode-on-the-root.
//
//   - cloneOracles      one (node, cloning function) pair: the property's clauses
//   - subCloneOracles   every node of a tree cloned by itself with each function that accepts it
//   - parenSources      sources: expression form × 0/1/2 parentheses × expression position
//   - parenSynthetic    schema: expression kind × 0/1/2 parentheses × child slot of every kind
//   - attrTies          the extracted skeleton of the clone arms vs. the real clone

// subCloneLimit: trees of at most this many nodes have every node cloned by itself (the cost
// is nodes × depth); set by run from the tier. The matrix trees are all far below it.
var subCloneLimit = 100

// cloneOracles evaluates the clone clauses of the property for one original and one way of
// cloning it. via names the function ("CloneNode", "CloneExpression", "CloneTree").
func cloneOracles(orig ast.Node, via string, do func() ast.Node) []failure {
	var fs []failure
	before := canonOf(orig)
	var clone ast.Node
	if p := try(func() { clone = do() }); p != "" {
		return []failure{{clause: "clone-panics", detail: via + ": " + short(p, 300)}}
	}
	if c := canonOf(clone); c != before {
		i := 0
		for i < len(c) && i < len(before) && c[i] == before[i] {
			i++
		}
		lo := max(i-60, 0)
		fs = append(fs, failure{clause: "clone-equal", detail: via + ": orig …" + short(before[lo:], 160) + " / copy …" + short(c[lo:], 160)})
	}
	if d := attrDiff(orig, clone); d != "" {
		fs = append(fs, failure{clause: "clone-attributes", detail: via + ": " + d})
	}
	var d1, d2 bytes.Buffer
	p1 := try(func() { astutil.Dump(&d1, orig) })
	p2 := try(func() { astutil.Dump(&d2, clone) })
	if p1 == "" && p2 == "" && d1.String() != d2.String() {
		fs = append(fs, failure{clause: "clone-dump-equal", detail: via + ": " + short(d2.String(), 200)})
	}
	ro, rc := map[uintptr]string{}, map[uintptr]string{}
	refs(reflect.ValueOf(orig), ro, "")
	refs(reflect.ValueOf(clone), rc, "")
	for p, w := range rc {
		if wo, shared := ro[p]; shared {
			fs = append(fs, failure{clause: "clone-shares-memory", detail: via + ": " + w + " of the copy is " + wo + " of the original"})
			break
		}
	}
	smash(reflect.ValueOf(clone), map[uintptr]bool{})
	if after := canonOf(orig); after != before {
		fs = append(fs, failure{clause: "clone-mutation-reaches-original", detail: via + ": the original changed after every field of the copy was overwritten"})
	}
	return fs
}

// attrDiff walks original and copy in parallel (the harness's own picture of the trees) and
// compares, through the public API, what every node shares: Parenthesis() of expressions,
// the position, and String(). "" when all agree (or the shapes differ: clone-equal reports that).
func attrDiff(orig, clone ast.Node) string {
	if isNilNode(reflect.ValueOf(&orig).Elem()) || isNilNode(reflect.ValueOf(&clone).Elem()) {
		return ""
	}
	a, b := build(orig, true), build(clone, true)
	diff := ""
	var rec func(x, y *tnode, where string)
	rec = func(x, y *tnode, where string) {
		if diff != "" || x.kind != y.kind || len(x.fields) != len(y.fields) {
			return
		}
		if ex, ok := x.node.(ast.Expression); ok {
			ey := y.node.(ast.Expression)
			var px, py int
			try(func() { px = ex.Parenthesis() })
			try(func() { py = ey.Parenthesis() })
			if px != py {
				diff = fmt.Sprintf("%s%s: Parenthesis() is %d in the original, %d in the copy", where, x.kind, px, py)
				return
			}
		}
		var qx, qy *ast.Position
		try(func() { qx = x.node.Pos() })
		try(func() { qy = y.node.Pos() })
		switch {
		case (qx == nil) != (qy == nil):
			diff = fmt.Sprintf("%s%s: Pos() is %v in the original, %v in the copy", where, x.kind, qx, qy)
			return
		case qx != nil && *qx != *qy:
			diff = fmt.Sprintf("%s%s: Pos() is %+v in the original, %+v in the copy", where, x.kind, *qx, *qy)
			return
		case qx != nil && qx == qy:
			diff = fmt.Sprintf("%s%s: the copy has the original's *Position", where, x.kind)
			return
		}
		if sx, ok := x.node.(fmt.Stringer); ok {
			var s1, s2 string
			p1 := try(func() { s1 = sx.String() })
			p2 := try(func() { s2 = y.node.(fmt.Stringer).String() })
			if (p1 == "") != (p2 == "") || s1 != s2 {
				diff = fmt.Sprintf("%s%s: String() is %q in the original, %q in the copy", where, x.kind, short(s1+p1, 80), short(s2+p2, 80))
				return
			}
			if ex, ok := x.node.(ast.Expression); ok && p1 == "" {
				var w1, w2 string
				try(func() { w1 = ast.StringWithParenthesis(ex) })
				try(func() { w2 = ast.StringWithParenthesis(y.node.(ast.Expression)) })
				if w1 != w2 {
					diff = fmt.Sprintf("%s%s: prints %q in the original, %q in the copy", where, x.kind, short(w1, 80), short(w2, 80))
					return
				}
			}
		}
		for i := range x.fields {
			fx, fy := x.fields[i], y.fields[i]
			if len(fx.children) != len(fy.children) {
				return
			}
			for j := range fx.children {
				rec(fx.children[j], fy.children[j], where+x.kind+"."+fx.path+" > ")
			}
		}
	}
	rec(a, b, "")
	return diff
}

// subCloneOracles clones every node of the picture by itself: an expression with
// CloneExpression and CloneNode, another node with CloneNode, a tree also with CloneTree.
// (The root with CloneNode is the caller's business.)
func subCloneOracles(t *tnode) []failure {
	var fs []failure
	seen := map[string]bool{}
	add := func(where string, got []failure) {
		for _, f := range got {
			if !seen[f.clause] {
				seen[f.clause] = true
				f.detail = "cloning " + where + " by itself: " + f.detail
				fs = append(fs, f)
			}
		}
	}
	root := t
	t.each(func(x *tnode) {
		n := x.node
		where := x.kind
		if p := n.Pos(); p != nil && x.kind != "Tree" {
			where += " at " + p.String()
		}
		if e, ok := n.(ast.Expression); ok {
			add(where, cloneOracles(n, "CloneExpression", func() ast.Node { return astutil.CloneExpression(e) }))
		}
		if x != root {
			add(where, cloneOracles(n, "CloneNode", func() ast.Node { return astutil.CloneNode(n) }))
			if tr, ok := n.(*ast.Tree); ok {
				add(where, cloneOracles(n, "CloneTree", func() ast.Node { return astutil.CloneTree(tr) }))
			}
		}
	})
	return fs
}

// ---- sources: expression form × parentheses × position ------------------------------------

// exprForms: one source form per expression node kind the grammar can produce (the kind named
// is the root of the form), in template/program syntax.
var exprForms = []struct{ kind, src string }{
	{"Identifier", "a"},
	{"BasicLiteral", `"s"`},
	{"BinaryOperator", "a + b"},
	{"UnaryOperator", "-a"},
	{"Call", "f(a, 1)"},
	{"Index", "a[i]"},
	{"Slicing", "a[1:2]"},
	{"Selector", "a.B"},
	{"TypeAssertion", "a.(int)"},
	{"CompositeLiteral", "[]int{1, 2}"},
	{"Func", "func(x int) int { return x }"},
	{"FuncType", "func(int) string"},
	{"ArrayType", "[2]int"},
	{"SliceType", "[]int"},
	{"MapType", "map[string]int"},
	{"ChanType", "chan int"},
	{"StructType", "struct{ A int }"},
	{"Interface", "interface{}"},
	{"Render", `render "part.html"`},
	{"Default", `a default "d"`},
	{"Default", `render "part.html" default "d"`},
	{"Placeholder", "itea"},
}

// exprContexts: every position of the grammar that holds an expression; # is the hole.
var exprContexts = []struct {
	prog bool
	src  string
}{
	{false, "{{ # }}"},
	{false, "{% show # %}"},
	{false, "{% show 1, # %}"},
	{false, "{% var v = # %}"},
	{false, "{% var v, w = 1, # %}"},
	{false, "{% var v # %}"},
	{false, "{% var v # = nil %}"},
	{false, "{% const c = # %}"},
	{false, "{% v := # %}"},
	{false, "{% v = # %}"},
	{false, "{% # = v %}"},
	{false, "{% v += # %}"},
	{false, "{% type T # %}"},
	{false, "{% if # %}x{% end %}"},
	{false, "{% if v := #; v %}x{% else if # %}y{% end %}"},
	{false, "{% for x in # %}x{% end %}"},
	{false, "{% for i, x := range # %}x{% end %}"},
	{false, "{% for # %}x{% end %}"},
	{false, "{% switch # %}{% case # %}x{% case 1, # %}y{% end %}"},
	{false, "{% switch x := #.(type) %}{% case # %}x{% end %}"},
	{false, "{% select %}{% case # <- # %}x{% case v := <-# %}y{% end %}"},
	{false, "{% # <- 1 %}"},
	{false, "{% macro M(p #) # %}{% return # %}{% end %}"},
	{false, "{% defer #() %}"},
	{false, "{% go #(1) %}"},
	{false, "{% show #; using %}x{% end %}"},
	{false, "{% v := itea; using # %}x{% end %}"},
	{false, "{{ f(#) }}"},
	{false, "{{ f(1, #...) }}"},
	{false, "{{ #(1) }}"},
	{false, "{{ #.F }}"},
	{false, "{{ #[0] }}"},
	{false, "{{ x[#] }}"},
	{false, "{{ x[#:#] }}"},
	{false, "{{ #.(int) }}"},
	{false, "{{ x.(#) }}"},
	{false, "{{ -# }}"},
	{false, "{{ # + 1 }}"},
	{false, "{{ 1 * # }}"},
	{false, `{{ # default "d" }}`},
	{false, "{{ x default # }}"},
	{false, "{{ []T{#, 2} }}"},
	{false, "{{ T{#: #} }}"},
	{false, "{{ #{1} }}"},
	{false, "{{ [#]int{} }}"},
	{false, "{{ map[#]#{} }}"},
	{false, "{{ func(p #) # { return # }() }}"},
	{false, `<a href="{{ # }}">x</a>`},
	{false, "<script>var x = {{ # }};</script>"},
	{false, "{%%\n v := #\n if # { show # }\n%%}"},
	{true, "var v = #"},
	{true, "var v # = nil"},
	{true, "type T #"},
	{true, "type S struct { F #; G, H # }"},
	{true, "func f(p #, q ...#) (r #) { return # }"},
	{true, "func f() { v := #; _ = v }"},
	{true, "func f() { #(1) }"},
	{true, "func f() { defer #() }"},
	{true, "func f() { go #.M() }"},
	{true, "func f() { for # { } }"},
	{true, "func f() { for k, v := range # { } }"},
	{true, "func f() { switch # { case #, 1: } }"},
	{true, "func f() { switch v := #.(type) { case #: } }"},
	{true, "func f() { select { case # <- #: case v, ok := <-#: } }"},
	{true, "func f() { L: # = 1 }"},
	{true, "const c # = #"},
}

func parenWrap(s string, p int) string {
	return strings.Repeat("(", p) + s + strings.Repeat(")", p)
}

// parenSources runs the oracles on the parsed trees of the matrix form × parentheses ×
// position. What does not parse is counted, not judged; which (kind, parentheses) pairs were
// actually reached is recorded from the parsed trees themselves.
func (r *runner) parenSources() {
	res := r.c.Res
	r.noTie = true
	defer func() { r.noTie = false }()
	reached := map[string]bool{}
	for ci, ctx := range exprContexts {
		for fi, form := range exprForms {
			for p := 0; p <= 2; p++ {
				src := strings.ReplaceAll(ctx.src, "#", parenWrap(form.src, p))
				var in *input
				if ctx.prog {
					in = &input{name: fmt.Sprintf("paren-program-%d-%d-%d", ci, fi, p), files: map[string]string{"main.go": "package main\n\n" + src + "\n\nfunc main() { }\n"}, prog: true}
				} else {
					in = &input{name: fmt.Sprintf("paren-template-%d-%d-%d", ci, fi, p), files: map[string]string{
						"index.html": src, "part.html": "<i>{{ 1 + 2 }}</i>"}, main: "index.html"}
				}
				tree, err, pn := in.parse()
				if pn != "" || err != nil || tree == nil {
					res.Hist("paren-matrix-parse-error")
					continue
				}
				res.Hist("paren-matrix-parsed")
				build(tree, true).each(func(x *tnode) {
					if e, ok := x.node.(ast.Expression); ok {
						reached[fmt.Sprintf("%s/%d", x.kind, min(e.Parenthesis(), 2))] = true
					}
				})
				r.checkTree(in, tree, true, "paren "+strconvQuote(src))
			}
		}
	}
	var missing []string
	for _, z := range registry {
		if _, ok := z.(ast.Expression); !ok {
			continue
		}
		k := reflect.TypeOf(z).Elem().Name()
		for p := 0; p <= 2; p++ {
			key := fmt.Sprintf("%s/%d", k, p)
			if reached[key] {
				res.Count("paren-source "+key, true)
			} else {
				missing = append(missing, key)
			}
		}
	}
	if len(missing) > 0 {
		res.Notes = append(res.Notes, "expression kind/parentheses never produced by the parser in the source matrix (covered by the synthetic matrix): "+strings.Join(missing, " "))
	}
}

func strconvQuote(s string) string { return fmt.Sprintf("%q", s) }

// ---- schema: expression kind × parentheses × slot ------------------------------------------

func (r *runner) parenSynthetic() {
	res := r.c.Res
	type exprKind struct {
		name string
		typ  reflect.Type
	}
	var kinds []exprKind
	for _, z := range registry {
		if _, ok := z.(ast.Expression); ok {
			kinds = append(kinds, exprKind{reflect.TypeOf(z).Elem().Name(), reflect.TypeOf(z).Elem()})
		}
	}
	mk := func(k exprKind, p int) ast.Expression {
		e := synth(k.typ, r.c.R, true, r.neverNil, 1).(ast.Expression)
		e.SetParenthesis(p)
		return e
	}
	reported := map[string]int{}
	report := func(k exprKind, p int, where string, fs []failure) {
		for _, f := range fs {
			key := f.clause + " " + k.name + " " + strings.SplitN(where, " (slot", 2)[0]
			reported[key]++
			if reported[key] > 1 {
				continue
			}
			reported[f.clause]++
			if reported[f.clause] > 6 {
				continue
			}
			res.AddBreak(proto.Break{Kind: "property", Name: f.clause,
				Case:  fmt.Sprintf("synthetic: a *ast.%s with %d parentheses %s", k.name, p, where),
				Human: fmt.Sprintf("e := <a *ast.%s with every child set>; e.SetParenthesis(%d); %s", k.name, p, where),
				Impl:  f.detail, Model: "the copy is an independent equal tree (same Parenthesis(), positions, String() for every node)"})
		}
	}
	for _, k := range kinds {
		for p := 0; p <= 2; p++ {
			// by itself, with every cloning function
			e := mk(k, p)
			report(k, p, "cloned with CloneExpression", cloneOracles(e, "CloneExpression", func() ast.Node { return astutil.CloneExpression(e) }))
			e = mk(k, p)
			report(k, p, "cloned with CloneNode", cloneOracles(e, "CloneNode", func() ast.Node { return astutil.CloneNode(e) }))
			e = mk(k, p)
			tree := ast.NewTree("index.html", []ast.Node{e}, ast.FormatHTML)
			report(k, p, "as the only node of a tree cloned with CloneTree", cloneOracles(tree, "CloneTree", func() ast.Node { return astutil.CloneTree(tree) }))
			res.Count(fmt.Sprintf("paren-synthetic %s/%d", k.name, p), true)
			// in every slot of every node kind that accepts it
			for _, z := range registry {
				ht := reflect.TypeOf(z).Elem()
				probe := synth(ht, r.c.R, true, r.neverNil, 0)
				nslots := len(slots(reflect.ValueOf(probe)))
				for si := 0; si < nslots; si++ {
					host := synth(ht, r.c.R, true, r.neverNil, 0)
					sl := slots(reflect.ValueOf(host))
					if si >= len(sl) || sl[si].xref {
						continue
					}
					e := mk(k, p)
					if !reflect.TypeOf(e).AssignableTo(sl[si].v.Type()) {
						continue
					}
					if p > 0 && r.neverPar[ht.Name()][sl[si].path] {
						continue // a declaration's name: the parser never parenthesises it (assumption)
					}
					sl[si].v.Set(reflect.ValueOf(e))
					where := fmt.Sprintf("in %s.%s (slot %d) of a *ast.%s cloned with CloneNode", ht.Name(), sl[si].path, si, ht.Name())
					report(k, p, where, cloneOracles(host, "CloneNode", func() ast.Node { return astutil.CloneNode(host) }))
					res.Hist("paren-synthetic-slot")
					res.Count("paren-slot "+ht.Name()+"."+sl[si].path+" <- "+k.name, true)
				}
			}
		}
	}
}

// ---- ties of the extracted skeleton --------------------------------------------------------

// attrTies compares, for every expression kind and 0..3 parentheses, the parenthesis count
// the model predicts for each exit of the kind's clone arm with the count of the real copy,
// and for every kind where the model says the position of the copy comes from.
func (r *runner) attrTies() {
	res := r.c.Res
	for _, z := range registry {
		t := reflect.TypeOf(z).Elem()
		k := t.Name()
		// position
		mode := r.ask("C28 clonePos " + k)
		if len(mode) == 1 {
			n := synth(t, r.c.R, true, r.neverNil, 1)
			var c ast.Node
			if p := try(func() { c = astutil.CloneNode(n) }); p == "" {
				po, pc := n.Pos(), c.Pos()
				impl := "other"
				switch {
				case po != nil && pc != nil && po != pc && *po == *pc && mode[0] != "ctor":
					impl = "cloned"
				case mode[0] == "ctor" && ((po == nil && pc == nil) || (po != nil && pc != nil && po != pc && *po == *pc)):
					impl = "ctor"
				}
				if impl != mode[0] {
					res.AddBreak(proto.Break{Kind: "correspondence", Name: "pos-model", Case: "C28 clonePos " + k, Human: "position of CloneNode(<synthetic *ast." + k + ">)",
						Impl: fmt.Sprintf("%s (original %v, copy %v)", impl, po, pc), Model: mode[0]})
				}
				res.Count("pos-model "+k, true)
			}
		}
		e, ok := z.(ast.Expression)
		if _ = e; !ok {
			continue
		}
		for p := 0; p <= 3; p++ {
			line := fmt.Sprintf("C28 parenOut %s %d", k, p)
			outs := r.ask(line)
			x := synth(t, r.c.R, true, r.neverNil, 1).(ast.Expression)
			x.SetParenthesis(p)
			var c ast.Expression
			if pn := try(func() { c = astutil.CloneExpression(x) }); pn != "" {
				continue
			}
			impl := fmt.Sprint(c.Parenthesis())
			sort.Strings(outs)
			agree := len(outs) > 0
			for _, o := range outs {
				if o != impl {
					agree = false
				}
			}
			if !agree {
				res.AddBreak(proto.Break{Kind: "correspondence", Name: "paren-model", Case: line, Human: fmt.Sprintf("CloneExpression(<synthetic *ast.%s with %d parentheses>).Parenthesis()", k, p),
					Impl: impl, Model: strings.Join(outs, " ")})
			}
			res.Count(fmt.Sprintf("paren-model %s/%d", k, p), p > 0)
		}
	}
}
