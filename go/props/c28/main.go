package main

import (
	"fmt"
	"io/fs"
	"os"
	"path/filepath"
	"reflect"
	"sort"
	"strconv"
	"strings"
	"testing/fstest"
	"time"

	"github.com/open2b/scriggo/ast"
	"github.com/open2b/scriggo/ast/astutil"
	hook "github.com/open2b/scriggo/verifhook/c28"

	"verifharness/internal/hx"
	"verifharness/internal/proto"
)

// C28: astutil.CloneTree/CloneNode/CloneExpression give an independent equal copy;
// astutil.Walk/Inspect visit every node exactly once.
//
// Ties (kind "correspondence"):
//
//	tables      Gen/AstSchema.lean's schema/xref/ptr/list/isexpr/annotations vs. a reflection
//	            reading of the ast struct types
//	clone-model model `clone cloned` vs. the shape of the real copy, on every tree
//	walk-model  model `walk walked` vs. the multiset of nodes the real Walk visits
//	paren-model / pos-model   the extracted control-flow skeleton of the clone arms (which exit
//	            copies the parenthesis count, where the position comes from) vs. the real clone
//	never-nil / annotations-empty / nil-safety   the written assumptions of the model
//
// Oracles on the real code (kind "property"), independent of the model, on every tree parsed
// from the corpus and from generated sources:
//
//	clone-equal, clone-attributes (Parenthesis(), position, String() of every node),
//	clone-dump-equal, clone-shares-memory, clone-mutation-reaches-original,
//	clone-panics, walk-visits-every-node-once, walk-panics, inspect-equals-walk
func main() { hx.Main("C28", run) }

func try(f func()) (p string) {
	defer func() {
		if r := recover(); r != nil {
			p = fmt.Sprint(r)
		}
	}()
	f()
	return ""
}

// ---- inputs ------------------------------------------------------------------------------

type input struct {
	name  string            // corpus path or "gen-program-17"
	files map[string]string // in-memory sources (generated inputs); nil for corpus
	dir   string            // corpus: directory file system
	main  string            // template: file name; program: ""
	prog  bool
}

func (in *input) fsys() fs.FS {
	if in.files != nil {
		m := fstest.MapFS{}
		for k, v := range in.files {
			m[k] = &fstest.MapFile{Data: []byte(v)}
		}
		return m
	}
	if in.prog && in.main != "" { // single corpus file as main.go
		src, _ := os.ReadFile(filepath.Join(in.dir, in.main))
		return fstest.MapFS{"main.go": {Data: src}}
	}
	return os.DirFS(in.dir)
}

func (in *input) parse() (tree *ast.Tree, err error, panicked string) {
	panicked = try(func() {
		if in.prog {
			tree, err = hook.ParseProgram(in.fsys())
		} else {
			tree, err = hook.ParseTemplate(in.fsys(), in.main, false)
		}
	})
	return
}

func (in *input) human() string {
	if in.files == nil {
		return in.name
	}
	var b strings.Builder
	names := make([]string, 0, len(in.files))
	for n := range in.files {
		names = append(names, n)
	}
	sort.Strings(names)
	for _, n := range names {
		if in.prog || n == in.main || strings.Contains(in.files[in.main], n) {
			fmt.Fprintf(&b, "--- %s ---\n%s\n", n, in.files[n])
		}
	}
	return b.String()
}

func repoRoot() string {
	if r := os.Getenv("VERIF_REPO"); r != "" {
		return r
	}
	return "/repo"
}

func corpus() []*input {
	root := filepath.Join(repoRoot(), "test", "compare", "testdata")
	var ins []*input
	filepath.WalkDir(root, func(path string, d fs.DirEntry, err error) error {
		if err != nil {
			return nil
		}
		rel, _ := filepath.Rel(root, path)
		if d.IsDir() {
			if strings.HasSuffix(path, ".dir") {
				if _, e := os.Stat(filepath.Join(path, "main.go")); e == nil {
					ins = append(ins, &input{name: rel, dir: path, prog: true})
				}
				for _, idx := range []string{"index.html", "index.md", "index.txt", "index.js", "index.css"} {
					if _, e := os.Stat(filepath.Join(path, idx)); e == nil {
						ins = append(ins, &input{name: rel + "/" + idx, dir: path, main: idx})
					}
				}
				return filepath.SkipDir
			}
			return nil
		}
		switch filepath.Ext(path) {
		case ".go":
			ins = append(ins, &input{name: rel, dir: filepath.Dir(path), main: filepath.Base(path), prog: true})
		case ".html", ".md", ".txt", ".js", ".css":
			ins = append(ins, &input{name: rel, dir: filepath.Dir(path), main: filepath.Base(path)})
		}
		return nil
	})
	sort.Slice(ins, func(i, j int) bool { return ins[i].name < ins[j].name })
	return ins
}

// ---- encoding of trees for the driver ----------------------------------------------------

// encode writes t in the protocol's prefix notation with identities off, off+1, … in
// pre-order, and returns the identity given to every picture node.
func encode(t *tnode, off int) (string, map[*tnode]int) {
	var b strings.Builder
	ids := map[*tnode]int{}
	next := off
	var rec func(t *tnode)
	rec = func(t *tnode) {
		ids[t] = next
		n := 0
		for _, f := range t.fields {
			n += len(f.children)
		}
		fmt.Fprintf(&b, "%s %d %d", t.kind, next, n)
		next++
		for _, f := range t.fields {
			for _, c := range f.children {
				b.WriteString(" " + f.path + " ")
				rec(c)
			}
		}
	}
	rec(t)
	return b.String(), ids
}

type visitor struct{ seen []ast.Node }

func (v *visitor) Visit(n ast.Node) astutil.Visitor {
	if n == nil {
		return nil
	}
	v.seen = append(v.seen, n)
	return v
}

func ptrOfNode(n ast.Node) uintptr {
	v := reflect.ValueOf(n)
	if v.Kind() != reflect.Ptr || v.IsNil() {
		return 0
	}
	return v.Pointer()
}

// ---- the checks on one tree --------------------------------------------------------------

type runner struct {
	c         *hx.Ctx
	neverNil  map[string]map[string]bool
	neverPar  map[string]map[string]bool // assumption neverParenthesised
	walkRows  map[string]string // failing walk row "Call.Func" -> known finding id
	lines     []string          // pending driver requests
	expect    []func(resp string)
	kindsSeen map[string]int
	reported  map[string]int
	noTie     bool // oracles only (streams whose trees add nothing to the model ties)
}

// failure of one oracle on one tree
type failure struct {
	clause string
	detail string
	rows   []string // walk: the failing rows
}

// oracles evaluates the property itself on the real code for one parsed tree.
func (r *runner) oracles(tree ast.Node) []failure {
	var fs []failure
	fs = append(fs, cloneOracles(tree, "CloneNode", func() ast.Node { return astutil.CloneNode(tree) })...)
	if t, ok := tree.(*ast.Tree); ok {
		fs = append(fs, cloneOracles(tree, "CloneTree", func() ast.Node { return astutil.CloneTree(t) })...)
	}
	// every node of the tree cloned by itself with each cloning function that accepts it
	// (bounded: the cost is nodes × depth)
	if tp := build(tree, true); tp.count() <= subCloneLimit {
		fs = append(fs, subCloneOracles(tp)...)
	}
	// one failure per clause and tree: the first (the root with CloneNode comes first)
	{
		seen := map[string]bool{}
		var first []failure
		for _, f := range fs {
			if !seen[f.clause] {
				seen[f.clause] = true
				first = append(first, f)
			}
		}
		fs = first
	}
	// walk
	tw := build(tree, false)
	want := map[uintptr]int{}
	parentRow := map[uintptr]string{}
	parentPtr := map[uintptr]uintptr{}
	tw.each(func(n *tnode) {
		want[n.ptr]++
		for _, f := range n.fields {
			for _, c := range f.children {
				parentRow[c.ptr] = n.kind + "." + f.path
				parentPtr[c.ptr] = n.ptr
			}
		}
	})
	v := &visitor{}
	if p := try(func() { astutil.Walk(v, tree) }); p != "" {
		fs = append(fs, failure{clause: "walk-panics", detail: short(p, 300)})
		return fs
	}
	got := map[uintptr]int{}
	rows := map[string]bool{}
	for _, n := range v.seen {
		p := ptrOfNode(n)
		if p == 0 {
			rows[fmt.Sprintf("visits a nil %T", n)] = true
			continue
		}
		got[p]++
	}
	for p, n := range want {
		switch {
		case got[p] == 0 && p != tw.ptr && got[parentPtr[p]] == 0:
			// below a node that was itself not visited: reported at that node
		case got[p] < n:
			rows[parentRow[p]] = true
		case got[p] > n:
			rows["twice "+parentRow[p]] = true
		}
	}
	for p := range got {
		if want[p] == 0 {
			rows["visits something outside the tree"] = true
		}
	}
	if len(rows) > 0 {
		f := failure{clause: "walk-visits-every-node-once"}
		for row := range rows {
			f.rows = append(f.rows, row)
		}
		sort.Strings(f.rows)
		f.detail = "rows: " + strings.Join(f.rows, ", ")
		fs = append(fs, f)
	}
	// Inspect is Walk with a function
	var seen2 []ast.Node
	if p := try(func() {
		astutil.Inspect(tree, func(n ast.Node) bool {
			if n != nil {
				seen2 = append(seen2, n)
			}
			return true
		})
	}); p != "" {
		fs = append(fs, failure{clause: "walk-panics", detail: "Inspect: " + short(p, 300)})
	} else if len(seen2) != len(v.seen) {
		fs = append(fs, failure{clause: "inspect-equals-walk", detail: fmt.Sprintf("Inspect saw %d nodes, Walk %d", len(seen2), len(v.seen))})
	} else {
		for i := range seen2 {
			if seen2[i] != v.seen[i] {
				fs = append(fs, failure{clause: "inspect-equals-walk", detail: fmt.Sprintf("visit %d differs", i)})
				break
			}
		}
	}
	return fs
}

// unknownRows returns the rows of a walk failure not covered by an open known finding, and
// the findings that cover the others.
func (r *runner) unknownRows(f failure) (unknown []string, known []string) {
	for _, row := range f.rows {
		if id, ok := r.walkRows[row]; ok && r.c.HasFinding(id) {
			known = append(known, id)
		} else {
			unknown = append(unknown, row)
		}
	}
	return
}

// stillFails reports whether the source still fails clause (for walk: with an unknown row).
func (r *runner) stillFails(in *input, clause string) bool {
	tree, err, p := in.parse()
	if err != nil || p != "" || tree == nil {
		return false
	}
	for _, f := range r.oracles(tree) {
		if f.clause != clause {
			continue
		}
		if clause == "walk-visits-every-node-once" {
			u, _ := r.unknownRows(f)
			return len(u) > 0
		}
		return true
	}
	return false
}

// shrink minimises the main source of a failing generated input (lines, then bytes).
func (r *runner) shrink(in *input, clause string) *input {
	if in.files == nil {
		// corpus file: copy it into memory so that it can be shrunk
		src, err := os.ReadFile(filepath.Join(in.dir, in.main))
		if err != nil || !in.prog || in.main == "" {
			return in
		}
		in = &input{name: in.name, files: map[string]string{"main.go": string(src)}, prog: true}
	}
	key := in.main
	if in.prog {
		key = "main.go"
	}
	cur := in.files[key]
	with := func(s string) *input {
		fs := map[string]string{}
		for k, v := range in.files {
			fs[k] = v
		}
		fs[key] = s
		return &input{name: in.name, files: fs, main: in.main, prog: in.prog}
	}
	if !r.stillFails(with(cur), clause) {
		return in
	}
	lines := strings.SplitAfter(cur, "\n")
	for chunk := len(lines) / 2; chunk >= 1; chunk /= 2 {
		for i := 0; i+chunk <= len(lines); {
			cand := append(append([]string{}, lines[:i]...), lines[i+chunk:]...)
			if r.stillFails(with(strings.Join(cand, "")), clause) {
				lines = cand
			} else {
				i += chunk
			}
		}
	}
	cur = strings.Join(lines, "")
	if len(cur) <= 1500 {
		cur = string(hx.ShrinkBytes([]byte(cur), func(b []byte) bool { return r.stillFails(with(string(b)), clause) }))
	}
	return with(cur)
}

// checkTree runs oracles (if parsed) and queues the model ties for one tree.
func (r *runner) checkTree(in *input, tree ast.Node, parsed bool, label string) {
	res := r.c.Res
	t := build(tree, true)
	n := t.count()
	t.each(func(x *tnode) { r.kindsSeen[x.kind]++ })
	res.Count(label, n >= 8)
	res.Hist(fmt.Sprintf("nodes<%d", bucket(n)))
	if parsed {
		if a := annotNonZero(t); a != "" {
			res.AddBreak(proto.Break{Kind: "correspondence", Name: "annotations-empty", Case: label, Human: in.human(), Impl: a + " is set in a parsed tree", Model: "annotation fields are empty in parsed trees"})
		}
		t.each(func(x *tnode) {
			for _, f := range x.fields {
				for _, ch := range f.children {
					if e, ok := ch.node.(ast.Expression); ok && r.neverPar[x.kind][f.path] && e.Parenthesis() != 0 {
						res.AddBreak(proto.Break{Kind: "correspondence", Name: "never-parenthesised", Case: label, Human: in.human(), Impl: fmt.Sprintf("%s.%s has %d parentheses in a parsed tree", x.kind, f.path, e.Parenthesis()), Model: "neverParenthesised " + x.kind + " lists " + f.path})
					}
				}
				if r.neverNil[x.kind][f.path] && len(f.children) == 0 {
					res.AddBreak(proto.Break{Kind: "correspondence", Name: "never-nil", Case: label, Human: in.human(), Impl: x.kind + "." + f.path + " is nil in a parsed tree", Model: "neverNil " + x.kind + " lists " + f.path})
				}
			}
		})
		for _, f := range r.oracles(tree) {
			if f.clause == "walk-visits-every-node-once" {
				unknown, known := r.unknownRows(f)
				// a known row is reported once, by replaying the finding's minimal case (replayFindings)
				if _ = known; len(unknown) == 0 {
					continue
				}
				f.detail = "rows: " + strings.Join(unknown, ", ")
			}
			small := in
			if r.reported[f.clause] < 3 { // shrinking re-runs the oracles many times: only for what will be kept
				small = r.shrink(in, f.clause)
			}
			r.reported[f.clause]++
			detail := f.detail
			if small != in {
				if tr, err, p := small.parse(); err == nil && p == "" {
					for _, g := range r.oracles(tr) {
						if g.clause == f.clause {
							detail = g.detail
							if g.clause == "walk-visits-every-node-once" {
								u, _ := r.unknownRows(g)
								detail = "rows: " + strings.Join(u, ", ")
							}
						}
					}
				}
			}
			res.AddBreak(proto.Break{Kind: "property", Name: f.clause, Case: label, Human: small.human(), Impl: detail, Model: "the copy is an independent equal tree; Walk visits every node of the tree exactly once"})
		}
	}
	if r.c.D == nil || r.noTie {
		return
	}
	// clone tie: the model's copy vs. the shape of the real copy
	enc, _ := encode(t, 0)
	var clone ast.Node
	cp := try(func() { clone = astutil.CloneNode(tree) })
	r.lines = append(r.lines, fmt.Sprintf("C28 clone %d %s", n, enc))
	r.expect = append(r.expect, func(resp string) {
		impl := "err panic " + short(cp, 200)
		if cp == "" {
			e, _ := encode(build(clone, true), n)
			impl = "ok " + e
		}
		if impl != resp {
			res.AddBreak(proto.Break{Kind: "correspondence", Name: "clone-model", Case: short(fmt.Sprintf("C28 clone %d %s", n, enc), 2000), Human: in.human(), Impl: short(firstDiff(impl, resp), 400), Model: short(firstDiff(resp, impl), 400)})
		}
	})
	// walk tie: the model's visits vs. the real visits, as multisets of pre-order identities
	tw := build(tree, false)
	encw, ids := encode(tw, 0)
	byPtr := map[uintptr]int{}
	for x, id := range ids {
		byPtr[x.ptr] = id
	}
	v := &visitor{}
	wp := try(func() { astutil.Walk(v, tree) })
	r.lines = append(r.lines, "C28 walk "+encw)
	r.expect = append(r.expect, func(resp string) {
		impl := "err panic " + short(wp, 200)
		if wp == "" {
			var got []int
			for _, x := range v.seen {
				id, ok := byPtr[ptrOfNode(x)]
				if !ok {
					id = -1
				}
				got = append(got, id)
			}
			sort.Ints(got)
			impl = "ok" + joinInts(got)
		}
		model := resp
		if strings.HasPrefix(resp, "ok") {
			var m []int
			for _, w := range strings.Fields(resp)[1:] {
				k, _ := strconv.Atoi(w)
				m = append(m, k)
			}
			sort.Ints(m)
			model = "ok" + joinInts(m)
		}
		if impl != model {
			res.AddBreak(proto.Break{Kind: "correspondence", Name: "walk-model", Case: short("C28 walk "+encw, 2000), Human: in.human(), Impl: short(firstDiff(impl, model), 400), Model: short(firstDiff(model, impl), 400)})
		}
	})
	if len(r.lines) >= 400 {
		r.flush()
	}
}

func (r *runner) flush() {
	if len(r.lines) == 0 || r.c.D == nil {
		return
	}
	resp, err := r.c.D.Batch(r.lines)
	if err != nil {
		r.c.Res.AddBreak(proto.Break{Kind: "correspondence", Name: "driver", Case: "batch", Impl: err.Error(), Model: ""})
	} else {
		for i, f := range r.expect {
			f(resp[i])
		}
	}
	r.lines, r.expect = nil, nil
}

func joinInts(xs []int) string {
	var b strings.Builder
	for _, x := range xs {
		b.WriteString(" " + strconv.Itoa(x))
	}
	return b.String()
}

func firstDiff(a, b string) string {
	i := 0
	for i < len(a) && i < len(b) && a[i] == b[i] {
		i++
	}
	return "…" + a[max(i-80, 0):]
}

func bucket(n int) int {
	for _, b := range []int{8, 32, 128, 512, 2048, 8192} {
		if n < b {
			return b
		}
	}
	return 1 << 30
}

// ---- table tie ---------------------------------------------------------------------------

func (r *runner) ask(line string) []string {
	resp, err := r.c.D.Ask(line)
	if err != nil || !strings.HasPrefix(resp, "ok") {
		r.c.Res.AddBreak(proto.Break{Kind: "correspondence", Name: "tables", Case: line, Impl: "", Model: resp + fmt.Sprint(err)})
		return nil
	}
	return strings.Fields(resp)[1:]
}

func (r *runner) tables() {
	res := r.c.Res
	diff := func(what, kind string, impl, model []string) {
		if strings.Join(impl, " ") != strings.Join(model, " ") {
			res.AddBreak(proto.Break{Kind: "correspondence", Name: "tables", Case: "C28 " + what + " " + kind, Human: "reflection on ast." + kind + " vs Gen/AstSchema.lean",
				Impl: strings.Join(impl, " "), Model: strings.Join(model, " ")})
		}
	}
	var names []string
	for _, z := range registry {
		names = append(names, reflect.TypeOf(z).Elem().Name())
	}
	sort.Strings(names)
	kinds := r.ask("C28 kinds")
	sorted := append([]string{}, kinds...)
	sort.Strings(sorted)
	diff("kinds", "", names, sorted)
	var annots []string
	for _, z := range registry {
		t := reflect.TypeOf(z).Elem()
		k := t.Name()
		var schema, xref, ptr, list []string
		for _, f := range fieldsOfStruct(t, "", false) {
			schema = append(schema, f.path)
			if f.xref {
				xref = append(xref, f.path)
			}
			if f.list {
				list = append(list, f.path)
			} else if f.typ.Kind() == reflect.Ptr {
				ptr = append(ptr, f.path)
			}
		}
		for i := 0; i < t.NumField(); i++ {
			if isAnnot(k, t.Field(i).Name) {
				annots = append(annots, k+"."+t.Field(i).Name)
			}
		}
		diff("schema", k, schema, r.ask("C28 schema "+k))
		diff("xref", k, xref, r.ask("C28 xref "+k))
		diff("ptr", k, ptr, r.ask("C28 ptr "+k))
		diff("list", k, list, r.ask("C28 list "+k))
		_, isExpr := z.(ast.Expression)
		diff("isexpr", k, []string{fmt.Sprint(isExpr)}, r.ask("C28 isexpr "+k))
		r.neverNil[k] = map[string]bool{}
		for _, f := range r.ask("C28 neverNil " + k) {
			r.neverNil[k][f] = true
		}
		r.neverPar[k] = map[string]bool{}
		for _, f := range r.ask("C28 neverParenthesised " + k) {
			r.neverPar[k][f] = true
		}
		res.Count("table "+k, true)
	}
	sort.Strings(annots)
	ma := r.ask("C28 annotations")
	sort.Strings(ma)
	diff("annotations", "", annots, ma)
}

// ---- known findings ----------------------------------------------------------------------

// replayFindings replays the minimal case of each open finding on the real code.
func (r *runner) replayFindings() {
	for _, f := range r.c.Findings {
		in := &input{name: "finding " + f.ID, files: map[string]string{"index.html": f.Minimal}, main: "index.html"}
		tree, err, p := in.parse()
		if err != nil || p != "" {
			r.c.Res.Notes = append(r.c.Res.Notes, "finding "+f.ID+": minimal case does not parse any more")
			continue
		}
		for _, fl := range r.oracles(tree) {
			if fl.clause != "walk-visits-every-node-once" {
				continue
			}
			for _, got := range fl.rows {
				if r.walkRows[got] == f.ID {
					r.c.Res.AddBreak(proto.Break{Kind: "property", Name: fl.clause, Case: "template " + strconv.Quote(f.Minimal), Human: f.Minimal,
						Impl: "rows: " + strings.Join(fl.rows, ", "), Model: "every node visited exactly once", Finding: f.ID})
					break
				}
			}
		}
	}
}

func run(c *hx.Ctx) error {
	tStart := time.Now()
	subCloneLimit = c.N(100, 400)
	// proto.NewRand(seed) starts seed k at the state seed 1 reaches after k-1 draws: the streams
	// of different seeds are shifts of one another. Re-key from the first output.
	c.R = proto.NewRand(c.R.U64())
	res := c.Res
	res.Rule = "trees parsed (through the verif hook on compiler.ParseProgram / ParseTemplate) from the corpus /repo/test/compare/testdata (every .go file and .dir program, every template) and from grammar-generated programs and template file systems (extends/import/render, macros, using, raw, URLs), plus the parenthesis matrix (every expression form of the grammar with 0/1/2 enclosing parentheses in every expression position of templates and programs; every expression kind of the schema with 0/1/2 parentheses in every child slot of every node kind that accepts it, cloned with CloneExpression / CloneNode / CloneTree), every node of a tree of at most 100 (thorough: 400) nodes also cloned by itself with every cloning function that accepts it, plus synthetic nodes of every kind (all children set / random children nil) for the model ties only; a case is one tree, distinct by source, non-trivial when the tree has at least 8 nodes"
	r := &runner{c: c, neverNil: map[string]map[string]bool{}, neverPar: map[string]map[string]bool{}, kindsSeen: map[string]int{}, reported: map[string]int{},
		walkRows: map[string]string{"Call.Func": "walk-call-func", "Func.Ident": "walk-func-children", "Func.Type": "walk-func-children", "Func.Body": "walk-func-children"}}
	if c.D != nil {
		r.tables()
	}
	r.replayFindings()

	// corpus
	ins := corpus()
	if len(ins) < 500 {
		return fmt.Errorf("corpus not found under %s (only %d files)", repoRoot(), len(ins))
	}
	limit := c.N(700, len(ins))
	// deterministic sample for the quick tier: all templates and .dir inputs, programs by seed
	var chosen []*input
	var progs []*input
	for _, in := range ins {
		if !in.prog || in.main == "" {
			chosen = append(chosen, in)
		} else {
			progs = append(progs, in)
		}
	}
	for i := len(progs) - 1; i > 0; i-- {
		j := c.R.Intn(i + 1)
		progs[i], progs[j] = progs[j], progs[i]
	}
	for _, in := range progs {
		if len(chosen) >= limit {
			break
		}
		chosen = append(chosen, in)
	}
	for _, in := range chosen {
		tree, err, p := in.parse()
		switch {
		case p != "":
			res.Hist("corpus-parser-panics") // C04's business; noted, not judged here
			continue
		case err != nil || tree == nil:
			res.Hist("corpus-parse-error")
			continue
		}
		res.Hist("corpus-parsed")
		r.checkTree(in, tree, true, "corpus "+in.name)
	}

	// generated
	for i := 0; i < c.N(900, 20000); i++ {
		g := &srcGen{r: c.R}
		var in *input
		if i%2 == 0 {
			in = &input{name: fmt.Sprintf("gen-program-%d", i), files: map[string]string{"main.go": g.program()}, prog: true}
		} else {
			files, main := g.templateFS()
			in = &input{name: fmt.Sprintf("gen-template-%d", i), files: files, main: main}
		}
		tree, err, p := in.parse()
		switch {
		case p != "":
			res.Hist("gen-parser-panics")
			continue
		case err != nil || tree == nil:
			res.Hist("gen-parse-error")
			continue
		}
		res.Hist("gen-parsed")
		if i < 6 {
			res.Sample(map[string]string{"input": in.name, "source": short(in.human(), 400)})
		}
		r.checkTree(in, tree, true, in.name+"#"+strconv.FormatUint(c.Seed, 10))
	}

	// every expression form x 0/1/2 parentheses x every expression position (sources)
	t0 := time.Now()
	r.parenSources()
	t1 := time.Now()
	// every expression kind x 0/1/2 parentheses x every slot of every node kind that accepts it
	if c.D != nil { // the written assumptions (neverNil, neverParenthesised) are read through the driver
		r.parenSynthetic()
		r.attrTies()
	}
	if os.Getenv("C28_TIMES") != "" {
		fmt.Fprintf(os.Stderr, "paren sources %v, synthetic+ties %v, before %v\n", t1.Sub(t0), time.Since(t1), t0.Sub(tStart))
	}

	// synthetic nodes of every kind: ties only
	for _, z := range registry {
		k := reflect.TypeOf(z).Elem().Name()
		if k == "Placeholder" {
			continue // has a nil position and no children; nothing to tie
		}
		for variant := 0; variant < c.N(6, 40); variant++ {
			node := synth(reflect.TypeOf(z).Elem(), c.R, variant == 0, r.neverNil, 0)
			in := &input{name: fmt.Sprintf("synthetic %s #%d", k, variant)}
			var cp, wp string
			cp = try(func() { astutil.CloneNode(node) })
			wp = try(func() { astutil.Walk(&visitor{}, node) })
			if cp != "" || wp != "" {
				res.AddBreak(proto.Break{Kind: "correspondence", Name: "nil-safety", Case: in.name, Human: canonOf(node),
					Impl: "clone: " + short(cp, 150) + " walk: " + short(wp, 150), Model: "cloneUnguarded/walkUnguarded ⊆ neverNil: every other child may be nil"})
				continue
			}
			r.checkTree(in, node, false, in.name)
		}
	}
	r.flush()
	for k, n := range r.kindsSeen {
		res.Histogram["kind "+k] = n
	}
	var never []string
	for _, z := range registry {
		k := reflect.TypeOf(z).Elem().Name()
		if r.kindsSeen[k] == 0 {
			never = append(never, k)
		}
	}
	if len(never) > 0 {
		res.Notes = append(res.Notes, "node kinds never seen: "+strings.Join(never, " "))
	}
	return nil
}
