package main

import (
	"fmt"
	"reflect"
	"sort"
	"strconv"
	"strings"
	"unsafe"

	"github.com/open2b/scriggo/ast"
)

// Reflection view of ast trees, written independently of clone.go / walk.go and of the
// generated tables: which fields of a node struct hold child nodes is decided from the
// *static types* of the struct fields only.

var (
	nodeType     = reflect.TypeOf((*ast.Node)(nil)).Elem()
	positionType = reflect.TypeOf((*ast.Position)(nil))
	treeType     = reflect.TypeOf((*ast.Tree)(nil))
)

// annotation fields: written by the type checker, never by the parser (the harness checks
// on every parsed tree that they are zero, see canon/annotZero).
func isAnnot(structName, field string) bool {
	return field == "IR" || (structName == "Func" && field == "Upvars") || (structName == "FuncType" && field == "Reflect")
}

// isNodeType reports whether a static field type holds one node: an interface that
// includes ast.Node, or a pointer to a struct that implements ast.Node (ast.Position
// itself, which implements Node only to lend Pos() to the nodes, is not a node).
func isNodeType(t reflect.Type) bool {
	if t == positionType {
		return false
	}
	switch t.Kind() {
	case reflect.Interface:
		return t.Implements(nodeType)
	case reflect.Ptr:
		return t.Elem().Kind() == reflect.Struct && t.Implements(nodeType)
	}
	return false
}

func isAggregate(t reflect.Type) (reflect.Type, bool) {
	if t.Kind() == reflect.Ptr {
		t = t.Elem()
	}
	if t.Kind() != reflect.Struct || t.PkgPath() != "github.com/open2b/scriggo/ast" {
		return nil, false
	}
	if reflect.PtrTo(t).Implements(nodeType) {
		return nil, false
	}
	return t, true
}

// slot is one place of a node that holds (or may hold) a child node.
type slot struct {
	path string        // "Lhs", "Parameters.Ident", …
	list bool          // element of a slice (directly or through an aggregate)
	v    reflect.Value // the settable place (interface or pointer typed)
	xref bool          // *ast.Tree held by Extends / Import / Render: another tree, expanded
}

// slotsOfType lists the child-bearing field paths of a struct type, in declaration order.
type fieldInfo struct {
	path string
	list bool
	xref bool
	typ  reflect.Type
}

func fieldsOfStruct(t reflect.Type, prefix string, inList bool) []fieldInfo {
	var out []fieldInfo
	for i := 0; i < t.NumField(); i++ {
		f := t.Field(i)
		if f.Anonymous || isAnnot(t.Name(), f.Name) {
			continue
		}
		ft := f.Type
		switch {
		case isNodeType(ft):
			out = append(out, fieldInfo{prefix + f.Name, inList, ft == treeType && t.Name() != "Tree", ft})
		case ft.Kind() == reflect.Slice && isNodeType(ft.Elem()):
			out = append(out, fieldInfo{prefix + f.Name, true, false, ft.Elem()})
		case ft.Kind() == reflect.Slice:
			if at, ok := isAggregate(ft.Elem()); ok {
				out = append(out, fieldsOfStruct(at, prefix+f.Name+".", true)...)
			}
		default:
			if at, ok := isAggregate(ft); ok && ft.Kind() == reflect.Struct {
				// a struct-valued field with node children would be a shape this harness does not know
				if len(fieldsOfStruct(at, "", false)) > 0 {
					panic("c28: struct-valued aggregate field with children: " + t.Name() + "." + f.Name)
				}
			}
		}
	}
	return out
}

// slots enumerates the child places of node n (a pointer to a node struct), in field
// declaration order, elements of lists in index order, aggregates element by element.
func slots(n reflect.Value) []slot {
	var out []slot
	var rec func(sv reflect.Value, prefix string, inList bool)
	rec = func(sv reflect.Value, prefix string, inList bool) {
		t := sv.Type()
		for i := 0; i < t.NumField(); i++ {
			f := t.Field(i)
			if f.Anonymous || isAnnot(t.Name(), f.Name) {
				continue
			}
			fv := sv.Field(i)
			ft := f.Type
			switch {
			case isNodeType(ft):
				out = append(out, slot{prefix + f.Name, inList, fv, ft == treeType && t.Name() != "Tree"})
			case ft.Kind() == reflect.Slice && isNodeType(ft.Elem()):
				for j := 0; j < fv.Len(); j++ {
					out = append(out, slot{prefix + f.Name, true, fv.Index(j), false})
				}
			case ft.Kind() == reflect.Slice:
				if _, ok := isAggregate(ft.Elem()); ok {
					for j := 0; j < fv.Len(); j++ {
						ev := fv.Index(j)
						if ev.Kind() == reflect.Ptr {
							if ev.IsNil() {
								continue
							}
							ev = ev.Elem()
						}
						rec(ev, prefix+f.Name+".", true)
					}
				}
			}
		}
	}
	rec(n.Elem(), "", false)
	return out
}

// isNilNode reports whether a slot value holds no node (nil interface or nil pointer,
// including a typed nil pointer inside an interface).
func isNilNode(v reflect.Value) bool {
	if v.Kind() == reflect.Interface {
		if v.IsNil() {
			return true
		}
		v = v.Elem()
	}
	return v.Kind() == reflect.Ptr && v.IsNil()
}

func ptrOf(v reflect.Value) reflect.Value {
	if v.Kind() == reflect.Interface {
		v = v.Elem()
	}
	return v
}

func kindOf(v reflect.Value) string { return ptrOf(v).Type().Elem().Name() }

// tnode is the harness's own picture of a tree: kind, identity (address) and children
// grouped by field path.
type tnode struct {
	kind   string
	ptr    uintptr
	node   ast.Node
	fields []tfield
}
type tfield struct {
	path     string
	xref     bool
	children []*tnode
}

// build makes the picture of the tree rooted at n following every child slot; xref=true
// also follows the expanded trees of Extends / Import / Render.
func build(n ast.Node, followXref bool) *tnode {
	return buildV(reflect.ValueOf(n), followXref)
}

func buildV(v reflect.Value, followXref bool) *tnode {
	p := ptrOf(v)
	t := &tnode{kind: p.Type().Elem().Name(), ptr: p.Pointer(), node: p.Interface().(ast.Node)}
	for _, s := range slots(p) {
		if len(t.fields) == 0 || t.fields[len(t.fields)-1].path != s.path {
			t.fields = append(t.fields, tfield{path: s.path, xref: s.xref})
		}
		if isNilNode(s.v) || (s.xref && !followXref) {
			continue
		}
		f := &t.fields[len(t.fields)-1]
		f.children = append(f.children, buildV(s.v, followXref))
	}
	return t
}

func (t *tnode) each(f func(*tnode)) {
	f(t)
	for _, fl := range t.fields {
		for _, c := range fl.children {
			c.each(f)
		}
	}
}

func (t *tnode) count() int { n := 0; t.each(func(*tnode) { n++ }); return n }

// canon is the canonical text of everything reachable from v: every exported and
// unexported field, position values, text bytes; nil and empty slices are the same; pointer
// identity is not part of it. Two trees are structurally equal iff their canon is equal.
func canon(v reflect.Value, b *strings.Builder, depth int) {
	if depth > 10000 {
		panic("c28: canon: depth")
	}
	switch v.Kind() {
	case reflect.Interface:
		if v.IsNil() {
			b.WriteString("nil")
			return
		}
		canon(v.Elem(), b, depth+1)
	case reflect.Ptr:
		if v.IsNil() {
			b.WriteString("nil")
			return
		}
		if v.Type().String() == "*reflect.Value" || v.Type().String() == "*reflect.rtype" {
			b.WriteString("<reflect>")
			return
		}
		b.WriteString("&")
		canon(v.Elem(), b, depth+1)
	case reflect.Struct:
		t := v.Type()
		b.WriteString(t.Name())
		b.WriteString("{")
		for i := 0; i < t.NumField(); i++ {
			if i > 0 {
				b.WriteString(",")
			}
			b.WriteString(t.Field(i).Name)
			b.WriteString(":")
			canon(v.Field(i), b, depth+1)
		}
		b.WriteString("}")
	case reflect.Slice:
		if v.Type().Elem().Kind() == reflect.Uint8 {
			bs := make([]byte, v.Len())
			for i := range bs {
				bs[i] = byte(v.Index(i).Uint())
			}
			b.WriteString(strconv.Quote(string(bs)))
			return
		}
		b.WriteString("[")
		for i := 0; i < v.Len(); i++ {
			if i > 0 {
				b.WriteString(",")
			}
			canon(v.Index(i), b, depth+1)
		}
		b.WriteString("]")
	case reflect.Map:
		b.WriteString("map(" + strconv.Itoa(v.Len()) + ")")
	case reflect.String:
		b.WriteString(strconv.Quote(v.String()))
	case reflect.Bool:
		b.WriteString(strconv.FormatBool(v.Bool()))
	case reflect.Int, reflect.Int8, reflect.Int16, reflect.Int32, reflect.Int64:
		b.WriteString(strconv.FormatInt(v.Int(), 10))
	case reflect.Uint, reflect.Uint8, reflect.Uint16, reflect.Uint32, reflect.Uint64:
		b.WriteString(strconv.FormatUint(v.Uint(), 10))
	default:
		panic("c28: canon: unexpected kind " + v.Kind().String() + " " + v.Type().String())
	}
}

func canonOf(n ast.Node) string {
	var b strings.Builder
	canon(reflect.ValueOf(n), &b, 0)
	return b.String()
}

// refs collects the address of every piece of mutable memory reachable from v: pointed-to
// structs, non-empty slice backing arrays, maps. Strings are immutable and not collected.
func refs(v reflect.Value, out map[uintptr]string, where string) {
	switch v.Kind() {
	case reflect.Interface:
		if !v.IsNil() {
			refs(v.Elem(), out, where)
		}
	case reflect.Ptr:
		if v.IsNil() {
			return
		}
		if strings.HasPrefix(v.Type().String(), "*reflect.") {
			return
		}
		if v.Type().Elem().Size() > 0 {
			if _, seen := out[v.Pointer()]; seen {
				return
			}
			out[v.Pointer()] = where + ":" + v.Type().String()
		}
		refs(v.Elem(), out, where)
	case reflect.Struct:
		t := v.Type()
		for i := 0; i < t.NumField(); i++ {
			w := where
			if t.PkgPath() == "github.com/open2b/scriggo/ast" {
				w = t.Name() + "." + t.Field(i).Name
			}
			refs(v.Field(i), out, w)
		}
	case reflect.Slice:
		if v.Len() > 0 {
			out[v.Pointer()] = where + ":" + v.Type().String()
		}
		for i := 0; i < v.Len(); i++ {
			refs(v.Index(i), out, where)
		}
	case reflect.Map:
		if !v.IsNil() {
			out[v.Pointer()] = where + ":" + v.Type().String()
		}
	}
}

// settable returns an addressable, settable view of a (possibly unexported) field.
func settable(v reflect.Value) reflect.Value {
	if v.CanSet() {
		return v
	}
	return reflect.NewAt(v.Type(), unsafe.Pointer(v.UnsafeAddr())).Elem()
}

// smash overwrites every piece of memory the tree rooted at v owns: scalars are changed,
// bytes of slices flipped, positions changed, child slots set to nil after their subtree
// has been smashed. seen guards shared subtrees (DAG through Import.Tree).
func smash(v reflect.Value, seen map[uintptr]bool) {
	switch v.Kind() {
	case reflect.Interface:
		if v.IsNil() {
			return
		}
		e := v.Elem()
		if e.Kind() == reflect.Ptr {
			smash(e, seen)
		}
		settable(v).Set(reflect.Zero(v.Type()))
	case reflect.Ptr:
		if v.IsNil() || strings.HasPrefix(v.Type().String(), "*reflect.") {
			return
		}
		if !seen[v.Pointer()] {
			seen[v.Pointer()] = true
			smash(v.Elem(), seen)
		}
		if v.CanAddr() {
			settable(v).Set(reflect.Zero(v.Type()))
		}
	case reflect.Struct:
		for i := 0; i < v.NumField(); i++ {
			smash(v.Field(i), seen)
		}
	case reflect.Slice:
		for i := 0; i < v.Len(); i++ {
			smash(v.Index(i), seen)
		}
		if v.CanAddr() {
			settable(v).Set(reflect.Zero(v.Type()))
		}
	case reflect.String:
		if v.CanAddr() {
			settable(v).SetString(v.String() + "\x00smashed")
		}
	case reflect.Bool:
		if v.CanAddr() {
			settable(v).SetBool(!v.Bool())
		}
	case reflect.Int, reflect.Int8, reflect.Int16, reflect.Int32, reflect.Int64:
		if v.CanAddr() {
			settable(v).SetInt(v.Int() ^ 0x55)
		}
	case reflect.Uint, reflect.Uint8, reflect.Uint16, reflect.Uint32, reflect.Uint64:
		if v.CanAddr() {
			settable(v).SetUint(v.Uint() ^ 0x55)
		}
	}
}

// annotNonZero returns the first annotation field (IR, Upvars, Reflect) that is not zero in
// the tree rooted at t, or "".
func annotNonZero(t *tnode) string {
	bad := ""
	t.each(func(n *tnode) {
		if bad != "" {
			return
		}
		sv := reflect.ValueOf(n.node).Elem()
		st := sv.Type()
		for i := 0; i < st.NumField(); i++ {
			if isAnnot(st.Name(), st.Field(i).Name) && !isZeroDeep(sv.Field(i)) {
				bad = st.Name() + "." + st.Field(i).Name
			}
		}
	})
	return bad
}

func isZeroDeep(v reflect.Value) bool {
	switch v.Kind() {
	case reflect.Struct:
		for i := 0; i < v.NumField(); i++ {
			if !isZeroDeep(v.Field(i)) {
				return false
			}
		}
		return true
	case reflect.Slice, reflect.Map:
		return v.Len() == 0
	}
	return v.IsZero()
}

func sortedKeys(m map[string]int) []string {
	ks := make([]string, 0, len(m))
	for k := range m {
		ks = append(ks, k)
	}
	sort.Strings(ks)
	return ks
}

func short(s string, n int) string {
	if len(s) > n {
		return s[:n] + fmt.Sprintf("…(+%d)", len(s)-n)
	}
	return s
}
