package main

import (
	"fmt"
	"strings"

	"verifharness/internal/proto"
)

// Grammar-directed generator of Scriggo programs and templates that only needs to *parse*
// (no type correctness): its purpose is to reach every node kind and every optional child
// of ast.go in many combinations.

type srcGen struct {
	r     *proto.Rand
	depth int
	n     int // fresh names
	tmpl  bool
}

func (g *srcGen) pick(xs ...string) string { return xs[g.r.Intn(len(xs))] }
func (g *srcGen) chance(n int) bool        { return g.r.Intn(n) == 0 }
func (g *srcGen) name() string {
	return g.pick("a", "b", "c", "x", "y", "n", "s", "v", "ok", "err", "T", "S", "f", "g")
}
func (g *srcGen) fresh(p string) string { g.n++; return fmt.Sprintf("%s%d", p, g.n) }

func (g *srcGen) typ() string {
	if g.depth > 4 {
		return g.pick("int", "string", "T", "bool", "float64")
	}
	g.depth++
	defer func() { g.depth-- }()
	switch g.r.Intn(16) {
	case 0:
		return "[]" + g.typ()
	case 1:
		return "map[" + g.pick("string", "int", "T") + "]" + g.typ()
	case 2:
		return g.pick("chan ", "<-chan ", "chan<- ") + g.typ()
	case 3:
		return "*" + g.typ()
	case 4:
		return g.pick("[3]", "[n]", "[2*2]") + g.typ()
	case 5:
		return "interface{}"
	case 6:
		var fs []string
		for i := g.r.Intn(4); i > 0; i-- {
			switch g.r.Intn(4) {
			case 0:
				fs = append(fs, g.pick("T", "*T", "pkg.T")) // embedded
			case 1:
				fs = append(fs, g.fresh("F")+", "+g.fresh("G")+" "+g.typ())
			case 2:
				fs = append(fs, g.fresh("F")+" "+g.typ()+" `json:\"x\"`")
			default:
				fs = append(fs, g.fresh("F")+" "+g.typ())
			}
		}
		return "struct{ " + strings.Join(fs, "; ") + " }"
	case 7:
		return "func" + g.signature()
	case 8:
		return "pkg.T"
	}
	return g.pick("int", "string", "T", "bool", "float64", "error", "byte", "rune")
}

func (g *srcGen) signature() string {
	var ps []string
	named := g.r.Bool()
	n := g.r.Intn(4)
	for i := 0; i < n; i++ {
		t := g.typ()
		if i == n-1 && g.chance(4) {
			t = "..." + t
		}
		if named {
			ps = append(ps, g.fresh("p")+" "+t)
		} else {
			ps = append(ps, t)
		}
	}
	s := "(" + strings.Join(ps, ", ") + ")"
	switch g.r.Intn(5) {
	case 0:
		s += " " + g.typ()
	case 1:
		s += " (" + g.typ() + ", error)"
	case 2:
		s += " (" + g.fresh("r") + " " + g.typ() + ", " + g.fresh("e") + " error)"
	}
	return s
}

func (g *srcGen) lit() string {
	return g.pick("0", "1", "42", "0x1F", "1.5", "2e3", `"s"`, "`raw`", "'c'", "3i", "true", "nil", `"a\"b"`, "07")
}

func (g *srcGen) expr() string {
	if g.depth > 5 {
		if g.r.Bool() {
			return g.name()
		}
		return g.lit()
	}
	g.depth++
	defer func() { g.depth-- }()
	switch g.r.Intn(24) {
	case 0, 1:
		return g.expr() + " " + g.pick("+", "-", "*", "/", "%", "==", "!=", "<", "<=", ">", ">=", "&&", "||", "&", "|", "^", "&^", "<<", ">>") + " " + g.expr()
	case 2:
		return g.pick("-", "!", "^", "*", "&", "<-", "+") + g.expr()
	case 3:
		return "(" + g.expr() + ")"
	case 4:
		return "((" + g.expr() + "))"
	case 5, 6:
		var as []string
		n := g.r.Intn(4)
		for i := 0; i < n; i++ {
			as = append(as, g.expr())
		}
		s := strings.Join(as, ", ")
		if n > 0 && g.chance(5) {
			s += "..."
		}
		return g.callee() + "(" + s + ")"
	case 7:
		return g.primary() + "[" + g.expr() + "]"
	case 8:
		switch g.r.Intn(5) {
		case 0:
			return g.primary() + "[:]"
		case 1:
			return g.primary() + "[" + g.expr() + ":]"
		case 2:
			return g.primary() + "[:" + g.expr() + "]"
		case 3:
			return g.primary() + "[" + g.expr() + ":" + g.expr() + "]"
		}
		return g.primary() + "[" + g.expr() + ":" + g.expr() + ":" + g.expr() + "]"
	case 9:
		return g.primary() + "." + g.pick("F", "G", "Len", "x")
	case 10:
		return g.primary() + ".(" + g.typ() + ")"
	case 11:
		return g.composite()
	case 12:
		return "func" + g.signature() + " " + g.block()
	case 13:
		return g.pick("[]int", "string", "float64", "T", "[]byte", "(*T)") + "(" + g.expr() + ")"
	case 14:
		return g.pick("make", "new", "len", "cap", "append") + "(" + g.typ() + ")"
	case 15, 16, 17:
		return g.lit()
	}
	return g.name()
}

func (g *srcGen) callee() string {
	if g.chance(4) {
		return g.primary() + "." + g.pick("M", "Do", "Len")
	}
	if g.chance(6) {
		return "(func" + g.signature() + " " + g.block() + ")"
	}
	return g.pick("f", "g", "println", "print", "len", "pkg.F", "fmt.Println", "T")
}

func (g *srcGen) primary() string {
	switch g.r.Intn(5) {
	case 0:
		return "(" + g.expr() + ")"
	case 1:
		return g.name() + "." + g.name()
	case 2:
		return g.name() + "[" + g.lit() + "]"
	}
	return g.name()
}

func (g *srcGen) composite() string {
	var kvs []string
	for i := g.r.Intn(4); i > 0; i-- {
		switch g.r.Intn(4) {
		case 0:
			kvs = append(kvs, g.expr()+": "+g.expr())
		case 1:
			kvs = append(kvs, g.pick("F", "G")+": "+g.expr())
		case 2:
			kvs = append(kvs, "{"+g.expr()+", "+g.expr()+"}")
		default:
			kvs = append(kvs, g.expr())
		}
	}
	t := g.pick("[]int", "map[string]int", "T", "[...]string", "[2]T", "pkg.T", "struct{ A int }", "[][]int", "&T")
	s := t + "{" + strings.Join(kvs, ", ") + "}"
	if g.chance(6) {
		s = "(" + s + ")"
	}
	return s
}

func (g *srcGen) simple() string {
	switch g.r.Intn(9) {
	case 0:
		return g.name() + " := " + g.expr()
	case 1:
		return g.name() + ", " + g.name() + " := " + g.expr() + ", " + g.expr()
	case 2:
		return g.primary() + " = " + g.expr()
	case 3:
		return g.name() + " " + g.pick("+=", "-=", "*=", "/=", "%=", "&=", "|=", "^=", "<<=", ">>=", "&^=") + " " + g.expr()
	case 4:
		return g.name() + g.pick("++", "--")
	case 5:
		return g.name() + " <- " + g.expr()
	case 6:
		return g.name() + ", " + g.name() + " = " + g.callee() + "()"
	}
	return g.callee() + "(" + g.expr() + ")"
}

func (g *srcGen) block() string {
	if g.depth > 5 {
		return "{ }"
	}
	var ss []string
	for i := g.r.Intn(4); i > 0; i-- {
		ss = append(ss, g.stmt())
	}
	return "{\n" + strings.Join(ss, "\n") + "\n}"
}

func (g *srcGen) stmt() string {
	if g.depth > 5 {
		return g.simple()
	}
	g.depth++
	defer func() { g.depth-- }()
	switch g.r.Intn(30) {
	case 0:
		return "var " + g.name() + " " + g.typ()
	case 1:
		return "var " + g.name() + ", " + g.name() + " = " + g.expr() + ", " + g.expr()
	case 2:
		return "var " + g.name() + " " + g.typ() + " = " + g.expr()
	case 3:
		return "var (\n" + g.name() + " = " + g.expr() + "\n" + g.name() + ", " + g.name() + " " + g.typ() + "\n)"
	case 4:
		return "const " + g.name() + " = " + g.expr()
	case 5:
		return "const (\n" + g.name() + " " + g.pick("", "int", "T") + " = iota\n" + g.name() + "\n" + g.name() + ", " + g.name() + " = " + g.expr() + ", " + g.expr() + "\n" + g.name() + ", " + g.name() + "\n)"
	case 6:
		return "type " + g.pick("T", "S", "U") + g.pick(" ", " = ") + g.typ()
	case 7:
		s := "if "
		if g.chance(3) {
			s += g.simple() + "; "
		}
		s += g.expr() + " " + g.block()
		for g.chance(3) {
			s += " else if " + g.expr() + " " + g.block()
		}
		if g.r.Bool() {
			s += " else " + g.block()
		}
		return s
	case 8:
		switch g.r.Intn(4) {
		case 0:
			return "for " + g.block()
		case 1:
			return "for " + g.expr() + " " + g.block()
		case 2:
			return "for " + g.pick("", g.simple()) + "; " + g.pick("", g.expr()) + "; " + g.pick("", g.name()+"++") + " " + g.block()
		}
		return "for " + g.simple() + "; " + g.expr() + "; " + g.simple() + " " + g.block()
	case 9:
		return "for " + g.pick("", "_ = ", "i := ", "i, v := ", "_, v := ", "k, m[k] = ", "x.F = ") + "range " + g.expr() + " " + g.block()
	case 10:
		s := "switch "
		if g.chance(3) {
			s += g.simple() + "; "
		}
		if g.r.Bool() {
			s += g.expr() + " "
		}
		s += "{\n"
		for i := g.r.Intn(4); i > 0; i-- {
			s += "case " + g.expr() + g.pick("", ", "+g.expr()) + ":\n" + g.stmt() + "\n" + g.pick("", "", "fallthrough\n")
		}
		if g.r.Bool() {
			s += "default:\n" + g.stmt() + "\n"
		}
		return s + "}"
	case 11:
		s := "switch " + g.pick("", g.simple()+"; ") + g.pick("", "v := ") + g.primary() + ".(type) {\n"
		for i := g.r.Intn(3); i > 0; i-- {
			s += "case " + g.typ() + g.pick("", ", nil", ", "+g.typ()) + ":\n" + g.stmt() + "\n"
		}
		if g.r.Bool() {
			s += "default:\n"
		}
		return s + "}"
	case 12:
		s := "select {\n"
		for i := g.r.Intn(4); i > 0; i-- {
			s += "case " + g.pick(g.name()+" <- "+g.expr(), "<-"+g.name(), "v := <-"+g.name(), "v, ok = <-"+g.name()) + ":\n" + g.pick("", g.stmt()+"\n")
		}
		if g.r.Bool() {
			s += "default:\n" + g.stmt() + "\n"
		}
		return s + "}"
	case 13:
		return g.pick("go ", "defer ") + g.callee() + "(" + g.pick("", g.expr()) + ")"
	case 14:
		return "return" + g.pick("", " "+g.expr(), " "+g.expr()+", "+g.expr())
	case 15:
		if g.tmpl {
			return g.pick("break", "continue", "break L", "continue L")
		}
		return g.pick("break", "continue", "break L", "continue L", "goto L")
	case 16:
		return g.pick("L", "M", "Outer") + ":\n" + g.pick(g.stmt(), ";", "for "+g.block())
	case 17:
		return g.block()
	case 18:
		return g.name() + " := func" + g.signature() + " " + g.block()
	}
	return g.simple()
}

func (g *srcGen) program() string {
	var b strings.Builder
	b.WriteString("package main\n\n")
	switch g.r.Intn(4) {
	case 0:
		b.WriteString("import \"fmt\"\n")
	case 1:
		b.WriteString("import (\n\t\"fmt\"\n\t. \"strings\"\n\t_ \"os\"\n\tpkg \"a/b\"\n)\n")
	case 2:
		b.WriteString("import pkg \"a/b\"\nimport \"fmt\"\n")
	}
	for i := 1 + g.r.Intn(6); i > 0; i-- {
		switch g.r.Intn(7) {
		case 0, 1, 2:
			b.WriteString("func " + g.fresh("fn") + g.signature() + " " + g.block() + "\n\n")
		case 3:
			b.WriteString("func " + g.fresh("fn") + g.signature() + "\n\n") // body-less: parses, the checker rejects it
		default:
			g.depth++
			switch g.r.Intn(4) {
			case 0:
				b.WriteString("var " + g.name() + ", " + g.name() + ", " + g.name() + " = " + g.callee() + "()\n")
			case 1:
				b.WriteString("type " + g.pick("T", "S") + " " + g.typ() + "\n")
			case 2:
				b.WriteString("const (\n" + g.name() + " = iota\n" + g.name() + "\n)\n")
			default:
				b.WriteString("var " + g.name() + " " + g.typ() + " = " + g.expr() + "\n")
			}
			g.depth--
		}
	}
	b.WriteString("func main() " + g.block() + "\n")
	return b.String()
}

// ---- templates -------------------------------------------------------------------------

func (g *srcGen) text() string {
	return g.pick(" ", "text ", "<b>bold</b>\n", "  \n  ", "hello, world", "<p>", "</p>", "a\nb\n", "")
}

func (g *srcGen) texpr() string {
	g.depth += 2
	defer func() { g.depth -= 2 }()
	if g.chance(8) {
		return g.name() + " default " + g.expr()
	}
	if g.chance(10) {
		return `render "part.html"`
	}
	if g.chance(10) {
		return `render "part.html" default ` + g.expr()
	}
	return g.expr()
}

func (g *srcGen) tbody() string {
	var b strings.Builder
	for i := g.r.Intn(4); i > 0; i-- {
		b.WriteString(g.tnode())
	}
	return b.String()
}

func (g *srcGen) tnode() string {
	if g.depth > 4 {
		return g.text() + "{{ " + g.name() + " }}"
	}
	g.depth++
	defer func() { g.depth-- }()
	switch g.r.Intn(26) {
	case 0, 1, 2:
		return g.text()
	case 3, 4:
		return "{{ " + g.texpr() + " }}"
	case 5:
		return "{% show " + g.texpr() + g.pick("", ", "+g.texpr()) + " %}"
	case 6:
		s := "{% if " + g.pick("", g.simple()+"; ") + g.texpr() + " %}" + g.tbody()
		for g.chance(3) {
			s += "{% else if " + g.texpr() + " %}" + g.tbody()
		}
		if g.r.Bool() {
			s += "{% else %}" + g.tbody()
		}
		return s + "{% end" + g.pick("", " if") + " %}"
	case 7:
		label := g.pick("", "", "", "L: ", "Outer: ")
		hdr := g.pick(g.name()+" in "+g.texpr(), "i, v := range "+g.texpr(), "range "+g.texpr(), "_, v := range "+g.texpr(), "i := 0; i < n; i++", g.texpr(), "")
		s := "{% " + label + "for " + hdr + " %}" +
			g.tbody() + g.pick("", "{% break %}", "{% continue %}", "{% if a %}{% break %}{% end %}")
		if label != "" {
			s += g.pick("{% break L %}", "{% continue Outer %}", "")
		}
		if g.chance(3) && (strings.Contains(hdr, " in ") || strings.Contains(hdr, "range ")) {
			s += "{% else %}" + g.tbody()
		}
		return s + "{% end" + g.pick("", " for") + " %}"
	case 8:
		s := "{% switch " + g.pick("", g.simple()+"; ") + g.pick("", g.texpr()) + " %}" + g.pick("", " ", "\n  ")
		for i := g.r.Intn(3); i > 0; i-- {
			s += "{% case " + g.texpr() + g.pick("", ", "+g.texpr()) + " %}" + g.tbody() + g.pick("", "", "{% fallthrough %}")
		}
		if g.r.Bool() {
			s += "{% default %}" + g.tbody()
		}
		return s + "{% end" + g.pick("", " switch") + " %}"
	case 9:
		s := "{% switch " + g.pick("", "v := ") + g.name() + ".(type) %}" + g.pick("", "\n ")
		for i := g.r.Intn(3); i > 0; i-- {
			s += "{% case " + g.typ() + " %}" + g.tbody()
		}
		return s + "{% end %}"
	case 10:
		s := "{% select %}" + g.pick("", "\n ")
		for i := g.r.Intn(3); i > 0; i-- {
			s += "{% case " + g.pick(g.name()+" <- "+g.expr(), "<-"+g.name(), "v := <-"+g.name()) + " %}" + g.tbody()
		}
		if g.r.Bool() {
			s += "{% default %}" + g.tbody()
		}
		return s + "{% end" + g.pick("", " select") + " %}"
	case 11:
		return "{% macro " + g.fresh("M") + g.pick("", "()", "(a int, b string)", "(a, b int)", "(xs ...string)", " html", "(s string) string") + " %}" + g.tbody() + "{% end" + g.pick("", " macro") + " %}"
	case 12:
		return "{% " + g.pick("var "+g.name()+" = "+g.expr(), "var "+g.name()+" "+g.typ(), "const "+g.name()+" = "+g.lit(), "type T "+g.typ(), g.simple()) + " %}"
	case 13:
		var ss []string
		for i := 1 + g.r.Intn(3); i > 0; i-- {
			ss = append(ss, g.stmt())
		}
		return "{%%\n" + strings.Join(ss, "\n") + "\n%%}"
	case 14:
		return "{# " + g.pick("comment", "", "{# nested #}", "multi\nline") + " #}"
	case 15:
		m := g.pick("", " code", " doc")
		return "{% raw" + m + " %}" + g.pick("", "raw {{ text }} {% if %}", "a\nb") + "{% end raw" + m + " %}"
	case 16:
		return `<a href="` + g.pick("", "/p/") + "{{ " + g.name() + " }}" + g.pick("", "?a={{ b }}&c=d", "#{{ f }}") + `">` + g.text() + "</a>"
	case 17:
		return `<img src="{{ ` + g.name() + ` }}" data-x="{{ y }}" class="c {{ z }}">`
	case 18:
		return "{% " + g.pick("show "+g.texpr(), "var v = itea", "v := itea", "f(itea)", "x = itea + 1") + "; using" + g.pick("", " html", " string", " markdown", " macro", " macro(a int)", " macro() html") + " %}" + g.tbody() + "{% end" + g.pick("", " using") + " %}"
	case 19:
		return g.pick("{% L: switch %}{% default %}{% break L %}{% end %}", "{% L: select %}{% default %}{% break L %}{% end %}", "{%% L: %%}", "{%% A: B: %%}")
	case 20:
		return "<script>var x = {{ " + g.texpr() + " }};</script><style>a { color: {{ c }}; }</style>"
	case 21:
		return "{% " + g.pick("defer f()", "go f()", "x <- 1", "defer func() { recover() }()") + " %}"
	case 22:
		return "{% macro " + g.fresh("M") + " %}{% " + g.pick("return", "return", "show 1") + " %}{% end %}"
	}
	return "{{ " + g.texpr() + " }}"
}

// templateFS returns a small template file system and the name of its main file.
func (g *srcGen) templateFS() (map[string]string, string) {
	g.tmpl = true
	files := map[string]string{
		"part.html":   "<i>{{ 1 + 2 }}</i>{% if x %}y{% end %}",
		"imp.html":    "{% macro A %}a{% end %}{% macro B(s string) %}{{ s }}{% end %}{% var V = 1 %}",
		"layout.html": "<html>{{ Title() }}{% show Body() %}{{ render \"part.html\" }}</html>",
	}
	var b strings.Builder
	main := g.pick("index.html", "index.html", "index.md", "index.js", "index.css", "index.txt")
	switch g.r.Intn(5) {
	case 0: // extending file: declarations only, with distraction-free macros
		b.WriteString(`{% extends "layout.html" %}` + "\n")
		if g.r.Bool() {
			b.WriteString(`{% import "imp.html" %}`)
		}
		b.WriteString("{% macro Title %}" + g.tbody() + "{% end %}\n")
		if g.r.Bool() {
			b.WriteString("{% var V = " + g.expr() + " %}")
		}
		b.WriteString("{% Body %}\n" + g.tbody() + g.tbody())
		main = "index.html"
	case 1:
		b.WriteString(g.pick(`{% import "imp.html" %}`, `{% import i "imp.html" %}`, `{% import . "imp.html" %}`) + g.pick("", `{% import "imp.html" for A, B %}`, `{% import "imp.html" for A %}`))
		b.WriteString(g.tbody() + g.tbody())
	default:
		for i := 1 + g.r.Intn(5); i > 0; i-- {
			b.WriteString(g.tnode())
		}
	}
	files[main] = b.String()
	return files, main
}
