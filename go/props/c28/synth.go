package main

import (
	"fmt"
	"reflect"

	"github.com/open2b/scriggo/ast"

	"verifharness/internal/proto"
)

// registry lists every node type of package ast (Go cannot enumerate a package's types by
// reflection). The "tables" tie compares its names with the regenerated kind list, so a node
// type added to ast.go must be added here too.
var registry = []ast.Node{
	(*ast.ArrayType)(nil), (*ast.Assignment)(nil), (*ast.BasicLiteral)(nil), (*ast.BinaryOperator)(nil),
	(*ast.Block)(nil), (*ast.Break)(nil), (*ast.Call)(nil), (*ast.Case)(nil), (*ast.ChanType)(nil),
	(*ast.Comment)(nil), (*ast.CompositeLiteral)(nil), (*ast.Const)(nil), (*ast.Continue)(nil),
	(*ast.Default)(nil), (*ast.Defer)(nil), (*ast.Extends)(nil), (*ast.Fallthrough)(nil), (*ast.For)(nil),
	(*ast.ForIn)(nil), (*ast.ForRange)(nil), (*ast.Func)(nil), (*ast.FuncType)(nil), (*ast.Go)(nil),
	(*ast.Goto)(nil), (*ast.Identifier)(nil), (*ast.If)(nil), (*ast.Import)(nil), (*ast.Index)(nil),
	(*ast.Interface)(nil), (*ast.Label)(nil), (*ast.MapType)(nil), (*ast.Package)(nil), (*ast.Placeholder)(nil),
	(*ast.Raw)(nil), (*ast.Render)(nil), (*ast.Return)(nil), (*ast.Select)(nil), (*ast.SelectCase)(nil),
	(*ast.Selector)(nil), (*ast.Send)(nil), (*ast.Show)(nil), (*ast.SliceType)(nil), (*ast.Slicing)(nil),
	(*ast.Statements)(nil), (*ast.StructType)(nil), (*ast.Switch)(nil), (*ast.Text)(nil), (*ast.Tree)(nil),
	(*ast.TypeAssertion)(nil), (*ast.TypeDeclaration)(nil), (*ast.TypeSwitch)(nil), (*ast.UnaryOperator)(nil),
	(*ast.URL)(nil), (*ast.Using)(nil), (*ast.Var)(nil),
}

var synthCounter int

// synth builds a node of struct type t by reflection: a position, the embedded expression,
// scalars left zero, and every child slot filled with a leaf of its static type (full) or
// randomly left nil / empty — except the slots the model assumes are never nil.
func synth(t reflect.Type, r *proto.Rand, full bool, neverNil map[string]map[string]bool, depth int) ast.Node {
	synthCounter++
	pv := reflect.New(t)
	sv := pv.Elem()
	for i := 0; i < t.NumField(); i++ {
		f := t.Field(i)
		fv := sv.Field(i)
		switch {
		case f.Anonymous && f.Type == positionType && t.Name() == "Tree":
			// ast.NewTree takes no position: every tree has 1:1 (assumption ctorPosition)
			fv.Set(reflect.ValueOf(&ast.Position{Line: 1, Column: 1, Start: 0, End: 0}))
		case f.Anonymous && f.Type == positionType && t.Name() == "Placeholder":
			// ast.NewPlaceholder takes no position: a placeholder has none
		case f.Anonymous && f.Type == positionType:
			fv.Set(reflect.ValueOf(&ast.Position{Line: 1 + synthCounter%50, Column: 1 + synthCounter%7, Start: synthCounter, End: synthCounter + 1}))
		case f.Anonymous && f.Type.Kind() == reflect.Ptr: // *expression
			settable(fv).Set(reflect.New(f.Type.Elem()))
		case f.Anonymous:
		case isAnnot(t.Name(), f.Name):
		case f.Type.Kind() == reflect.String:
			fv.SetString(fmt.Sprintf("s%d", synthCounter))
		}
	}
	fill := func(slotType reflect.Type) reflect.Value {
		var leafT reflect.Type
		if slotType.Kind() == reflect.Interface {
			leafT = reflect.TypeOf(ast.Identifier{})
			if depth < 1 && r.Intn(3) == 0 {
				leafT = reflect.TypeOf(ast.Call{})
			}
		} else {
			leafT = slotType.Elem()
		}
		leaf := synth(leafT, r, depth < 1 && full, neverNil, depth+1)
		return reflect.ValueOf(leaf)
	}
	keep := func(path string) bool {
		return full || neverNil[t.Name()][path] || r.Intn(2) == 0
	}
	var rec func(sv reflect.Value, prefix string)
	rec = func(sv reflect.Value, prefix string) {
		st := sv.Type()
		for i := 0; i < st.NumField(); i++ {
			f := st.Field(i)
			if f.Anonymous || isAnnot(st.Name(), f.Name) {
				continue
			}
			fv := sv.Field(i)
			ft := f.Type
			switch {
			case isNodeType(ft):
				if depth > 1 && !neverNil[t.Name()][prefix+f.Name] && !(t.Name() == "Func" && f.Name == "Body") {
					continue // leaves of leaves stay childless
				}
				if keep(prefix + f.Name) {
					fv.Set(fill(ft))
				}
			case ft.Kind() == reflect.Slice && isNodeType(ft.Elem()):
				n := 2
				if !full {
					n = r.Intn(3)
				}
				if depth > 1 {
					n = 0
				}
				s := reflect.MakeSlice(ft, n, n)
				for j := 0; j < n; j++ {
					s.Index(j).Set(fill(ft.Elem()))
				}
				fv.Set(s)
			case ft.Kind() == reflect.Slice:
				if at, ok := isAggregate(ft.Elem()); ok {
					n := 2
					if !full {
						n = r.Intn(3)
					}
					if depth > 1 {
						n = 0
					}
					s := reflect.MakeSlice(ft, n, n)
					for j := 0; j < n; j++ {
						ev := reflect.New(at)
						rec(ev.Elem(), prefix+f.Name+".")
						if ft.Elem().Kind() == reflect.Ptr {
							s.Index(j).Set(ev)
						} else {
							s.Index(j).Set(ev.Elem())
						}
					}
					fv.Set(s)
				}
			}
		}
	}
	rec(sv, "")
	return pv.Interface().(ast.Node)
}
