package main

import (
	"bytes"
	"context"
	"fmt"
	"os"
	"strings"
	"time"

	"github.com/open2b/scriggo"
)

func tmpl(n int, sep string) {
	var sb strings.Builder
	var want strings.Builder
	for i := 0; i < n; i++ {
		s := fmt.Sprintf("<%d>", i)
		sb.WriteString(s)
		want.WriteString(s)
		sb.WriteString(sep)
	}
	t0 := time.Now()
	fsys := scriggo.Files{"index.txt": []byte(sb.String())}
	t, err := scriggo.BuildTemplate(fsys, "index.txt", nil)
	fmt.Println("text n=", n, "size", sb.Len(), "build", time.Since(t0), "err", err)
	if err != nil {
		return
	}
	var out bytes.Buffer
	err = t.Run(&out, nil, nil)
	fmt.Println(" run err", err, "equal", out.String() == want.String())
	if out.String() != want.String() {
		o, w := out.String(), want.String()
		for i := range o {
			if i >= len(w) || o[i] != w[i] {
				fmt.Printf(" first diff at %d: got %q want %q\n", i, o[i:min(i+20, len(o))], w[i:min(i+20, len(w))])
				break
			}
		}
	}
}

func globals(n int) {
	var sb strings.Builder
	sb.WriteString("package main\n")
	for i := 0; i < n; i++ {
		fmt.Fprintf(&sb, "var g%d int\n", i)
	}
	fmt.Fprintf(&sb, "func main() { println(g0, g%d, g%d) }\n", n-2, n-1)
	t0 := time.Now()
	p, err := scriggo.Build(scriggo.Files{"main.go": []byte(sb.String())}, nil)
	fmt.Println("globals n=", n, "build", time.Since(t0), "err", err)
	if err != nil {
		return
	}
	func() {
		defer func() {
			if r := recover(); r != nil {
				fmt.Println(" run PANIC", r)
			}
		}()
		var out []string
		err = p.Run(&scriggo.RunOptions{Print: func(a any) { out = append(out, fmt.Sprint(a)) }})
		fmt.Println(" run err", err, "out", out)
	}()
}

func sel(n int, withCtx bool) {
	var sb strings.Builder
	sb.WriteString("package main\nfunc main() {\n ch := make(chan int, 1)\n ch <- 7\n select {\n")
	for i := 0; i < n; i++ {
		sb.WriteString(" case <-ch:\n")
	}
	sb.WriteString(" }\n println(\"done\")\n}\n")
	t0 := time.Now()
	p, err := scriggo.Build(scriggo.Files{"main.go": []byte(sb.String())}, nil)
	fmt.Println("select n=", n, "ctx", withCtx, "build", time.Since(t0), "err", err)
	if err != nil {
		return
	}
	func() {
		defer func() {
			if r := recover(); r != nil {
				fmt.Println(" run PANIC", r)
			}
		}()
		opts := &scriggo.RunOptions{Print: func(a any) { fmt.Println(" print:", a) }}
		if withCtx {
			ctx, cancel := context.WithCancel(context.Background())
			defer cancel()
			opts.Context = ctx
		}
		err = p.Run(opts)
		fmt.Println(" run err", err)
	}()
}

func main() {
	switch os.Args[1] {
	case "text":
		tmpl(65535, `{{ "" }}`)
		tmpl(65536, `{{ "" }}`)
		tmpl(65537, `{{ "" }}`)
	case "globals":
		globals(1000)
		globals(4000)
	case "globalsbig":
		globals(32767)
		globals(32768)
		globals(32769)
	case "ng":
		nativeGlobals(1000)
		nativeGlobals(32768)
		nativeGlobals(32769)
	case "funcs":
		funcs(255)
		funcs(256)
		funcs(257)
		funcs(300)
		natives(255)
		natives(256)
		natives(257)
		natives(300)
	case "select":
		sel(1000, false)
		sel(65536, false)
		sel(65536, true)
		sel(65537, true)
	}
}
