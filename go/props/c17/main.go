package main

// C17: template variables passed to Run are the values every reference sees.
//
// Generated multi-file templates (main file, macros, function literals with nested literals and
// captured locals, imported files with macros and package variables, extended and rendered files)
// that read and write declared-without-value globals in a random order of first use are built and
// run through the public API only (scriggo.BuildTemplate, Template.Run, Template.UsedVars) with
// value / pointer / absent initializers. For every case
//   - correspondence: output values per reference, UsedVars and the caller-visible pointees are
//     compared with the Lean model (Model/VarStore.lean through driver_C17), fed with the emission
//     events and run-time actions derived from the generated structure;
//   - the property's own oracle, computed here without the model: every reference prints the
//     one-variable-per-name value started from Run's value, an assignment through one reference is
//     seen by all others, pointers passed hold the last assigned value, values passed are not
//     changed, UsedVars = the declared variables occurring in the sources (each once).

import (
	"fmt"
	"os"
	"path/filepath"
	"reflect"
	"regexp"
	"sort"
	"strconv"
	"strings"
	"sync"

	"github.com/open2b/scriggo"
	"github.com/open2b/scriggo/native"

	"verifharness/internal/hx"
	"verifharness/internal/proto"
)

func main() { hx.Main("C17", runC17) }

// ---------------------------------------------------------------------------------------------
// structure of a generated case

const (
	iShow = iota
	iSet
	iLocal       // declares a local of the current function
	iTouch       // increments a local declared in this or an enclosing function
	iClosure     // name := func() { … }
	iCallClosure // name()
	iMacroDecl   // {% macro Name %}…{% end %} in the main file (a function literal of main)
	iCallMacro   // {{ Name() }}
	iRender      // {{ render "path" }}
	iShowConst   // shows a name that is NOT the global here (shadowed / another file's variable): always n
	iShadow      // a block in which a local named like the global v shadows it (form: ifvar | for | goblock)
)

const (
	fMain = iota
	fMacroLit // macro declared in the main (or extended) file: function literal of main
	fClosure  // func literal
	fPkgMacro // macro of an imported / extending file
	fRendered // rendered file
	fInitVars // $initvars of an imported file
)

type item struct {
	kind int
	v    string // variable (show/set)
	vt   string // its type: int (default) | myInt | any | shower | ptr
	n    int    // value (set)
	tag  int    // show
	name string // local / closure variable
	fn   *fnSpec
	form string  // iShadow
	body []*item // iShadow: show/set/showConst items only
}

type fnSpec struct {
	id     int
	kind   int
	name   string
	path   string // rendered file
	parent *fnSpec
	body   []*item
	goCtx  bool
	param  string // a macro parameter named like a global (calls pass 500)
	pkg    int    // the package (file) the function is emitted in; 0 = the main file
}

type pkgVar struct {
	name   string
	v      string
	tag    int
	noInit bool // `var Y int`: no initializer, always shows 0
}

// a package-level variable of a file whose name is the name of a declared global
type clashVar struct {
	name string
	tag  int
}

type fileSpec struct {
	pkg      int
	clash    []clashVar
	path     string
	macros   []*fnSpec
	vars     []pkgVar
	initVars *fnSpec
	imports  []*fileSpec
}

type spec struct {
	declared []string
	vtype    map[string]string // type of each declared variable ('' = int)
	main     *fnSpec
	mainPath string
	extends  *fileSpec // the extending file (index.txt) when main is a layout
	imports  []*fileSpec
	rendered []*fnSpec
	nextID   int
	nextTag  int
	tooBig   bool
	// some imported/extending file declares the exported variable W0 (at most one does)
	exportedClash bool
}

type initVal struct {
	kind string // "v", "p", "nil", "nilp", "wt", "" (absent)
	n    int
}

// ---------------------------------------------------------------------------------------------
// generation

type gen struct {
	r       *proto.Rand
	sp      *spec
	exclude map[string]bool // names that do not denote the global where code is being generated
	pkg     int
	nextPkg int
}

func (g *gen) newFn(kind int, name string, parent *fnSpec, goCtx bool) *fnSpec {
	f := &fnSpec{id: g.sp.nextID, kind: kind, name: name, parent: parent, goCtx: goCtx, pkg: g.pkg}
	g.sp.nextID++
	return f
}

func (g *gen) tag() int { g.sp.nextTag++; return g.sp.nextTag }

// varItem makes a show or set item on a random variable.
func (g *gen) varItem(kind int) *item {
	v := g.pickVar()
	if v == "" {
		// every declared name is shadowed here: show one of the shadowing variables instead
		return g.constItem()
	}
	it := &item{kind: kind, v: v, vt: g.sp.vtype[v]}
	if kind == iShow {
		it.tag = g.tag()
	} else {
		it.n = 10 + g.r.Intn(90)
	}
	return it
}

// pickPlain picks a variable whose value can be copied into a package variable and shown as is.
func (g *gen) pickPlain() (string, bool) {
	var c []string
	for _, v := range g.sp.declared {
		if t := g.sp.vtype[v]; (t == "" || t == "myInt") && !g.exclude[v] {
			c = append(c, v)
		}
	}
	if len(c) == 0 {
		return "", false
	}
	return c[g.r.Intn(len(c))], true
}

// constItem shows a name that, here, is not the global of that name.
func (g *gen) constItem() *item {
	var names []string
	for _, v := range g.sp.declared {
		if g.exclude[v] {
			names = append(names, v)
		}
	}
	if len(names) == 0 {
		return &item{kind: iLocal, name: fmt.Sprintf("a%d", g.tag())}
	}
	return &item{kind: iShowConst, v: names[g.r.Intn(len(names))], n: 500, tag: g.tag()}
}

// with runs f with more names excluded.
func (g *gen) with(names []string, f func()) {
	old := g.exclude
	g.exclude = map[string]bool{}
	for k := range old {
		g.exclude[k] = true
	}
	for _, n := range names {
		g.exclude[n] = true
	}
	f()
	g.exclude = old
}

func (g *gen) pickVar() string {
	// biased to the first variables so that several references meet on one variable
	var d []string
	for _, v := range g.sp.declared {
		if !g.exclude[v] {
			d = append(d, v)
		}
	}
	if len(d) == 0 {
		return ""
	}
	if g.r.Intn(3) > 0 {
		return d[0]
	}
	return d[g.r.Intn(len(d))]
}

// scope of names visible while generating a body
type scope struct {
	locals   []string  // locals of this or enclosing functions that may be touched
	closures []string  // closures declared in this very body (callable here)
	macros   []*fnSpec // macros callable here
	renders  []*fnSpec
}

func (g *gen) body(f *fnSpec, sc scope, depth, n int) {
	ownClosures := map[string]*fnSpec{}
	for i := 0; i < n; i++ {
		k := g.r.Intn(100)
		if f.kind == fMain && g.r.Intn(4) == 0 {
			// a macro of the main file: a function literal of main; it sees the macros before it
			m := g.newFn(fMacroLit, fmt.Sprintf("L%d", g.tag()), f, false)
			g.macroBody(m, scope{macros: append([]*fnSpec(nil), sc.macros...), renders: sc.renders}, 1+g.r.Intn(5))
			f.body = append(f.body, &item{kind: iMacroDecl, fn: m})
			sc.macros = append(sc.macros, m)
			if g.r.Intn(5) > 0 {
				f.body = append(f.body, &item{kind: iCallMacro, fn: m})
			}
			continue
		}
		if v := g.pickVar(); v != "" && g.r.Intn(14) == 0 {
			// a block with a local named like the global: the references inside are not the global's
			sh := &item{kind: iShadow, v: v, form: []string{"ifvar", "for"}[g.r.Intn(2)]}
			if f.goCtx {
				sh.form = "goblock"
			}
			g.with([]string{v}, func() {
				for j := 0; j < 1+g.r.Intn(3); j++ {
					switch g.r.Intn(3) {
					case 0:
						sh.body = append(sh.body, g.constItem())
					case 1:
						sh.body = append(sh.body, g.varItem(iShow))
					default:
						sh.body = append(sh.body, g.varItem(iSet))
					}
				}
			})
			f.body = append(f.body, sh)
			continue
		}
		if len(g.exclude) > 0 && g.r.Intn(6) == 0 {
			f.body = append(f.body, g.constItem())
			continue
		}
		switch {
		case k < 30:
			f.body = append(f.body, g.varItem(iShow))
		case k < 50:
			f.body = append(f.body, g.varItem(iSet))
		case k < 56:
			name := fmt.Sprintf("a%d", g.tag())
			f.body = append(f.body, &item{kind: iLocal, name: name})
			sc.locals = append(sc.locals, name)
		case k < 62 && len(sc.locals) > 0:
			f.body = append(f.body, &item{kind: iTouch, name: sc.locals[g.r.Intn(len(sc.locals))]})
		case k < 76 && depth < 3:
			name := fmt.Sprintf("f%d", g.tag())
			c := g.newFn(fClosure, name, f, true)
			inner := scope{locals: append([]string(nil), sc.locals...)}
			g.body(c, inner, depth+1, 1+g.r.Intn(4))
			f.body = append(f.body, &item{kind: iClosure, name: name, fn: c})
			sc.closures = append(sc.closures, name)
			ownClosures[name] = c
			if g.r.Intn(4) > 0 {
				f.body = append(f.body, &item{kind: iCallClosure, name: name, fn: c})
			}
		case k < 84 && len(sc.closures) > 0:
			name := sc.closures[g.r.Intn(len(sc.closures))]
			f.body = append(f.body, &item{kind: iCallClosure, name: name, fn: ownClosures[name]})
		case k < 94 && len(sc.macros) > 0 && !f.goCtx:
			m := sc.macros[g.r.Intn(len(sc.macros))]
			f.body = append(f.body, &item{kind: iCallMacro, fn: m})
		case k < 100 && len(sc.renders) > 0 && !f.goCtx:
			m := sc.renders[g.r.Intn(len(sc.renders))]
			f.body = append(f.body, &item{kind: iRender, fn: m})
		default:
			f.body = append(f.body, g.varItem(iShow))
		}
	}
}

// macroBody generates the body of a macro, now and then with a parameter named like a global.
func (g *gen) macroBody(m *fnSpec, sc scope, n int) {
	if v := g.pickVar(); v != "" && g.r.Intn(6) == 0 {
		m.param = v
		g.with([]string{v}, func() {
			g.body(m, sc, 1, n)
			m.body = append(m.body, g.constItem())
		})
		return
	}
	g.body(m, sc, 1, n)
}

func (g *gen) file(path string, depth int) *fileSpec {
	g.nextPkg++
	fl := &fileSpec{path: path, pkg: g.nextPkg}
	oldPkg := g.pkg
	defer func() { g.pkg = oldPkg }()
	if depth < 1 && g.r.Intn(4) == 0 {
		fl.imports = append(fl.imports, g.file(strings.TrimSuffix(path, ".txt")+"x.txt", depth+1))
	}
	g.pkg = fl.pkg
	var callable []*fnSpec
	for _, im := range fl.imports {
		callable = append(callable, im.macros...)
	}
	// package-level variables named like declared globals (lower-case names stay private to the file)
	var clashNames []string
	if g.r.Intn(3) == 0 {
		for _, v := range g.sp.declared {
			if g.r.Intn(2) == 0 && !(v == "W0" && (g.sp.exportedClash || depth > 0)) {
				fl.clash = append(fl.clash, clashVar{name: v, tag: g.tag()})
				clashNames = append(clashNames, v)
				if v == "W0" {
					g.sp.exportedClash = true
				}
			}
		}
	}
	oldEx := g.exclude
	g.exclude = map[string]bool{}
	for k := range oldEx {
		g.exclude[k] = true
	}
	for _, n := range clashNames {
		g.exclude[n] = true
	}
	defer func() { g.exclude = oldEx }()
	if pv, ok := g.pickPlain(); ok && g.r.Intn(4) == 0 {
		fl.initVars = g.newFn(fInitVars, "$initvars", nil, false)
		for i := 0; i < 1+g.r.Intn(2); i++ {
			fl.vars = append(fl.vars, pkgVar{name: fmt.Sprintf("X%d", g.tag()), v: pv, tag: g.tag(), noInit: g.r.Intn(3) == 0})
		}
	}
	for i := 0; i < 1+g.r.Intn(3); i++ {
		m := g.newFn(fPkgMacro, fmt.Sprintf("M%d", g.tag()), nil, false)
		g.macroBody(m, scope{macros: callable}, 1+g.r.Intn(4))
		// show the package variables somewhere
		for _, pv := range fl.vars {
			if g.r.Intn(2) == 0 {
				m.body = append(m.body, &item{kind: iShow, v: "\x00" + pv.name, tag: pv.tag})
			}
		}
		fl.macros = append(fl.macros, m)
		callable = append(callable, m)
	}
	return fl
}

func generate(r *proto.Rand) *spec {
	sp := &spec{mainPath: "index.txt"}
	g := &gen{r: r, sp: sp}
	sp.vtype = map[string]string{}
	for i := 0; i < 1+r.Intn(4); i++ {
		v := fmt.Sprintf("v%d", i)
		sp.declared = append(sp.declared, v)
		// the variable's type: int, a named type, an interface (empty and named), a pointer type
		sp.vtype[v] = []string{"", "", "", "", "any", "any", "myInt", "myInt", "shower", "ptr"}[r.Intn(10)]
	}
	if r.Intn(3) == 0 {
		// a global with an exported-looking name: a file that declares `var W0` and is imported
		// shadows it in the importing file
		sp.declared = append(sp.declared, "W0")
	}
	sp.main = g.newFn(fMain, "main", nil, false)
	var callable []*fnSpec
	if r.Intn(4) == 0 {
		sp.mainPath = "layout.txt"
		g.nextPkg++
		sp.extends = &fileSpec{path: "index.txt", pkg: g.nextPkg}
		g.pkg = sp.extends.pkg
		var clashNames []string
		if r.Intn(3) == 0 {
			for _, v := range sp.declared {
				if r.Intn(2) == 0 {
					sp.extends.clash = append(sp.extends.clash, clashVar{name: v, tag: g.tag()})
					clashNames = append(clashNames, v)
					if v == "W0" {
						sp.exportedClash = true
					}
				}
			}
		}
		g.with(clashNames, func() {
			for i := 0; i < 1+r.Intn(3); i++ {
				m := g.newFn(fPkgMacro, fmt.Sprintf("E%d", g.tag()), nil, false)
				g.macroBody(m, scope{macros: append([]*fnSpec(nil), callable...)}, 1+r.Intn(4))
				sp.extends.macros = append(sp.extends.macros, m)
				callable = append(callable, m)
			}
		})
		g.pkg = 0
	}
	for i := 0; i < r.Intn(3); i++ {
		fl := g.file(fmt.Sprintf("imp%d.txt", i), 0)
		sp.imports = append(sp.imports, fl)
		callable = append(callable, fl.macros...)
	}
	for i := 0; i < r.Intn(3); i++ {
		g.nextPkg++
		g.pkg = g.nextPkg
		f := g.newFn(fRendered, "", nil, false)
		f.path = fmt.Sprintf("r%d.txt", i)
		g.body(f, scope{}, 1, 1+r.Intn(4))
		sp.rendered = append(sp.rendered, f)
	}
	g.pkg = 0
	// an exported variable of a file the main file imports (or is extended by) shadows the global there
	var mainEx []string
	if sp.exportedClash {
		direct := false
		for _, im := range sp.imports {
			for _, c := range im.clash {
				direct = direct || c.name == "W0"
			}
		}
		if sp.extends != nil {
			for _, c := range sp.extends.clash {
				direct = direct || c.name == "W0"
			}
		}
		if direct {
			mainEx = []string{"W0"}
		}
	}
	g.with(mainEx, func() {
		g.body(sp.main, scope{macros: callable, renders: sp.rendered}, 0, 2+r.Intn(8))
	})
	return sp
}

// ---------------------------------------------------------------------------------------------
// rendering to template sources

func (sp *spec) isDeclared(v string) bool {
	for _, d := range sp.declared {
		if d == v {
			return true
		}
	}
	return false
}

// readExpr / writeExpr: how a variable of each type is read as an integer and given one.
func readExpr(v, vt string) string {
	switch vt {
	case "shower":
		return v + ".Show()"
	case "ptr":
		return "*" + v
	}
	return v
}

func writeExpr(n int, vt string) string {
	switch vt {
	case "shower":
		return fmt.Sprintf("box(%d)", n)
	case "ptr":
		return fmt.Sprintf("np(%d)", n)
	}
	return strconv.Itoa(n)
}

type myInt int

type shower interface{ Show() int }

type boxed int

func (b boxed) Show() int { return int(b) }

func toInt(v any) int {
	switch v := v.(type) {
	case int:
		return v
	case myInt:
		return int(v)
	case boxed:
		return int(v)
	case *int:
		return *v
	}
	return -999
}

func renderGo(b *strings.Builder, body []*item) {
	for i, it := range body {
		if i > 0 {
			b.WriteString("; ")
		}
		switch it.kind {
		case iShow:
			fmt.Fprintf(b, "emit(%d, %s)", it.tag, readExpr(it.v, it.vt))
		case iSet:
			fmt.Fprintf(b, "%s = %s", it.v, writeExpr(it.n, it.vt))
		case iLocal:
			fmt.Fprintf(b, "%s := 0; _ = %s", it.name, it.name)
		case iTouch:
			fmt.Fprintf(b, "%s++", it.name)
		case iClosure:
			fmt.Fprintf(b, "%s := func() { ", it.name)
			renderGo(b, it.fn.body)
			fmt.Fprintf(b, " }; _ = %s", it.name)
		case iCallClosure:
			fmt.Fprintf(b, "%s()", it.name)
		case iShowConst:
			fmt.Fprintf(b, "emit(%d, %s)", it.tag, it.v)
		case iShadow:
			fmt.Fprintf(b, "{ %s := 500; _ = %s; ", it.v, it.v)
			renderGo(b, it.body)
			b.WriteString(" }")
		}
	}
}

func macroSig(m *fnSpec) string {
	if m.param != "" {
		return fmt.Sprintf("%s(%s int)", m.name, m.param)
	}
	return m.name
}

func macroArg(m *fnSpec) string {
	if m.param != "" {
		return "500"
	}
	return ""
}

func renderTmpl(b *strings.Builder, body []*item) {
	for _, it := range body {
		switch it.kind {
		case iShow:
			v := strings.TrimPrefix(it.v, "\x00")
			fmt.Fprintf(b, "[T%d={{ %s }}]", it.tag, readExpr(v, it.vt))
		case iSet:
			fmt.Fprintf(b, "{%% %s = %s %%}", it.v, writeExpr(it.n, it.vt))
		case iLocal:
			fmt.Fprintf(b, "{%% var %s = 0 %%}{%% _ = %s %%}", it.name, it.name)
		case iTouch:
			fmt.Fprintf(b, "{%% %s++ %%}", it.name)
		case iClosure:
			fmt.Fprintf(b, "{%% %s := func() { ", it.name)
			renderGo(b, it.fn.body)
			fmt.Fprintf(b, " } %%}{%% _ = %s %%}", it.name)
		case iCallClosure:
			fmt.Fprintf(b, "{%% %s() %%}", it.name)
		case iShowConst:
			fmt.Fprintf(b, "[T%d={{ %s }}]", it.tag, it.v)
		case iShadow:
			if it.form == "for" {
				fmt.Fprintf(b, "{%% for _, %s := range []int{500} %%}{%% _ = %s %%}", it.v, it.v)
			} else {
				fmt.Fprintf(b, "{%% if true %%}{%% var %s = 500 %%}{%% _ = %s %%}", it.v, it.v)
			}
			renderTmpl(b, it.body)
			b.WriteString("{% end %}")
		case iMacroDecl:
			fmt.Fprintf(b, "{%% macro %s %%}", macroSig(it.fn))
			renderTmpl(b, it.fn.body)
			b.WriteString("{% end %}")
		case iCallMacro:
			fmt.Fprintf(b, "{{ %s(%s) }}", it.fn.name, macroArg(it.fn))
		case iRender:
			fmt.Fprintf(b, "{{ render %q }}", it.fn.path)
		}
	}
}

func (fl *fileSpec) source(files map[string]string, extending string) {
	var b strings.Builder
	if extending != "" {
		fmt.Fprintf(&b, "{%% extends %q %%}", extending)
	}
	for _, im := range fl.imports {
		fmt.Fprintf(&b, "{%% import %q %%}", im.path)
		im.source(files, "")
	}
	for _, pv := range fl.vars {
		if pv.noInit {
			fmt.Fprintf(&b, "{%% var %s int %%}", pv.name)
		} else {
			fmt.Fprintf(&b, "{%% var %s = %s %%}", pv.name, pv.v)
		}
	}
	for _, cv := range fl.clash {
		fmt.Fprintf(&b, "{%% var %s = 500 %%}", cv.name)
	}
	for _, m := range fl.macros {
		fmt.Fprintf(&b, "{%% macro %s %%}", macroSig(m))
		renderTmpl(&b, m.body)
		b.WriteString("{% end %}")
	}
	files[fl.path] = b.String()
}

func (sp *spec) sources() map[string]string {
	files := map[string]string{}
	var b strings.Builder
	for _, im := range sp.imports {
		fmt.Fprintf(&b, "{%% import %q %%}", im.path)
		im.source(files, "")
	}
	renderTmpl(&b, sp.main.body)
	files[sp.mainPath] = b.String()
	if sp.extends != nil {
		sp.extends.source(files, sp.mainPath)
	}
	for _, f := range sp.rendered {
		var rb strings.Builder
		renderTmpl(&rb, f.body)
		files[f.path] = rb.String()
	}
	return files
}

// ---------------------------------------------------------------------------------------------
// emission events (what the emitter is modelled to do) and run-time actions

// upvars of a function literal: first occurrences, in source order, of predeclared variables and
// of names declared in enclosing functions, nested literals included.
func (sp *spec) upvars(f *fnSpec) []string {
	var ups []string
	seen := map[string]bool{}
	declaredIn := func(fn *fnSpec, name string) bool {
		for _, it := range fn.body {
			if (it.kind == iLocal || it.kind == iClosure) && it.name == name {
				return true
			}
			if it.kind == iMacroDecl && it.fn.name == name {
				return true
			}
		}
		return false
	}
	var walk func(fn *fnSpec, inner []*fnSpec)
	walk = func(fn *fnSpec, inner []*fnSpec) {
		local := func(name string) bool {
			// declared in f or in a literal nested in f: not an upvar of f
			for _, in := range inner {
				if declaredIn(in, name) {
					return true
				}
			}
			return false
		}
		add := func(key, tok string) {
			if !seen[key] {
				seen[key] = true
				ups = append(ups, tok)
			}
		}
		var items func(body []*item)
		items = func(body []*item) {
			for _, it := range body {
				switch it.kind {
				case iShow, iSet:
					if sp.isDeclared(it.v) {
						add("P"+it.v, "P "+it.v)
					}
				case iShadow:
					items(it.body)
				case iTouch, iCallClosure:
					if !local(it.name) {
						add("L"+it.name, "L "+it.name)
					}
				case iCallMacro:
					if it.fn.kind == fMacroLit && !local(it.fn.name) {
						add("L"+it.fn.name, "L "+it.fn.name)
					}
				case iClosure:
					walk(it.fn, append(inner, it.fn))
				}
			}
		}
		items(fn.body)
	}
	walk(f, []*fnSpec{f})
	return ups
}

// renderedUsed returns the rendered files some compiled body renders (the others are not part
// of the build).
func (sp *spec) renderedUsed() []*fnSpec {
	used := map[*fnSpec]bool{}
	for _, f := range sp.allBodies() {
		for _, it := range f.body {
			if it.kind == iRender {
				used[it.fn] = true
			}
		}
	}
	var out []*fnSpec
	for _, f := range sp.rendered {
		if used[f] {
			out = append(out, f)
		}
	}
	return out
}

func (sp *spec) events() []string {
	var ev []string
	rendered := map[*fnSpec]bool{}
	var bodyEvents func(f *fnSpec)
	bodyEvents = func(f *fnSpec) {
		var items func(body []*item)
		items = func(body []*item) {
			for _, it := range body {
				switch it.kind {
				case iRender:
					// a rendered file is emitted where it is first rendered
					if !rendered[it.fn] {
						rendered[it.fn] = true
						ev = append(ev, fmt.Sprintf("d %d %d", it.fn.id, it.fn.pkg))
						bodyEvents(it.fn)
					}
				case iShow, iSet:
					if sp.isDeclared(it.v) {
						ev = append(ev, fmt.Sprintf("u %d %s", f.id, it.v))
					}
				case iShadow:
					items(it.body)
				case iClosure, iMacroDecl:
					ups := sp.upvars(it.fn)
					ev = append(ev, fmt.Sprintf("c %d %d %d %s", f.id, it.fn.id, len(ups), strings.Join(ups, " ")))
					bodyEvents(it.fn)
				}
			}
		}
		items(f.body)
	}
	var fileEvents func(fl *fileSpec, importer int)
	fileEvents = func(fl *fileSpec, importer int) {
		for _, im := range fl.imports {
			fileEvents(im, fl.pkg)
		}
		for _, m := range fl.macros {
			ev = append(ev, fmt.Sprintf("d %d %d", m.id, fl.pkg))
		}
		var names []string
		if fl.initVars != nil {
			ev = append(ev, fmt.Sprintf("d %d %d", fl.initVars.id, fl.pkg))
			for _, pv := range fl.vars {
				ev = append(ev, fmt.Sprintf("x %d %s", fl.pkg, pv.name))
				names = append(names, pv.name)
				if !pv.noInit {
					ev = append(ev, fmt.Sprintf("u %d %s", fl.initVars.id, pv.v))
				}
			}
		}
		for _, cv := range fl.clash {
			ev = append(ev, fmt.Sprintf("x %d %s", fl.pkg, cv.name))
			names = append(names, cv.name)
		}
		for _, m := range fl.macros {
			bodyEvents(m)
		}
		// emitImport binds every package variable of the file, by name, in the importing package
		for _, n := range names {
			ev = append(ev, fmt.Sprintf("b %d %d %s", importer, fl.pkg, n))
		}
	}
	if sp.extends != nil {
		fileEvents(sp.extends, 0)
	}
	for _, im := range sp.imports {
		fileEvents(im, 0)
	}
	bodyEvents(sp.main)
	return ev
}

type action struct {
	show bool
	fn   int
	v    string
	n    int
	tag  int
	init bool // read by $initvars
}

// actions lists what the run executes, in order (package variables first).
func (sp *spec) actions() []action {
	var as []action
	var initFile func(fl *fileSpec)
	initFile = func(fl *fileSpec) {
		for _, im := range fl.imports {
			initFile(im)
		}
		for _, pv := range fl.vars {
			if !pv.noInit {
				as = append(as, action{show: true, fn: fl.initVars.id, v: pv.v, tag: pv.tag, init: true})
			}
		}
	}
	if sp.extends != nil {
		initFile(sp.extends)
	}
	for _, im := range sp.imports {
		initFile(im)
	}
	budget := 400
	var run func(f *fnSpec)
	var runItems func(f *fnSpec, body []*item)
	run = func(f *fnSpec) { runItems(f, f.body) }
	runItems = func(f *fnSpec, body []*item) {
		for _, it := range body {
			if budget <= 0 {
				sp.tooBig = true
				return
			}
			switch it.kind {
			case iShadow:
				runItems(f, it.body)
			case iShow:
				if sp.isDeclared(it.v) {
					budget--
					as = append(as, action{show: true, fn: f.id, v: it.v, tag: it.tag})
				}
			case iSet:
				budget--
				as = append(as, action{fn: f.id, v: it.v, n: it.n})
			case iCallClosure, iCallMacro, iRender:
				run(it.fn)
			}
		}
	}
	run(sp.main)
	return as
}

// occurring returns the declared variables that occur in the sources, sorted.
func (sp *spec) occurring() []string {
	set := map[string]bool{}
	var walk func(f *fnSpec)
	var walkItems func(body []*item)
	walk = func(f *fnSpec) { walkItems(f.body) }
	walkItems = func(body []*item) {
		for _, it := range body {
			switch it.kind {
			case iShow, iSet:
				if sp.isDeclared(it.v) {
					set[it.v] = true
				}
			case iShadow:
				walkItems(it.body)
			case iClosure, iMacroDecl:
				walk(it.fn)
			}
		}
	}
	var file func(fl *fileSpec)
	file = func(fl *fileSpec) {
		for _, im := range fl.imports {
			file(im)
		}
		for _, pv := range fl.vars {
			if !pv.noInit {
				set[pv.v] = true
			}
		}
		for _, m := range fl.macros {
			walk(m)
		}
	}
	if sp.extends != nil {
		file(sp.extends)
	}
	for _, im := range sp.imports {
		file(im)
	}
	for _, f := range sp.renderedUsed() {
		walk(f)
	}
	walk(sp.main)
	var out []string
	for v := range set {
		out = append(out, v)
	}
	sort.Strings(out)
	return out
}

// initNames lists the names passed to Run, sorted.
func initNames(init map[string]initVal) []string {
	var names []string
	for v, iv := range init {
		if iv.kind != "" {
			names = append(names, v)
		}
	}
	sort.Strings(names)
	return names
}

// pkgVars lists the variables the imported files declare themselves.
func (sp *spec) pkgVars() []pkgVar {
	var out []pkgVar
	var file func(fl *fileSpec)
	file = func(fl *fileSpec) {
		for _, im := range fl.imports {
			file(im)
		}
		out = append(out, fl.vars...)
	}
	for _, im := range sp.imports {
		file(im)
	}
	return out
}

// zeroTags adds what a package variable without initializer shows: always 0.
func (sp *spec) zeroTags(shown map[int][]int, initTag map[int]bool) {
	for _, pv := range sp.pkgVars() {
		if pv.noInit {
			initTag[pv.tag] = true
			shown[pv.tag] = []int{0}
		}
	}
	// names that are not the global where they are shown (shadowing locals, parameters, loop
	// variables, other files' package variables): always their own value
	var items func(body []*item)
	items = func(body []*item) {
		for _, it := range body {
			switch it.kind {
			case iShowConst:
				initTag[it.tag] = true
				shown[it.tag] = []int{it.n}
			case iShadow:
				items(it.body)
			}
		}
	}
	for _, f := range sp.allBodies() {
		items(f.body)
	}
}

func (sp *spec) line(init map[string]initVal) string {
	ev := sp.events()
	as := sp.actions()
	var b strings.Builder
	fmt.Fprintf(&b, "C17 run %d", len(ev))
	for _, e := range ev {
		b.WriteString(" " + strings.TrimSpace(e))
	}
	names := initNames(init)
	fmt.Fprintf(&b, " %d", len(names))
	for _, v := range names {
		iv := init[v]
		switch iv.kind {
		case "v", "p":
			fmt.Fprintf(&b, " %s %s %d", v, iv.kind, iv.n)
		case "wtv":
			fmt.Fprintf(&b, " %s wt", v)
		default:
			fmt.Fprintf(&b, " %s %s", v, iv.kind)
		}
	}
	fmt.Fprintf(&b, " %d", len(as))
	for _, a := range as {
		if a.show {
			fmt.Fprintf(&b, " s %d %s", a.fn, a.v)
		} else {
			fmt.Fprintf(&b, " w %d %s %d", a.fn, a.v, a.n)
		}
	}
	return b.String()
}

// ---------------------------------------------------------------------------------------------
// the real code

type observation struct {
	buildErr string
	panicked string
	runErr   string
	shown    map[int][]int // tag -> values, in order of appearance
	order    []int         // tags in order of appearance (text output and emit calls separately)
	used     []string
	pointee  map[string]int // after Run
	values   map[string]int // value initializers after Run (must be unchanged)
}

var tokRe = regexp.MustCompile(`\[T(\d+)=(-?\d+)\]`)

type built struct {
	t   *scriggo.Template
	log *[][2]int
	mu  *sync.Mutex
}

func build(sp *spec) (*built, string) {
	fsys := scriggo.Files{}
	for k, v := range sp.sources() {
		fsys[k] = []byte(v)
	}
	log := &[][2]int{}
	mu := &sync.Mutex{}
	globals := native.Declarations{
		"emit": func(tag int, val any) {
			mu.Lock()
			*log = append(*log, [2]int{tag, toInt(val)})
			mu.Unlock()
		},
		"box": func(n int) shower { return boxed(n) },
		"np":  func(n int) *int { return &n },
	}
	for _, v := range sp.declared {
		switch sp.vtype[v] {
		case "myInt":
			globals[v] = (*myInt)(nil)
		case "any":
			globals[v] = (*any)(nil)
		case "shower":
			globals[v] = (*shower)(nil)
		case "ptr":
			globals[v] = (**int)(nil)
		default:
			globals[v] = (*int)(nil)
		}
	}
	var t *scriggo.Template
	var err error
	func() {
		defer func() {
			if r := recover(); r != nil {
				err = fmt.Errorf("build panic: %v", r)
			}
		}()
		t, err = scriggo.BuildTemplate(fsys, "index.txt", &scriggo.BuildOptions{Globals: globals})
	}()
	if err != nil {
		return nil, err.Error()
	}
	return &built{t: t, log: log, mu: mu}, ""
}

func (bt *built) run(sp *spec, init map[string]initVal) *observation {
	obs := &observation{shown: map[int][]int{}, pointee: map[string]int{}, values: map[string]int{}}
	vars := map[string]any{}
	pointee := map[string]func() int{} // reads the caller's variable after Run
	value := map[string]func() int{}   // reads a passed value after Run
	for v, iv := range init {
		n := iv.n
		switch vt := sp.vtype[v]; iv.kind {
		case "v":
			switch vt {
			case "myInt":
				vars[v] = myInt(n)
			case "ptr":
				x := n
				vars[v] = &x
				value[v] = func() int { return x }
			default:
				vars[v] = n
			}
		case "p":
			switch vt {
			case "myInt":
				x := myInt(n)
				vars[v], pointee[v] = &x, func() int { return int(x) }
			case "any":
				var x any = n
				vars[v], pointee[v] = &x, func() int { return toInt(x) }
			case "shower":
				var x shower = boxed(n)
				vars[v], pointee[v] = &x, func() int { return toInt(x) }
			case "ptr":
				x := n
				px := &x
				vars[v], pointee[v] = &px, func() int { return *px }
			default:
				x := n
				vars[v], pointee[v] = &x, func() int { return x }
			}
		case "nil":
			vars[v] = nil
		case "nilp":
			switch vt {
			case "myInt":
				vars[v] = (*myInt)(nil)
			case "any":
				vars[v] = (*any)(nil)
			case "shower":
				vars[v] = (*shower)(nil)
			case "ptr":
				vars[v] = (**int)(nil)
			default:
				vars[v] = (*int)(nil)
			}
		case "wt":
			vars[v] = "a string"
		case "wtv":
			// a value assignable to the variable's type but not of that type
			switch vt {
			case "any":
				vars[v] = n
			case "shower":
				vars[v] = boxed(n)
			default:
				vars[v] = "a string"
			}
		}
	}
	*bt.log = (*bt.log)[:0]
	var sb strings.Builder
	func() {
		defer func() {
			if r := recover(); r != nil {
				obs.panicked = fmt.Sprint(r)
			}
		}()
		if err := bt.t.Run(&sb, vars, nil); err != nil {
			obs.runErr = err.Error()
		}
	}()
	for _, m := range tokRe.FindAllStringSubmatch(sb.String(), -1) {
		tag, _ := strconv.Atoi(m[1])
		val, _ := strconv.Atoi(m[2])
		obs.shown[tag] = append(obs.shown[tag], val)
	}
	for _, e := range *bt.log {
		obs.shown[e[0]] = append(obs.shown[e[0]], e[1])
	}
	obs.used = bt.t.UsedVars()
	for v, f := range pointee {
		obs.pointee[v] = f()
	}
	for v, iv := range init {
		if iv.kind == "v" {
			if f, ok := value[v]; ok {
				obs.values[v] = f()
			} else {
				obs.values[v] = toInt(vars[v])
			}
		}
	}
	return obs
}

// ---------------------------------------------------------------------------------------------
// expectations

type expectation struct {
	shown   map[int][]int
	initTag map[int]bool
	pointee map[string]int
}

// expect is the property itself: one variable per name, started from Run's value.
func expect(sp *spec, init map[string]initVal) *expectation {
	env := map[string]int{}
	for _, v := range sp.declared {
		if iv := init[v]; iv.kind == "v" || iv.kind == "p" {
			env[v] = iv.n
		}
	}
	ex := &expectation{shown: map[int][]int{}, initTag: map[int]bool{}, pointee: map[string]int{}}
	for _, a := range sp.actions() {
		if a.show {
			if a.init {
				ex.initTag[a.tag] = true
				ex.shown[a.tag] = []int{env[a.v]}
			} else {
				ex.shown[a.tag] = append(ex.shown[a.tag], env[a.v])
			}
		} else {
			env[a.v] = a.n
		}
	}
	sp.zeroTags(ex.shown, ex.initTag)
	for v, iv := range init {
		if iv.kind == "p" {
			ex.pointee[v] = env[v]
		}
	}
	return ex
}

func valid(sp *spec, init map[string]initVal) bool {
	for v, iv := range init {
		if !sp.isDeclared(v) {
			continue // no global variable: Run ignores it
		}
		if iv.kind != "v" && iv.kind != "p" && iv.kind != "" {
			return false
		}
	}
	return true
}

// compareShown checks the observed values per tag against the expected ones; a package variable's
// tag may be shown any number of times, always with the value read at initialization.
func compareShown(obs map[int][]int, want map[int][]int, initTag map[int]bool) string {
	for tag, w := range want {
		if initTag[tag] {
			for _, got := range obs[tag] {
				if got != w[0] {
					return fmt.Sprintf("T%d (package variable): got %d, want %d", tag, got, w[0])
				}
			}
			continue
		}
		if !reflect.DeepEqual(obs[tag], w) {
			return fmt.Sprintf("T%d: got %v, want %v", tag, obs[tag], w)
		}
	}
	for tag, got := range obs {
		if _, ok := want[tag]; !ok {
			return fmt.Sprintf("T%d: shown %v, but never expected", tag, got)
		}
	}
	return ""
}

// oracle evaluates the property on one observation, without the model.
func oracle(sp *spec, init map[string]initVal, obs *observation) (clause, detail string) {
	if obs.buildErr != "" {
		return "builds", obs.buildErr
	}
	if !valid(sp, init) {
		return "", ""
	}
	if obs.panicked != "" {
		return "run-does-not-panic", obs.panicked
	}
	if obs.runErr != "" {
		return "run-does-not-fail", obs.runErr
	}
	ex := expect(sp, init)
	if d := compareShown(obs.shown, ex.shown, ex.initTag); d != "" {
		// tell apart "the very first value is wrong" from "a later assignment is not seen"
		assigned := false
		for _, a := range sp.actions() {
			if !a.show {
				assigned = true
			}
		}
		if !assigned {
			return "reference-sees-run-value", d
		}
		return "assignment-seen-by-all", d
	}
	for v, want := range ex.pointee {
		if obs.pointee[v] != want {
			return "pointer-shared", fmt.Sprintf("*%s = %d after Run, want %d", v, obs.pointee[v], want)
		}
	}
	for v, iv := range init {
		if iv.kind == "v" && obs.values[v] != iv.n {
			return "value-copied", fmt.Sprintf("%s = %d after Run, passed %d", v, obs.values[v], iv.n)
		}
	}
	if want := sp.occurring(); !reflect.DeepEqual(obs.used, want) && !(len(obs.used) == 0 && len(want) == 0) {
		return "usedvars-exact", fmt.Sprintf("UsedVars() = %v, variables in the sources = %v", obs.used, want)
	}
	return "", ""
}

// implLine canonicalises an observation as the driver's answer would read.
func implLine(sp *spec, init map[string]initVal, obs *observation, model string) string {
	if obs.buildErr != "" {
		return "build-error " + obs.buildErr
	}
	if obs.panicked != "" {
		switch {
		case strings.Contains(obs.panicked, "cannot be nil"):
			return "err init nil-initializer"
		case strings.Contains(obs.panicked, "cannot be a nil pointer"):
			return "err init nil-pointer"
		case strings.Contains(obs.panicked, "must have type"):
			return "err init wrong-type"
		}
		return "panic " + obs.panicked
	}
	if obs.runErr != "" {
		return "run-error " + obs.runErr
	}
	return ""
}

// modelShown decodes `ok used=… out=… ptr=…`.
func modelAnswer(ans string) (used []string, out []int, ptr map[string]int, ok bool) {
	fs := strings.Fields(ans)
	if len(fs) != 4 || fs[0] != "ok" {
		return nil, nil, nil, false
	}
	ptr = map[string]int{}
	for _, f := range fs[1:] {
		k, v, _ := strings.Cut(f, "=")
		if v == "-" {
			continue
		}
		for _, e := range strings.Split(v, ",") {
			switch k {
			case "used":
				used = append(used, e)
			case "out":
				n, err := strconv.Atoi(e)
				if err != nil {
					return nil, nil, nil, false
				}
				out = append(out, n)
			case "ptr":
				name, val, _ := strings.Cut(e, ":")
				n, err := strconv.Atoi(val)
				if err != nil {
					return nil, nil, nil, false
				}
				ptr[name] = n
			}
		}
	}
	sort.Strings(used)
	return used, out, ptr, true
}

// correspond compares one observation with the model's answer.
func correspond(sp *spec, init map[string]initVal, obs *observation, ans string) (name, impl string) {
	if il := implLine(sp, init, obs, ans); il != "" {
		bad := 0
		for v, iv := range init {
			if sp.isDeclared(v) && iv.kind != "v" && iv.kind != "p" && iv.kind != "" {
				bad++
			}
		}
		if bad > 1 && strings.HasPrefix(il, "err init ") && strings.HasPrefix(ans, "err init ") {
			// several invalid initializers: which panic comes first is the order of the globals
			return "", ""
		}
		if il != ans {
			return "run-outcome", il
		}
		return "", ""
	}
	used, out, ptr, ok := modelAnswer(ans)
	if !ok {
		return "run-outcome", "ok (ran to completion)"
	}
	// model outputs are in action order
	want := map[int][]int{}
	initTag := map[int]bool{}
	i := 0
	for _, a := range sp.actions() {
		if a.show {
			if i >= len(out) {
				return "outputs", "model printed fewer values than there are show actions"
			}
			if a.init {
				initTag[a.tag] = true
				want[a.tag] = []int{out[i]}
			} else {
				want[a.tag] = append(want[a.tag], out[i])
			}
			i++
		}
	}
	sp.zeroTags(want, initTag)
	if d := compareShown(obs.shown, want, initTag); d != "" {
		return "outputs", d
	}
	if !reflect.DeepEqual(obs.used, used) && !(len(obs.used) == 0 && len(used) == 0) {
		return "usedvars", fmt.Sprintf("UsedVars() = %v", obs.used)
	}
	for v, n := range ptr {
		if obs.pointee[v] != n {
			return "pointees", fmt.Sprintf("*%s = %d", v, obs.pointee[v])
		}
	}
	return "", ""
}

// ---------------------------------------------------------------------------------------------
// shrinking: delete items (anywhere) while the case stays well-formed and keeps failing

func (sp *spec) allBodies() []*fnSpec {
	var fs []*fnSpec
	var walk func(f *fnSpec)
	walk = func(f *fnSpec) {
		fs = append(fs, f)
		for _, it := range f.body {
			if it.kind == iClosure || it.kind == iMacroDecl {
				walk(it.fn)
			}
		}
	}
	var file func(fl *fileSpec)
	file = func(fl *fileSpec) {
		for _, im := range fl.imports {
			file(im)
		}
		for _, m := range fl.macros {
			walk(m)
		}
	}
	if sp.extends != nil {
		file(sp.extends)
	}
	for _, im := range sp.imports {
		file(im)
	}
	for _, f := range sp.rendered {
		walk(f)
	}
	walk(sp.main)
	return fs
}

func shrink(sp *spec, failing func() bool) {
	for progress := true; progress; {
		progress = false
		for _, f := range sp.allBodies() {
			for i := 0; i < len(f.body); i++ {
				old := f.body
				nb := append(append([]*item(nil), old[:i]...), old[i+1:]...)
				f.body = nb
				if failing() {
					progress = true
					i--
				} else {
					f.body = old
				}
			}
		}
		// drop package variables
		var files []*fileSpec
		var collect func(fl *fileSpec)
		collect = func(fl *fileSpec) {
			files = append(files, fl)
			for _, im := range fl.imports {
				collect(im)
			}
		}
		for _, im := range sp.imports {
			collect(im)
		}
		for _, fl := range files {
			if len(fl.vars) > 0 {
				oldV, oldI := fl.vars, fl.initVars
				fl.vars, fl.initVars = nil, nil
				if failing() {
					progress = true
				} else {
					fl.vars, fl.initVars = oldV, oldI
				}
			}
		}
	}
}

func human(sp *spec, init map[string]initVal) string {
	files := sp.sources()
	var names []string
	for k := range files {
		names = append(names, k)
	}
	sort.Strings(names)
	var b strings.Builder
	for _, k := range names {
		fmt.Fprintf(&b, "%s: %s\n", k, files[k])
	}
	b.WriteString("Globals:")
	for _, v := range sp.declared {
		fmt.Fprintf(&b, " %s:(*%s)(nil)", v, map[string]string{"": "int", "myInt": "myInt", "any": "any", "shower": "shower", "ptr": "*int"}[sp.vtype[v]])
	}
	b.WriteString(" emit:func(tag int, val any) box:func(int) shower np:func(int) *int\nRun vars:")
	for _, v := range initNames(init) {
		switch iv := init[v]; iv.kind {
		case "v":
			fmt.Fprintf(&b, " %s:%d", v, iv.n)
		case "p":
			fmt.Fprintf(&b, " %s:&(%d)", v, iv.n)
		case "":
		default:
			fmt.Fprintf(&b, " %s:<%s>", v, iv.kind)
		}
	}
	return b.String()
}

// ---------------------------------------------------------------------------------------------
// fixed cases: the defects found on the unchanged tree, and variants

func fixedSpecs() []*spec {
	mk := func(build func(g *gen)) *spec {
		sp := &spec{mainPath: "index.txt", declared: []string{"v0"}}
		g := &gen{sp: sp}
		sp.main = g.newFn(fMain, "main", nil, false)
		build(g)
		return sp
	}
	show := func(g *gen, v string) *item { return &item{kind: iShow, v: v, tag: g.tag()} }
	var out []*spec
	// {% macro M %}[{{ v }}]{% end %}{{ M() }}({{ v }})
	out = append(out, mk(func(g *gen) {
		m := g.newFn(fMacroLit, "L1", g.sp.main, false)
		m.body = []*item{show(g, "v0")}
		g.sp.main.body = []*item{{kind: iMacroDecl, fn: m}, {kind: iCallMacro, fn: m}, show(g, "v0")}
	}))
	// top-level use first
	out = append(out, mk(func(g *gen) {
		m := g.newFn(fMacroLit, "L1", g.sp.main, false)
		m.body = []*item{show(g, "v0")}
		g.sp.main.body = []*item{show(g, "v0"), {kind: iMacroDecl, fn: m}, {kind: iCallMacro, fn: m}}
	}))
	// imported macro reads what the main file assigned
	out = append(out, mk(func(g *gen) {
		m := g.newFn(fPkgMacro, "M1", nil, false)
		m.body = []*item{show(g, "v0")}
		g.sp.imports = []*fileSpec{{path: "imp0.txt", macros: []*fnSpec{m}}}
		g.sp.main.body = []*item{{kind: iSet, v: "v0", n: 5}, show(g, "v0"), {kind: iCallMacro, fn: m}}
	}))
	// one imported macro assigns, another reads
	out = append(out, mk(func(g *gen) {
		s := g.newFn(fPkgMacro, "M1", nil, false)
		s.body = []*item{{kind: iSet, v: "v0", n: 9}}
		m := g.newFn(fPkgMacro, "M2", nil, false)
		m.body = []*item{show(g, "v0")}
		g.sp.imports = []*fileSpec{{path: "imp0.txt", macros: []*fnSpec{s, m}}}
		g.sp.main.body = []*item{{kind: iCallMacro, fn: s}, {kind: iCallMacro, fn: m}}
	}))
	// extends
	out = append(out, mk(func(g *gen) {
		g.sp.mainPath = "layout.txt"
		m := g.newFn(fPkgMacro, "E1", nil, false)
		m.body = []*item{show(g, "v0")}
		g.sp.extends = &fileSpec{path: "index.txt", macros: []*fnSpec{m}}
		g.sp.main.body = []*item{{kind: iSet, v: "v0", n: 3}, show(g, "v0"), {kind: iCallMacro, fn: m}}
	}))
	// render
	out = append(out, mk(func(g *gen) {
		r := g.newFn(fRendered, "", nil, false)
		r.path = "r0.txt"
		r.body = []*item{show(g, "v0")}
		g.sp.rendered = []*fnSpec{r}
		g.sp.main.body = []*item{{kind: iSet, v: "v0", n: 3}, show(g, "v0"), {kind: iRender, fn: r}}
	}))
	// a nested function literal in a macro is the first reference
	out = append(out, mk(func(g *gen) {
		m := g.newFn(fMacroLit, "L1", g.sp.main, false)
		c := g.newFn(fClosure, "f1", m, true)
		c.body = []*item{show(g, "v0")}
		m.body = []*item{{kind: iLocal, name: "a1"}, {kind: iClosure, name: "f1", fn: c}, {kind: iCallClosure, name: "f1", fn: c}}
		c.body = append([]*item{{kind: iTouch, name: "a1"}}, c.body...)
		g.sp.main.body = []*item{{kind: iMacroDecl, fn: m}, {kind: iCallMacro, fn: m}, show(g, "v0")}
	}))
	return out
}

// ---------------------------------------------------------------------------------------------

func randomInit(r *proto.Rand, sp *spec, allowBad bool) map[string]initVal {
	init := map[string]initVal{}
	for _, v := range sp.declared {
		vt := sp.vtype[v]
		iface := vt == "any" || vt == "shower"
		switch k := r.Intn(20); {
		case k < 8 && !iface:
			// (a value of an interface type cannot be passed as such: only a pointer to it)
			init[v] = initVal{kind: "v", n: 1 + r.Intn(9)}
		case k < 15 || iface && k != 15 || vt == "ptr" && k != 15:
			// interface- and pointer-typed variables always get a value: their zero value cannot be shown
			init[v] = initVal{kind: "p", n: 1 + r.Intn(9)}
		case k == 15 && allowBad:
			init[v] = initVal{kind: []string{"nil", "nilp", "wt", "wtv"}[r.Intn(4)], n: 1 + r.Intn(9)}
		case iface || vt == "ptr":
			init[v] = initVal{kind: "p", n: 1 + r.Intn(9)}
		}
	}
	// a name that is no global variable but a variable an imported file declares itself: no effect
	if pv := sp.pkgVars(); len(pv) > 0 && r.Intn(3) == 0 {
		init[pv[r.Intn(len(pv))].name] = initVal{kind: []string{"v", "wt"}[r.Intn(2)], n: 99}
	}
	return init
}

func runC17(c *hx.Ctx) error {
	res := c.Res
	res.Rule = "generated template sets (main file; macros of the main file; function literals nested up to depth 3 with captured locals; imported files with macros, package variables and one nested import; extending and rendered files) over 1-4 globals declared without value of type int, a named integer type, any, a named interface, or *int (pointers to interface values and to pointers included; a plain value where only a pointer to an interface fits among the invalid ones), each built once and run with 3 random vars maps (value / pointer / absent, a few invalid); with package-level variables of imported/extending files named like declared globals (unexported, and one exported that shadows the global in the importing file), blocks, loop variables and macro parameters named like a global; plus 7 fixed cases (the two defects found and their variants) under 4 maps each. A case is non-trivial when at least two different functions refer to the same variable; distinct by sources+vars"
	if os.Getenv("VERIF_REPO") != "" {
		res.Notes = append(res.Notes, "built against "+filepath.Clean(os.Getenv("VERIF_REPO")))
	}

	type job struct {
		sp   *spec
		init map[string]initVal
		bt   *built
		berr string
	}
	var jobs []job
	fixed := fixedSpecs()
	for _, sp := range fixed {
		bt, berr := build(sp)
		for _, init := range []map[string]initVal{
			{"v0": {kind: "v", n: 7}}, {"v0": {kind: "p", n: 7}}, {}, {"v0": {kind: "v", n: 7}},
		} {
			jobs = append(jobs, job{sp, init, bt, berr})
		}
		res.Hist("fixed-cases")
	}
	n := c.N(1500, 40000)
	for i := 0; i < n; i++ {
		sp := generate(c.R)
		if sp.actions(); sp.tooBig {
			res.Hist("skipped-too-many-actions")
			continue
		}
		bt, berr := build(sp)
		for k := 0; k < 3; k++ {
			jobs = append(jobs, job{sp, randomInit(c.R, sp, true), bt, berr})
		}
	}

	lines := make([]string, len(jobs))
	for i, j := range jobs {
		lines[i] = j.sp.line(j.init)
	}
	var model []string
	if c.D != nil {
		var err error
		model, err = c.D.Batch(lines)
		if err != nil {
			return err
		}
	}

	for i, j := range jobs {
		sp, init := j.sp, j.init
		var obs *observation
		if j.bt == nil {
			obs = &observation{buildErr: j.berr}
		} else {
			obs = j.bt.run(sp, init)
		}
		// distribution
		fnsOf := map[string]map[int]bool{}
		for _, a := range sp.actions() {
			if fnsOf[a.v] == nil {
				fnsOf[a.v] = map[int]bool{}
			}
			fnsOf[a.v][a.fn] = true
		}
		nontrivial := false
		for _, s := range fnsOf {
			if len(s) > 1 {
				nontrivial = true
			}
		}
		res.Count(lines[i], nontrivial)
		if sp.extends != nil {
			res.Hist("with-extends")
		}
		if len(sp.imports) > 0 {
			res.Hist("with-imports")
		}
		if len(sp.rendered) > 0 {
			res.Hist("with-render")
		}
		nClash, nShadow, nParam := 0, 0, 0
		var cnt func(fl *fileSpec)
		cnt = func(fl *fileSpec) {
			nClash += len(fl.clash)
			for _, im := range fl.imports {
				cnt(im)
			}
		}
		if sp.extends != nil {
			cnt(sp.extends)
		}
		for _, im := range sp.imports {
			cnt(im)
		}
		for _, f := range sp.allBodies() {
			if f.param != "" {
				nParam++
			}
			for _, it := range f.body {
				if it.kind == iShadow {
					nShadow++
				}
			}
		}
		if nClash > 0 {
			res.Hist("with-package-var-named-like-a-global")
		}
		if sp.exportedClash {
			res.Hist("with-exported-package-var-shadowing-a-global")
		}
		if nShadow > 0 {
			res.Hist("with-shadowing-block-or-loop-variable")
		}
		if nParam > 0 {
			res.Hist("with-macro-parameter-named-like-a-global")
		}
		if !valid(sp, init) {
			res.Hist("invalid-initializer")
		}
		for _, iv := range init {
			if iv.kind == "p" {
				res.Hist("pointer-initializers")
			}
			if iv.kind == "v" {
				res.Hist("value-initializers")
			}
		}
		if i%997 == 0 && nontrivial {
			m := ""
			if model != nil {
				m = model[i]
			}
			res.Sample(map[string]string{"input": human(sp, init), "line": lines[i], "model": m})
		}

		// the property's own oracle
		if clause, detail := oracle(sp, init, obs); clause != "" {
			if j.bt != nil {
				shrink(sp, func() bool {
					bt, berr := build(sp)
					if bt == nil {
						return clause == "builds" && berr != ""
					}
					cl, _ := oracle(sp, init, bt.run(sp, init))
					return cl == clause
				})
				if bt, _ := build(sp); bt != nil {
					_, detail = oracle(sp, init, bt.run(sp, init))
				}
			}
			ex := expect(sp, init)
			res.AddBreak(proto.Break{Kind: "property", Name: clause, Case: sp.line(init), Human: human(sp, init),
				Impl: detail, Model: fmt.Sprintf("every reference sees the one variable of its name: %v; pointees %v; UsedVars %v", ex.shown, ex.pointee, sp.occurring())})
			continue
		}
		// correspondence
		if model != nil {
			if name, impl := correspond(sp, init, obs, model[i]); name != "" {
				res.AddBreak(proto.Break{Kind: "correspondence", Name: "varstore-model-vs-template-" + name, Case: lines[i],
					Human: human(sp, init), Impl: impl, Model: model[i]})
			}
		}
	}
	return nil
}
