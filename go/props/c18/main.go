package main

import (
	"errors"
	"fmt"
	"io/fs"
	"os"
	"path"
	"strconv"
	"strings"
	"time"
	"unicode/utf8"

	"github.com/open2b/scriggo"
	hook "github.com/open2b/scriggo/verifhook/c18"

	"verifharness/internal/hx"
	"verifharness/internal/proto"
)

// C18: template file loading stays inside the file system and terminates.
//
//   - spec validation: Spec/GoPath.lean (Clean, Dir, Join, IsAbs, fs.ValidPath, utf8.Valid,
//     resolve) against the stdlib / an independent resolver on random paths;
//   - correspondence (hook): compiler.rooted and compiler.ValidTemplatePath vs. Model/Paths.lean
//     on random (parent, name) pairs;
//   - correspondence (public API): scriggo.BuildTemplate on generated file trees served by a
//     recording fs.FS (plain and FormatFS): sequence of names passed to Open and error class vs.
//     the model's trace;
//   - the property's own oracle on the real code, independent of the model.
func main() { hx.Main("C18", run) }

// ---------------------------------------------------------------------------------------------
// independent reference implementations used by the oracle (never the model)

// goResolve walks name element by element from the directory of parent (or from the root for
// an absolute name); ok is false when the walk leaves the root.
func goResolve(parent, name string) (string, bool) {
	var stack []string
	if strings.HasPrefix(name, "/") {
		name = name[1:]
	} else {
		ps := strings.Split(parent, "/")
		stack = append(stack, ps[:len(ps)-1]...)
	}
	for _, seg := range strings.Split(name, "/") {
		if seg == ".." {
			if len(stack) == 0 {
				return "", false
			}
			stack = stack[:len(stack)-1]
		} else {
			stack = append(stack, seg)
		}
	}
	return strings.Join(stack, "/"), true
}

// goValidTemplatePath is the documentation of ValidTemplatePath, element-wise: an optional
// leading slash or leading ".." elements, then a valid file system path other than ".".
func goValidTemplatePath(p string) bool {
	segs := strings.Split(p, "/")
	if len(p) > 0 && p[0] == '/' {
		segs = segs[1:]
	} else {
		for len(segs) > 1 && segs[0] == ".." {
			segs = segs[1:]
		}
	}
	rest := strings.Join(segs, "/")
	return rest != "." && fs.ValidPath(rest)
}

func validRooted(p string) bool { return fs.ValidPath(p) && p != "." }

// ---------------------------------------------------------------------------------------------
// random paths

var tokens = []string{".", "..", "/", "//", "a", "b", "é", "\x00", "\xff", "...", "..a", "a..", " ", "", "../", "/..", "./", "\xc3", "c.d"}
var normalSegs = []string{"a", "b", "c", "é", ".h", "a..", "..a", "...", "x y", "\x00", "c.d", "日本"}

func randPath(c *hx.Ctx) string {
	var b strings.Builder
	for n := c.R.Intn(9); n > 0; n-- {
		b.WriteString(c.R.Pick(tokens))
	}
	return b.String()
}

func randRooted(c *hx.Ctx) string {
	n := 1 + c.R.Intn(4)
	segs := make([]string, n)
	for i := range segs {
		segs[i] = c.R.Pick(normalSegs)
	}
	return strings.Join(segs, "/")
}

func randTemplateName(c *hx.Ctx) string {
	body := randRooted(c)
	switch c.R.Intn(4) {
	case 0:
		return "/" + body
	case 1:
		return body
	default:
		return strings.Repeat("../", 1+c.R.Intn(4)) + body
	}
}

func hexs(s string) string { return proto.Hex([]byte(s)) }

func boolLine(b bool) string {
	if b {
		return "ok true"
	}
	return "ok false"
}

// ---------------------------------------------------------------------------------------------
// part 1+2: specification validation and rooted / ValidTemplatePath

func rootedImpl(parent, name string) (line string, r string, err error) {
	defer func() {
		if p := recover(); p != nil {
			line, err = "err panic", fmt.Errorf("panic: %v", p)
		}
	}()
	r, err = hook.Rooted(parent, name)
	switch {
	case err == nil:
		return "ok " + hexs(r), r, nil
	case err == os.ErrNotExist:
		return "err notexist", "", err
	}
	return "err other:" + err.Error(), "", err
}

// rootedOracle is the property on rooted, independent of the model: for a rooted parent and a
// valid reference, a result stays inside the root, is clean and is the resolution of the
// reference; an escaping reference fails as not found.
func rootedOracle(parent, name string) (clause string, got string) {
	if !validRooted(parent) || !goValidTemplatePath(name) {
		return "", ""
	}
	line, r, err := rootedImpl(parent, name)
	want, inside := goResolve(parent, name)
	if err != nil {
		if err != os.ErrNotExist {
			return "rooted-error-is-not-exist", line
		}
		return "", line
	}
	if !inside {
		return "escaping-fails", line
	}
	if !fs.ValidPath(r) || r == "." || path.Clean(r) != r || strings.HasPrefix(r, "/") {
		return "rooted-result-valid", line
	}
	if r != want {
		return "rooted-result-is-resolution", line
	}
	return "", line
}

func runPaths(c *hx.Ctx) error {
	res := c.Res
	type pc struct{ parent, name string }
	var cases []pc
	n := c.N(12000, 300000)
	for i := 0; i < n; i++ {
		var p pc
		switch c.R.Intn(4) {
		case 0:
			p = pc{randPath(c), randPath(c)}
			res.Hist("paths:random-parent,random-name")
		case 1:
			p = pc{randRooted(c), randPath(c)}
			res.Hist("paths:rooted-parent,random-name")
		default:
			p = pc{randRooted(c), randTemplateName(c)}
			res.Hist("paths:rooted-parent,valid-name")
		}
		cases = append(cases, p)
	}
	// a few fixed ones from the documentation of rooted
	for _, p := range []pc{{"a/b/c", "/d/e"}, {"a/b/c", "d/e"}, {"a/b/c", "../d/e"}, {"a/b/c", "../../d/e"},
		{"a/b/c", "../../../d/e"}, {"c", "../d"}, {"c", "d"}, {"..a/c", "d"}, {"a/c", "../..a"}, {"a", "/"}, {"a", ""}, {"", ""}} {
		cases = append(cases, p)
	}
	var lines []string
	for _, p := range cases {
		lines = append(lines,
			"C18 rooted "+hexs(p.parent)+" "+hexs(p.name),
			"C18 vtp "+hexs(p.name),
			"C18 clean "+hexs(p.name),
			"C18 dir "+hexs(p.parent),
			"C18 join "+hexs(p.parent)+" "+hexs(p.name),
			"C18 isabs "+hexs(p.name),
			"C18 validpath "+hexs(p.name),
			"C18 validutf8 "+hexs(p.name),
			"C18 resolve "+hexs(p.parent)+" "+hexs(p.name))
	}
	var model []string
	if c.D != nil {
		var err error
		model, err = c.D.Batch(lines)
		if err != nil {
			return err
		}
	}
	const per = 9
	for i, p := range cases {
		human := fmt.Sprintf("parent=%q name=%q", p.parent, p.name)
		valid := validRooted(p.parent) && goValidTemplatePath(p.name)
		res.Count("p:"+p.parent+"\x01"+p.name, valid)
		// property oracle on the real code
		if clause, _ := rootedOracle(p.parent, p.name); clause != "" {
			parent, name := p.parent, p.name
			parent = string(hx.ShrinkBytes([]byte(parent), func(b []byte) bool { cl, _ := rootedOracle(string(b), name); return cl == clause }))
			name = string(hx.ShrinkBytes([]byte(name), func(b []byte) bool { cl, _ := rootedOracle(parent, string(b)); return cl == clause }))
			_, got := rootedOracle(parent, name)
			want, inside := goResolve(parent, name)
			res.AddBreak(proto.Break{Kind: "property", Name: clause, Case: "C18 rooted " + hexs(parent) + " " + hexs(name),
				Human: fmt.Sprintf("rooted parent=%q name=%q", parent, name),
				Impl:  got, Model: fmt.Sprintf("resolution %q inside-root=%v", want, inside)})
		}
		if valid {
			if _, inside := goResolve(p.parent, p.name); inside {
				res.Hist("rooted:valid-inside")
			} else {
				res.Hist("rooted:valid-escaping")
			}
		}
		if model == nil {
			continue
		}
		m := model[i*per : i*per+per]
		// correspondence on the real code
		implLine, _, _ := rootedImpl(p.parent, p.name)
		if implLine != m[0] {
			res.AddBreak(proto.Break{Kind: "correspondence", Name: "rooted-model-vs-compiler.rooted", Case: lines[i*per],
				Human: "rooted " + human, Impl: implLine, Model: m[0]})
		}
		if l := boolLine(hook.ValidTemplatePath(p.name)); l != m[1] {
			res.AddBreak(proto.Break{Kind: "correspondence", Name: "validTemplatePath-model-vs-compiler.ValidTemplatePath",
				Case: lines[i*per+1], Human: fmt.Sprintf("ValidTemplatePath(%q)", p.name), Impl: l, Model: m[1]})
		}
		// the real ValidTemplatePath against its documentation
		if hook.ValidTemplatePath(p.name) != goValidTemplatePath(p.name) {
			res.AddBreak(proto.Break{Kind: "property", Name: "valid-template-path-as-documented", Case: lines[i*per+1],
				Human: fmt.Sprintf("ValidTemplatePath(%q)", p.name), Impl: boolLine(hook.ValidTemplatePath(p.name)), Model: boolLine(goValidTemplatePath(p.name))})
		}
		// validation of the specification against the stdlib
		spec := []struct{ name, want, got, line string }{
			{"spec-clean-vs-path.Clean", "ok " + hexs(path.Clean(p.name)), m[2], lines[i*per+2]},
			{"spec-dir-vs-path.Dir", "ok " + hexs(path.Dir(p.parent)), m[3], lines[i*per+3]},
			{"spec-join-vs-path.Join", "ok " + hexs(path.Join(p.parent, p.name)), m[4], lines[i*per+4]},
			{"spec-isabs-vs-path.IsAbs", boolLine(path.IsAbs(p.name)), m[5], lines[i*per+5]},
			{"spec-validpath-vs-fs.ValidPath", boolLine(fs.ValidPath(p.name)), m[6], lines[i*per+6]},
			{"spec-validutf8-vs-utf8.ValidString", boolLine(utf8.ValidString(p.name)), m[7], lines[i*per+7]},
		}
		if valid {
			want := "ok none"
			if r, ok := goResolve(p.parent, p.name); ok {
				want = "ok some " + hexs(r)
			}
			spec = append(spec, struct{ name, want, got, line string }{"spec-resolve-vs-element-walk", want, m[8], lines[i*per+8]})
		}
		for _, s := range spec {
			res.SpecChecks[s.name]++
			if s.want != s.got {
				res.AddBreak(proto.Break{Kind: "correspondence", Name: s.name, Case: s.line, Human: human, Impl: s.want, Model: s.got})
			}
		}
		if i%997 == 0 && valid {
			res.Sample(map[string]string{"line": lines[i*per], "human": human, "model": m[0], "impl": implLine})
		}
	}
	return nil
}

// ---------------------------------------------------------------------------------------------
// part 3: whole builds

type ref struct {
	kind byte // 'e' extends, 'i' import, 'r' render, 'd' render … default
	path string
	form form // how and where the statement is written (zero value: `{% … %}` / `{{ … }}`)
}

// form is the syntactic position of a path-taking statement.
type form struct {
	delim byte // 't' `{% … %}`; 'b' a statement of a `{%% … %%}` block; 's' `{{ … }}` (render); 'f' body of a function literal (plain render)
	join  bool // 'b'/'f': in the block the previous reference left open, among its statements
	group bool // import in a block: an element of a grouped `import ( … )`; with join: of the group left open
	ident byte // import: 0 `import "p"`, 'n' `import n "p"`, '.' `import . "p"`, 'f' `import "p" for M`
	via   byte // render: 0 shown, 'v' through a variable, 'o' (plain render) the operand of `default` of the preceding render
	trail bool // 'b': a declaration follows the statement when it is the last one of its block
	raw   bool // written as a raw string literal when the path allows it
}

type file struct {
	name string
	refs []ref
}

type tcase struct {
	root  string
	files []file
}

func rawOK(p string) bool {
	if !utf8.ValidString(p) {
		return false
	}
	for i := 0; i < len(p); i++ {
		if p[i] == '`' || p[i] < 0x20 || p[i] == 0x7f {
			return false
		}
	}
	return true
}

// layout normalises the forms of the references of a file (in canonical order): what source
// writes and what the protocol line tells the model about the parse site of every reference.
func layout(refs []ref) []form {
	out := make([]form, len(refs))
	for k, r := range refs {
		f := r.form
		switch r.kind {
		case 'e':
			if f.delim != 'b' {
				f.delim, f.join, f.trail = 't', false, false
			}
			f.group, f.ident, f.via = false, 0, 0
		case 'i':
			if f.delim != 'b' {
				f.delim, f.join, f.trail, f.group = 't', false, false, false
			}
			f.via = 0
		default:
			f.group, f.ident = false, 0
			switch f.delim {
			case 't', 'b':
			case 'f':
				if r.kind == 'd' || f.via == 'v' {
					f.delim = 'b'
				}
			default:
				f.delim = 's'
			}
			if f.delim != 'b' && f.delim != 'f' {
				f.join, f.trail = false, false
			}
			switch f.via {
			case 'v':
				if f.delim == 's' || r.kind == 'd' { // (the type of a default expression depends on the format)
					f.via = 0
				}
			case 'o':
				if r.kind == 'r' && k > 0 && refs[k-1].kind == 'd' && out[k-1].delim != 'f' {
					f = form{delim: out[k-1].delim, via: 'o', raw: f.raw}
				} else {
					f.via = 0
				}
			default:
				f.via = 0
			}
		}
		if r.kind == 'e' || r.kind == 'i' {
			for _, later := range refs[k+1:] {
				if later.kind == 'e' || later.kind == 'i' {
					f.trail = false // an import cannot follow a declaration
				}
			}
		}
		f.raw = f.raw && rawOK(r.path)
		out[k] = f
	}
	return out
}

func (t tcase) line() string {
	var b strings.Builder
	fmt.Fprintf(&b, "C18 build %s %d", hexs(t.root), len(t.files))
	for _, f := range t.files {
		fmt.Fprintf(&b, " %s %d", hexs(f.name), len(f.refs))
		lay := layout(f.refs)
		for k, r := range f.refs {
			fmt.Fprintf(&b, " %c %c %s", r.kind, lay[k].delim, hexs(r.path))
		}
	}
	return b.String()
}

func (t tcase) human() string {
	var b strings.Builder
	fmt.Fprintf(&b, "BuildTemplate(fsys, %q) with", t.root)
	for i, f := range t.files {
		fmt.Fprintf(&b, " %q: `%s`;", f.name, t.source(i))
	}
	return b.String()
}

// blockWriter writes statements that are either on their own (`{% … %}`, `{{ … }}`) or
// statements of a `{%% … %%}` block that stays open for the next one that wants to join it.
type blockWriter struct {
	b     strings.Builder
	block bool // a `{%% ` is open
	group bool // … and in it an `import ( `
	n     int  // statements written in the open block
	trail bool
	seq   int
}

func (w *blockWriter) closeGroup() {
	if w.group {
		w.b.WriteString(" )")
		w.group = false
	}
}

func (w *blockWriter) closeBlock() {
	w.closeGroup()
	if w.block {
		if w.trail {
			w.seq++
			fmt.Fprintf(&w.b, "; var t%d = %d", w.seq, w.seq)
		}
		w.b.WriteString(" %%}")
		w.block, w.trail, w.n = false, false, 0
	}
}

// sep alternates between the two statement separators of a block
func (w *blockWriter) sep() {
	w.seq++
	if w.seq%2 == 0 {
		w.b.WriteString("\n")
	} else {
		w.b.WriteString("; ")
	}
}

// statement starts a statement of a block (joining the open one if asked to)
func (w *blockWriter) statement(join bool) {
	w.closeGroup()
	if !(join && w.block) {
		w.closeBlock()
		w.b.WriteString("{%% ")
		w.block = true
	}
	if w.n > 0 {
		w.sep()
	}
	w.n++
}

// groupElement starts an element of a grouped import
func (w *blockWriter) groupElement(join bool) {
	if join && w.block && w.group {
		w.sep()
		return
	}
	w.statement(join)
	w.b.WriteString("import ( ")
	w.group = true
}

func lit(path string, raw bool) string {
	if raw {
		return "`" + path + "`"
	}
	return quote(path)
}

// macroOf is the name of the macro the file a reference resolves to declares ("M" if none).
func (t tcase) macroOf(parent, p string) string {
	if goValidTemplatePath(p) {
		if target, ok := goResolve(parent, p); ok {
			for j, g := range t.files {
				if g.name == target {
					return "M" + strconv.Itoa(j)
				}
			}
		}
	}
	return "M"
}

// source is the template source of a file: extends first, then the imports, then one macro
// whose body holds the render expressions (valid in extending, imported and rendered files);
// each statement in the form its reference asks for.
func (t tcase) source(idx int) string {
	f := t.files[idx]
	lay := layout(f.refs)
	var w blockWriter
	for k, r := range f.refs {
		fm := lay[k]
		var stmt string
		switch r.kind {
		case 'e':
			stmt = "extends " + lit(r.path, fm.raw)
		case 'i':
			switch fm.ident {
			case 'n':
				stmt = fmt.Sprintf("n%d %s", k, lit(r.path, fm.raw))
			case '.':
				stmt = ". " + lit(r.path, fm.raw)
			case 'f':
				stmt = lit(r.path, fm.raw) + " for " + t.macroOf(f.name, r.path)
			default:
				stmt = lit(r.path, fm.raw)
			}
		default:
			continue
		}
		switch {
		case fm.delim == 't':
			w.closeBlock()
			if r.kind == 'i' {
				stmt = "import " + stmt
			}
			w.b.WriteString("{% " + stmt + " %}")
		case r.kind == 'i' && fm.group:
			w.groupElement(fm.join)
			w.b.WriteString(stmt)
			w.trail = fm.trail
		default:
			w.statement(fm.join)
			if r.kind == 'i' {
				stmt = "import " + stmt
			}
			w.b.WriteString(stmt)
			w.trail = fm.trail
		}
	}
	w.closeBlock()
	fmt.Fprintf(&w.b, "{%% macro M%d %%}", idx)
	for k := 0; k < len(f.refs); k++ {
		r, fm := f.refs[k], lay[k]
		if r.kind != 'r' && r.kind != 'd' {
			continue
		}
		expr := "render " + lit(r.path, fm.raw)
		if r.kind == 'd' {
			if k+1 < len(f.refs) && lay[k+1].via == 'o' {
				expr += " default render " + lit(f.refs[k+1].path, lay[k+1].raw)
				k++
			} else {
				expr += ` default ""`
			}
		}
		switch fm.delim {
		case 's':
			w.closeBlock()
			w.b.WriteString("{{ " + expr + " }}")
		case 't':
			w.closeBlock()
			if fm.via == 'v' {
				fmt.Fprintf(&w.b, "{%% var v%d = %s %%}{{ v%d }}", k, expr, k)
			} else {
				w.b.WriteString("{% show " + expr + " %}")
			}
		case 'b':
			w.statement(fm.join)
			if fm.via == 'v' {
				fmt.Fprintf(&w.b, "var v%d = %s; show v%d", k, expr, k)
			} else {
				w.b.WriteString("show " + expr)
			}
			w.trail = fm.trail
		case 'f':
			w.statement(fm.join)
			fmt.Fprintf(&w.b, "var f%d = func() any { return %s }; show f%d()", k, expr, k)
			w.trail = fm.trail
		}
	}
	w.closeBlock()
	w.b.WriteString("{% end %}")
	return w.b.String()
}

// quote writes p as an interpreted string literal of the template language.
func quote(p string) string {
	var b strings.Builder
	b.WriteByte('"')
	for i := 0; i < len(p); i++ {
		switch ch := p[i]; {
		case ch == '"' || ch == '\\':
			b.WriteByte('\\')
			b.WriteByte(ch)
		case ch < 0x20 || ch == 0x7f:
			fmt.Fprintf(&b, `\x%02x`, ch)
		case ch >= 0x80 && !utf8.ValidString(p):
			fmt.Fprintf(&b, `\x%02x`, ch) // invalid UTF-8 cannot be written literally in a template source
		default:
			b.WriteByte(ch)
		}
	}
	b.WriteByte('"')
	return b.String()
}

// canonical order of the references of a file: what the source above yields in `unexpanded`.
func canonical(refs []ref) []ref {
	var out []ref
	for _, r := range refs {
		if r.kind == 'e' {
			out = append(out, r)
			break // a second extends is a syntax error of its own
		}
	}
	for _, r := range refs {
		if r.kind == 'i' {
			out = append(out, r)
		}
	}
	for _, r := range refs {
		if r.kind == 'r' || r.kind == 'd' {
			out = append(out, r)
		}
	}
	return out
}

// recording file system
type recFS struct {
	files map[string]string
	opens []string
	limit int
	over  bool
}

var errTooManyOpens = errors.New("verif: too many calls to Open")

func (r *recFS) Open(name string) (fs.File, error) {
	r.opens = append(r.opens, name)
	if len(r.opens) > r.limit {
		r.over = true
		return nil, errTooManyOpens
	}
	src, ok := r.files[name]
	if !ok {
		return nil, &fs.PathError{Op: "open", Path: name, Err: fs.ErrNotExist}
	}
	return &memFile{name: name, r: strings.NewReader(src), size: int64(len(src))}, nil
}

type memFile struct {
	name string
	r    *strings.Reader
	size int64
}

func (f *memFile) Stat() (fs.FileInfo, error) { return memInfo{f}, nil }
func (f *memFile) Read(b []byte) (int, error) { return f.r.Read(b) }
func (f *memFile) Close() error               { return nil }

type memInfo struct{ f *memFile }

func (i memInfo) Name() string       { return path.Base(i.f.name) }
func (i memInfo) Size() int64        { return i.f.size }
func (i memInfo) Mode() fs.FileMode  { return 0o444 }
func (i memInfo) ModTime() time.Time { return time.Time{} }
func (i memInfo) IsDir() bool        { return false }
func (i memInfo) Sys() any           { return nil }

type recFormatFS struct{ *recFS }

func (r recFormatFS) Format(name string) (scriggo.Format, error) { return scriggo.FormatHTML, nil }

type outcome struct {
	opens    []string
	err      error
	panicked string
	timeout  bool
	over     bool
}

func build(t tcase, formatFS bool) outcome {
	rec := &recFS{files: map[string]string{}, limit: 20*len(t.files) + 50}
	for i, f := range t.files {
		rec.files[f.name] = t.source(i)
	}
	var fsys fs.FS = rec
	if formatFS {
		fsys = recFormatFS{rec}
	}
	done := make(chan outcome, 1)
	go func() {
		var o outcome
		defer func() {
			if p := recover(); p != nil {
				o.panicked = fmt.Sprint(p)
			}
			done <- o
		}()
		_, o.err = scriggo.BuildTemplate(fsys, t.root, nil)
	}()
	select {
	case o := <-done:
		o.opens = rec.opens
		o.over = rec.over
		return o
	case <-time.After(20 * time.Second):
		return outcome{timeout: true}
	}
}

// classify maps what BuildTemplate returned to the vocabulary of the model's answer.
func classify(t tcase, o outcome) string {
	var cls string
	var be *scriggo.BuildError
	switch {
	case o.timeout:
		return "timeout"
	case o.panicked != "":
		cls = "err panic " + o.panicked
	case o.over:
		cls = "err too-many-opens"
	case o.err == nil:
		cls = "ok clean"
	case o.err == os.ErrInvalid:
		cls = "err invalid"
	case errors.As(o.err, &be):
		msg := be.Message()
		q := func(format string) (string, bool) { // "<prefix> %q does not exist"
			var p string
			pre, post, _ := strings.Cut(format, "%q")
			if strings.HasPrefix(msg, pre) && strings.HasSuffix(msg, post) {
				if u, err := strconv.Unquote(msg[len(pre) : len(msg)-len(post)]); err == nil {
					p = u
					return p, true
				}
			}
			return "", false
		}
		switch {
		case strings.HasSuffix(msg, ": cycle not allowed") && strings.HasPrefix(msg, "file "+t.root+"\n\t"):
			chain := strings.Split(strings.TrimSuffix(strings.TrimPrefix(msg, "file "+t.root+"\n\t"), ": cycle not allowed"), "\n\t")
			cls = "err cycle " + hexs(be.Path()) + " " + strconv.Itoa(len(chain))
			for _, c := range chain {
				verb, p, _ := strings.Cut(c, " ")
				k := map[string]string{"extends": "e", "imports": "i", "renders": "r"}[verb]
				if k == "" {
					k = "?" + verb
				}
				cls += " " + k + " " + hexs(p)
			}
		case strings.HasPrefix(msg, "cannot find package "):
			cls = "ok missing-import"
		case strings.HasPrefix(msg, "invalid extends path "):
			cls = "err syntax invalid-ref-path e"
		case strings.HasPrefix(msg, "invalid import path: "):
			cls = "err syntax invalid-ref-path i"
		case strings.HasPrefix(msg, "invalid file path: "):
			cls = "err syntax invalid-ref-path r"
		case msg == "imported and rendered files can not have extends":
			cls = "err syntax cannot-extend"
		case strings.HasPrefix(msg, "import of file extended at "):
			cls = "err syntax import-of-extended"
		case strings.HasPrefix(msg, "render of file extended at "):
			cls = "err syntax render-of-extended"
		case strings.HasPrefix(msg, "render of file imported at "):
			cls = "err syntax render-of-imported"
		case strings.HasPrefix(msg, "import of file rendered at "):
			cls = "err syntax import-of-rendered"
		default:
			if p, ok := q("extends path %q does not exist"); ok {
				cls = "err syntax extends-not-exist " + hexs(p)
			} else if p, ok := q("render path %q does not exist"); ok {
				cls = "err syntax render-not-exist " + hexs(p)
			} else {
				cls = "err other-build-error " + strconv.Quote(be.Error())
			}
		}
	case errors.Is(o.err, fs.ErrNotExist):
		cls = "err notexist"
	default:
		cls = fmt.Sprintf("err other %T %q", o.err, o.err.Error())
	}
	var b strings.Builder
	b.WriteString(cls)
	fmt.Fprintf(&b, " opens %d", len(o.opens))
	for _, n := range o.opens {
		b.WriteString(" " + hexs(n))
	}
	return b.String()
}

func isCycleError(err error) bool {
	var be *scriggo.BuildError
	return errors.As(err, &be) && strings.Contains(be.Message(), "cycle not allowed")
}

// buildOracle evaluates the property on one real build, independently of the model.
func buildOracle(t tcase, o outcome) (clause string) {
	if o.timeout {
		return "terminates"
	}
	exists := map[string]*file{}
	for i := range t.files {
		if _, dup := exists[t.files[i].name]; !dup {
			exists[t.files[i].name] = &t.files[i]
		}
	}
	// every name opened after the root's is a clean, valid, rooted path
	for i, n := range o.opens {
		if i == 0 {
			if n != t.root {
				return "first-open-is-the-root"
			}
			continue
		}
		if !fs.ValidPath(n) || n == "." || path.Clean(n) != n {
			return "opened-name-valid-and-clean"
		}
	}
	// … obtained by resolving a reference of a file opened before it
	if validRooted(t.root) {
		for i, n := range o.opens {
			if i == 0 {
				continue
			}
			found := false
			for _, p := range o.opens[:i] {
				f := exists[p]
				if f == nil {
					continue
				}
				for _, r := range f.refs {
					if !goValidTemplatePath(r.path) {
						continue
					}
					if got, ok := goResolve(p, r.path); ok && got == n {
						found = true
					}
				}
			}
			if !found {
				return "opened-name-is-a-resolved-reference"
			}
		}
	}
	// an invalid path is a build error that names the path: the first file opened that holds a
	// reference with an invalid path is not parsed any further, whatever the form of the statement
invalid:
	for _, n := range o.opens {
		f := exists[n]
		if f == nil {
			continue
		}
		for _, r := range f.refs {
			if goValidTemplatePath(r.path) {
				continue
			}
			var be *scriggo.BuildError
			if !errors.As(o.err, &be) || !strings.Contains(be.Message(), "invalid") || !strings.Contains(be.Message(), strconv.Quote(r.path)) {
				return "invalid-path-is-an-error-naming-the-path"
			}
			if c := afterInvalid(n, o); c != "" {
				return c
			}
			break invalid
		}
	}
	// no existing file is opened twice
	seen := map[string]bool{}
	for _, n := range o.opens {
		if exists[n] != nil {
			if seen[n] {
				return "existing-file-opened-at-most-once"
			}
			seen[n] = true
		}
	}
	if o.over {
		return "bounded-number-of-opens"
	}
	if o.panicked != "" {
		return "no-panic"
	}
	// references that leave the root fail (extends, import, render without default)
	for _, n := range o.opens {
		f := exists[n]
		if f == nil || !validRooted(n) {
			continue
		}
		for _, r := range f.refs {
			if r.kind == 'd' || !goValidTemplatePath(r.path) {
				continue
			}
			if _, ok := goResolve(n, r.path); !ok && o.err == nil {
				return "escaping-reference-fails"
			}
		}
	}
	// a cycle among the loaded files is an error; a reported cycle is a real one
	if validRooted(t.root) && exists[t.root] != nil {
		cyclic, pure := reachableCycle(t, exists)
		if cyclic && o.err == nil {
			return "cycle-is-an-error"
		}
		if cyclic && pure && !isCycleError(o.err) {
			return "cycle-reported-as-cycle"
		}
		if !cyclic && isCycleError(o.err) {
			return "reported-cycle-is-real"
		}
	}
	return ""
}

// afterInvalid: nothing is opened after the file whose parsing failed.
func afterInvalid(n string, o outcome) string {
	if len(o.opens) > 0 && o.opens[len(o.opens)-1] != n {
		return "nothing-opened-after-a-syntax-error"
	}
	return ""
}

// reachableCycle tells whether the graph of the files reachable from the root through
// references that resolve to existing files has a cycle, and whether nothing else can go wrong
// first (pure: every reachable reference is a plain render of an existing file).
func reachableCycle(t tcase, exists map[string]*file) (cyclic, pure bool) {
	pure = true
	state := map[string]int{} // 1 on the stack, 2 done
	var visit func(n string)
	visit = func(n string) {
		state[n] = 1
		for _, r := range exists[n].refs {
			if !goValidTemplatePath(r.path) {
				pure = false
				continue
			}
			target, ok := goResolve(n, r.path)
			if r.kind != 'r' || !ok || exists[target] == nil {
				pure = false
			}
			if !ok || exists[target] == nil {
				continue
			}
			if strings.HasPrefix(target, "..") {
				// rooted refuses these names (a first element that merely starts with ".."):
				// allowed over-rejection, not an edge
				pure = false
				continue
			}
			switch state[target] {
			case 1:
				cyclic = true
			case 0:
				visit(target)
			}
		}
		state[n] = 2
	}
	visit(t.root)
	return
}

var dirNames = []string{"a", "b", "c", "é", ".h", "a..", "x y", "c.d"}
var fileNames = []string{"f", "g", "h", "i.x", "é", ".j", "k.."}
var badRefs = []string{".", "", "/", "a//b", "a/../b", "a/", "./a", "..", "../", "../..", "/../a", "a/./b", "/a/", "../a/../b", "\xff"}

// pathFamily is the path dimension of the matrix: valid and invalid spellings, written for a
// referencing file two directories deep ("d/e/x") next to the files "t", "d/t", "d/e/t".
var pathFamily = func() []string {
	long := strings.Repeat("a", 300)
	ps := []string{
		// absolute and relative, valid
		"/t", "/d/t", "/d/e/t", "/nofile", "t", "../t", "../../t", "e/t", "nofile", "../nofile",
		// leaving the root
		"../../../t", "../../../../t",
		// '..' at the start after the slash, in the middle, at the end
		"/../t", "/../../t", "/..", "/../d/t", "d/../t", "/d/../t", "../d/../t", "/d/e/../../../t", "/d/../../t", "t/../../../../t",
		"d/..", "/d/..", "t/..", "..", "../..", "../../..", "../", "../../", "/../", "...", "/.../t", "..t", "/..t", "t..", "../..t",
		// empty elements, trailing slash
		"//t", "d//t", "/d//t", "t//", "//", "///t", "t/", "/t/", "d/", "/", "../t/", "/d/e/",
		// '.' elements
		".", "./t", "/./t", "d/./t", "/.", "t/.", "./", "/./", "./../t", "/./../t",
		// empty
		"",
		// backslashes (ordinary bytes of a name for io/fs)
		"\\t", "..\\t", "/..\\t", "d\\..\\t", "\\..\\t", "/\\", "..\\..\\t", "/d\\..\\..\\t",
		// NUL and control bytes
		"t\x00", "/t\x00", "/\x00", "\x00/../t", "/\x00/../t", "d/\x01", "\x7f", "/..\x00/t", "..\x00", "\n", "/t\n", "/../t\r",
		// very long
		"/" + long, long, "/" + long + "/../../t", strings.Repeat("../", 300) + "t", "/" + strings.Repeat("d/", 200) + "t",
		"/" + strings.Repeat("../", 100) + "t", "/" + strings.Repeat("a/../", 100) + "t", "/" + strings.Repeat("/", 300),
		// not UTF-8
		"\xff", "/\xfft", "d/\xc3", "/\xc0\xaf../t", "\xc0\xae\xc0\xae/t", "/\xc0\xae\xc0\xae/t", "/..\xff/t", "/\xed\xa0\x80",
		// percent-encoded and other spellings of '..' and '/' (ordinary names)
		"%2e%2e/t", "/%2e%2e/t", "..%2ft", "/d%2f..%2f..%2ft", "/%2e%2e%2ft", "..;/t", "/..;/t", "\u2025/t", "/\uff0e\uff0e/t", "/\u2215../t",
		// names with ':'
		"c:/t", "/c:/t", "c:t", "/c:\\t", "http:/t", "file://t", "/file:///t", "c:/../t", "/c:/../../t", "::", "/:",
	}
	return ps
}()

func relativeRef(c *hx.Ctx, parent, target string) string {
	pd := strings.Split(parent, "/")
	pd = pd[:len(pd)-1]
	ts := strings.Split(target, "/")
	common := 0
	for common < len(pd) && common < len(ts)-1 && pd[common] == ts[common] {
		common++
	}
	if common > 0 && c.R.Intn(4) == 0 {
		common -= 1 + c.R.Intn(common) // go up further than needed and come down again
	}
	return strings.Repeat("../", len(pd)-common) + strings.Join(ts[common:], "/")
}

func genCase(c *hx.Ctx) tcase {
	var t tcase
	n := 1 + c.R.Intn(10)
	nd := 1 + c.R.Intn(3)
	dirs := make([]string, nd)
	for i := range dirs {
		dirs[i] = c.R.Pick(dirNames)
	}
	used := map[string]bool{}
	for len(t.files) < n {
		depth := c.R.Intn(4)
		segs := make([]string, 0, depth+1)
		for j := 0; j < depth; j++ {
			segs = append(segs, dirs[c.R.Intn(nd)])
		}
		segs = append(segs, c.R.Pick(fileNames))
		name := strings.Join(segs, "/")
		if used[name] || used[name+"/"] {
			n--
			continue
		}
		used[name] = true
		t.files = append(t.files, file{name: name})
	}
	if len(t.files) == 0 {
		t.files = append(t.files, file{name: "f"})
	}
	forward := 10 // how strongly references point forward (10: no cycle) in this case
	switch x := c.R.Intn(10); {
	case x < 3:
		forward = c.R.Intn(10)
	case x < 6:
		forward = 8 + c.R.Intn(2)
	}
	formed := c.R.Intn(5) != 0 // one case in five is written with plain `{% … %}` / `{{ … }}` only
	bad := 60                  // one reference in `bad` has an invalid path …
	family := false            // … taken from the small list or from the whole family
	if c.R.Intn(4) == 0 {
		bad, family = 12, c.R.Intn(2) == 0
	}
	for i := range t.files {
		f := &t.files[i]
		var refs []ref
		if c.R.Intn(6) == 0 {
			refs = append(refs, ref{kind: 'e'})
		}
		for k := c.R.Intn(3); k > 0; k-- {
			refs = append(refs, ref{kind: 'i'})
		}
		for k := c.R.Intn(4); k > 0; k-- {
			if c.R.Intn(4) == 0 {
				refs = append(refs, ref{kind: 'd'})
			} else {
				refs = append(refs, ref{kind: 'r'})
			}
		}
		if c.R.Intn(3) == 0 { // plain render-only file
			var only []ref
			for _, r := range refs {
				if r.kind == 'r' {
					only = append(only, r)
				}
			}
			refs = only
		}
		for j := range refs {
			var target string
			switch x := c.R.Intn(bad); {
			case x == 0:
				target = "" // a bad reference
			case x == 1:
				target = strings.Join([]string{c.R.Pick(dirs), "nofile"}, "/")
			case x == 2:
				target = "nofile"
			default:
				if c.R.Intn(10) < forward {
					if i+1 < len(t.files) {
						target = t.files[i+1+c.R.Intn(len(t.files)-i-1)].name
					} else {
						target = "nofile"
						refs[j].kind = 'd'
					}
				} else {
					target = t.files[c.R.Intn(len(t.files))].name
				}
			}
			switch x := c.R.Intn(20); {
			case target == "" && family:
				refs[j].path = c.R.Pick(pathFamily)
			case target == "":
				refs[j].path = c.R.Pick(badRefs)
			case x < 6:
				refs[j].path = "/" + target
			case x == 6 && c.R.Intn(3) == 0:
				// leaves the root
				depth := strings.Count(f.name, "/")
				refs[j].path = strings.Repeat("../", depth+1+c.R.Intn(2)) + target
			default:
				refs[j].path = relativeRef(c, f.name, target)
			}
		}
		f.refs = canonical(refs)
		if formed {
			for j := range f.refs {
				f.refs[j].form = randForm(c, f.refs[j].kind)
			}
		}
	}
	switch x := c.R.Intn(40); {
	case x == 0:
		t.root = c.R.Pick([]string{".", "a/", "", "../f", "/f", "nofile", "a//f", "./f"})
	default:
		t.root = t.files[0].name
		if x < 8 {
			t.root = t.files[c.R.Intn(len(t.files))].name
		}
	}
	return t
}

func pickByte(c *hx.Ctx, bs ...byte) byte { return bs[c.R.Intn(len(bs))] }

// randForm picks a syntactic position for a reference of the given kind.
func randForm(c *hx.Ctx, kind byte) form {
	var f form
	if c.R.Intn(3) == 0 {
		return f
	}
	f.raw = c.R.Intn(5) == 0
	switch kind {
	case 'e':
		f.delim = pickByte(c, 't', 'b', 'b')
		f.trail = c.R.Intn(4) == 0
	case 'i':
		f.delim = pickByte(c, 't', 'b', 'b', 'b')
		f.join = c.R.Intn(2) == 0
		f.group = c.R.Intn(2) == 0
		f.ident = pickByte(c, 0, 0, 'n', '.', 'f')
		f.trail = c.R.Intn(4) == 0
	default:
		f.delim = pickByte(c, 's', 't', 'b', 'b', 'f')
		f.join = c.R.Intn(2) == 0
		f.via = pickByte(c, 0, 0, 'v', 'o')
		f.trail = c.R.Intn(4) == 0
	}
	return f
}

// ---------------------------------------------------------------------------------------------
// the matrix: statement × delimiter form × file role × path family

// A shape writes the reference under test (path p) into a file, in one syntactic position,
// possibly next to references to the existing file "/t".
type shape struct {
	name string
	refs func(p string) []ref
}

var shapes = func() []shape {
	var out []shape
	one := func(name string, kind byte, f form) {
		out = append(out, shape{name, func(p string) []ref { return []ref{{kind: kind, path: p, form: f}} }})
	}
	after := func(name string, kind byte, first, f form) { // second statement, after one that refers to /t
		out = append(out, shape{name, func(p string) []ref {
			return []ref{{kind: kind, path: "/t", form: first}, {kind: kind, path: p, form: f}}
		}})
	}
	before := func(name string, kind byte, f, next form) { // first statement, one that refers to /t follows
		out = append(out, shape{name, func(p string) []ref {
			return []ref{{kind: kind, path: p, form: f}, {kind: kind, path: "/t", form: next}}
		}})
	}
	// extends
	one("extends {% %}", 'e', form{delim: 't'})
	one("extends {%% %%}", 'e', form{delim: 'b'})
	one("extends {%% %%} raw string", 'e', form{delim: 'b', raw: true})
	one("extends {%% %%} + declaration", 'e', form{delim: 'b', trail: true})
	out = append(out, shape{"extends {%% %%} + import", func(p string) []ref {
		return []ref{{kind: 'e', path: p, form: form{delim: 'b'}}, {kind: 'i', path: "/t", form: form{delim: 'b', join: true}}}
	}})
	out = append(out, shape{"import in the {%% %%} of an extends", func(p string) []ref {
		return []ref{{kind: 'e', path: "/l", form: form{delim: 'b'}}, {kind: 'i', path: p, form: form{delim: 'b', join: true}}}
	}})
	out = append(out, shape{"grouped import after {% extends %}", func(p string) []ref {
		return []ref{{kind: 'e', path: "/l"}, {kind: 'i', path: p, form: form{delim: 'b', group: true}}}
	}})
	// import: plain / named / dot / for-list
	for _, id := range []byte{0, 'n', '.', 'f'} {
		n := map[byte]string{0: "import", 'n': "import n", '.': "import .", 'f': "import for"}[id]
		one(n+" {% %}", 'i', form{delim: 't', ident: id})
		one(n+" {% %} raw string", 'i', form{delim: 't', ident: id, raw: true})
		one(n+" {%% %%}", 'i', form{delim: 'b', ident: id})
		one(n+" {%% %%} + declaration", 'i', form{delim: 'b', ident: id, trail: true})
		after(n+" {%% %%} second", 'i', form{delim: 'b'}, form{delim: 'b', join: true, ident: id, trail: true})
		before(n+" {%% %%} first", 'i', form{delim: 'b', ident: id}, form{delim: 'b', join: true})
		after(n+" {%% %%} after {% import %}", 'i', form{delim: 't'}, form{delim: 'b', ident: id})
		one(n+" grouped", 'i', form{delim: 'b', group: true, ident: id})
		one(n+" grouped raw string", 'i', form{delim: 'b', group: true, ident: id, raw: true})
		after(n+" grouped second", 'i', form{delim: 'b', group: true}, form{delim: 'b', group: true, join: true, ident: id})
		before(n+" grouped first", 'i', form{delim: 'b', group: true, ident: id}, form{delim: 'b', group: true, join: true, trail: true})
		after(n+" second group", 'i', form{delim: 'b', group: true}, form{delim: 'b', group: true, ident: id})
		after(n+" grouped after plain in one block", 'i', form{delim: 'b'}, form{delim: 'b', join: true, group: true, ident: id})
	}
	// render expression
	one("render {{ }}", 'r', form{delim: 's'})
	one("render {{ }} raw string", 'r', form{delim: 's', raw: true})
	one("render {% show %}", 'r', form{delim: 't'})
	one("render {% var %}", 'r', form{delim: 't', via: 'v'})
	one("render {%% show %%}", 'r', form{delim: 'b'})
	one("render {%% show %%} + declaration", 'r', form{delim: 'b', trail: true})
	one("render {%% var %%}", 'r', form{delim: 'b', via: 'v'})
	one("render in a function literal", 'r', form{delim: 'f'})
	after("render {%% show %%} second", 'r', form{delim: 'b'}, form{delim: 'b', join: true})
	before("render {%% show %%} first", 'r', form{delim: 'b'}, form{delim: 'b', join: true})
	after("render in a function literal, second", 'r', form{delim: 'b'}, form{delim: 'f', join: true})
	// render with default
	one("render default {{ }}", 'd', form{delim: 's'})
	one("render default {% show %}", 'd', form{delim: 't'})
	one("render default {%% show %%}", 'd', form{delim: 'b'})
	after("render default {%% show %%} second", 'd', form{delim: 'b'}, form{delim: 'b', join: true, raw: true})
	for _, dl := range []byte{'s', 't', 'b'} {
		dl := dl
		out = append(out, shape{fmt.Sprintf("render as the default of a render (%c)", dl), func(p string) []ref {
			return []ref{{kind: 'd', path: "/nofile", form: form{delim: dl}}, {kind: 'r', path: p, form: form{via: 'o'}}}
		}})
	}
	return out
}()

var roles = []string{"root", "imported", "layout", "rendered", "rendered by an imported file", "imported by the layout"}

// matrixCase: the file d/e/x holds the shape; role says how it comes to be loaded.
func matrixCase(role int, sh shape, p string) tcase {
	x := file{name: "d/e/x", refs: canonical(sh.refs(p))}
	others := []file{{name: "t"}, {name: "d/t"}, {name: "d/e/t"}, {name: "l"}}
	var t tcase
	switch role {
	case 0:
		t = tcase{root: "d/e/x", files: []file{x}}
	case 1:
		t = tcase{root: "d/index", files: []file{{name: "d/index", refs: []ref{{kind: 'i', path: "e/x"}}}, x}}
	case 2:
		t = tcase{root: "d/index", files: []file{{name: "d/index", refs: []ref{{kind: 'e', path: "/d/e/x", form: form{delim: 'b'}}}}, x}}
	case 3:
		t = tcase{root: "d/index", files: []file{{name: "d/index", refs: []ref{{kind: 'r', path: "e/x", form: form{delim: 'b'}}}}, x}}
	case 4:
		t = tcase{root: "index", files: []file{{name: "index", refs: []ref{{kind: 'i', path: "d/m", form: form{delim: 'b', group: true}}}},
			{name: "d/m", refs: []ref{{kind: 'r', path: "../d/e/x"}}}, x}}
	default:
		t = tcase{root: "d/index", files: []file{{name: "d/index", refs: []ref{{kind: 'e', path: "../l2"}}},
			{name: "l2", refs: []ref{{kind: 'i', path: "d/e/x", form: form{delim: 'b'}}}}, x}}
	}
	t.files = append(t.files, others...)
	return t
}

// matrix enumerates role × shape × path; in the quick tier the roles other than "root" take
// every path of the family in turn instead of all of them (stride by shape and role).
func matrix(c *hx.Ctx) (cases []tcase, labels []string) {
	for role := range roles {
		for si, sh := range shapes {
			for pi, p := range pathFamily {
				if c.Quick() && role > 0 && (pi+si+role)%len(roles) != 0 {
					continue
				}
				cases = append(cases, matrixCase(role, sh, p))
				labels = append(labels, roles[role]+" / "+sh.name)
			}
		}
	}
	return
}

// shrink removes references and files while pred keeps holding.
func shrink(t tcase, pred func(tcase) bool) tcase {
	clone := func(t tcase) tcase {
		u := tcase{root: t.root}
		for _, f := range t.files {
			u.files = append(u.files, file{name: f.name, refs: append([]ref(nil), f.refs...)})
		}
		return u
	}
	for changed := true; changed; {
		changed = false
		for i := 0; i < len(t.files); i++ {
			if t.files[i].name == t.root {
				continue
			}
			u := clone(t)
			u.files = append(u.files[:i], u.files[i+1:]...)
			if pred(u) {
				t, changed = u, true
				i--
			}
		}
		for i := range t.files {
			for j := 0; j < len(t.files[i].refs); j++ {
				u := clone(t)
				u.files[i].refs = append(u.files[i].refs[:j], u.files[i].refs[j+1:]...)
				if pred(u) {
					t, changed = u, true
					j--
				}
			}
		}
		// the plainest form that still fails
		for i := range t.files {
			for j := range t.files[i].refs {
				old := t.files[i].refs[j].form
				for _, simpler := range []form{{}, {delim: old.delim}, {delim: old.delim, group: old.group},
					{delim: old.delim, group: old.group, join: old.join, ident: old.ident, via: old.via}} {
					if simpler == old {
						break
					}
					u := clone(t)
					u.files[i].refs[j].form = simpler
					if pred(u) {
						t, changed = u, true
						break
					}
				}
			}
		}
	}
	return t
}

func runBuilds(c *hx.Ctx) error {
	res := c.Res
	n := c.N(4000, 120000)
	var cases []tcase
	// the cycle tests of the repository, a few fixed shapes
	cases = append(cases,
		tcase{root: "index", files: []file{{"index", []ref{{kind: 'e', path: "/layout"}}}, {"layout", []ref{{kind: 'i', path: "/macros/macro"}}},
			{"partials/partial", []ref{{kind: 'i', path: "/macros/macro"}}}, {"macros/macro", []ref{{kind: 'r', path: "/partials/partial"}}}}},
		tcase{root: "index", files: []file{{"index", []ref{{kind: 'r', path: "index"}}}}},
		tcase{root: "index", files: []file{{"index", []ref{{kind: 'e', path: "/index"}}}}},
		tcase{root: "a/index", files: []file{{"a/index", []ref{{kind: 'i', path: "../a/index"}}}}},
		tcase{root: "a/b/f", files: []file{{"a/b/f", []ref{{kind: 'r', path: "../../../f"}}}, {"f", nil}}},
		tcase{root: "a/b/f", files: []file{{"a/b/f", []ref{{kind: 'r', path: "../../f"}, {kind: 'd', path: "../../../f"}, {kind: 'i', path: "../../../f"}}}, {"f", nil}}},
		tcase{root: "f", files: []file{{"f", []ref{{kind: 'r', path: "g"}, {kind: 'r', path: "g"}, {kind: 'r', path: "/g"}, {kind: 'r', path: "h"}}}, {"g", []ref{{kind: 'r', path: "h"}}}, {"h", nil}}},
	)
	labels := make([]string, len(cases))
	mcases, mlabels := matrix(c)
	cases = append(cases, mcases...)
	labels = append(labels, mlabels...)
	nmatrix := len(mcases)
	for i := 0; i < n; i++ {
		cases = append(cases, genCase(c))
		labels = append(labels, "")
	}
	lines := make([]string, len(cases))
	for i, t := range cases {
		lines[i] = t.line()
	}
	var model []string
	if c.D != nil {
		var err error
		model, err = c.D.Batch(lines)
		if err != nil {
			return err
		}
	}
	reported := map[string]int{}
	for i, t := range cases {
		formatFS := i%2 == 1
		o := build(t, formatFS)
		got := classify(t, o)
		cls := strings.SplitN(got, " opens ", 2)[0]
		if f := strings.Fields(cls); len(f) >= 3 && f[1] == "syntax" {
			res.Hist("build:" + strings.Join(f[:3], " "))
		} else if len(f) >= 2 {
			res.Hist("build:" + strings.Join(f[:2], " "))
		}
		res.Hist(fmt.Sprintf("build:opens=%02d", min(len(o.opens), 12)))
		if formatFS {
			res.Hist("build:through-FormatFS")
		}
		if labels[i] != "" {
			res.Hist("matrix:" + labels[i])
		}
		for _, f := range t.files {
			for k, fm := range layout(f.refs) {
				res.Hist(fmt.Sprintf("site:%c%c", f.refs[k].kind, fm.delim))
			}
		}
		res.Count("b:"+lines[i], len(o.opens) > 1)
		if (i%499 == 0 || i == 7+nmatrix/2) && len(o.opens) > 2 {
			res.Sample(map[string]string{"line": lines[i], "human": t.human(), "impl": got})
		}
		if clause := buildOracle(t, o); clause != "" {
			reported[clause]++
			if reported[clause] <= 3 {
				min := shrink(t, func(u tcase) bool { return buildOracle(u, build(u, formatFS)) == clause })
				mo := build(min, formatFS)
				res.AddBreak(proto.Break{Kind: "property", Name: clause, Case: min.line(), Human: min.human(),
					Impl: classify(min, mo), Model: "property clause " + clause + " (see go/props/c18/main.go:buildOracle)"})
			}
		}
		if model != nil && got != model[i] {
			res.AddBreak(proto.Break{Kind: "correspondence", Name: "parseTemplate-model-vs-scriggo.BuildTemplate", Case: lines[i],
				Human: t.human(), Impl: got, Model: model[i]})
		}
	}
	return nil
}

// runSites: the guard of every parse site, observed on the real parser (a one-statement file
// written in that position: is the path refused as invalid?) against the generated table the
// model is run with, for every path of the family.
func runSites(c *hx.Ctx) error {
	res := c.Res
	type sc struct {
		kind, delim byte
		shape       shape
		path        string
	}
	var cases []sc
	var lines []string
	for _, sh := range shapes {
		for _, p := range pathFamily {
			refs := canonical(sh.refs(p))
			lay := layout(refs)
			k := -1
			for j, r := range refs {
				if r.path == p && (k < 0 || r.path != "/t") {
					k = j
				}
			}
			if k < 0 {
				continue
			}
			kind := refs[k].kind
			if kind == 'd' {
				kind = 'r'
			}
			cases = append(cases, sc{kind, lay[k].delim, sh, p})
			lines = append(lines, fmt.Sprintf("C18 site %c %c %s", kind, lay[k].delim, hexs(p)))
		}
	}
	var model []string
	if c.D != nil {
		var err error
		if model, err = c.D.Batch(lines); err != nil {
			return err
		}
	}
	for i, s := range cases {
		t := tcase{root: "d/e/x", files: []file{{name: "d/e/x", refs: canonical(s.shape.refs(s.path))}, {name: "t"}, {name: "l"}}}
		o := build(t, false)
		var be *scriggo.BuildError
		refused := errors.As(o.err, &be) && strings.Contains(be.Message(), "invalid") && strings.Contains(be.Message(), strconv.Quote(s.path))
		res.Count("s:"+s.shape.name+"\x01"+s.path, !goValidTemplatePath(s.path))
		res.Hist(fmt.Sprintf("site-guard:%c%c", s.kind, s.delim))
		if refused == goValidTemplatePath(s.path) {
			res.AddBreak(proto.Break{Kind: "property", Name: "site-refuses-exactly-the-invalid-paths", Case: t.line(), Human: s.shape.name + ": " + t.human(),
				Impl: classify(t, o), Model: fmt.Sprintf("ValidTemplatePath(%q) is %v as documented", s.path, goValidTemplatePath(s.path))})
		}
		if model != nil && model[i] != boolLine(!refused) {
			res.AddBreak(proto.Break{Kind: "correspondence", Name: "site-guard-table-vs-parser", Case: lines[i], Human: s.shape.name + ": " + t.human(),
				Impl: boolLine(!refused), Model: model[i]})
		}
	}
	return nil
}

func run(c *hx.Ctx) error {
	c.Res.Rule = "(1) random (parent, name) pairs over tokens rich in . .. / // empty elements, trailing slashes, NUL, invalid UTF-8 and " +
		"structured rooted parents × valid template names (non-trivial: rooted parent and valid name, distinct by pair); " +
		"(2) generated file trees of 1–10 files in directories of depth ≤ 3 with extends/import/render/render-default references written " +
		"relative, absolute, with leading ../, escaping, to missing files, with invalid paths, self references and longer cycles, shared " +
		"partials, built with scriggo.BuildTemplate through a recording fs.FS (odd cases: as FormatFS) " +
		"(non-trivial: more than one Open, distinct by protocol line); four cases in five write every statement in a random syntactic " +
		"position: {% %} / a statement of a {%% %%} block (alone, first, among others, followed by a declaration) / grouped import ( … ) / " +
		"import plain, named, dot, for-list / render shown, through a variable, in a function literal, as the default of a render / raw string; " +
		"(3) the matrix file role {root, imported, layout, rendered, rendered by an imported file, imported by the layout} × statement " +
		"shape (see `shapes`) × path family (absolute, relative, '..' at start/middle/end, '//', trailing '/', '.', empty, backslashes, " +
		"NUL/control bytes, very long, non-UTF-8, percent-encoded, ':' names): exhaustive for the root role, strided for the others in the " +
		"quick tier; (4) per shape × path: the site refuses exactly the invalid paths, and agrees with the generated site table"
	if err := runPaths(c); err != nil {
		return err
	}
	if err := runBuilds(c); err != nil {
		return err
	}
	if err := runSites(c); err != nil {
		return err
	}
	return nil
}
