package main

import (
	"errors"
	"fmt"
	"io/fs"
	"os"
	"path"
	"strconv"
	"strings"
	"time"
	"unicode/utf8"

	"github.com/open2b/scriggo"
	hook "github.com/open2b/scriggo/verifhook/c18"

	"verifharness/internal/hx"
	"verifharness/internal/proto"
)

// C18: template file loading stays inside the file system and terminates.
//
//   - spec validation: Spec/GoPath.lean (Clean, Dir, Join, IsAbs, fs.ValidPath, utf8.Valid,
//     resolve) against the stdlib / an independent resolver on random paths;
//   - correspondence (hook): compiler.rooted and compiler.ValidTemplatePath vs. Model/Paths.lean
//     on random (parent, name) pairs;
//   - correspondence (public API): scriggo.BuildTemplate on generated file trees served by a
//     recording fs.FS (plain and FormatFS): sequence of names passed to Open and error class vs.
//     the model's trace;
//   - the property's own oracle on the real code, independent of the model.
func main() { hx.Main("C18", run) }

// ---------------------------------------------------------------------------------------------
// independent reference implementations used by the oracle (never the model)

// goResolve walks name element by element from the directory of parent (or from the root for
// an absolute name); ok is false when the walk leaves the root.
func goResolve(parent, name string) (string, bool) {
	var stack []string
	if strings.HasPrefix(name, "/") {
		name = name[1:]
	} else {
		ps := strings.Split(parent, "/")
		stack = append(stack, ps[:len(ps)-1]...)
	}
	for _, seg := range strings.Split(name, "/") {
		if seg == ".." {
			if len(stack) == 0 {
				return "", false
			}
			stack = stack[:len(stack)-1]
		} else {
			stack = append(stack, seg)
		}
	}
	return strings.Join(stack, "/"), true
}

// goValidTemplatePath is the documentation of ValidTemplatePath, element-wise: an optional
// leading slash or leading ".." elements, then a valid file system path other than ".".
func goValidTemplatePath(p string) bool {
	segs := strings.Split(p, "/")
	if len(p) > 0 && p[0] == '/' {
		segs = segs[1:]
	} else {
		for len(segs) > 1 && segs[0] == ".." {
			segs = segs[1:]
		}
	}
	rest := strings.Join(segs, "/")
	return rest != "." && fs.ValidPath(rest)
}

func validRooted(p string) bool { return fs.ValidPath(p) && p != "." }

// ---------------------------------------------------------------------------------------------
// random paths

var tokens = []string{".", "..", "/", "//", "a", "b", "é", "\x00", "\xff", "...", "..a", "a..", " ", "", "../", "/..", "./", "\xc3", "c.d"}
var normalSegs = []string{"a", "b", "c", "é", ".h", "a..", "..a", "...", "x y", "\x00", "c.d", "日本"}

func randPath(c *hx.Ctx) string {
	var b strings.Builder
	for n := c.R.Intn(9); n > 0; n-- {
		b.WriteString(c.R.Pick(tokens))
	}
	return b.String()
}

func randRooted(c *hx.Ctx) string {
	n := 1 + c.R.Intn(4)
	segs := make([]string, n)
	for i := range segs {
		segs[i] = c.R.Pick(normalSegs)
	}
	return strings.Join(segs, "/")
}

func randTemplateName(c *hx.Ctx) string {
	body := randRooted(c)
	switch c.R.Intn(4) {
	case 0:
		return "/" + body
	case 1:
		return body
	default:
		return strings.Repeat("../", 1+c.R.Intn(4)) + body
	}
}

func hexs(s string) string { return proto.Hex([]byte(s)) }

func boolLine(b bool) string {
	if b {
		return "ok true"
	}
	return "ok false"
}

// ---------------------------------------------------------------------------------------------
// part 1+2: specification validation and rooted / ValidTemplatePath

func rootedImpl(parent, name string) (line string, r string, err error) {
	defer func() {
		if p := recover(); p != nil {
			line, err = "err panic", fmt.Errorf("panic: %v", p)
		}
	}()
	r, err = hook.Rooted(parent, name)
	switch {
	case err == nil:
		return "ok " + hexs(r), r, nil
	case err == os.ErrNotExist:
		return "err notexist", "", err
	}
	return "err other:" + err.Error(), "", err
}

// rootedOracle is the property on rooted, independent of the model: for a rooted parent and a
// valid reference, a result stays inside the root, is clean and is the resolution of the
// reference; an escaping reference fails as not found.
func rootedOracle(parent, name string) (clause string, got string) {
	if !validRooted(parent) || !goValidTemplatePath(name) {
		return "", ""
	}
	line, r, err := rootedImpl(parent, name)
	want, inside := goResolve(parent, name)
	if err != nil {
		if err != os.ErrNotExist {
			return "rooted-error-is-not-exist", line
		}
		return "", line
	}
	if !inside {
		return "escaping-fails", line
	}
	if !fs.ValidPath(r) || r == "." || path.Clean(r) != r || strings.HasPrefix(r, "/") {
		return "rooted-result-valid", line
	}
	if r != want {
		return "rooted-result-is-resolution", line
	}
	return "", line
}

func runPaths(c *hx.Ctx) error {
	res := c.Res
	type pc struct{ parent, name string }
	var cases []pc
	n := c.N(12000, 300000)
	for i := 0; i < n; i++ {
		var p pc
		switch c.R.Intn(4) {
		case 0:
			p = pc{randPath(c), randPath(c)}
			res.Hist("paths:random-parent,random-name")
		case 1:
			p = pc{randRooted(c), randPath(c)}
			res.Hist("paths:rooted-parent,random-name")
		default:
			p = pc{randRooted(c), randTemplateName(c)}
			res.Hist("paths:rooted-parent,valid-name")
		}
		cases = append(cases, p)
	}
	// a few fixed ones from the documentation of rooted
	for _, p := range []pc{{"a/b/c", "/d/e"}, {"a/b/c", "d/e"}, {"a/b/c", "../d/e"}, {"a/b/c", "../../d/e"},
		{"a/b/c", "../../../d/e"}, {"c", "../d"}, {"c", "d"}, {"..a/c", "d"}, {"a/c", "../..a"}, {"a", "/"}, {"a", ""}, {"", ""}} {
		cases = append(cases, p)
	}
	var lines []string
	for _, p := range cases {
		lines = append(lines,
			"C18 rooted "+hexs(p.parent)+" "+hexs(p.name),
			"C18 vtp "+hexs(p.name),
			"C18 clean "+hexs(p.name),
			"C18 dir "+hexs(p.parent),
			"C18 join "+hexs(p.parent)+" "+hexs(p.name),
			"C18 isabs "+hexs(p.name),
			"C18 validpath "+hexs(p.name),
			"C18 validutf8 "+hexs(p.name),
			"C18 resolve "+hexs(p.parent)+" "+hexs(p.name))
	}
	var model []string
	if c.D != nil {
		var err error
		model, err = c.D.Batch(lines)
		if err != nil {
			return err
		}
	}
	const per = 9
	for i, p := range cases {
		human := fmt.Sprintf("parent=%q name=%q", p.parent, p.name)
		valid := validRooted(p.parent) && goValidTemplatePath(p.name)
		res.Count("p:"+p.parent+"\x01"+p.name, valid)
		// property oracle on the real code
		if clause, _ := rootedOracle(p.parent, p.name); clause != "" {
			parent, name := p.parent, p.name
			parent = string(hx.ShrinkBytes([]byte(parent), func(b []byte) bool { cl, _ := rootedOracle(string(b), name); return cl == clause }))
			name = string(hx.ShrinkBytes([]byte(name), func(b []byte) bool { cl, _ := rootedOracle(parent, string(b)); return cl == clause }))
			_, got := rootedOracle(parent, name)
			want, inside := goResolve(parent, name)
			res.AddBreak(proto.Break{Kind: "property", Name: clause, Case: "C18 rooted " + hexs(parent) + " " + hexs(name),
				Human: fmt.Sprintf("rooted parent=%q name=%q", parent, name),
				Impl: got, Model: fmt.Sprintf("resolution %q inside-root=%v", want, inside)})
		}
		if valid {
			if _, inside := goResolve(p.parent, p.name); inside {
				res.Hist("rooted:valid-inside")
			} else {
				res.Hist("rooted:valid-escaping")
			}
		}
		if model == nil {
			continue
		}
		m := model[i*per : i*per+per]
		// correspondence on the real code
		implLine, _, _ := rootedImpl(p.parent, p.name)
		if implLine != m[0] {
			res.AddBreak(proto.Break{Kind: "correspondence", Name: "rooted-model-vs-compiler.rooted", Case: lines[i*per],
				Human: "rooted " + human, Impl: implLine, Model: m[0]})
		}
		if l := boolLine(hook.ValidTemplatePath(p.name)); l != m[1] {
			res.AddBreak(proto.Break{Kind: "correspondence", Name: "validTemplatePath-model-vs-compiler.ValidTemplatePath",
				Case: lines[i*per+1], Human: fmt.Sprintf("ValidTemplatePath(%q)", p.name), Impl: l, Model: m[1]})
		}
		// the real ValidTemplatePath against its documentation
		if hook.ValidTemplatePath(p.name) != goValidTemplatePath(p.name) {
			res.AddBreak(proto.Break{Kind: "property", Name: "valid-template-path-as-documented", Case: lines[i*per+1],
				Human: fmt.Sprintf("ValidTemplatePath(%q)", p.name), Impl: boolLine(hook.ValidTemplatePath(p.name)), Model: boolLine(goValidTemplatePath(p.name))})
		}
		// validation of the specification against the stdlib
		spec := []struct{ name, want, got, line string }{
			{"spec-clean-vs-path.Clean", "ok " + hexs(path.Clean(p.name)), m[2], lines[i*per+2]},
			{"spec-dir-vs-path.Dir", "ok " + hexs(path.Dir(p.parent)), m[3], lines[i*per+3]},
			{"spec-join-vs-path.Join", "ok " + hexs(path.Join(p.parent, p.name)), m[4], lines[i*per+4]},
			{"spec-isabs-vs-path.IsAbs", boolLine(path.IsAbs(p.name)), m[5], lines[i*per+5]},
			{"spec-validpath-vs-fs.ValidPath", boolLine(fs.ValidPath(p.name)), m[6], lines[i*per+6]},
			{"spec-validutf8-vs-utf8.ValidString", boolLine(utf8.ValidString(p.name)), m[7], lines[i*per+7]},
		}
		if valid {
			want := "ok none"
			if r, ok := goResolve(p.parent, p.name); ok {
				want = "ok some " + hexs(r)
			}
			spec = append(spec, struct{ name, want, got, line string }{"spec-resolve-vs-element-walk", want, m[8], lines[i*per+8]})
		}
		for _, s := range spec {
			res.SpecChecks[s.name]++
			if s.want != s.got {
				res.AddBreak(proto.Break{Kind: "correspondence", Name: s.name, Case: s.line, Human: human, Impl: s.want, Model: s.got})
			}
		}
		if i%997 == 0 && valid {
			res.Sample(map[string]string{"line": lines[i*per], "human": human, "model": m[0], "impl": implLine})
		}
	}
	return nil
}

// ---------------------------------------------------------------------------------------------
// part 3: whole builds

type ref struct {
	kind byte // 'e' extends, 'i' import, 'r' render, 'd' render … default
	path string
}

type file struct {
	name string
	refs []ref
}

type tcase struct {
	root  string
	files []file
}

func (t tcase) line() string {
	var b strings.Builder
	fmt.Fprintf(&b, "C18 build %s %d", hexs(t.root), len(t.files))
	for _, f := range t.files {
		fmt.Fprintf(&b, " %s %d", hexs(f.name), len(f.refs))
		for _, r := range f.refs {
			fmt.Fprintf(&b, " %c %s", r.kind, hexs(r.path))
		}
	}
	return b.String()
}

func (t tcase) human() string {
	var b strings.Builder
	fmt.Fprintf(&b, "BuildTemplate(fsys, %q) with", t.root)
	for i, f := range t.files {
		fmt.Fprintf(&b, " %q: `%s`;", f.name, source(i, f))
	}
	return b.String()
}

// source is the template source of a file: extends first, then the imports, then one macro
// whose body holds the render expressions (valid in extending, imported and rendered files).
func source(idx int, f file) string {
	var b strings.Builder
	for _, r := range f.refs {
		switch r.kind {
		case 'e':
			fmt.Fprintf(&b, "{%% extends %s %%}", quote(r.path))
		case 'i':
			fmt.Fprintf(&b, "{%% import %s %%}", quote(r.path))
		}
	}
	fmt.Fprintf(&b, "{%% macro M%d %%}", idx)
	for _, r := range f.refs {
		switch r.kind {
		case 'r':
			fmt.Fprintf(&b, "{{ render %s }}", quote(r.path))
		case 'd':
			fmt.Fprintf(&b, "{{ render %s default \"\" }}", quote(r.path))
		}
	}
	b.WriteString("{% end %}")
	return b.String()
}

// quote writes p as an interpreted string literal of the template language.
func quote(p string) string {
	var b strings.Builder
	b.WriteByte('"')
	for i := 0; i < len(p); i++ {
		switch ch := p[i]; {
		case ch == '"' || ch == '\\':
			b.WriteByte('\\')
			b.WriteByte(ch)
		case ch < 0x20 || ch == 0x7f:
			fmt.Fprintf(&b, `\x%02x`, ch)
		case ch >= 0x80 && !utf8.ValidString(p):
			fmt.Fprintf(&b, `\x%02x`, ch) // invalid UTF-8 cannot be written literally in a template source
		default:
			b.WriteByte(ch)
		}
	}
	b.WriteByte('"')
	return b.String()
}

// canonical order of the references of a file: what the source above yields in `unexpanded`.
func canonical(refs []ref) []ref {
	var out []ref
	for _, r := range refs {
		if r.kind == 'e' {
			out = append(out, r)
			break // a second extends is a syntax error of its own
		}
	}
	for _, r := range refs {
		if r.kind == 'i' {
			out = append(out, r)
		}
	}
	for _, r := range refs {
		if r.kind == 'r' || r.kind == 'd' {
			out = append(out, r)
		}
	}
	return out
}

// recording file system
type recFS struct {
	files map[string]string
	opens []string
	limit int
	over  bool
}

var errTooManyOpens = errors.New("verif: too many calls to Open")

func (r *recFS) Open(name string) (fs.File, error) {
	r.opens = append(r.opens, name)
	if len(r.opens) > r.limit {
		r.over = true
		return nil, errTooManyOpens
	}
	src, ok := r.files[name]
	if !ok {
		return nil, &fs.PathError{Op: "open", Path: name, Err: fs.ErrNotExist}
	}
	return &memFile{name: name, r: strings.NewReader(src), size: int64(len(src))}, nil
}

type memFile struct {
	name string
	r    *strings.Reader
	size int64
}

func (f *memFile) Stat() (fs.FileInfo, error) { return memInfo{f}, nil }
func (f *memFile) Read(b []byte) (int, error) { return f.r.Read(b) }
func (f *memFile) Close() error               { return nil }

type memInfo struct{ f *memFile }

func (i memInfo) Name() string       { return path.Base(i.f.name) }
func (i memInfo) Size() int64        { return i.f.size }
func (i memInfo) Mode() fs.FileMode  { return 0o444 }
func (i memInfo) ModTime() time.Time { return time.Time{} }
func (i memInfo) IsDir() bool        { return false }
func (i memInfo) Sys() any           { return nil }

type recFormatFS struct{ *recFS }

func (r recFormatFS) Format(name string) (scriggo.Format, error) { return scriggo.FormatHTML, nil }

type outcome struct {
	opens    []string
	err      error
	panicked string
	timeout  bool
	over     bool
}

func build(t tcase, formatFS bool) outcome {
	rec := &recFS{files: map[string]string{}, limit: 20*len(t.files) + 50}
	for i, f := range t.files {
		rec.files[f.name] = source(i, f)
	}
	var fsys fs.FS = rec
	if formatFS {
		fsys = recFormatFS{rec}
	}
	done := make(chan outcome, 1)
	go func() {
		var o outcome
		defer func() {
			if p := recover(); p != nil {
				o.panicked = fmt.Sprint(p)
			}
			done <- o
		}()
		_, o.err = scriggo.BuildTemplate(fsys, t.root, nil)
	}()
	select {
	case o := <-done:
		o.opens = rec.opens
		o.over = rec.over
		return o
	case <-time.After(20 * time.Second):
		return outcome{timeout: true}
	}
}

// classify maps what BuildTemplate returned to the vocabulary of the model's answer.
func classify(t tcase, o outcome) string {
	var cls string
	var be *scriggo.BuildError
	switch {
	case o.timeout:
		return "timeout"
	case o.panicked != "":
		cls = "err panic " + o.panicked
	case o.over:
		cls = "err too-many-opens"
	case o.err == nil:
		cls = "ok clean"
	case o.err == os.ErrInvalid:
		cls = "err invalid"
	case errors.As(o.err, &be):
		msg := be.Message()
		q := func(format string) (string, bool) { // "<prefix> %q does not exist"
			var p string
			pre, post, _ := strings.Cut(format, "%q")
			if strings.HasPrefix(msg, pre) && strings.HasSuffix(msg, post) {
				if u, err := strconv.Unquote(msg[len(pre) : len(msg)-len(post)]); err == nil {
					p = u
					return p, true
				}
			}
			return "", false
		}
		switch {
		case strings.HasSuffix(msg, ": cycle not allowed") && strings.HasPrefix(msg, "file "+t.root+"\n\t"):
			chain := strings.Split(strings.TrimSuffix(strings.TrimPrefix(msg, "file "+t.root+"\n\t"), ": cycle not allowed"), "\n\t")
			cls = "err cycle " + hexs(be.Path()) + " " + strconv.Itoa(len(chain))
			for _, c := range chain {
				verb, p, _ := strings.Cut(c, " ")
				k := map[string]string{"extends": "e", "imports": "i", "renders": "r"}[verb]
				if k == "" {
					k = "?" + verb
				}
				cls += " " + k + " " + hexs(p)
			}
		case strings.HasPrefix(msg, "cannot find package "):
			cls = "ok missing-import"
		case strings.HasPrefix(msg, "invalid extends path "):
			cls = "err syntax invalid-ref-path e"
		case strings.HasPrefix(msg, "invalid import path: "):
			cls = "err syntax invalid-ref-path i"
		case strings.HasPrefix(msg, "invalid file path: "):
			cls = "err syntax invalid-ref-path r"
		case msg == "imported and rendered files can not have extends":
			cls = "err syntax cannot-extend"
		case strings.HasPrefix(msg, "import of file extended at "):
			cls = "err syntax import-of-extended"
		case strings.HasPrefix(msg, "render of file extended at "):
			cls = "err syntax render-of-extended"
		case strings.HasPrefix(msg, "render of file imported at "):
			cls = "err syntax render-of-imported"
		case strings.HasPrefix(msg, "import of file rendered at "):
			cls = "err syntax import-of-rendered"
		default:
			if p, ok := q("extends path %q does not exist"); ok {
				cls = "err syntax extends-not-exist " + hexs(p)
			} else if p, ok := q("render path %q does not exist"); ok {
				cls = "err syntax render-not-exist " + hexs(p)
			} else {
				cls = "err other-build-error " + strconv.Quote(be.Error())
			}
		}
	case errors.Is(o.err, fs.ErrNotExist):
		cls = "err notexist"
	default:
		cls = fmt.Sprintf("err other %T %q", o.err, o.err.Error())
	}
	var b strings.Builder
	b.WriteString(cls)
	fmt.Fprintf(&b, " opens %d", len(o.opens))
	for _, n := range o.opens {
		b.WriteString(" " + hexs(n))
	}
	return b.String()
}

func isCycleError(err error) bool {
	var be *scriggo.BuildError
	return errors.As(err, &be) && strings.Contains(be.Message(), "cycle not allowed")
}

// buildOracle evaluates the property on one real build, independently of the model.
func buildOracle(t tcase, o outcome) (clause string) {
	if o.timeout {
		return "terminates"
	}
	exists := map[string]*file{}
	for i := range t.files {
		if _, dup := exists[t.files[i].name]; !dup {
			exists[t.files[i].name] = &t.files[i]
		}
	}
	// every name opened after the root's is a clean, valid, rooted path
	for i, n := range o.opens {
		if i == 0 {
			if n != t.root {
				return "first-open-is-the-root"
			}
			continue
		}
		if !fs.ValidPath(n) || n == "." || path.Clean(n) != n {
			return "opened-name-valid-and-clean"
		}
	}
	// … obtained by resolving a reference of a file opened before it
	if validRooted(t.root) {
		for i, n := range o.opens {
			if i == 0 {
				continue
			}
			found := false
			for _, p := range o.opens[:i] {
				f := exists[p]
				if f == nil {
					continue
				}
				for _, r := range f.refs {
					if !goValidTemplatePath(r.path) {
						continue
					}
					if got, ok := goResolve(p, r.path); ok && got == n {
						found = true
					}
				}
			}
			if !found {
				return "opened-name-is-a-resolved-reference"
			}
		}
	}
	// no existing file is opened twice
	seen := map[string]bool{}
	for _, n := range o.opens {
		if exists[n] != nil {
			if seen[n] {
				return "existing-file-opened-at-most-once"
			}
			seen[n] = true
		}
	}
	if o.over {
		return "bounded-number-of-opens"
	}
	if o.panicked != "" {
		return "no-panic"
	}
	// references that leave the root fail (extends, import, render without default)
	for _, n := range o.opens {
		f := exists[n]
		if f == nil || !validRooted(n) {
			continue
		}
		for _, r := range f.refs {
			if r.kind == 'd' || !goValidTemplatePath(r.path) {
				continue
			}
			if _, ok := goResolve(n, r.path); !ok && o.err == nil {
				return "escaping-reference-fails"
			}
		}
	}
	// a cycle among the loaded files is an error; a reported cycle is a real one
	if validRooted(t.root) && exists[t.root] != nil {
		cyclic, pure := reachableCycle(t, exists)
		if cyclic && o.err == nil {
			return "cycle-is-an-error"
		}
		if cyclic && pure && !isCycleError(o.err) {
			return "cycle-reported-as-cycle"
		}
		if !cyclic && isCycleError(o.err) {
			return "reported-cycle-is-real"
		}
	}
	return ""
}

// reachableCycle tells whether the graph of the files reachable from the root through
// references that resolve to existing files has a cycle, and whether nothing else can go wrong
// first (pure: every reachable reference is a plain render of an existing file).
func reachableCycle(t tcase, exists map[string]*file) (cyclic, pure bool) {
	pure = true
	state := map[string]int{} // 1 on the stack, 2 done
	var visit func(n string)
	visit = func(n string) {
		state[n] = 1
		for _, r := range exists[n].refs {
			if !goValidTemplatePath(r.path) {
				pure = false
				continue
			}
			target, ok := goResolve(n, r.path)
			if r.kind != 'r' || !ok || exists[target] == nil {
				pure = false
			}
			if !ok || exists[target] == nil {
				continue
			}
			if strings.HasPrefix(target, "..") {
				// rooted refuses these names (a first element that merely starts with ".."):
				// allowed over-rejection, not an edge
				pure = false
				continue
			}
			switch state[target] {
			case 1:
				cyclic = true
			case 0:
				visit(target)
			}
		}
		state[n] = 2
	}
	visit(t.root)
	return
}

var dirNames = []string{"a", "b", "c", "é", ".h", "a..", "x y", "c.d"}
var fileNames = []string{"f", "g", "h", "i.x", "é", ".j", "k.."}
var badRefs = []string{".", "", "/", "a//b", "a/../b", "a/", "./a", "..", "../", "../..", "/../a", "a/./b", "/a/", "../a/../b", "\xff"}

func relativeRef(c *hx.Ctx, parent, target string) string {
	pd := strings.Split(parent, "/")
	pd = pd[:len(pd)-1]
	ts := strings.Split(target, "/")
	common := 0
	for common < len(pd) && common < len(ts)-1 && pd[common] == ts[common] {
		common++
	}
	if common > 0 && c.R.Intn(4) == 0 {
		common -= 1 + c.R.Intn(common) // go up further than needed and come down again
	}
	return strings.Repeat("../", len(pd)-common) + strings.Join(ts[common:], "/")
}

func genCase(c *hx.Ctx) tcase {
	var t tcase
	n := 1 + c.R.Intn(10)
	nd := 1 + c.R.Intn(3)
	dirs := make([]string, nd)
	for i := range dirs {
		dirs[i] = c.R.Pick(dirNames)
	}
	used := map[string]bool{}
	for len(t.files) < n {
		depth := c.R.Intn(4)
		segs := make([]string, 0, depth+1)
		for j := 0; j < depth; j++ {
			segs = append(segs, dirs[c.R.Intn(nd)])
		}
		segs = append(segs, c.R.Pick(fileNames))
		name := strings.Join(segs, "/")
		if used[name] || used[name+"/"] {
			n--
			continue
		}
		used[name] = true
		t.files = append(t.files, file{name: name})
	}
	if len(t.files) == 0 {
		t.files = append(t.files, file{name: "f"})
	}
	forward := 10 // how strongly references point forward (10: no cycle) in this case
	switch x := c.R.Intn(10); {
	case x < 3:
		forward = c.R.Intn(10)
	case x < 6:
		forward = 8 + c.R.Intn(2)
	}
	for i := range t.files {
		f := &t.files[i]
		var refs []ref
		if c.R.Intn(6) == 0 {
			refs = append(refs, ref{kind: 'e'})
		}
		for k := c.R.Intn(3); k > 0; k-- {
			refs = append(refs, ref{kind: 'i'})
		}
		for k := c.R.Intn(4); k > 0; k-- {
			if c.R.Intn(4) == 0 {
				refs = append(refs, ref{kind: 'd'})
			} else {
				refs = append(refs, ref{kind: 'r'})
			}
		}
		if c.R.Intn(3) == 0 { // plain render-only file
			var only []ref
			for _, r := range refs {
				if r.kind == 'r' {
					only = append(only, r)
				}
			}
			refs = only
		}
		for j := range refs {
			var target string
			switch x := c.R.Intn(60); {
			case x == 0:
				target = "" // a bad reference
			case x == 1:
				target = strings.Join([]string{c.R.Pick(dirs), "nofile"}, "/")
			case x == 2:
				target = "nofile"
			default:
				if c.R.Intn(10) < forward {
					if i+1 < len(t.files) {
						target = t.files[i+1+c.R.Intn(len(t.files)-i-1)].name
					} else {
						target = "nofile"
						refs[j].kind = 'd'
					}
				} else {
					target = t.files[c.R.Intn(len(t.files))].name
				}
			}
			switch x := c.R.Intn(20); {
			case target == "":
				refs[j].path = c.R.Pick(badRefs)
			case x < 6:
				refs[j].path = "/" + target
			case x == 6 && c.R.Intn(3) == 0:
				// leaves the root
				depth := strings.Count(f.name, "/")
				refs[j].path = strings.Repeat("../", depth+1+c.R.Intn(2)) + target
			default:
				refs[j].path = relativeRef(c, f.name, target)
			}
		}
		f.refs = canonical(refs)
	}
	switch x := c.R.Intn(40); {
	case x == 0:
		t.root = c.R.Pick([]string{".", "a/", "", "../f", "/f", "nofile", "a//f", "./f"})
	default:
		t.root = t.files[0].name
		if x < 8 {
			t.root = t.files[c.R.Intn(len(t.files))].name
		}
	}
	return t
}

// shrink removes references and files while pred keeps holding.
func shrink(t tcase, pred func(tcase) bool) tcase {
	clone := func(t tcase) tcase {
		u := tcase{root: t.root}
		for _, f := range t.files {
			u.files = append(u.files, file{name: f.name, refs: append([]ref(nil), f.refs...)})
		}
		return u
	}
	for changed := true; changed; {
		changed = false
		for i := 0; i < len(t.files); i++ {
			if t.files[i].name == t.root {
				continue
			}
			u := clone(t)
			u.files = append(u.files[:i], u.files[i+1:]...)
			if pred(u) {
				t, changed = u, true
				i--
			}
		}
		for i := range t.files {
			for j := 0; j < len(t.files[i].refs); j++ {
				u := clone(t)
				u.files[i].refs = append(u.files[i].refs[:j], u.files[i].refs[j+1:]...)
				if pred(u) {
					t, changed = u, true
					j--
				}
			}
		}
	}
	return t
}

func runBuilds(c *hx.Ctx) error {
	res := c.Res
	n := c.N(4000, 120000)
	var cases []tcase
	// the cycle tests of the repository, a few fixed shapes
	cases = append(cases,
		tcase{root: "index", files: []file{{"index", []ref{{'e', "/layout"}}}, {"layout", []ref{{'i', "/macros/macro"}}},
			{"partials/partial", []ref{{'i', "/macros/macro"}}}, {"macros/macro", []ref{{'r', "/partials/partial"}}}}},
		tcase{root: "index", files: []file{{"index", []ref{{'r', "index"}}}}},
		tcase{root: "index", files: []file{{"index", []ref{{'e', "/index"}}}}},
		tcase{root: "a/index", files: []file{{"a/index", []ref{{'i', "../a/index"}}}}},
		tcase{root: "a/b/f", files: []file{{"a/b/f", []ref{{'r', "../../../f"}}}, {"f", nil}}},
		tcase{root: "a/b/f", files: []file{{"a/b/f", []ref{{'r', "../../f"}, {'d', "../../../f"}, {'i', "../../../f"}}}, {"f", nil}}},
		tcase{root: "f", files: []file{{"f", []ref{{'r', "g"}, {'r', "g"}, {'r', "/g"}, {'r', "h"}}}, {"g", []ref{{'r', "h"}}}, {"h", nil}}},
	)
	for i := 0; i < n; i++ {
		cases = append(cases, genCase(c))
	}
	lines := make([]string, len(cases))
	for i, t := range cases {
		lines[i] = t.line()
	}
	var model []string
	if c.D != nil {
		var err error
		model, err = c.D.Batch(lines)
		if err != nil {
			return err
		}
	}
	for i, t := range cases {
		formatFS := i%2 == 1
		o := build(t, formatFS)
		got := classify(t, o)
		cls := strings.SplitN(got, " opens ", 2)[0]
		if f := strings.Fields(cls); len(f) >= 3 && f[1] == "syntax" {
			res.Hist("build:" + strings.Join(f[:3], " "))
		} else if len(f) >= 2 {
			res.Hist("build:" + strings.Join(f[:2], " "))
		}
		res.Hist(fmt.Sprintf("build:opens=%02d", min(len(o.opens), 12)))
		if formatFS {
			res.Hist("build:through-FormatFS")
		}
		res.Count("b:"+lines[i], len(o.opens) > 1)
		if i%499 == 0 && len(o.opens) > 2 {
			res.Sample(map[string]string{"line": lines[i], "human": t.human(), "impl": got})
		}
		if clause := buildOracle(t, o); clause != "" {
			min := shrink(t, func(u tcase) bool { return buildOracle(u, build(u, formatFS)) == clause })
			mo := build(min, formatFS)
			res.AddBreak(proto.Break{Kind: "property", Name: clause, Case: min.line(), Human: min.human(),
				Impl: classify(min, mo), Model: "property clause " + clause + " (see go/props/c18/main.go:buildOracle)"})
		}
		if model != nil && got != model[i] {
			res.AddBreak(proto.Break{Kind: "correspondence", Name: "parseTemplate-model-vs-scriggo.BuildTemplate", Case: lines[i],
				Human: t.human(), Impl: got, Model: model[i]})
		}
	}
	return nil
}

func run(c *hx.Ctx) error {
	c.Res.Rule = "(1) random (parent, name) pairs over tokens rich in . .. / // empty elements, trailing slashes, NUL, invalid UTF-8 and " +
		"structured rooted parents × valid template names (non-trivial: rooted parent and valid name, distinct by pair); " +
		"(2) generated file trees of 1–10 files in directories of depth ≤ 3 with extends/import/render/render-default references written " +
		"relative, absolute, with leading ../, escaping, to missing files, with invalid paths, self references and longer cycles, shared " +
		"partials, built with scriggo.BuildTemplate through a recording fs.FS (odd cases: as FormatFS) " +
		"(non-trivial: more than one Open, distinct by protocol line)"
	if err := runPaths(c); err != nil {
		return err
	}
	if err := runBuilds(c); err != nil {
		return err
	}
	return nil
}
