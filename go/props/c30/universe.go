package main

import (
	"fmt"
	"os"
	"regexp"
	"strings"
	"time"

	"verifharness/internal/hx"
	"verifharness/internal/proto"
)

// Rebuild family: programs that use a predeclared constant of the universe scope — true, false,
// nil, iota — both at a type defined in the program and where its default type shows, and are
// then built again in the same process. The universe scope is shared by every build of a process
// (package-level `universe` of internal/compiler; Gen/CompilerGlobals.pointerReach): whatever a
// build leaves in it shows as the second build of the *same source* giving another program.
// Every program of the family is built three times in a process of its own; the three results
// (error, disassembly, output of a run) must coincide.

type uniProg struct {
	konst string // true false nil iota
	typ   string // the defined type: its name is D
	typed string // form of the use at the defined type
	obs   string // form of the use where the default type shows
	okon  string // the constant the observation uses
	first string // "typed" or "obs": which comes first in main
	src   string
}

// typed-use forms: (package-level declarations, statements in main); K is the constant
var uniTypedForms = []struct{ name, decls, stmts string }{
	{"var", "", "var x D = K\n\t_ = x"},
	{"conversion", "", "x := D(K)\n\t_ = x"},
	{"const", "", "const c D = K\n\t_ = c"},
	{"argument", "func fd(d D) {}\n", "fd(K)"},
	{"comparison", "", "var d D\n\t_ = d == K"},
	{"slice-literal", "", "x := []D{K}\n\t_ = x"},
	{"struct-field", "type TD struct{ F D }\n", "x := TD{F: K}\n\t_ = x"},
	{"return", "func rd() D { return K }\n", "_ = rd()"},
	{"assignment", "var gd D\n", "gd = K"},
	{"global-var", "var gx D = K\n", "_ = gx"},
	{"global-const", "const gc D = K\n", "_ = gc"},
	{"default-type", "", "var x = K\n\t_ = x"}, // control: no defined type involved
}

var uniObsForms = []struct{ name, stmts string }{
	{"short-var", "y := K\n\tprintln(fmt.Sprintf(\"%T\", y))"},
	{"any-var", "var z any = K\n\tprintln(fmt.Sprintf(\"%T\", z))"},
	{"argument", "println(fmt.Sprintf(\"%T %v\", K, K))"},
	{"println", "println(K)\n\t_ = fmt.Sprint()"},
	{"type-switch", "var w interface{} = K\n\tswitch w.(type) {\n\tcase bool:\n\t\tprintln(\"bool\")\n\tcase int:\n\t\tprintln(\"int\")\n\tcase nil:\n\t\tprintln(\"nil\")\n\tdefault:\n\t\tprintln(\"other\")\n\t}\n\t_ = fmt.Sprint()"},
	{"operator", "println(fmt.Sprintf(\"%T\", OP))"},
}

var uniTypes = map[string][]string{
	"true":  {"bool"},
	"false": {"bool"},
	"nil":   {"*int", "[]int", "map[string]int", "func()", "interface{ M() }"},
	"iota":  {"int", "uint8", "float64"},
}

func (u *uniProg) render() {
	var tf, of = uniTypedForms[0], uniObsForms[0]
	for _, f := range uniTypedForms {
		if f.name == u.typed {
			tf = f
		}
	}
	for _, f := range uniObsForms {
		if f.name == u.obs {
			of = f
		}
	}
	k := func(s, konst string) string {
		op := "!" + konst
		switch konst {
		case "nil":
			op = "nil == nil"
		case "iota":
			op = "-iota"
		}
		s = strings.ReplaceAll(s, "OP", op)
		return strings.ReplaceAll(s, "K", konst)
	}
	typed, obs, decls := k(tf.stmts, u.konst), k(of.stmts, u.okon), k(tf.decls, u.konst)
	if u.konst == "iota" || u.okon == "iota" {
		// iota lives in constant declarations only
		typed = strings.ReplaceAll(typed, "iota", "ci")
		obs = strings.ReplaceAll(obs, "iota", "cj")
		decls = strings.ReplaceAll(decls, "= iota", "= ci")
		decls = "const ci D = iota\nconst cj = iota\n" + decls
		if u.typed == "default-type" {
			decls = strings.Replace(decls, "const ci D = iota", "const ci = iota", 1)
		}
	}
	if u.konst == "nil" && (u.typed == "const" || u.typed == "global-const" || u.typed == "default-type" || u.typed == "comparison" && u.typ == "func()") {
		typed, decls = "var x D = nil\n\t_ = x", strings.ReplaceAll(decls, "const gc D = nil\n", "")
	}
	if u.typed == "comparison" && (u.typ == "[]int" || u.typ == "map[string]int" || u.typ == "func()") {
		typed = "var d D\n\t_ = d == nil"
	}
	body := typed + "\n\t" + obs
	if u.first == "obs" {
		body = obs + "\n\t" + typed
	}
	u.src = "package main\n\nimport \"fmt\"\n\ntype D " + u.typ + "\n" + decls + "\nfunc main() {\n\t" + body + "\n}\n"
}

func uniFamily(c *hx.Ctx) []*uniProg {
	var out []*uniProg
	r := proto.NewRand(proto.NewRand(c.Seed ^ 0x0b001).U64()) // its own generator, keyed by the seed
	add := func(u uniProg) {
		u.render()
		out = append(out, &u)
	}
	// every typed use × every observation × both orders, for true, for false, and with the
	// observation using the other boolean constant (quick tier: one point in two of the first
	// matrix, one in six of the others)
	for _, konst := range []string{"true", "false"} {
		for _, tf := range uniTypedForms {
			for _, of := range uniObsForms {
				for _, first := range []string{"typed", "obs"} {
					if c.Quick() && (konst == "true" && r.Intn(2) != 0 || konst == "false" && r.Intn(6) != 0) {
						continue
					}
					add(uniProg{konst: konst, typ: "bool", typed: tf.name, obs: of.name, okon: konst, first: first})
				}
			}
		}
	}
	for _, tf := range uniTypedForms {
		for _, of := range uniObsForms {
			if c.Quick() && r.Intn(6) != 0 {
				continue
			}
			add(uniProg{konst: "true", typ: "bool", typed: tf.name, obs: of.name, okon: "false", first: "obs"})
		}
	}
	for _, konst := range []string{"nil", "iota"} {
		for _, typ := range uniTypes[konst] {
			for _, tf := range uniTypedForms {
				if konst == "nil" && (tf.name == "const" || tf.name == "global-const" || tf.name == "default-type") {
					continue
				}
				if c.Quick() && r.Intn(3) != 0 {
					continue
				}
				of := uniObsForms[r.Intn(len(uniObsForms))]
				if konst == "nil" && of.name == "short-var" {
					of = uniObsForms[1]
				}
				add(uniProg{konst: konst, typ: typ, typed: tf.name, obs: of.name, okon: konst, first: []string{"typed", "obs"}[r.Intn(2)]})
			}
		}
	}
	return out
}

var typeDeclRe = regexp.MustCompile(`(?m)^\s*type\s+([A-Za-z_][A-Za-z0-9_]*)\s+(?:=\s*)?([A-Za-z_][A-Za-z0-9_]*)\s*$`)

// boolTypes: the names a source gives to types defined on bool (directly or through another).
func boolTypes(srcs ...string) map[string]bool {
	out := map[string]bool{}
	for changed := true; changed; {
		changed = false
		for _, src := range srcs {
			for _, m := range typeDeclRe.FindAllStringSubmatch(src, -1) {
				if (m[2] == "bool" || out[m[2]]) && !out[m[1]] {
					out[m[1]] = true
					changed = true
				}
			}
		}
	}
	return out
}

// onlyBoolTypeNames: two disassemblies of the same source differ only in that, in some
// instructions, one names `bool` where the other names a type of `defined` — the effect of
// finding history-universe-bool (the shared type info of true / false left with a defined type).
func onlyBoolTypeNames(a, b string, defined map[string]bool) bool {
	la, lb := strings.Split(a, "\n"), strings.Split(b, "\n")
	if len(la) != len(lb) || len(defined) == 0 {
		return false
	}
	differs := false
	for i := range la {
		if la[i] == lb[i] {
			continue
		}
		fa, fb := strings.Fields(la[i]), strings.Fields(lb[i])
		if len(fa) != len(fb) {
			return false
		}
		for j := range fa {
			if fa[j] == fb[j] {
				continue
			}
			if !(fa[j] == "bool" && defined[fb[j]]) && !(fb[j] == "bool" && defined[fa[j]]) {
				return false
			}
			differs = true
		}
	}
	return differs
}

var mismatchRe = regexp.MustCompile(`mismatched types (\w+) and (\w+)\)`)

// universeBoolEffect: the two results of building one source differ in the way finding
// history-universe-bool makes them differ: both builds succeed and their disassemblies differ
// only in bool vs a type defined on bool (onlyBoolTypeNames), or one of them fails because an
// operation on true / false has `mismatched types bool and <such a type>`.
func universeBoolEffect(a, b digest, defined map[string]bool) bool {
	if a.Err == "" && b.Err == "" {
		return onlyBoolTypeNames(a.AsmText, b.AsmText, defined)
	}
	for _, d := range []digest{a, b} {
		if d.Err == "" {
			continue
		}
		m := mismatchRe.FindStringSubmatch(d.Err)
		if m == nil || !(m[1] == "bool" && defined[m[2]] || m[2] == "bool" && defined[m[1]]) {
			return false
		}
	}
	return true
}

// rebuildStream starts the child processes (every program of the family three times in a fresh
// process, six processes at a time, beside the other streams) and returns the function that
// waits for them and judges the results.
func rebuildStream(c *hx.Ctx) func(rebuildActive bool) error {
	res := c.Res
	t0 := time.Now()
	fam := uniFamily(c)
	type job struct {
		u   *uniProg
		in  *input
		ds  []digest
		err error
	}
	var jobs []*job
	for i, u := range fam {
		jobs = append(jobs, &job{u: u, in: &input{Name: fmt.Sprintf("rebuild-%d (%s at %s by %s; %s of %s; %s first)", i, u.konst, u.typ, u.typed, u.obs, u.okon, u.first),
			Files: map[string]string{"main.go": u.src}, Prog: true, Run: true, Natives: "fmt"}})
	}
	work := make(chan *job, len(jobs))
	done := make(chan bool)
	const workers = 6
	for w := 0; w < workers; w++ {
		go func() {
			for j := range work {
				j.ds, j.err = freshSequence([]*input{j.in, j.in, j.in})
			}
			done <- true
		}()
	}
	for _, j := range jobs {
		work <- j
	}
	close(work)
	return func(rebuildActive bool) error {
		for w := 0; w < workers; w++ {
			<-done
		}
		reported := 0
		for _, j := range jobs {
			if j.err != nil {
				return fmt.Errorf("rebuild stream: %v", j.err)
			}
			res.Count("rebuild:"+j.u.src, j.ds[0].Err == "")
			res.Hist("rebuild " + j.u.konst)
			if j.ds[0].Err != "" {
				res.Hist("rebuild build-error")
			}
			k := 0
			switch {
			case j.ds[0].key() != j.ds[1].key():
				k = 1
			case j.ds[0].key() != j.ds[2].key():
				k = 2
			default:
				continue
			}
			a, b := j.ds[0], j.ds[k]
			// known finding: the program defines a type on bool, uses true / false, and the builds
			// differ only in bool vs that type in the instructions (and in what the run prints)
			if rebuildActive && boolRe.MatchString(j.u.src) && universeBoolEffect(a, b, boolTypes(j.u.src)) {
				res.Hist("rebuild matching known finding history-universe-bool-rebuild")
				continue
			}
			if reported++; reported > 3 {
				continue
			}
			res.AddBreak(proto.Break{Kind: "property", Name: "rebuild-" + clause(a, b), Case: j.in.Name + fmt.Sprintf(": build 1 and build %d of 3 in a fresh process", k+1), Human: j.u.src,
				Impl: firstDiffLine(a.AsmText+a.Err+"\n"+a.OutText, b.AsmText+b.Err+"\n"+b.OutText), Model: "the builds of one source in one process coincide"})
		}
		fmt.Fprintf(os.Stderr, "C30 rebuild stream: %d programs x 3 builds, each in its own process; done %.1fs after its start\n", len(jobs), time.Since(t0).Seconds())
		return nil
	}
}
