package main

import (
	"fmt"
	"go/ast"
	"go/parser"
	"go/token"
	"go/types"
	"os"
	"regexp"
	"strings"
	"time"

	"verifharness/internal/hx"
	"verifharness/internal/proto"
)

// Declaration-order family. A package is a list of package-level declarations — constants,
// variables, types, functions, each either named or blank (`_`) — with a dependency graph drawn
// first (acyclic, respecting what each kind may use: a constant uses constants and integer
// types, a type uses types and constants, a variable or a function uses anything) and a source
// order drawn afterwards, so that forward references occur between every pair of kinds and in
// every order. Several declarations of one package are blank: they all have the name `_`, the
// one place where a package that type-checks has declarations sharing a name.
//
// The compiler orders such a package before type checking it (sortDeclarations): whatever it
// does there by ranging over a map keyed by the declared identifiers shows as a build that
// fails, or initialises its variables in another order, once in a while. So every package of
// the family is built many times in one process and all builds must coincide (error,
// disassembly, output). The order itself is tied to the Lean model (Model/DeclOrder.lean):
// the variables trace their initialisation, and the order seen must be the model's.

type dkind int

const (
	kConst dkind = iota
	kVar
	kType
	kFunc
)

var kindWord = [...]string{"const", "var", "type", "func"}

type decl struct {
	kind    dkind
	blank   bool
	name    string // "_" when blank
	label   string // unique: what a variable's initialiser traces
	deps    []int  // hidden indices of the named declarations used
	intlike bool   // types: defined on int (usable in constant conversions)
	wrap    bool   // constants: the compile-time assertion idiom uint(…)
	extra   string // malformed stream: an identifier used although it is not declared
}

type declProg struct {
	decls  []decl // by hidden index (dependencies point to smaller indices, but for the malformed stream)
	order  []int  // source order: hidden indices
	paired map[int]bool
	valid  bool // type-correct Go by construction
	what   string
}

// mayUse reports whether a declaration of kind a may use one of kind b (b's intlike matters
// for constants).
func mayUse(a dkind, b *decl) bool {
	switch a {
	case kConst:
		return b.kind == kConst || (b.kind == kType && b.intlike)
	case kType:
		return b.kind == kType || b.kind == kConst
	}
	return true
}

func (p *declProg) finish(i int) {
	d := &p.decls[i]
	d.label = fmt.Sprintf("d%d", i)
	if d.blank {
		d.name = "_"
	} else {
		d.name = fmt.Sprintf("%s%d", [...]string{"c", "v", "T", "f"}[d.kind], i)
	}
	if d.kind == kType {
		// a type is defined on int when it uses nothing or exactly one type that is
		d.intlike = len(d.deps) == 0 || (len(d.deps) == 1 && p.decls[d.deps[0]].kind == kType && p.decls[d.deps[0]].intlike)
	}
}

// intExpr is an expression of type int that uses every dependency of d (constant if all of them are).
func (p *declProg) intExpr(d *decl, lit int) string {
	terms := []string{fmt.Sprint(lit)}
	for _, j := range d.deps {
		u := &p.decls[j]
		switch u.kind {
		case kConst:
			terms = append(terms, "int("+u.name+")")
		case kVar:
			terms = append(terms, u.name)
		case kFunc:
			terms = append(terms, u.name+"()")
		case kType:
			if u.intlike {
				terms = append(terms, "int("+u.name+"(1))")
			} else {
				terms = append(terms, u.name+"{N: 1}.N")
			}
		}
	}
	if d.extra != "" {
		terms = append(terms, d.extra)
	}
	return strings.Join(terms, " + ")
}

func (p *declProg) rhs(i int) string {
	d := &p.decls[i]
	switch d.kind {
	case kConst:
		e := p.intExpr(d, 2+i)
		if d.wrap {
			return "uint(" + e + ")"
		}
		return e
	case kVar:
		return fmt.Sprintf("tr(%q, %s)", d.label, p.intExpr(d, 2+i))
	}
	return ""
}

func (p *declProg) render(i int) string {
	d := &p.decls[i]
	switch d.kind {
	case kConst:
		return "const " + d.name + " = " + p.rhs(i)
	case kVar:
		return "var " + d.name + " = " + p.rhs(i)
	case kFunc:
		return fmt.Sprintf("func %s() int { return %s }", d.name, p.intExpr(d, 2+i))
	}
	if d.intlike && d.extra == "" {
		if len(d.deps) == 1 {
			return "type " + d.name + " " + p.decls[d.deps[0]].name
		}
		return "type " + d.name + " int"
	}
	var fs []string
	fs = append(fs, "N int")
	for k, j := range d.deps {
		u := &p.decls[j]
		if u.kind == kType {
			fs = append(fs, fmt.Sprintf("F%d %s", k, u.name))
		} else {
			fs = append(fs, fmt.Sprintf("F%d [int(%s)]int", k, u.name))
		}
	}
	if d.extra != "" {
		fs = append(fs, "X "+d.extra)
	}
	return "type " + d.name + " struct { " + strings.Join(fs, "; ") + " }"
}

func (p *declProg) source() string {
	var b strings.Builder
	b.WriteString("package main\n\n")
	for k := 0; k < len(p.order); k++ {
		i := p.order[k]
		if p.paired[k] && k+1 < len(p.order) {
			j := p.order[k+1]
			fmt.Fprintf(&b, "%s %s, %s = %s, %s\n", kindWord[p.decls[i].kind], p.decls[i].name, p.decls[j].name, p.rhs(i), p.rhs(j))
			k++
			continue
		}
		b.WriteString(p.render(i) + "\n")
	}
	b.WriteString("\nfunc tr(n string, v int) int { println(\"init\", n, v); return v }\n\nfunc main() {\n")
	for _, i := range p.order {
		d := &p.decls[i]
		if d.blank {
			continue
		}
		switch d.kind {
		case kConst:
			fmt.Fprintf(&b, "\tprintln(%q, int(%s))\n", d.name, d.name)
		case kVar:
			fmt.Fprintf(&b, "\tprintln(%q, %s)\n", d.name, d.name)
		case kFunc:
			fmt.Fprintf(&b, "\tprintln(%q, %s())\n", d.name, d.name)
		case kType:
			if d.intlike {
				fmt.Fprintf(&b, "\tprintln(%q, int(%s(3)))\n", d.name, d.name)
			} else {
				fmt.Fprintf(&b, "\tprintln(%q, %s{N: 3}.N)\n", d.name, d.name)
			}
		}
	}
	b.WriteString("}\n")
	return b.String()
}

// modelLine is the request to the Lean model: the declarations in source order, each with its
// kind, its name and the names it uses (what the compiler's dependency analysis keeps: the
// identifiers declared in the package), then tr and main.
func (p *declProg) modelLine(mode string) string {
	var b strings.Builder
	b.WriteString("C30 sortdecls " + mode)
	for _, i := range p.order {
		d := &p.decls[i]
		var ns []string
		for _, j := range d.deps {
			dup := false
			for _, n := range ns {
				dup = dup || n == p.decls[j].name
			}
			if !dup {
				ns = append(ns, p.decls[j].name)
			}
		}
		if d.kind == kVar {
			ns = append(ns, "tr")
		}
		deps := "-"
		if len(ns) > 0 {
			deps = strings.Join(ns, ",")
		}
		fmt.Fprintf(&b, " %s %s %s", kindWord[d.kind], d.name, deps)
	}
	b.WriteString(" func tr - func main -")
	return b.String()
}

// goTypeChecks: the package is valid Go for go/types (validation of the generator's claim `valid`).
func goTypeChecks(src string) error {
	fset := token.NewFileSet()
	f, err := parser.ParseFile(fset, "main.go", src, 0)
	if err != nil {
		return err
	}
	conf := types.Config{}
	_, err = conf.Check("main", fset, []*ast.File{f}, nil)
	return err
}

// declMatrix: every (kind of a blank declaration A) × (kind of the named declaration D that A
// uses) × (kind of a second blank declaration B, which uses nothing) × (the six source orders
// of A, D, B).
func declMatrix() []*declProg {
	var out []*declProg
	perms := [][]int{{0, 1, 2}, {0, 2, 1}, {1, 0, 2}, {1, 2, 0}, {2, 0, 1}, {2, 1, 0}}
	for ka := kConst; ka <= kFunc; ka++ {
		for kd := kConst; kd <= kFunc; kd++ {
			for kb := kConst; kb <= kFunc; kb++ {
				for _, pm := range perms {
					p := &declProg{valid: true}
					p.decls = []decl{{kind: kd}, {kind: ka, blank: true, deps: []int{0}, wrap: ka == kConst && kb == kVar}, {kind: kb, blank: true}}
					p.finish(0)
					if !mayUse(ka, &p.decls[0]) {
						continue
					}
					p.finish(1)
					p.finish(2)
					p.order = pm
					p.what = fmt.Sprintf("matrix blank-%s uses %s, blank-%s, order %v", kindWord[ka], kindWord[kd], kindWord[kb], pm)
					out = append(out, p)
				}
			}
		}
	}
	return out
}

// randomDeclProg draws a package of 3–9 declarations; malformed = one defect put in (a name
// declared twice, a dependency cycle, an identifier that is not declared).
func randomDeclProg(r *proto.Rand, malformed bool) *declProg {
	n := 3 + r.Intn(7)
	p := &declProg{valid: true, paired: map[int]bool{}}
	pBlank := 2 + r.Intn(3) // blank with probability 1/pBlank
	for i := 0; i < n; i++ {
		d := decl{kind: dkind(r.Intn(4)), blank: r.Intn(pBlank) == 0}
		p.decls = append(p.decls, d)
		dd := &p.decls[i]
		for j := 0; j < i; j++ {
			u := &p.decls[j]
			if !u.blank && mayUse(dd.kind, u) && r.Intn(3) == 0 && len(dd.deps) < 3 {
				dd.deps = append(dd.deps, j)
			}
		}
		dd.wrap = dd.kind == kConst && r.Intn(3) == 0
		p.finish(i)
	}
	p.order = make([]int, n)
	for i := range p.order {
		p.order[i] = i
	}
	for i := n - 1; i > 0; i-- {
		j := r.Intn(i + 1)
		p.order[i], p.order[j] = p.order[j], p.order[i]
	}
	if r.Intn(4) == 0 { // mostly forward references: the reverse of the dependency order
		for i := range p.order {
			p.order[i] = n - 1 - i
		}
	}
	for k := 0; k+1 < n; k++ {
		a, b := &p.decls[p.order[k]], &p.decls[p.order[k+1]]
		if a.kind == b.kind && (a.kind == kConst || a.kind == kVar) && !p.paired[k-1] && r.Intn(4) == 0 {
			p.paired[k] = true
		}
	}
	p.what = "random"
	if malformed {
		p.valid = false
		switch r.Intn(3) {
		case 0: // a name declared twice; the second declaration uses what it likes, users of the name included
			var named []int
			for i := range p.decls {
				if !p.decls[i].blank {
					named = append(named, i)
				}
			}
			if len(named) == 0 {
				p.valid = true
				return p
			}
			i := named[r.Intn(len(named))]
			d := decl{kind: p.decls[i].kind}
			if r.Intn(3) == 0 {
				d.kind = dkind(r.Intn(4))
			}
			for _, j := range named {
				if j != i && mayUse(d.kind, &p.decls[j]) && r.Intn(3) == 0 && len(d.deps) < 3 {
					d.deps = append(d.deps, j)
				}
			}
			p.decls = append(p.decls, d)
			p.finish(len(p.decls) - 1)
			p.decls[len(p.decls)-1].name = p.decls[i].name
			at := r.Intn(len(p.order) + 1)
			p.order = append(p.order[:at], append([]int{len(p.decls) - 1}, p.order[at:]...)...)
			p.paired = map[int]bool{}
			p.what = "random, a name declared twice"
		case 1: // a cycle: some declaration uses a later one of the hidden order that uses it
			done := false
			for tries := 0; tries < 20 && !done; tries++ {
				j := r.Intn(n)
				dj := &p.decls[j]
				if len(dj.deps) == 0 {
					continue
				}
				i := dj.deps[r.Intn(len(dj.deps))]
				if !dj.blank && mayUse(p.decls[i].kind, dj) {
					p.decls[i].deps = append(p.decls[i].deps, j)
					if p.decls[i].kind == kType {
						p.decls[i].intlike = false
					}
					done = true
				}
			}
			if !done {
				p.valid = true
				return p
			}
			p.what = "random, a dependency cycle"
		default:
			i := r.Intn(n)
			p.decls[i].extra = "zz9"
			p.what = "random, an undeclared identifier"
		}
	}
	return p
}

// ---- finding dup-name-loop-report (cured by 89d8011): what the loop detection could answer ------
//
// Before sorting, the compiler looks for initialisation loops: from every constant, then every
// variable, then every type it walks the dependency lists; the list of the declaration a walk
// starts from is looked up by identifier, that of every *use* met on the way by name, with
// depsOf. Before fix 89d8011 that was a range over the map that returned the list of the first
// key met with that name: when a name is declared twice (not valid Go: the type checker would say
// so afterwards) there are two such keys and the walk continued in whichever the map enumeration
// gave first — a fresh choice at every call. (Since the fix depsOf takes the declaration that
// comes first in the source.) loopOutcomes runs the walk of the first-key-met search over every
// sequence of choices and returns the set of answers (which loop is reported, or none). More
// than one answer = the package is one on which such a search makes the build error differ from
// build to build: while the finding is listed and its recorded package still fails, the class
// predicts it; otherwise these packages are the ones built 600 times to see one answer. It is
// computed from the package alone.

type loopSim struct {
	p       *declProg
	choices []int
	limits  []int
	pos     int
	trace   []string
}

func (s *loopSim) choose(n int) int {
	if s.pos == len(s.choices) {
		s.choices = append(s.choices, 0)
		s.limits = append(s.limits, n)
	}
	c := s.choices[s.pos]
	s.pos++
	return c
}

// depNames: the global names a declaration uses, in the order they are written.
func (p *declProg) depNames(i int) []string {
	d := &p.decls[i]
	var ns []string
	if d.kind == kVar {
		ns = append(ns, "tr")
	}
	for _, j := range d.deps {
		if d.kind == kType && p.decls[j].kind == kConst {
			continue // a constant is used by a type as an array length, which the analysis does not look into
		}
		dup := false
		for _, n := range ns {
			dup = dup || n == p.decls[j].name
		}
		if !dup {
			ns = append(ns, p.decls[j].name)
		}
	}
	return ns
}

func (s *loopSim) depsOf(name string) []string {
	var cands []int
	for _, i := range s.p.order {
		if s.p.decls[i].name == name {
			cands = append(cands, i)
		}
	}
	switch len(cands) {
	case 0:
		return nil // tr, main: they use nothing that matters (main is used by nobody)
	case 1:
		return s.p.depNames(cands[0])
	}
	k := cands[s.choose(len(cands))]
	s.trace = append(s.trace, s.p.decls[k].label)
	return s.p.depNames(k)
}

func (s *loopSim) walk(path []string, ds []string) []string {
	for _, dep := range ds {
		for _, n := range path {
			if n == dep {
				return append(append([]string{}, path...), dep)
			}
		}
		next := append(append([]string{}, path...), dep)
		if loop := s.walk(next, s.depsOf(dep)); loop != nil {
			return loop
		}
	}
	return nil
}

func (s *loopSim) run() string {
	for _, kind := range []dkind{kConst, kVar, kType} {
		for _, i := range s.p.order {
			d := &s.p.decls[i]
			if d.kind != kind {
				continue
			}
			if loop := s.walk([]string{d.name}, s.p.depNames(i)); loop != nil {
				return fmt.Sprintf("%s loop from %s: %s via %s", kindWord[kind], d.label, strings.Join(loop, ">"), strings.Join(s.trace, ","))
			}
		}
	}
	return "no loop"
}

func (p *declProg) loopOutcomes() map[string]bool {
	out := map[string]bool{}
	s := &loopSim{p: p}
	for runs := 0; runs < 4096; runs++ {
		s.pos, s.trace = 0, nil
		out[s.run()] = true
		// next sequence of choices
		s.choices, s.limits = s.choices[:s.pos], s.limits[:s.pos]
		k := len(s.choices) - 1
		for k >= 0 && s.choices[k]+1 == s.limits[k] {
			k--
		}
		if k < 0 {
			break
		}
		s.choices[k]++
		s.choices, s.limits = s.choices[:k+1], s.limits[:k+1]
	}
	return out
}

var loopMsgRe = regexp.MustCompile(`typechecking loop|constant definition loop|invalid recursive type`)

// dupAround draws small packages around the cause of finding dup-name-loop-report: two to five
// named declarations with many dependencies among them, one name declared a second time with
// dependencies of its own — users of the name or not, the same as the first declaration's or
// not — so that loops through the name exist for both, one or none of the two declarations.
func dupAround(r *proto.Rand) *declProg {
	n := 2 + r.Intn(4)
	p := &declProg{paired: map[int]bool{}}
	for i := 0; i < n; i++ {
		p.decls = append(p.decls, decl{kind: dkind(r.Intn(4))})
		if r.Intn(3) == 0 {
			p.decls[i].kind = kVar
		}
		dd := &p.decls[i]
		for j := 0; j < i; j++ {
			if mayUse(dd.kind, &p.decls[j]) && r.Intn(2) == 0 {
				dd.deps = append(dd.deps, j)
			}
		}
		p.finish(i)
	}
	i := r.Intn(n)
	for tries := 0; tries < 4; tries++ { // rather a name that is used
		used := false
		for j := range p.decls {
			for _, k := range p.decls[j].deps {
				used = used || k == i
			}
		}
		if used {
			break
		}
		i = r.Intn(n)
	}
	d := decl{kind: p.decls[i].kind}
	if r.Intn(4) == 0 {
		d.kind = dkind(r.Intn(4))
	}
	switch r.Intn(4) {
	case 0: // the same dependencies as the first declaration
		d.deps = append(d.deps, p.decls[i].deps...)
	default:
		for j := 0; j < n; j++ {
			if j != i && mayUse(d.kind, &p.decls[j]) && r.Intn(2) == 0 {
				d.deps = append(d.deps, j)
			}
		}
	}
	p.decls = append(p.decls, d)
	p.finish(n)
	p.decls[n].name = p.decls[i].name
	for k := 0; k <= n; k++ {
		p.order = append(p.order, k)
	}
	for k := n; k > 0; k-- {
		j := r.Intn(k + 1)
		p.order[k], p.order[j] = p.order[j], p.order[k]
	}
	p.what = "random, around a name declared twice"
	return p
}

// initOrder extracts the labels traced by the variable initialisers from a run's output.
func initOrder(out string) []string {
	var ls []string
	for _, l := range strings.Split(out, "\n") {
		if f := strings.Fields(l); len(f) == 3 && f[0] == "init" {
			ls = append(ls, f[1])
		}
	}
	return ls
}

// modelOrder: from the model's answer (`ok <resolvable> <source position> …`: types, constants,
// variables, functions) whether the order type-checks as far as names go, and the labels of the
// variables in the model's order.
func (p *declProg) modelOrder(resp string) (resolvable bool, vars []string, ok bool) {
	f := strings.Fields(resp)
	if len(f) < 2 || f[0] != "ok" || (f[1] != "0" && f[1] != "1") {
		return false, nil, false
	}
	for _, w := range f[2:] {
		var k int
		if _, err := fmt.Sscan(w, &k); err != nil || k < 0 {
			return false, nil, false
		}
		if k < len(p.order) && p.decls[p.order[k]].kind == kVar {
			vars = append(vars, p.decls[p.order[k]].label)
		}
	}
	return f[1] == "1", vars, true
}

// declStream: the matrix, random valid packages and a malformed stream, each built `repeat`
// times in this process.
func declStream(c *hx.Ctx, dupActive bool, report func(in *input, a, b digest, where string)) error {
	res := c.Res
	// a generator of its own (keyed by the seed): the streams that were there before draw what
	// they drew before
	r := proto.NewRand(proto.NewRand(c.Seed ^ 0xdec1).U64())
	predicted, cameTrue := 0, 0
	var firstMiss *input
	t0 := time.Now()
	repeat := c.N(64, 128)
	progs := declMatrix()
	for i := 0; i < c.N(150, 1500); i++ {
		progs = append(progs, randomDeclProg(r, false))
	}
	for i := 0; i < c.N(60, 500); i++ {
		progs = append(progs, randomDeclProg(r, true))
	}
	for i := 0; i < c.N(60, 400); i++ {
		progs = append(progs, dupAround(r))
	}
	var lines []string
	for _, p := range progs {
		lines = append(lines, p.modelLine("byid"))
	}
	var resp []string
	if c.D != nil {
		var err error
		if resp, err = c.D.Batch(lines); err != nil {
			return err
		}
	}
	seen := map[string]bool{}
	flaky := 0
	for k, p := range progs {
		src := p.source()
		if seen[src] {
			continue
		}
		seen[src] = true
		in := &input{Name: fmt.Sprintf("decl-order-%d (%s)", k, p.what), Files: map[string]string{"main.go": src}, Prog: true, Run: true, Natives: "none"}
		if p.valid {
			res.SpecChecks["package of the declaration-order family is valid Go (go/types)"]++
			if err := goTypeChecks(src); err != nil {
				res.AddBreak(proto.Break{Kind: "correspondence", Name: "decl-family-not-valid-go", Case: in.Name, Human: src, Impl: err.Error(), Model: "valid by construction"})
				continue
			}
		}
		first := buildOnce(in)
		res.Count("decl-order:"+src, first.Err == "")
		switch {
		case !p.valid:
			res.Hist("decl-order malformed (" + strings.TrimPrefix(p.what, "random, ") + ")")
		case strings.HasPrefix(p.what, "matrix"):
			res.Hist("decl-order matrix")
		default:
			res.Hist("decl-order random valid")
		}
		// the repeats are not run: the run of a program is a function of its code (the corpus stream
		// runs every build)
		same := true
		norun := *in
		norun.Run = false
		// finding dup-name-loop-report (cured by 89d8011: depsOf takes the first declaration in the
		// source): predicted from the package alone. The packages on which a first-key-met search
		// by name would have more than one answer are built 600 times whether or not the finding is
		// listed: when it is not (class inactive) a second answer is a violation.
		multi := !p.valid && len(p.loopOutcomes()) > 1
		predictsDup := dupActive && multi
		builds := repeat
		if c.Quick() && strings.HasPrefix(p.what, "matrix") {
			builds = repeat / 2 // each defect of the ordering shows at dozens of points of the matrix
		}
		if multi {
			builds = 600 // one choice in eight, two or three choices deep: rare answers
			res.Hist("decl-order a name declared twice on the path of the loop detection: 600 builds")
		}
		if predictsDup {
			predicted++
		}
		for i := 1; i < builds; i++ {
			d := buildOnce(&norun)
			d.Out, d.outText = first.Out, first.outText
			if d.Err != "" {
				d.Out, d.outText = "", ""
			}
			if d.key() != first.key() {
				same = false
				if predictsDup && first.Err != "" && d.Err != "" && (loopMsgRe.MatchString(first.Err) || loopMsgRe.MatchString(d.Err)) {
					// as predicted, and the effect is the class's: every build fails, one at least
					// with a loop message (the other with another loop, or with what the type checker
					// says of the package when no loop is found)
					cameTrue++
					res.Hist("decl-order matching known finding dup-name-loop-report")
					break
				}
				if flaky < 3 {
					report(in, first, d, fmt.Sprintf("build %d of %d in one process", i+1, repeat))
				}
				flaky++
				break
			}
		}
		if same && predictsDup && firstMiss == nil {
			firstMiss = in
		}
		if !same || !p.valid {
			continue
		}
		// the order is the model's: the package builds exactly when, in the model's order, every
		// declaration comes after what it uses (a type that uses a constant does not: types are
		// placed before all constants), and its variables are initialised in the model's order
		if resp == nil {
			continue
		}
		resolvable, want, ok := p.modelOrder(resp[k])
		if !ok {
			res.AddBreak(proto.Break{Kind: "correspondence", Name: "decl-order-model", Case: lines[k], Human: src, Impl: "-", Model: resp[k]})
			continue
		}
		if resolvable != (first.Err == "") {
			res.AddBreak(proto.Break{Kind: "correspondence", Name: "decl-order-model-builds", Case: lines[k], Human: src, Impl: "build: " + first.Err, Model: resp[k] + " (resolvable " + fmt.Sprint(resolvable) + ")"})
			continue
		}
		if !resolvable {
			res.Hist("decl-order valid Go, not resolvable in the compiler's order (model and build agree)")
			continue
		}
		if got := initOrder(first.outText); strings.Join(want, " ") != strings.Join(got, " ") {
			res.AddBreak(proto.Break{Kind: "correspondence", Name: "decl-order-model-init-order", Case: lines[k], Human: src, Impl: strings.Join(got, " "), Model: resp[k] + " => " + strings.Join(want, " ")})
		}
	}
	// precision of the class (fixes/FINDING-CLASSES.md, 3): recorded; a violation only in strict mode
	if predicted > 0 {
		res.Histogram["class-precision/dup-name-loop-report/predicted"] = predicted
		res.Histogram["class-precision/dup-name-loop-report/fail-as-predicted"] = cameTrue
		if cameTrue*100 < predicted*95 {
			res.Notes = append(res.Notes, fmt.Sprintf("class dup-name-loop-report: precision %d/%d — attribution by this class is unreliable on this tree", cameTrue, predicted))
			if os.Getenv("VERIF_C30_STRICT") != "" && firstMiss != nil {
				res.AddBreak(proto.Break{Kind: "correspondence", Name: "finding-class-too-broad: dup-name-loop-report", Case: firstMiss.Name, Human: firstMiss.human(), Impl: "600 builds coincide", Model: "more than one answer of the loop detection"})
			}
		}
	} else if os.Getenv("VERIF_C30_STRICT") != "" && dupActive {
		res.AddBreak(proto.Break{Kind: "correspondence", Name: "finding-class-precision-unmeasured: dup-name-loop-report", Case: "-", Impl: "no package for which the class predicts anything", Model: "-"})
	}
	res.Hist(fmt.Sprintf("decl-order builds per package: %d", repeat))
	fmt.Fprintf(os.Stderr, "C30 decl-order stream: %d packages x %d builds in %.1fs\n", len(seen), repeat, time.Since(t0).Seconds())
	return nil
}
