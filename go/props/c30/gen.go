package main

import (
	"fmt"
	"strings"

	"verifharness/internal/proto"
)

// Generator of programs and templates that *build* (they are type-correct by construction)
// and stress the places where the compiler iterates over maps: package-level multi-value var
// declarations, many globals with initialisation dependencies in shuffled order, several
// functions on one line, closures over globals, a second package of the module with exported
// variables and functions, init functions, labels and gotos; templates with macros (several on
// a line), imports (plain, named, with `for`), extends, using/itea and global variables.
// Nothing generated iterates over a map at run time (that would be legitimately unordered).

type gen struct {
	r *proto.Rand
	n int
}

func (g *gen) id(p string) string { g.n++; return fmt.Sprintf("%s%d", p, g.n) }

var genTypes = []struct{ typ, val string }{
	{"int", "%d"}, {"string", `"s%d"`}, {"bool", "true"}, {"float64", "%d.5"}, {"[]int", "[]int{%d}"}, {"uint8", "%d"},
}

func (g *gen) shuffle(xs []string) {
	for i := len(xs) - 1; i > 0; i-- {
		j := g.r.Intn(i + 1)
		xs[i], xs[j] = xs[j], xs[i]
	}
}

// decls returns package-level declarations (in shuffled order) and the expressions to print.
func (g *gen) decls(exported bool) (decls []string, prints []string) {
	name := func(p string) string {
		if exported {
			return g.id(strings.ToUpper(p))
		}
		return g.id(p)
	}
	var ints []string // int-typed globals available for dependencies
	// multi-value declarations
	for k := 1 + g.r.Intn(3); k > 0; k-- {
		arity := 2 + g.r.Intn(5)
		fn := name("f")
		var types, vals, vars []string
		for i := 0; i < arity; i++ {
			t := genTypes[g.r.Intn(len(genTypes))]
			types = append(types, t.typ)
			v := t.val
			if strings.Contains(v, "%d") {
				v = fmt.Sprintf(v, g.r.Intn(90)+1)
			}
			vals = append(vals, v)
			vn := name("v")
			if g.r.Intn(7) == 0 && i > 0 {
				vn = "_"
			}
			vars = append(vars, vn)
			if vn != "_" {
				if t.typ == "int" {
					ints = append(ints, vn)
				}
				if t.typ == "[]int" {
					prints = append(prints, "@"+vn+"[0]")
				} else {
					prints = append(prints, "@"+vn)
				}
			}
		}
		decls = append(decls, fmt.Sprintf("func %s() (%s) { return %s }", fn, strings.Join(types, ", "), strings.Join(vals, ", ")))
		decls = append(decls, fmt.Sprintf("var %s = %s()", strings.Join(vars, ", "), fn))
	}
	// chains of initialisation dependencies
	for k := 2 + g.r.Intn(6); k > 0; k-- {
		vn := name("g")
		e := fmt.Sprint(g.r.Intn(50))
		for j := g.r.Intn(3); j > 0 && len(ints) > 0; j-- {
			e += " + " + ints[g.r.Intn(len(ints))]
		}
		if g.r.Intn(3) == 0 {
			h := name("h")
			decls = append(decls, fmt.Sprintf("func %s() int { return %s }", h, e))
			e = h + "()"
		}
		decls = append(decls, fmt.Sprintf("var %s = %s", vn, e))
		ints = append(ints, vn)
		prints = append(prints, "@"+vn)
	}
	// several functions on one line
	if g.r.Intn(2) == 0 {
		var line []string
		for k := 2 + g.r.Intn(4); k > 0; k-- {
			fn := name("s")
			line = append(line, fmt.Sprintf("func %s() int { return %d }", fn, g.r.Intn(100)))
			prints = append(prints, "@"+fn+"()")
		}
		g.shuffle(line)
		decls = append(decls, strings.Join(line, "; "))
	}
	// closures over globals, consts, types
	if len(ints) > 0 {
		c := name("c")
		decls = append(decls, fmt.Sprintf("var %s = func(d int) int { return d + %s }", c, ints[g.r.Intn(len(ints))]))
		prints = append(prints, "@"+c+"(1)")
	}
	// predeclared identifiers used at other types / boxed: they live in a scope shared by all builds
	switch g.r.Intn(4) {
	case 0:
		bt, bv := g.id("B"), name("b")
		decls = append(decls, fmt.Sprintf("type %s bool", bt), fmt.Sprintf("var %s %s = %s", bv, bt, []string{"true", "false"}[g.r.Intn(2)]))
		prints = append(prints, "bool(@"+bv+")") // (a value of a type defined in the program reaches Print wrapped)
	case 1:
		fn := name("y")
		decls = append(decls, fmt.Sprintf("func %s() string {\n\tvar x interface{} = %s\n\tswitch x.(type) {\n\tcase bool:\n\t\treturn \"bool\"\n\t}\n\treturn \"other\"\n}", fn, []string{"true", "false"}[g.r.Intn(2)]))
		prints = append(prints, "@"+fn+"()")
	case 2:
		it, iv := g.id("I"), name("n")
		decls = append(decls, fmt.Sprintf("type %s int", it), fmt.Sprintf("const %s %s = iota + 1", iv, it))
		prints = append(prints, "int(@"+iv+")")
	}
	k1, k2 := name("k"), name("k")
	decls = append(decls, fmt.Sprintf("const (\n\t%s = iota + %d\n\t%s\n)", k1, g.r.Intn(9), k2))
	prints = append(prints, "@"+k1, "@"+k2)
	tn := name("t")
	if !exported {
		tn = g.id("T")
	}
	decls = append(decls, fmt.Sprintf("type %s struct { A, B int }", tn))
	prints = append(prints, fmt.Sprintf("@%s{1, 2}.B", tn))
	g.shuffle(decls)
	return
}

func (g *gen) programFS() map[string]string {
	files := map[string]string{}
	var b strings.Builder
	b.WriteString("package main\n\n")
	usePkg := g.r.Intn(2) == 0
	imports := []string{}
	if usePkg {
		files["go.mod"] = "module mod\n"
		pd, pp := g.decls(true)
		files["pkg/pkg.go"] = "package pkg\n\n" + strings.Join(pd, "\n") + "\n\nfunc init() { println(\"pkg init\") }\n"
		imports = append(imports, `"mod/pkg"`)
		g.shuffle(imports)
		for _, im := range imports {
			b.WriteString("import " + im + "\n")
		}
		if g.r.Intn(2) == 0 {
			b.WriteString("import \"strings\"\nvar up = strings.ToUpper(\"x\")\n")
		}
		decls, prints := g.decls(false)
		b.WriteString(strings.Join(decls, "\n") + "\n\n")
		for i := range prints {
			prints[i] = strings.ReplaceAll(prints[i], "@", "")
		}
		for _, p := range pp {
			prints = append(prints, strings.ReplaceAll(p, "@", "pkg."))
		}
		g.mainFunc(&b, prints)
		files["main.go"] = b.String()
		return files
	}
	if g.r.Intn(2) == 0 {
		b.WriteString("import \"strings\"\nimport \"strconv\"\nvar up = strings.ToUpper(strconv.Itoa(7))\n")
	}
	decls, prints := g.decls(false)
	for i := range prints {
		prints[i] = strings.ReplaceAll(prints[i], "@", "")
	}
	b.WriteString(strings.Join(decls, "\n") + "\n\n")
	g.mainFunc(&b, prints)
	files["main.go"] = b.String()
	return files
}

func (g *gen) mainFunc(b *strings.Builder, prints []string) {
	for k := g.r.Intn(3); k > 0; k-- {
		fmt.Fprintf(b, "func init() { println(\"init %d\") }\n", k)
	}
	b.WriteString("func main() {\n")
	for i := 0; i < len(prints); i += 4 {
		b.WriteString("\tprintln(" + strings.Join(prints[i:min(i+4, len(prints))], ", ") + ")\n")
	}
	// locals: closures, labels, gotos, several labels and variables per scope
	b.WriteString("\ti := 0\nL1:\n\tif i < 2 {\n\t\ti++\n\t\tgoto L1\n\t}\nL2:\n\tfor j := 0; j < 3; j++ {\n\t\tif j == 1 {\n\t\t\tbreak L2\n\t\t}\n\t\tx, y, z := j, j*2, j*3\n\t\tf := func() int { return x + y + z + i }\n\t\tprintln(f())\n\t}\n")
	if g.r.Intn(2) == 0 {
		b.WriteString("\ta, b, c, d := 1, \"s\", 2.5, []int{1}\n\tfunc() { println(a, b, c, len(d)) }()\n")
	}
	b.WriteString("}\n")
}

func (g *gen) templateFS() (map[string]string, string) {
	files := map[string]string{
		"part.html": "<i>{{ n }}</i>",
	}
	// an imported file with several macros (some on one line) and variables
	var imp strings.Builder
	var macros, vars []string
	for k := 2 + g.r.Intn(4); k > 0; k-- {
		m := g.id("M")
		macros = append(macros, m)
		imp.WriteString(fmt.Sprintf("{%% macro %s(s string) %%}<%s>{{ s }}</%s>{%% end %%}", m, strings.ToLower(m), strings.ToLower(m)))
		if g.r.Intn(2) == 0 {
			imp.WriteString("\n")
		}
	}
	for k := 1 + g.r.Intn(3); k > 0; k-- {
		v := g.id("V")
		vars = append(vars, v)
		imp.WriteString(fmt.Sprintf("{%% var %s = %d %%}", v, g.r.Intn(100)))
	}
	if g.r.Intn(2) == 0 {
		a, b2 := g.id("W"), g.id("W")
		vars = append(vars, a)
		imp.WriteString(fmt.Sprintf("{%% var %s, %s = two() %%}", a, b2))
	}
	files["imp.html"] = imp.String()
	var b strings.Builder
	body := func() string {
		var s strings.Builder
		uses := []string{"{{ title }}", "{{ n }}", "{% for i, it := range items %}{{ i }}{{ it }}{% end %}", "{{ user[\"name\"] }}", "{{ upper(\"x\") }}",
			"{{ render \"part.html\" }}"}
		g.shuffle(uses)
		for _, u := range uses[:1+g.r.Intn(len(uses))] {
			s.WriteString(u + "\n")
		}
		for _, m := range macros {
			if g.r.Intn(2) == 0 {
				s.WriteString(fmt.Sprintf("{{ %s(\"x\") }}", m))
			}
		}
		for _, v := range vars {
			if g.r.Intn(2) == 0 {
				s.WriteString(fmt.Sprintf("{{ %s }}", v))
			}
		}
		for k := g.r.Intn(3); k > 0; k-- {
			switch g.r.Intn(3) {
			case 0:
				s.WriteString("{% show itea; using %}<u>text</u>{% end %}")
			case 1:
				v := g.id("u")
				s.WriteString(fmt.Sprintf("{%% var %s = itea; using %%}body{%% end %%}{{ %s }}", v, v))
			default:
				s.WriteString("{% show itea(\"a\"); using macro(s string) %}[{{ s }}]{% end %}")
			}
		}
		if g.r.Intn(2) == 0 {
			l1, l2 := g.id("m"), g.id("m")
			s.WriteString(fmt.Sprintf("{%% macro %s %%}1{%% end %%}{%% macro %s %%}2{%% end %%}{{ %s() }}{{ %s() }}", l1, l2, l2, l1))
		}
		if g.r.Intn(2) == 0 {
			s.WriteString("{% var a, b = two() %}{{ a }}{{ b }}{% x, y, z := 1, 2, 3 %}{{ x + y + z }}")
		}
		return s.String()
	}
	if g.r.Intn(3) == 0 {
		files["layout.html"] = "<html><title>{{ Title() }}</title>{{ Body() }}{{ n }}</html>"
		b.WriteString("{% extends \"layout.html\" %}\n{% import \"imp.html\" %}\n")
		b.WriteString("{% macro Title %}" + "{{ title }}" + "{% end %}\n")
		b.WriteString("{% macro Body %}" + body() + "{% end %}\n")
	} else {
		switch g.r.Intn(3) {
		case 0:
			b.WriteString("{% import \"imp.html\" %}")
		case 1:
			b.WriteString("{% import \"imp.html\" for " + strings.Join(append(append([]string{}, macros...), vars...), ", ") + " %}")
		default:
			b.WriteString("{% import p \"imp.html\" %}{% import \"imp.html\" %}{{ p." + macros[0] + "(\"q\") }}")
		}
		b.WriteString(body())
	}
	files["index.html"] = b.String()
	return files, "index.html"
}
