package main

import (
	"fmt"
	"os"
	"reflect"
	"strings"
	"time"

	"github.com/open2b/scriggo/native"

	"verifharness/internal/hx"
	"verifharness/internal/proto"
)

// Alias family: the host exports ONE Go value under several names and in several native
// packages — a function (lib.Double, lib.Twice, lib2.Dbl, the template globals double and twice),
// a variable (one *int as lib.Counter, lib.Count, lib2.Cnt, globals counter and cnt), a type
// (lib.T, lib.U, lib2.V) and a constant (lib.K, lib.Answer) — and programs and templates each
// refer to one of the names. Anything the compiler keeps per Go value beyond a build (a cache
// keyed by reflect.Value, by pointer, by reflect.Type) shows as a build of B that depends on
// whether some A naming the same value otherwise was built before it in the process. Histories
// of DIFFERENT inputs: [A, B] in a fresh process against [B] alone in a fresh process; error,
// disassembly, UsedVars and run output of B must coincide (and those of A with [A] alone).

func aliasDouble(x int) int { return 2 * x }

var aliasCounter = 7

type aliasT struct{ N int }

var aliasPackages = native.Packages{
	"lib": native.Package{Name: "lib", Declarations: native.Declarations{
		"Double": aliasDouble, "Twice": aliasDouble,
		"Counter": &aliasCounter, "Count": &aliasCounter,
		"T": reflect.TypeFor[aliasT](), "U": reflect.TypeFor[aliasT](),
		"K": 42, "Answer": 42,
		"Upper": strings.ToUpper,
	}},
	"lib2": native.Package{Name: "lib2", Declarations: native.Declarations{
		"Dbl": aliasDouble, "Cnt": &aliasCounter, "V": reflect.TypeFor[aliasT](), "Up": strings.ToUpper,
	}},
}

func aliasGlobals() native.Declarations {
	return native.Declarations{"double": aliasDouble, "twice": aliasDouble, "counter": &aliasCounter, "cnt": &aliasCounter,
		"upper": strings.ToUpper, "up": strings.ToUpper, "T": reflect.TypeFor[aliasT](), "U": reflect.TypeFor[aliasT]()}
}

// a way of naming a value: in a program (qualified) or in a template (global, or qualified after an import)
type aliasRef struct {
	kind string // func var type const upper
	name string // lib.Double, double, …
	tmpl bool
}

var aliasRefs = []aliasRef{
	{"func", "lib.Double", false}, {"func", "lib.Twice", false}, {"func", "lib2.Dbl", false}, {"func", "double", true}, {"func", "twice", true}, {"func", "lib.Twice", true},
	{"var", "lib.Counter", false}, {"var", "lib.Count", false}, {"var", "lib2.Cnt", false}, {"var", "counter", true}, {"var", "cnt", true},
	{"type", "lib.T", false}, {"type", "lib.U", false}, {"type", "lib2.V", false}, {"type", "T", true}, {"type", "U", true},
	{"const", "lib.K", false}, {"const", "lib.Answer", false},
	{"upper", "lib.Upper", false}, {"upper", "lib2.Up", false}, {"upper", "upper", true}, {"upper", "up", true},
}

func (r aliasRef) use() string {
	switch r.kind {
	case "func":
		return r.name + "(21)"
	case "var", "const":
		return r.name
	case "upper":
		return r.name + `("x")`
	}
	return "" // type: see below
}

func aliasInput(refs []aliasRef) *input {
	tmpl := refs[0].tmpl
	var names []string
	imports := map[string]bool{}
	for _, r := range refs {
		names = append(names, r.name)
		if i := strings.Index(r.name, "."); i > 0 {
			imports[r.name[:i]] = true
		}
	}
	var b strings.Builder
	if tmpl {
		for _, p := range []string{"lib", "lib2"} {
			if imports[p] {
				fmt.Fprintf(&b, "{%% import %q %%}", p)
			}
		}
		for _, r := range refs {
			if r.kind == "type" {
				fmt.Fprintf(&b, "{%% var t %s %%}{{ t.N }}\n", r.name)
			} else {
				fmt.Fprintf(&b, "{{ %s }}\n", r.use())
			}
		}
		return &input{Name: "alias-template " + strings.Join(names, " "), Files: map[string]string{"index.html": b.String()}, Main: "index.html", Run: true, Natives: "alias"}
	}
	b.WriteString("package main\n\n")
	for _, p := range []string{"lib", "lib2"} {
		if imports[p] {
			fmt.Fprintf(&b, "import %q\n", p)
		}
	}
	b.WriteString("\nfunc main() {\n")
	for i, r := range refs {
		if r.kind == "type" {
			fmt.Fprintf(&b, "\tvar t%d %s\n\tt%d.N = %d\n\tprintln(t%d.N)\n", i, r.name, i, i+1, i)
		} else {
			fmt.Fprintf(&b, "\tprintln(%s)\n", r.use())
		}
	}
	b.WriteString("}\n")
	return &input{Name: "alias-program " + strings.Join(names, " "), Files: map[string]string{"main.go": b.String()}, Prog: true, Run: true, Natives: "alias"}
}

// aliasStream starts the child processes and returns the function that waits and judges.
func aliasStream(c *hx.Ctx) func() error {
	res := c.Res
	t0 := time.Now()
	r := proto.NewRand(proto.NewRand(c.Seed ^ 0xa11a5).U64()) // its own generator, keyed by the seed
	type hist struct {
		a, b     *input
		ds       []digest
		err      error
		baseline bool
	}
	var hists []*hist
	base := map[string]*hist{} // by source
	srcOf := func(in *input) string { return in.human() }
	addBase := func(in *input) {
		if base[srcOf(in)] == nil {
			h := &hist{b: in, baseline: true}
			base[srcOf(in)] = h
			hists = append(hists, h)
		}
	}
	pair := func(a, b *input) {
		addBase(a)
		addBase(b)
		hists = append(hists, &hist{a: a, b: b})
	}
	// every ordered pair of two different names of one value (program or template on either side)
	for _, x := range aliasRefs {
		for _, y := range aliasRefs {
			if x.kind != y.kind || x == y {
				continue
			}
			if c.Quick() && x.tmpl != y.tmpl && r.Intn(2) != 0 {
				continue
			}
			pair(aliasInput([]aliasRef{x}), aliasInput([]aliasRef{y}))
		}
	}
	// inputs naming several values, each under a name drawn at random
	for i := 0; i < c.N(10, 150); i++ {
		draw := func(tmpl bool) *input {
			var refs []aliasRef
			for _, k := range []string{"func", "var", "type", "const", "upper"} {
				var cand []aliasRef
				for _, x := range aliasRefs {
					if x.kind == k && x.tmpl == tmpl {
						cand = append(cand, x)
					}
				}
				if len(cand) > 0 && r.Intn(3) != 0 {
					refs = append(refs, cand[r.Intn(len(cand))])
				}
			}
			if len(refs) == 0 {
				refs = []aliasRef{aliasRefs[0]}
				if tmpl {
					refs = []aliasRef{aliasRefs[3]}
				}
			}
			return aliasInput(refs)
		}
		pair(draw(r.Intn(3) == 0), draw(r.Intn(3) == 0))
	}
	work := make(chan *hist, len(hists))
	done := make(chan bool)
	const workers = 4
	for w := 0; w < workers; w++ {
		go func() {
			for h := range work {
				if h.baseline {
					h.ds, h.err = freshSequence([]*input{h.b})
				} else {
					h.ds, h.err = freshSequence([]*input{h.a, h.b})
				}
			}
			done <- true
		}()
	}
	for _, h := range hists {
		work <- h
	}
	close(work)
	return func() error {
		for w := 0; w < workers; w++ {
			<-done
		}
		reported := 0
		for _, h := range hists {
			if h.err != nil {
				return fmt.Errorf("alias stream: %v", h.err)
			}
			if h.baseline {
				res.Count("alias:"+srcOf(h.b), h.ds[0].Err == "")
				res.Hist("alias inputs built alone in a fresh process")
				if h.ds[0].Err != "" {
					res.Hist("alias build-error")
				}
				continue
			}
			res.Hist("alias histories [A, B] in a fresh process")
			for k, in := range []*input{h.a, h.b} {
				want := base[srcOf(in)].ds[0]
				got := h.ds[k]
				if got.key() == want.key() {
					continue
				}
				if reported++; reported > 3 {
					continue
				}
				what := "B after A"
				if k == 0 {
					what = "A first in its process"
				}
				res.AddBreak(proto.Break{Kind: "property", Name: "history-" + clause(want, got), Case: fmt.Sprintf("build [A, B] in a fresh process vs each alone in a fresh process: %s differs (A = %s, B = %s)", what, h.a.Name, h.b.Name),
					Human: "=== A ===\n" + h.a.human() + "\n=== B ===\n" + h.b.human(),
					Impl:  firstDiffLine(want.AsmText+want.Err+"\n"+want.UsedVars+"\n"+want.OutText, got.AsmText+got.Err+"\n"+got.UsedVars+"\n"+got.OutText) + " (alone vs in the history)", Model: "a build gives what it gives in a fresh process, whatever was built before"})
			}
		}
		fmt.Fprintf(os.Stderr, "C30 alias stream: %d fresh processes (%d inputs alone, %d histories); done %.1fs after its start\n", len(hists), len(base), len(hists)-len(base), time.Since(t0).Seconds())
		return nil
	}
}
