package main

import (
	"bytes"
	"context"
	"crypto/sha256"
	"encoding/json"
	"errors"
	"fmt"
	"io/fs"
	"math"
	"os"
	"os/exec"
	"path/filepath"
	"regexp"
	"runtime"
	"sort"
	"strconv"
	"strings"
	"testing/fstest"
	"time"
	"unicode"

	"github.com/open2b/scriggo"
	"github.com/open2b/scriggo/native"

	"verifharness/internal/hx"
	"verifharness/internal/proto"
)

// C30: building is deterministic. The oracle on the real code: every corpus and generated
// program / template is built `inproc` times in this process and once in each of `procs`
// child processes (Go seeds map iteration per process and per map); the disassembly of every
// package, UsedVars, the build error and — for generated inputs — the output of a run must all
// coincide. The driver is used for the site list (classes in the evidence) and to validate
// the executable model of the loop classes (Model/Order.lean) on shuffled entry lists.
func main() {
	if f := os.Getenv("C30_CHILD"); f != "" {
		childMain(f)
		return
	}
	hx.Main("C30", run)
}

// ---- inputs ------------------------------------------------------------------------------

type input struct {
	Name  string            `json:"name"`
	Files map[string]string `json:"files,omitempty"` // generated: in-memory sources
	Dir   string            `json:"dir,omitempty"`   // corpus: directory
	Main  string            `json:"main,omitempty"`  // template file name, or corpus single program file
	Prog  bool              `json:"prog"`
	Run   bool              `json:"run"` // generated inputs are safe to run
	// Natives: "" = all the native packages below, "none" (the sources import nothing), "fmt"
	// (fmt.Sprintf and fmt.Sprint only): a build spends most of its time on the native packages
	// it is given, imported or not
	Natives string `json:"natives,omitempty"`
}

var fmtOnly = native.Packages{"fmt": native.Package{Name: "fmt", Declarations: native.Declarations{"Sprintf": fmt.Sprintf, "Sprint": fmt.Sprint}}}

func (in *input) fsys() fs.FS {
	if in.Files != nil {
		m := fstest.MapFS{}
		for k, v := range in.Files {
			m[k] = &fstest.MapFile{Data: []byte(v)}
		}
		return m
	}
	if in.Prog && in.Main != "" {
		src, _ := os.ReadFile(filepath.Join(in.Dir, in.Main))
		return fstest.MapFS{"main.go": {Data: src}}
	}
	return os.DirFS(in.Dir)
}

func (in *input) human() string {
	if in.Files == nil {
		return in.Name
	}
	var names []string
	for n := range in.Files {
		names = append(names, n)
	}
	sort.Strings(names)
	var b strings.Builder
	for _, n := range names {
		fmt.Fprintf(&b, "--- %s ---\n%s\n", n, in.Files[n])
	}
	return b.String()
}

var packages = native.Packages{
	"fmt": native.Package{Name: "fmt", Declarations: native.Declarations{
		"Println": fmt.Println, "Printf": fmt.Printf, "Print": fmt.Print, "Sprintf": fmt.Sprintf,
		"Sprint": fmt.Sprint, "Sprintln": fmt.Sprintln, "Errorf": fmt.Errorf}},
	"strings": native.Package{Name: "strings", Declarations: native.Declarations{
		"Contains": strings.Contains, "HasPrefix": strings.HasPrefix, "HasSuffix": strings.HasSuffix, "Index": strings.Index,
		"Join": strings.Join, "Repeat": strings.Repeat, "Replace": strings.Replace, "Split": strings.Split,
		"ToUpper": strings.ToUpper, "ToLower": strings.ToLower, "TrimSpace": strings.TrimSpace, "Fields": strings.Fields}},
	"strconv": native.Package{Name: "strconv", Declarations: native.Declarations{"Itoa": strconv.Itoa, "Atoi": strconv.Atoi, "Quote": strconv.Quote}},
	"errors":  native.Package{Name: "errors", Declarations: native.Declarations{"New": errors.New}},
	"math": native.Package{Name: "math", Declarations: native.Declarations{
		"Sqrt": math.Sqrt, "Abs": math.Abs, "MaxInt64": native.UntypedNumericConst("9223372036854775807"), "Pi": math.Pi, "Floor": math.Floor, "Inf": math.Inf, "NaN": math.NaN, "IsNaN": math.IsNaN}},
	"sort":    native.Package{Name: "sort", Declarations: native.Declarations{"Ints": sort.Ints, "Strings": sort.Strings}},
	"unicode": native.Package{Name: "unicode", Declarations: native.Declarations{"IsUpper": unicode.IsUpper, "IsLetter": unicode.IsLetter}},
	"bytes":   native.Package{Name: "bytes", Declarations: native.Declarations{"Equal": bytes.Equal, "Contains": bytes.Contains}},
	"time":    native.Package{Name: "time", Declarations: native.Declarations{"Second": time.Second, "Millisecond": time.Millisecond}},
}

var (
	gTitle = "T"
	gItems = []string{"a", "b"}
	gN     = 3
	gUser  = map[string]string{"name": "u"}
)

func globals() native.Declarations {
	return native.Declarations{"title": &gTitle, "items": &gItems, "n": &gN, "user": &gUser,
		"upper": strings.ToUpper, "join": strings.Join, "two": func() (int, string) { return 1, "w" }}
}

// digest is what one build of one input shows.
type digest struct {
	Err      string `json:"err,omitempty"`
	Asm      string `json:"asm,omitempty"` // hash of the disassembly of every package
	UsedVars string `json:"used,omitempty"`
	Out      string `json:"out,omitempty"`
	AsmText  string `json:"text,omitempty"` // only filled when C30_TEXT is set (history checks)
	OutText  string `json:"outtext,omitempty"`
	asmText  string
	outText  string
}

func (d digest) key() string { return d.Err + "|" + d.Asm + "|" + d.UsedVars + "|" + d.Out }

var importRe = regexp.MustCompile(`"([a-zA-Z0-9_./-]+)"`)

// addresses printed by a run (a value of a defined type reaches Print wrapped in a struct with
// pointers) are not part of what must coincide
var addrRe = regexp.MustCompile(`0x[0-9a-f]{6,}`)

func buildOnce(in *input) (d digest) {
	defer func() {
		if r := recover(); r != nil {
			d = digest{Err: "PANIC: " + fmt.Sprint(r)}
		}
	}()
	if in.Prog {
		pkgs := packages
		switch in.Natives {
		case "none":
			pkgs = nil
		case "fmt":
			pkgs = fmtOnly
		case "alias":
			pkgs = aliasPackages
		}
		p, err := scriggo.Build(in.fsys(), &scriggo.BuildOptions{Packages: pkgs, AllowGoStmt: true})
		if err != nil {
			return digest{Err: "error: " + err.Error()}
		}
		// every package that can be named: main and whatever import paths appear in the sources
		paths := map[string]bool{"main": true}
		if in.Files != nil {
			for _, src := range in.Files {
				for _, m := range importRe.FindAllStringSubmatch(src, -1) {
					paths[m[1]] = true
				}
			}
		}
		var names []string
		for p := range paths {
			names = append(names, p)
		}
		sort.Strings(names)
		var all bytes.Buffer
		for _, n := range names {
			if asm, err := p.Disassemble(n); err == nil {
				fmt.Fprintf(&all, "== %s ==\n%s\n", n, asm)
			}
		}
		d.asmText = all.String()
		d.Asm = fmt.Sprintf("%x", sha256.Sum256(all.Bytes()))[:16]
		if in.Run {
			var out bytes.Buffer
			ctx, cancel := context.WithTimeout(context.Background(), 2*time.Second)
			err := p.Run(&scriggo.RunOptions{Context: ctx, Print: func(v any) { fmt.Fprint(&out, v) }})
			cancel()
			if err != nil {
				fmt.Fprintf(&out, "\nrun error: %v", err)
			}
			d.outText = addrRe.ReplaceAllString(out.String(), "0xADDR")
			d.Out = fmt.Sprintf("%x", sha256.Sum256([]byte(d.outText)))[:16]
		}
		return d
	}
	tpkgs, tglobals := packages, globals()
	if in.Natives == "alias" {
		tpkgs, tglobals = aliasPackages, aliasGlobals()
	}
	t, err := scriggo.BuildTemplate(in.fsys(), in.Main, &scriggo.BuildOptions{Packages: tpkgs, Globals: tglobals, AllowGoStmt: true})
	if err != nil {
		return digest{Err: "error: " + err.Error()}
	}
	asm := t.Disassemble(-1)
	d.asmText = string(asm)
	d.Asm = fmt.Sprintf("%x", sha256.Sum256(asm))[:16]
	d.UsedVars = strings.Join(t.UsedVars(), ",")
	if in.Run {
		var out bytes.Buffer
		ctx, cancel := context.WithTimeout(context.Background(), 2*time.Second)
		err := t.Run(&out, nil, &scriggo.RunOptions{Context: ctx, Print: func(v any) { fmt.Fprint(&out, v) }})
		cancel()
		if err != nil {
			fmt.Fprintf(&out, "\nrun error: %v", err)
		}
		d.Out = fmt.Sprintf("%x", sha256.Sum256(out.Bytes()))[:16]
	}
	return d
}

// childMain: build every input of the file once, print the digests as JSON.
func childMain(file string) {
	data, err := os.ReadFile(file)
	if err != nil {
		fmt.Fprintln(os.Stderr, err)
		os.Exit(2)
	}
	var ins []*input
	if err := json.Unmarshal(data, &ins); err != nil {
		fmt.Fprintln(os.Stderr, err)
		os.Exit(2)
	}
	out := make([]digest, len(ins))
	for i, in := range ins {
		out[i] = buildOnce(in)
		if len(ins) <= 8 {
			out[i].AsmText = out[i].asmText
			out[i].OutText = out[i].outText
		}
	}
	json.NewEncoder(os.Stdout).Encode(out)
}

func repoRoot() string {
	if r := os.Getenv("VERIF_REPO"); r != "" {
		return r
	}
	return "/repo"
}

func corpus() []*input {
	root := filepath.Join(repoRoot(), "test", "compare", "testdata")
	var ins []*input
	filepath.WalkDir(root, func(path string, d fs.DirEntry, err error) error {
		if err != nil {
			return nil
		}
		rel, _ := filepath.Rel(root, path)
		if d.IsDir() {
			if strings.HasSuffix(path, ".dir") {
				if _, e := os.Stat(filepath.Join(path, "main.go")); e == nil {
					ins = append(ins, &input{Name: rel, Dir: path, Prog: true})
				}
				for _, idx := range []string{"index.html", "index.md"} {
					if _, e := os.Stat(filepath.Join(path, idx)); e == nil {
						ins = append(ins, &input{Name: rel + "/" + idx, Dir: path, Main: idx})
					}
				}
				return filepath.SkipDir
			}
			return nil
		}
		switch filepath.Ext(path) {
		case ".go":
			ins = append(ins, &input{Name: rel, Dir: filepath.Dir(path), Main: filepath.Base(path), Prog: true})
		case ".html", ".md":
			ins = append(ins, &input{Name: rel, Dir: filepath.Dir(path), Main: filepath.Base(path)})
		}
		return nil
	})
	sort.Slice(ins, func(i, j int) bool { return ins[i].Name < ins[j].Name })
	return ins
}

// clause names the first component in which two digests differ.
func clause(a, b digest) string {
	switch {
	case a.Err != b.Err:
		return "build-error-differs"
	case a.Asm != b.Asm:
		return "disassembly-differs"
	case a.UsedVars != b.UsedVars:
		return "usedvars-differs"
	case a.Out != b.Out:
		return "output-differs"
	}
	return ""
}

// distinctBuilds builds in n times and returns the distinct digests seen.
func distinctBuilds(in *input, n int) []digest {
	var ds []digest
	seen := map[string]bool{}
	for i := 0; i < n; i++ {
		d := buildOnce(in)
		if !seen[d.key()] {
			seen[d.key()] = true
			ds = append(ds, d)
		}
	}
	return ds
}

// shrink deletes lines of the largest source file while the input stays nondeterministic
// (at least two distinct digests in 40 builds).
func shrink(in *input) *input {
	if in.Files == nil {
		if !in.Prog || in.Main == "" {
			return in
		}
		src, err := os.ReadFile(filepath.Join(in.Dir, in.Main))
		if err != nil {
			return in
		}
		in = &input{Name: in.Name, Files: map[string]string{"main.go": string(src)}, Prog: true}
	}
	flaky := func(x *input) bool { return len(distinctBuilds(x, 40)) > 1 }
	if !flaky(in) {
		return in
	}
	for _, key := range func() []string {
		var ks []string
		for k := range in.Files {
			ks = append(ks, k)
		}
		sort.Strings(ks)
		return ks
	}() {
		with := func(s string) *input {
			fs := map[string]string{}
			for k, v := range in.Files {
				fs[k] = v
			}
			fs[key] = s
			return &input{Name: in.Name, Files: fs, Main: in.Main, Prog: in.Prog, Run: in.Run}
		}
		lines := strings.SplitAfter(in.Files[key], "\n")
		for chunk := len(lines) / 2; chunk >= 1; chunk /= 2 {
			for i := 0; i+chunk <= len(lines); {
				cand := append(append([]string{}, lines[:i]...), lines[i+chunk:]...)
				if flaky(with(strings.Join(cand, ""))) {
					lines = cand
				} else {
					i += chunk
				}
			}
		}
		in = with(strings.Join(lines, ""))
	}
	return in
}

// freshSequence builds the inputs one after the other in a fresh child process and returns
// one digest per position.
func freshSequence(seq []*input) ([]digest, error) {
	tmp, err := os.MkdirTemp("", "c30-seq-")
	if err != nil {
		return nil, err
	}
	defer os.RemoveAll(tmp)
	data, _ := json.Marshal(seq)
	file := filepath.Join(tmp, "inputs.json")
	if err := os.WriteFile(file, data, 0o644); err != nil {
		return nil, err
	}
	self, err := os.Executable()
	if err != nil {
		return nil, err
	}
	cmd := exec.Command(self)
	cmd.Env = append(os.Environ(), "C30_CHILD="+file, "GOMAXPROCS=2")
	cmd.Stderr = os.Stderr
	out, err := cmd.Output()
	if err != nil {
		return nil, err
	}
	var ds []digest
	if err := json.Unmarshal(out, &ds); err != nil {
		return nil, err
	}
	if len(ds) != len(seq) {
		return nil, fmt.Errorf("%d digests for %d inputs", len(ds), len(seq))
	}
	return ds, nil
}

// historyDiffers: in a fresh process, does building b between two builds of a change a's result?
func historyDiffers(a, b *input) (bool, digest, digest) {
	ds, err := freshSequence([]*input{a, b, a})
	if err != nil {
		return false, digest{}, digest{}
	}
	return ds[0].key() != ds[2].key(), ds[0], ds[2]
}

var boolRe = regexp.MustCompile(`\b(true|false)\b`)

// sourcesOf returns the source texts of an input.
func sourcesOf(in *input) []string {
	var out []string
	if in.Files != nil {
		for _, k := range func() []string {
			var ks []string
			for k := range in.Files {
				ks = append(ks, k)
			}
			sort.Strings(ks)
			return ks
		}() {
			out = append(out, in.Files[k])
		}
		return out
	}
	filepath.WalkDir(in.Dir, func(path string, d fs.DirEntry, err error) error {
		if err == nil && !d.IsDir() && (in.Main == "" || !in.Prog || filepath.Base(path) == in.Main) {
			src, _ := os.ReadFile(path)
			out = append(out, string(src))
		}
		return nil
	})
	return out
}

func mentionsBool(in *input) bool {
	if in.Files != nil {
		for _, v := range in.Files {
			if boolRe.MatchString(v) {
				return true
			}
		}
		return false
	}
	found := false
	filepath.WalkDir(in.Dir, func(path string, d fs.DirEntry, err error) error {
		if err == nil && !d.IsDir() && (in.Main == "" || !in.Prog || filepath.Base(path) == in.Main) {
			src, _ := os.ReadFile(path)
			found = found || boolRe.Match(src)
		}
		return nil
	})
	return found
}

// shrinkPair deletes lines of b's then a's main source while the pair stays history-dependent
// in a fresh process (bounded number of child runs).
func shrinkPair(a, b *input) (*input, *input) {
	budget := 80
	mainOf := func(in *input) string {
		if in.Prog {
			return "main.go"
		}
		return in.Main
	}
	load := func(in *input) *input {
		if in.Files != nil {
			return in
		}
		if !in.Prog || in.Main == "" {
			return nil
		}
		src, err := os.ReadFile(filepath.Join(in.Dir, in.Main))
		if err != nil {
			return nil
		}
		return &input{Name: in.Name, Files: map[string]string{"main.go": string(src)}, Prog: true}
	}
	la, lb := load(a), load(b)
	if la == nil || lb == nil {
		return a, b
	}
	a, b = la, lb
	with := func(in *input, s string) *input {
		fs := map[string]string{}
		for k, v := range in.Files {
			fs[k] = v
		}
		fs[mainOf(in)] = s
		return &input{Name: in.Name, Files: fs, Main: in.Main, Prog: in.Prog, Run: in.Run}
	}
	min := func(in *input, test func(*input) bool) *input {
		lines := strings.SplitAfter(in.Files[mainOf(in)], "\n")
		for chunk := len(lines) / 2; chunk >= 1 && budget > 0; chunk /= 2 {
			for i := 0; i+chunk <= len(lines) && budget > 0; {
				cand := append(append([]string{}, lines[:i]...), lines[i+chunk:]...)
				budget--
				if test(with(in, strings.Join(cand, ""))) {
					lines = cand
				} else {
					i += chunk
				}
			}
		}
		return with(in, strings.Join(lines, ""))
	}
	b = min(b, func(x *input) bool { d, _, _ := historyDiffers(a, x); return d })
	a = min(a, func(x *input) bool { d, _, _ := historyDiffers(x, b); return d })
	return a, b
}

func firstDiffLine(a, b string) string {
	la, lb := strings.Split(a, "\n"), strings.Split(b, "\n")
	for i := 0; i < len(la) && i < len(lb); i++ {
		if la[i] != lb[i] {
			return fmt.Sprintf("line %d: %q vs %q", i+1, la[i], lb[i])
		}
	}
	return fmt.Sprintf("%d vs %d lines", len(la), len(lb))
}

func run(c *hx.Ctx) error {
	// proto.NewRand(seed) starts seed k at the state seed 1 reaches after k-1 draws: the streams
	// of different seeds are shifts of one another. Re-key from the first output.
	c.R = proto.NewRand(c.R.U64())
	res := c.Res
	inproc, procs := 8, 3
	res.Rule = fmt.Sprintf("programs and templates of /repo/test/compare/testdata (single files, .dir programs and templates) and generated ones (package-level multi-value var declarations, many globals with initialisation dependencies, functions sharing a line, closures, a second package in the module, init functions; templates with macros, imports, extends, using/itea, global variables), each built %d times in this process and once in each of %d child processes, and random triples build A, build B, build A (A, B any two inputs) whose two A results must coincide; the declaration-order family (packages of constants, variables, types and functions, named or blank, with forward references between every pair of kinds: the matrix blank declaration A of kind k1 using a named D of kind k2 beside a second blank declaration B of kind k3 in the six source orders, random packages of 3-9 declarations, and a malformed stream - a name declared twice, a dependency cycle, an undeclared identifier), each package built 64 times in this process (thorough: 128) and, when valid Go (go/types), compared with the Lean model of the ordering (builds iff the model's order is resolvable; variables initialised in the model's order); the rebuild family (true/false/nil/iota used at a type the program defines and where the default type shows: 12 typed uses x 6 observations x 2 orders), each program built 3 times in a process of its own; the alias family (one Go function, variable pointer, type and constant exported under several names, in two native packages and as template globals; programs and templates each naming one alias; every ordered pair of two names of one value plus random multi-value inputs), history [A, B] in a fresh process compared with A alone and B alone in fresh processes (error, disassembly, UsedVars, run output); a case is one input, distinct by source, non-trivial when it builds without error", inproc, procs)

	// the site list and the model of the loop classes
	if c.D != nil {
		if r, err := c.D.Ask("C30 count"); err == nil {
			f := strings.Fields(r)
			if len(f) != 3 || f[1] != f[2] {
				res.AddBreak(proto.Break{Kind: "correspondence", Name: "site-count", Case: "C30 count", Impl: "classified table", Model: r})
			} else {
				n, _ := strconv.Atoi(f[1])
				for i := 0; i < n; i++ {
					s, _ := c.D.Ask(fmt.Sprintf("C30 site %d", i))
					if w := strings.Fields(s); len(w) == 6 {
						res.Hist("site-class " + w[3])
						if w[4] != w[5] {
							res.AddBreak(proto.Break{Kind: "correspondence", Name: "site-hash", Case: s, Impl: w[5], Model: w[4]})
						}
						if i < 3 {
							res.Sample(map[string]string{"site": w[1] + " " + w[2], "class": w[3], "body_sha256": w[4]})
						}
					}
				}
			}
		}
		classes := []string{"distinctKeyUpdate", "existence", "uniqueMatch", "minMaxSelect", "collectThenSort", "commutativeAccumulate", "disjointUnion", "orderSensitiveEmission"}
		var lines []string
		for i := 0; i < c.N(60, 600); i++ {
			n := 2 + c.R.Intn(6)
			perm := make([]int, 16)
			for j := range perm {
				perm[j] = j
			}
			for j := 15; j > 0; j-- {
				k := c.R.Intn(j + 1)
				perm[j], perm[k] = perm[k], perm[j]
			}
			var es [][2]int
			vals := map[int]bool{}
			for j := 0; j < n; j++ {
				v := c.R.Intn(1000)
				for vals[v] {
					v++
				}
				vals[v] = true
				es = append(es, [2]int{perm[j], v}) // distinct keys, distinct values
			}
			sh := append([][2]int{}, es...)
			for j := len(sh) - 1; j > 0; j-- {
				k := c.R.Intn(j + 1)
				sh[j], sh[k] = sh[k], sh[j]
			}
			enc := func(l [][2]int) string {
				var b strings.Builder
				for _, e := range l {
					fmt.Fprintf(&b, " %d %d", e[0], e[1])
				}
				return b.String()
			}
			for _, cl := range classes {
				lines = append(lines, "C30 fold "+cl+enc(es), "C30 fold "+cl+enc(sh))
			}
		}
		resp, err := c.D.Batch(lines)
		if err != nil {
			return err
		}
		for i := 0; i+1 < len(resp); i += 2 {
			emission := strings.Contains(lines[i], "orderSensitiveEmission")
			same := resp[i] == resp[i+1]
			sameOrder := lines[i] == lines[i+1]
			res.SpecChecks["order-model fold under a shuffle"]++
			if !strings.HasPrefix(resp[i], "ok") || (!emission && !same) || (emission && same != sameOrder) {
				res.AddBreak(proto.Break{Kind: "correspondence", Name: "order-model", Case: lines[i] + " / " + lines[i+1], Impl: resp[i+1], Model: resp[i]})
			}
		}
	}

	// C30_ONLY=<stream>[,<stream>…] (development aid): run only the named streams of
	// corpus (corpus + generated inputs, in process, history triples, child processes), decl, rebuild, alias
	want := func(stream string) bool {
		only := os.Getenv("C30_ONLY")
		return only == "" || strings.Contains(","+only+",", ","+stream+",")
	}

	// the rebuild family runs in child processes beside the streams below
	var finishRebuild func(bool) error
	if want("rebuild") {
		finishRebuild = rebuildStream(c)
	}
	var finishAlias func() error
	if want("alias") {
		finishAlias = aliasStream(c)
	}

	// inputs
	var ins []*input
	all := corpus()
	if len(all) < 500 {
		return fmt.Errorf("corpus not found under %s", repoRoot())
	}
	if !want("corpus") {
		all = nil
	}
	var progs []*input
	for _, in := range all {
		if !in.Prog || in.Main == "" {
			ins = append(ins, in)
		} else {
			progs = append(progs, in)
		}
	}
	for i := len(progs) - 1; i > 0; i-- {
		j := c.R.Intn(i + 1)
		progs[i], progs[j] = progs[j], progs[i]
	}
	ins = append(ins, progs[:min(len(progs), c.N(300, len(progs)))]...)
	if len(progs) > 2 {
		res.Sample(map[string]string{"first sampled corpus programs": progs[0].Name + " " + progs[1].Name + " " + progs[2].Name})
	}
	for i := 0; i < c.N(300, 6000) && want("corpus"); i++ {
		g := &gen{r: c.R}
		if i%3 == 2 {
			files, main := g.templateFS()
			ins = append(ins, &input{Name: fmt.Sprintf("gen-template-%d", i), Files: files, Main: main, Run: true})
		} else {
			ins = append(ins, &input{Name: fmt.Sprintf("gen-program-%d", i), Files: g.programFS(), Prog: true, Run: true})
		}
	}

	// in-process builds
	first := make([]digest, len(ins))
	skip := make([]bool, len(ins))
	reported := 0
	report := func(in *input, a, b digest, where string) {
		cl := clause(a, b)
		small := in
		if reported < 2 {
			small = shrink(in)
		}
		reported++
		impl, model := b.key(), a.key()
		if ds := distinctBuilds(small, 60); len(ds) > 1 {
			impl = fmt.Sprintf("%d different results in 60 builds; two of them differ at %s", len(ds), firstDiffLine(ds[0].asmText+ds[0].Err, ds[1].asmText+ds[1].Err))
			model = "one result"
		}
		res.AddBreak(proto.Break{Kind: "property", Name: cl, Case: in.Name + " (" + where + ")", Human: small.human(), Impl: impl, Model: model})
	}
	for i, in := range ins {
		t0 := time.Now()
		var m0, m1 runtime.MemStats
		runtime.ReadMemStats(&m0)
		first[i] = buildOnce(in)
		runtime.ReadMemStats(&m1)
		if (m1.TotalAlloc-m0.TotalAlloc)>>20 > 200 {
			// a few corpus programs (huge array types) make Build allocate gigabytes — C04's
			// business; building them 8 + 3 times, the children in parallel, gets the run killed
			res.Hist("huge-allocation-built-once")
			res.Count(in.Name+"#"+strconv.FormatUint(c.Seed, 10), first[i].Err == "")
			skip[i] = true
			continue
		}
		if el := time.Since(t0); el > 250*time.Millisecond && c.Quick() {
			// a few corpus programs take seconds to build: in the quick tier they are built once
			// here (and once in each child process)
			res.Hist("slow-build-fewer-repeats")
			res.Count(in.Name+"#"+strconv.FormatUint(c.Seed, 10), first[i].Err == "")
			continue
		}
		ok := first[i].Err == ""
		res.Count(in.Name+"#"+strconv.FormatUint(c.Seed, 10), ok)
		switch {
		case strings.HasPrefix(first[i].Err, "PANIC"):
			res.Hist("build-panics") // C04's business: only its determinism is judged here
		case !ok:
			res.Hist("build-error")
		case in.Files != nil:
			res.Hist("generated-builds")
		default:
			res.Hist("corpus-builds")
		}
		for k := 1; k < inproc; k++ {
			d := buildOnce(in)
			if d.key() != first[i].key() {
				report(in, first[i], d, fmt.Sprintf("build %d of %d in one process", k+1, inproc))
				break
			}
		}
	}

	// packages whose declarations have to be ordered (forward references, blank declarations)
	if want("decl") {
		// finding dup-name-loop-report: its recorded package is replayed; the class explains
		// something only while that still fails
		dupActive := false
		for _, f := range c.Findings {
			if f.ID != "dup-name-loop-report" {
				continue
			}
			in := &input{Name: "finding " + f.ID, Files: map[string]string{"main.go": f.Minimal}, Prog: true, Natives: "none"}
			if ds := distinctBuilds(in, 400); len(ds) > 1 {
				dupActive = true
				res.AddBreak(proto.Break{Kind: "property", Name: clause(ds[0], ds[1]), Case: "400 builds of one source in one process", Human: f.Minimal,
					Impl: fmt.Sprintf("%d different results; two of them: %q vs %q", len(ds), ds[0].Err, ds[1].Err), Model: "one result", Finding: f.ID})
			}
		}
		if err := declStream(c, dupActive, report); err != nil {
			return err
		}
	}

	// history: building something else in between must not change what a build gives
	type pairT struct{ A, B string }
	findingFails := map[string]bool{} // a finding whose recorded history no longer fails explains nothing
	for _, f := range c.Findings {
		var pr pairT
		if json.Unmarshal([]byte(f.Minimal), &pr) != nil || pr.A == "" {
			continue
		}
		a := &input{Name: "finding " + f.ID + " A", Files: map[string]string{"main.go": pr.A}, Prog: true, Run: true}
		b := &input{Name: "finding " + f.ID + " B", Files: map[string]string{"main.go": pr.B}, Prog: true, Run: true}
		if differs, d1, d2 := historyDiffers(a, b); differs {
			findingFails[f.ID] = true
			res.AddBreak(proto.Break{Kind: "property", Name: "history-dependent-build", Case: "build A, build B, build A in one process", Human: "--- A ---\n" + pr.A + "\n--- B ---\n" + pr.B,
				Impl: firstDiffLine(d1.AsmText, d2.AsmText), Model: "the two builds of A coincide", Finding: f.ID})
		}
	}
	if finishRebuild != nil {
		if err := finishRebuild(findingFails["history-universe-bool-rebuild"]); err != nil {
			return err
		}
	}
	if finishAlias != nil {
		if err := finishAlias(); err != nil {
			return err
		}
	}
	var cand []int
	for i := range ins {
		if !skip[i] && first[i].Err == "" {
			cand = append(cand, i)
		}
	}
	// every triple in its own fresh process (whatever a build leaves behind stays in the process,
	// so one polluted process would blur which pair is responsible), four at a time
	type triple struct {
		a, b   *input
		d1, d2 digest
		err    error
	}
	var triples []*triple
	for k := 0; k < c.N(200, 3000) && len(cand) > 1; k++ {
		ia, ib := cand[c.R.Intn(len(cand))], cand[c.R.Intn(len(cand))]
		if ia != ib {
			triples = append(triples, &triple{a: ins[ia], b: ins[ib]})
		}
	}
	work := make(chan *triple)
	done := make(chan bool)
	for w := 0; w < 4; w++ {
		go func() {
			for t := range work {
				ds, err := freshSequence([]*input{t.a, t.b, t.a})
				if err != nil {
					t.err = err
				} else {
					t.d1, t.d2 = ds[0], ds[2]
				}
			}
			done <- true
		}()
	}
	for _, t := range triples {
		work <- t
	}
	close(work)
	for w := 0; w < 4; w++ {
		<-done
	}
	historyReported := 0
	for _, t := range triples {
		if t.err != nil {
			return fmt.Errorf("history triple: %v", t.err)
		}
		res.Hist("history-triples")
		if t.d1.key() == t.d2.key() {
			continue
		}
		// known finding history-universe-bool: B leaves the predeclared true / false with a type
		// of its own. Attributed by its effect: A mentions true / false and either both builds of A
		// succeed and their disassemblies differ only in that instructions name a type B defines on
		// bool where the first build names bool, or the second fails with `mismatched types bool and
		// <that type>`
		if findingFails["history-universe-bool"] && mentionsBool(t.a) &&
			universeBoolEffect(t.d1, t.d2, boolTypes(append(sourcesOf(t.a), sourcesOf(t.b)...)...)) {
			res.Hist("history-triples-matching-known-finding")
			continue
		}
		if historyReported >= 2 {
			continue
		}
		historyReported++
		sa, sb := shrinkPair(t.a, t.b)
		f1, f2 := t.d1, t.d2
		if ok, g1, g2 := historyDiffers(sa, sb); ok {
			f1, f2 = g1, g2
		}
		res.AddBreak(proto.Break{Kind: "property", Name: "history-dependent-build", Case: t.a.Name + " / " + t.b.Name + " / " + t.a.Name, Human: "=== A ===\n" + sa.human() + "\n=== B ===\n" + sb.human(),
			Impl: firstDiffLine(f1.AsmText+f1.Err, f2.AsmText+f2.Err), Model: "the two builds of A coincide"})
	}

	// child processes
	tmp, err := os.MkdirTemp("", "c30-")
	if err != nil {
		return err
	}
	defer os.RemoveAll(tmp)
	var childIns []*input
	var childIdx []int
	for i, in := range ins {
		if !skip[i] {
			childIns = append(childIns, in)
			childIdx = append(childIdx, i)
		}
	}
	data, _ := json.Marshal(childIns)
	file := filepath.Join(tmp, "inputs.json")
	if err := os.WriteFile(file, data, 0o644); err != nil {
		return err
	}
	self, err := os.Executable()
	if err != nil {
		return err
	}
	type result struct {
		ds  []digest
		err error
	}
	ch := make(chan result, procs)
	for p := 0; p < procs; p++ {
		go func() {
			cmd := exec.Command(self)
			cmd.Env = append(os.Environ(), "C30_CHILD="+file)
			cmd.Stderr = os.Stderr
			out, err := cmd.Output()
			var ds []digest
			if err == nil {
				err = json.Unmarshal(out, &ds)
			}
			ch <- result{ds, err}
		}()
	}
	for p := 0; p < procs; p++ {
		r := <-ch
		if r.err != nil || len(r.ds) != len(childIns) {
			return fmt.Errorf("child process: %v (%d results for %d inputs)", r.err, len(r.ds), len(childIns))
		}
		for j, d := range r.ds {
			i := childIdx[j]
			if d.key() != first[i].key() {
				report(ins[i], first[i], d, "another process")
			}
		}
		res.Hist("child-processes")
	}
	return nil
}
