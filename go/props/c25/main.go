package main

import (
	"bytes"
	"crypto/hmac"
	"crypto/md5"
	"crypto/sha1"
	"crypto/sha256"
	"encoding/base64"
	"encoding/hex"
	"encoding/json"
	"fmt"
	"math"
	"net/url"
	"os"
	"path/filepath"
	"reflect"
	"regexp"
	"runtime"
	"sort"
	"strconv"
	"strings"
	"time"
	"unicode"
	"unicode/utf8"

	"github.com/open2b/scriggo/builtin"
	"github.com/open2b/scriggo/native"

	"verifharness/internal/hx"
	"verifharness/internal/proto"
)

// C25: builtin functions honour their documentation and never panic instead of erroring.
//
//   - QueryEscape, onlyJSONWhitespace, trimJSONSpace (through the verif hook), Abbreviate,
//     Abs/Max/Min: real code vs. the Lean models (Model/Builtins.lean) + the property's own
//     oracle on the real output (url.QueryUnescape round trip, bytes.Trim, utf8.RuneCount bounds).
//   - MarshalJSONIndent / IndentJSON / UnmarshalJSON / YAML / Capitalize / ToKebab: oracle only
//     ("documented error or documented panic message, never a runtime error").
//   - thin stdlib wrappers: compared with the stdlib directly (supporting differential tests).
//   - argument-kind matrix (kinds.go): the builtins with an `any` parameter on values of every
//     reflect.Kind, from Go and from a template; oracle = documentation, model = the regenerated
//     guard programs (Gen/ReflectGuards.lean).
//
// Every case is one protocol line `C25 <op> <arg>…`; ops that have a model are also sent to
// the Lean driver. A replay file's `case` is such a line and is re-evaluated by -replay.
func main() { hx.Main("C25", run) }

const jsonWS = " \t\r\n"
const abbrSpaces = " \n\r\t\f" // documented: https://infra.spec.whatwg.org/#ascii-whitespace

// guard runs f and returns the panic value, if any.
func guard(f func()) (p any) {
	defer func() {
		if r := recover(); r != nil {
			p = r
		}
	}()
	f()
	return nil
}

func okHex(s string) string  { return "ok " + proto.Hex([]byte(s)) }
func okBool(b bool) string   { return "ok " + strconv.FormatBool(b) }
func okInt(i int) string     { return "ok " + strconv.Itoa(i) }
func panicLine(p any) string { return "err panic: " + fmt.Sprint(p) }

// isRuntimePanic tells whether p is a Go run-time error (index, slice, nil dereference …),
// i.e. never a documented way of reporting a bad argument.
func isRuntimePanic(p any) bool {
	_, ok := p.(runtime.Error)
	return ok
}

// panicText is the message of a documented panic (string or error), "" for other values.
func panicText(p any) string {
	switch v := p.(type) {
	case string:
		return v
	case error:
		if isRuntimePanic(p) {
			return ""
		}
		return v.Error()
	}
	return ""
}

// ---------------------------------------------------------------------------------------------
// ops

type op struct {
	model      bool // the Lean driver answers the same line
	shrink     int  // index of the hex argument to shrink on failure, -1: none
	nontrivial func(a []string) bool
	// run evaluates the real code and the property's oracle. clause == "" when the property
	// holds; impl is the canonical answer (compared with the model's when model is set).
	run func(a []string) (clause, impl, human string)
	// modelFor, when set, gives the driver line for these arguments ("" = no model answer for
	// this case); agree, when set, replaces the equality of impl and the model's answer
	modelFor func(a []string) string
	agree    func(impl, model string) bool
	// classify, when set, names the open finding whose class predicts this failing case from the
	// input alone ("" = none: a violation)
	classify func(a []string, clause string) string
}

func unhex(s string) string {
	b, err := proto.UnHex(s)
	if err != nil {
		panic("harness: bad hex argument " + s)
	}
	return string(b)
}

func atoi(s string) int {
	i, err := strconv.ParseInt(s, 10, 64)
	if err != nil {
		panic("harness: bad int argument " + s)
	}
	return int(i)
}

var escapedShape = regexp.MustCompile(`^(?:[A-Za-z0-9\-._~]|%[0-9A-Fa-f]{2})*$`)

func onlyWS(s string) bool { return strings.Trim(s, jsonWS) == "" }

var ops = map[string]*op{}

func init() {
	ops["queryescape"] = &op{model: true, shrink: 0,
		nontrivial: func(a []string) bool { s := unhex(a[0]); return builtin.QueryEscape(s) != s },
		run: func(a []string) (string, string, string) {
			s := unhex(a[0])
			human := fmt.Sprintf("QueryEscape(%q)", s)
			var out string
			if p := guard(func() { out = builtin.QueryEscape(s) }); p != nil {
				return "QueryEscape-panics", panicLine(p), human
			}
			if dec, err := url.QueryUnescape(out); err != nil || dec != s {
				return "QueryEscape-roundtrip", okHex(out), human
			}
			if !escapedShape.MatchString(out) {
				return "QueryEscape-alphabet", okHex(out), human
			}
			return "", okHex(out), human
		}}
	ops["onlyws"] = &op{model: true, shrink: 0,
		nontrivial: func(a []string) bool { return a[0] != "-" },
		run: func(a []string) (string, string, string) {
			s := unhex(a[0])
			human := fmt.Sprintf("onlyJSONWhitespace(%q)", s)
			var out bool
			if p := guard(func() { out = builtin.VerifOnlyJSONWhitespace(s) }); p != nil {
				return "onlyJSONWhitespace-panics", panicLine(p), human
			}
			if out != onlyWS(s) {
				return "onlyJSONWhitespace-result", okBool(out), human
			}
			return "", okBool(out), human
		}}
	ops["trim"] = &op{model: true, shrink: 0,
		nontrivial: func(a []string) bool { s := unhex(a[0]); return strings.Trim(s, jsonWS) != s },
		run: func(a []string) (string, string, string) {
			s := unhex(a[0])
			human := fmt.Sprintf("trimJSONSpace(%q)", s)
			var out string
			if p := guard(func() { out = string(builtin.VerifTrimJSONSpace(native.JSON(s))) }); p != nil {
				return "trimJSONSpace-panics", panicLine(p), human
			}
			if out != string(bytes.Trim([]byte(s), jsonWS)) {
				return "trimJSONSpace-result", okHex(out), human
			}
			return "", okHex(out), human
		}}
	ops["abbr"] = &op{model: true, shrink: 0,
		nontrivial: func(a []string) bool {
			s := strings.TrimRight(unhex(a[0]), abbrSpaces)
			return len(s) > atoi(a[1])
		},
		run: func(a []string) (string, string, string) {
			s, n := unhex(a[0]), atoi(a[1])
			human := fmt.Sprintf("Abbreviate(%q, %d)", s, n)
			var out string
			if p := guard(func() { out = builtin.Abbreviate(s, n) }); p != nil {
				return "Abbreviate-panics", panicLine(p), human
			}
			if utf8.RuneCountInString(out) > max(n, 0) {
				return "Abbreviate-exceeds-n", okHex(out), human
			}
			t := strings.TrimRight(s, abbrSpaces)
			switch rc := utf8.RuneCountInString(t); {
			case rc <= n:
				if out != t {
					return "Abbreviate-fits", okHex(out), human
				}
			case n >= 3:
				if !strings.HasSuffix(out, "...") {
					return "Abbreviate-dots", okHex(out), human
				}
				if !strings.HasPrefix(t, strings.TrimSuffix(out, "...")) {
					return "Abbreviate-prefix", okHex(out), human
				}
			default:
				if out != "" {
					return "Abbreviate-no-room", okHex(out), human
				}
			}
			return "", okHex(out), human
		}}
	ops["abs"] = &op{model: true, shrink: -1,
		nontrivial: func(a []string) bool { return true },
		run: func(a []string) (string, string, string) {
			x := atoi(a[0])
			human := fmt.Sprintf("Abs(%d)", x)
			var out int
			if p := guard(func() { out = builtin.Abs(x) }); p != nil {
				return "Abs-panics", panicLine(p), human
			}
			// documented: absolute value; the smallest negative integer is returned unchanged
			want := x
			if x < 0 && x != math.MinInt64 {
				want = -x
			}
			if out != want || (x != math.MinInt64 && out < 0) {
				return "Abs-result", okInt(out), human
			}
			return "", okInt(out), human
		}}
	minmax := func(name string, f func(int, int) int, ref func(int, int) int) *op {
		return &op{model: true, shrink: -1,
			nontrivial: func(a []string) bool { return true },
			run: func(a []string) (string, string, string) {
				x, y := atoi(a[0]), atoi(a[1])
				human := fmt.Sprintf("%s(%d, %d)", name, x, y)
				var out int
				if p := guard(func() { out = f(x, y) }); p != nil {
					return name + "-panics", panicLine(p), human
				}
				if out != ref(x, y) {
					return name + "-result", okInt(out), human
				}
				return "", okInt(out), human
			}}
	}
	ops["max"] = minmax("Max", builtin.Max, func(x, y int) int { return max(x, y) })
	ops["min"] = minmax("Min", builtin.Min, func(x, y int) int { return min(x, y) })

	// --- oracle only (no model) ---
	ops["mji"] = &op{shrink: 1, // mji <value kind> <prefix> <indent>
		nontrivial: func(a []string) bool { return a[1] != "-" || a[2] != "-" },
		run: func(a []string) (string, string, string) {
			v := jsonValues[atoi(a[0])%len(jsonValues)]
			prefix, indent := unhex(a[1]), unhex(a[2])
			human := fmt.Sprintf("MarshalJSONIndent(%#v, %q, %q)", v, prefix, indent)
			var out native.JSON
			var err error
			if p := guard(func() { out, err = builtin.MarshalJSONIndent(v, prefix, indent) }); p != nil {
				// documented: prefix and indent can only contain whitespace -> an error, never a panic
				return "MarshalJSONIndent-panics", panicLine(p), human
			}
			if wantErr := !onlyWS(prefix) || !onlyWS(indent); wantErr != (err != nil) {
				return "MarshalJSONIndent-error", fmt.Sprintf("err=%v", err), human
			}
			if err == nil {
				if want, _ := json.MarshalIndent(v, prefix, indent); string(want) != string(out) {
					return "MarshalJSONIndent-differs-from-encoding/json", okHex(string(out)), human
				}
			}
			return "", fmt.Sprintf("ok %s err=%v", proto.Hex([]byte(out)), err != nil), human
		}}
	ops["indentjson"] = &op{shrink: 0, // indentjson <data> <prefix> <indent>
		nontrivial: func(a []string) bool { return a[0] != "-" },
		run: func(a []string) (string, string, string) {
			data, prefix, indent := unhex(a[0]), unhex(a[1]), unhex(a[2])
			human := fmt.Sprintf("IndentJSON(%q, %q, %q)", data, prefix, indent)
			var out native.JSON
			p := guard(func() { out = builtin.IndentJSON(native.JSON(data), prefix, indent) })
			trimmed := bytes.Trim([]byte(data), jsonWS)
			valid := json.Valid(trimmed) && onlyWS(prefix) && onlyWS(indent)
			if p != nil {
				// documented: panics if data is not valid JSON or prefix/indent are not whitespace,
				// with an "indentJSON: …" message — never with a run-time error
				if msg := panicText(p); !strings.HasPrefix(msg, "indentJSON: ") {
					return "IndentJSON-undocumented-panic", panicLine(p), human
				}
				if valid {
					return "IndentJSON-panics-on-valid-input", panicLine(p), human
				}
				return "", "err documented-panic", human
			}
			if !valid {
				return "IndentJSON-accepts-invalid-input", okHex(string(out)), human
			}
			var b bytes.Buffer
			json.Indent(&b, trimmed, prefix, indent)
			if b.String() != string(out) {
				return "IndentJSON-differs-from-encoding/json", okHex(string(out)), human
			}
			return "", okHex(string(out)), human
		}}
	ops["unmarshaljson"] = &op{shrink: 0,
		nontrivial: func(a []string) bool { return a[0] != "-" },
		run: func(a []string) (string, string, string) {
			data := unhex(a[0])
			human := fmt.Sprintf("UnmarshalJSON(%q, &v)", data)
			var got, want any
			var err error
			if p := guard(func() { err = builtin.UnmarshalJSON(data, &got) }); p != nil {
				return "UnmarshalJSON-panics", panicLine(p), human
			}
			werr := json.Unmarshal([]byte(data), &want)
			if (err != nil) != (werr != nil) || err == nil && !reflect.DeepEqual(got, want) {
				return "UnmarshalJSON-differs-from-encoding/json", fmt.Sprintf("err=%v value=%#v", err, got), human
			}
			if err != nil && !strings.HasPrefix(err.Error(), "unmarshalJSON: ") {
				return "UnmarshalJSON-error-prefix", err.Error(), human
			}
			return "", fmt.Sprintf("ok err=%v", err != nil), human
		}}
	ops["yaml"] = &op{shrink: 0,
		nontrivial: func(a []string) bool { return a[0] != "-" },
		run: func(a []string) (string, string, string) {
			data := unhex(a[0])
			human := fmt.Sprintf("UnmarshalYAML(%q, &v); MarshalYAML(v)", data)
			var v any
			var err error
			if p := guard(func() { err = builtin.UnmarshalYAML(data, &v) }); p != nil {
				return "UnmarshalYAML-panics", panicLine(p), human
			}
			if err != nil && !strings.HasPrefix(err.Error(), "unmarshalYAML: ") {
				return "UnmarshalYAML-error-prefix", err.Error(), human
			}
			if err == nil {
				if p := guard(func() { _, err = builtin.MarshalYAML(v) }); p != nil {
					return "MarshalYAML-panics", panicLine(p), human
				}
			}
			return "", fmt.Sprintf("ok err=%v", err != nil), human
		}}
	ops["capitalize"] = &op{model: true, shrink: 0,
		nontrivial: func(a []string) bool { s := unhex(a[0]); return builtin.CapitalizeAll(s) != s },
		run: func(a []string) (string, string, string) {
			s := unhex(a[0])
			human := fmt.Sprintf("Capitalize(%q)", s)
			var out string
			if p := guard(func() { out = builtin.Capitalize(s) }); p != nil {
				return "Capitalize-panics", panicLine(p), human
			}
			var again string
			if p := guard(func() { again = builtin.Capitalize(out) }); p != nil || again != out {
				return "Capitalize-idempotent", okHex(out), human
			}
			// documented: a copy of s with the first non-separator in upper case — so everything
			// before and after that rune is preserved, and the rune is replaced by its upper case
			for i, r := range s {
				if refIsSeparator(r) {
					continue
				}
				_, size := utf8.DecodeRuneInString(s[i:])
				if !strings.HasPrefix(out, s[:i]) || !strings.HasSuffix(out, s[i+size:]) || len(out) < i+len(s[i+size:]) {
					return "Capitalize-rest-preserved", okHex(out), human
				}
				mid := out[i : len(out)-len(s[i+size:])]
				if mid != string(unicode.ToUpper(r)) && mid != s[i:i+size] {
					return "Capitalize-upper-case", okHex(out), human
				}
				return "", okHex(out), human
			}
			if out != s {
				return "Capitalize-only-separators", okHex(out), human
			}
			return "", okHex(out), human
		}}
	ops["capitalizeall"] = &op{model: true, shrink: 0,
		nontrivial: func(a []string) bool { s := unhex(a[0]); return builtin.CapitalizeAll(s) != s },
		run: func(a []string) (string, string, string) {
			s := unhex(a[0])
			human := fmt.Sprintf("CapitalizeAll(%q)", s)
			var out string
			if p := guard(func() { out = builtin.CapitalizeAll(s) }); p != nil {
				return "CapitalizeAll-panics", panicLine(p), human
			}
			// reference: the first rune of every word (after a separator) in upper case
			prev := ' '
			want := strings.Map(func(r rune) rune {
				up := refIsSeparator(prev)
				prev = r
				if up {
					return unicode.ToUpper(r)
				}
				return r
			}, s)
			if out != want {
				return "CapitalizeAll-first-letters", okHex(out), human
			}
			if builtin.CapitalizeAll(out) != out {
				return "CapitalizeAll-idempotent", okHex(out), human
			}
			return "", okHex(out), human
		}}
	ops["tokebab"] = &op{model: true, shrink: 0,
		nontrivial: func(a []string) bool { s := unhex(a[0]); return builtin.ToKebab(s) != s },
		run: func(a []string) (string, string, string) {
			s := unhex(a[0])
			human := fmt.Sprintf("ToKebab(%q)", s)
			var out string
			if p := guard(func() { out = builtin.ToKebab(s) }); p != nil {
				return "ToKebab-panics", panicLine(p), human
			}
			if strings.HasPrefix(out, "-") || strings.HasSuffix(out, "-") || strings.Contains(out, "--") {
				return "ToKebab-dashes", okHex(out), human
			}
			for _, r := range out {
				if unicode.IsUpper(r) && unicode.ToLower(r) != r {
					return "ToKebab-upper-case-left", okHex(out), human
				}
			}
			return "", okHex(out), human
		}}
	ops["reverse"] = &op{model: true, shrink: 0,
		nontrivial: func(a []string) bool { return len(unhex(a[0])) > 1 },
		run: func(a []string) (string, string, string) {
			s := unhex(a[0])
			human := fmt.Sprintf("Reverse([]byte(%q))", s)
			b := []byte(s)
			if p := guard(func() { builtin.Reverse(b) }); p != nil {
				return "Reverse-panics", panicLine(p), human
			}
			for i := range b {
				if b[i] != s[len(s)-1-i] {
					return "Reverse-result", okHex(string(b)), human
				}
			}
			return "", okHex(string(b)), human
		}}
	ops["formatfloat"] = &op{model: true, shrink: 0,
		nontrivial: func(a []string) bool { return true },
		run: func(a []string) (string, string, string) {
			format := unhex(a[0])
			human := fmt.Sprintf("FormatFloat(1.5, %q, 2)", format)
			var out string
			p := guard(func() { out = builtin.FormatFloat(1.5, format, 2) })
			valid := format == "e" || format == "f" || format == "g"
			if p != nil {
				// documented: "If the format or the precision is not valid, FormatFloat panics" (with its own message)
				if valid || panicText(p) != "formatFloat: invalid format "+strconv.Quote(format) {
					return "FormatFloat-undocumented-panic", panicLine(p), human
				}
				return "", "ok documented-panic", human
			}
			if !valid || out != strconv.FormatFloat(1.5, format[0], 2, 64) {
				return "FormatFloat-result", okHex(out), human
			}
			return "", okHex(format[:1]), human
		}}
	ops["indentjsondoc"] = &op{shrink: -1, // the rule as IndentJSON documents it: only ' ' and '\t' in prefix/indent
		nontrivial: func(a []string) bool { return true },
		run: func(a []string) (string, string, string) {
			data, prefix, indent := unhex(a[0]), unhex(a[1]), unhex(a[2])
			human := fmt.Sprintf("IndentJSON(%q, %q, %q)", data, prefix, indent)
			var out native.JSON
			p := guard(func() { out = builtin.IndentJSON(native.JSON(data), prefix, indent) })
			if strings.Trim(prefix+indent, " \t") != "" && p == nil {
				return "IndentJSON-documented-prefix-rule", okHex(string(out)), human
			}
			return "", "ok", human
		}}
	ops["w"] = &op{shrink: -1, // w <wrapper> <arg>… : thin stdlib wrapper vs the stdlib itself
		nontrivial: func(a []string) bool { return true },
		run: func(a []string) (string, string, string) {
			w := wrappers[a[0]]
			if w == nil {
				panic("harness: unknown wrapper " + a[0])
			}
			var got, want, human string
			if p := guard(func() { got, want, human = w.run(a[1:]) }); p != nil {
				return "wrapper-" + a[0] + "-panics", panicLine(p), a[0] + " " + strings.Join(a[1:], " ")
			}
			if got != want {
				return "wrapper-" + a[0] + "-differs-from-stdlib", got, human
			}
			return "", got, human
		}}
}

var jsonValues = []any{1, "a\"b", []int{1, 2}, map[string]any{"k": []any{1.5, nil, true}}, struct {
	A int
	B []string
}{3, []string{"x"}}, nil}

// refIsSeparator: word boundary as in Go's strings.Title (ASCII alphanumerics and underscore,
// letters and digits are not separators; spaces are).
func refIsSeparator(r rune) bool {
	if r <= 0x7F {
		return !('0' <= r && r <= '9' || 'a' <= r && r <= 'z' || 'A' <= r && r <= 'Z' || r == '_')
	}
	if unicode.IsLetter(r) || unicode.IsDigit(r) {
		return false
	}
	return unicode.IsSpace(r)
}

// ---------------------------------------------------------------------------------------------
// thin wrappers: got (builtin) and want (stdlib), both canonical strings

type wrapper struct {
	gen func(g *gen) []string
	run func(a []string) (got, want, human string)
}

func q(v any) string { return fmt.Sprintf("%#v", v) }

// call renders the result of f, or the documented panic message.
func call(f func() any) string {
	var v any
	if p := guard(func() { v = f() }); p != nil {
		if isRuntimePanic(p) {
			panic(p) // a run-time error is never a documented outcome: reported as "<wrapper>-panics"
		}
		return "panic: " + panicText(p)
	}
	return q(v)
}

func ss(name string, f, ref func(s string) any) *wrapper {
	return &wrapper{
		gen: func(g *gen) []string { return []string{g.hexString(24)} },
		run: func(a []string) (string, string, string) {
			s := unhex(a[0])
			return call(func() any { return f(s) }), call(func() any { return ref(s) }), fmt.Sprintf("%s(%q)", name, s)
		}}
}

func s2(name string, f, ref func(s, t string) any) *wrapper {
	return &wrapper{
		gen: func(g *gen) []string {
			s := g.str(24)
			return []string{proto.Hex([]byte(s)), proto.Hex([]byte(g.related(s)))}
		},
		run: func(a []string) (string, string, string) {
			s, t := unhex(a[0]), unhex(a[1])
			return call(func() any { return f(s, t) }), call(func() any { return ref(s, t) }), fmt.Sprintf("%s(%q, %q)", name, s, t)
		}}
}

func s2n(name string, f, ref func(s, t string, n int) any) *wrapper {
	return &wrapper{
		gen: func(g *gen) []string {
			s := g.str(24)
			return []string{proto.Hex([]byte(s)), proto.Hex([]byte(g.related(s))), strconv.Itoa(g.r.Intn(7) - 2)}
		},
		run: func(a []string) (string, string, string) {
			s, t, n := unhex(a[0]), unhex(a[1]), atoi(a[2])
			return call(func() any { return f(s, t, n) }), call(func() any { return ref(s, t, n) }), fmt.Sprintf("%s(%q, %q, %d)", name, s, t, n)
		}}
}

func hexsum(b []byte) string { return hex.EncodeToString(b) }

var wrappers = map[string]*wrapper{
	"Index":       s2("Index", func(s, t string) any { return builtin.Index(s, t) }, func(s, t string) any { return strings.Index(s, t) }),
	"IndexAny":    s2("IndexAny", func(s, t string) any { return builtin.IndexAny(s, t) }, func(s, t string) any { return strings.IndexAny(s, t) }),
	"LastIndex":   s2("LastIndex", func(s, t string) any { return builtin.LastIndex(s, t) }, func(s, t string) any { return strings.LastIndex(s, t) }),
	"HasPrefix":   s2("HasPrefix", func(s, t string) any { return builtin.HasPrefix(s, t) }, func(s, t string) any { return strings.HasPrefix(s, t) }),
	"HasSuffix":   s2("HasSuffix", func(s, t string) any { return builtin.HasSuffix(s, t) }, func(s, t string) any { return strings.HasSuffix(s, t) }),
	"Split":       s2("Split", func(s, t string) any { return builtin.Split(s, t) }, func(s, t string) any { return strings.Split(s, t) }),
	"SplitAfter":  s2("SplitAfter", func(s, t string) any { return builtin.SplitAfter(s, t) }, func(s, t string) any { return strings.SplitAfter(s, t) }),
	"SplitN":      s2n("SplitN", func(s, t string, n int) any { return builtin.SplitN(s, t, n) }, func(s, t string, n int) any { return strings.SplitN(s, t, n) }),
	"SplitAfterN": s2n("SplitAfterN", func(s, t string, n int) any { return builtin.SplitAfterN(s, t, n) }, func(s, t string, n int) any { return strings.SplitAfterN(s, t, n) }),
	"Trim":        s2("Trim", func(s, t string) any { return builtin.Trim(s, t) }, func(s, t string) any { return strings.Trim(s, t) }),
	"TrimLeft":    s2("TrimLeft", func(s, t string) any { return builtin.TrimLeft(s, t) }, func(s, t string) any { return strings.TrimLeft(s, t) }),
	"TrimRight":   s2("TrimRight", func(s, t string) any { return builtin.TrimRight(s, t) }, func(s, t string) any { return strings.TrimRight(s, t) }),
	"TrimPrefix":  s2("TrimPrefix", func(s, t string) any { return builtin.TrimPrefix(s, t) }, func(s, t string) any { return strings.TrimPrefix(s, t) }),
	"TrimSuffix":  s2("TrimSuffix", func(s, t string) any { return builtin.TrimSuffix(s, t) }, func(s, t string) any { return strings.TrimSuffix(s, t) }),
	"Join": s2("Join", func(s, t string) any { return builtin.Join(strings.Split(s, "a"), t) },
		func(s, t string) any { return strings.Join(strings.Split(s, "a"), t) }),
	"ReplaceAll": s2n("ReplaceAll", func(s, t string, n int) any { return builtin.ReplaceAll(s, t, strconv.Itoa(n)) },
		func(s, t string, n int) any { return strings.ReplaceAll(s, t, strconv.Itoa(n)) }),
	"Replace": s2n("Replace", func(s, t string, n int) any { return builtin.Replace(s, t, "<>", n) },
		func(s, t string, n int) any { return strings.Replace(s, t, "<>", n) }),
	"ToUpper":   ss("ToUpper", func(s string) any { return builtin.ToUpper(s) }, func(s string) any { return strings.ToUpper(s) }),
	"ToLower":   ss("ToLower", func(s string) any { return builtin.ToLower(s) }, func(s string) any { return strings.ToLower(s) }),
	"RuneCount": ss("RuneCount", func(s string) any { return builtin.RuneCount(s) }, func(s string) any { return utf8.RuneCountInString(s) }),
	"Md5":       ss("Md5", func(s string) any { return builtin.Md5(s) }, func(s string) any { h := md5.Sum([]byte(s)); return hexsum(h[:]) }),
	"Sha1":      ss("Sha1", func(s string) any { return builtin.Sha1(s) }, func(s string) any { h := sha1.Sum([]byte(s)); return hexsum(h[:]) }),
	"Sha256":    ss("Sha256", func(s string) any { return builtin.Sha256(s) }, func(s string) any { h := sha256.Sum256([]byte(s)); return hexsum(h[:]) }),
	"Base64":    ss("Base64", func(s string) any { return builtin.Base64(s) }, func(s string) any { return base64.StdEncoding.EncodeToString([]byte(s)) }),
	"Hex":       ss("Hex", func(s string) any { return builtin.Hex(s) }, func(s string) any { return hex.EncodeToString([]byte(s)) }),
	"HmacSHA1": s2("HmacSHA1", func(s, t string) any { return builtin.HmacSHA1(s, t) }, func(s, t string) any {
		m := hmac.New(sha1.New, []byte(t))
		m.Write([]byte(s))
		return base64.StdEncoding.EncodeToString(m.Sum(nil))
	}),
	"HmacSHA256": s2("HmacSHA256", func(s, t string) any { return builtin.HmacSHA256(s, t) }, func(s, t string) any {
		m := hmac.New(sha256.New, []byte(t))
		m.Write([]byte(s))
		return base64.StdEncoding.EncodeToString(m.Sum(nil))
	}),
	"ParseInt": {
		gen: func(g *gen) []string { return []string{proto.Hex([]byte(g.number())), strconv.Itoa(g.base())} },
		run: func(a []string) (string, string, string) {
			s, base := unhex(a[0]), atoi(a[1])
			got := call(func() any { i, err := builtin.ParseInt(s, base); return fmt.Sprint(i, err != nil) })
			want := call(func() any {
				// documented: 2 <= base <= 36; 0 and an error if s is empty, has invalid digits or does not fit an int
				i, err := strconv.ParseInt(s, base, 0)
				if base == 0 || err != nil {
					return fmt.Sprint(0, true)
				}
				return fmt.Sprint(i, false)
			})
			return got, want, fmt.Sprintf("ParseInt(%q, %d)", s, base)
		}},
	"ParseFloat": {
		gen: func(g *gen) []string { return []string{proto.Hex([]byte(g.number()))} },
		run: func(a []string) (string, string, string) {
			s := unhex(a[0])
			got := call(func() any { f, err := builtin.ParseFloat(s); return fmt.Sprint(math.Float64bits(f), err != nil) })
			want := call(func() any {
				f, err := strconv.ParseFloat(s, 64)
				if err != nil || strings.HasPrefix(s, "0x") || math.IsNaN(f) || math.IsInf(f, 0) {
					return fmt.Sprint(0, true)
				}
				return fmt.Sprint(math.Float64bits(f), false)
			})
			return got, want, fmt.Sprintf("ParseFloat(%q)", s)
		}},
	"FormatInt": {
		gen: func(g *gen) []string { return []string{strconv.Itoa(g.integer()), strconv.Itoa(g.base())} },
		run: func(a []string) (string, string, string) {
			i, base := atoi(a[0]), atoi(a[1])
			got := call(func() any { return builtin.FormatInt(i, base) })
			want := "panic: formatInt: invalid base " + strconv.Itoa(base) // documented panic
			if 2 <= base && base <= 36 {
				want = q(strconv.FormatInt(int64(i), base))
			}
			return got, want, fmt.Sprintf("FormatInt(%d, %d)", i, base)
		}},
	"FormatFloat": {
		gen: func(g *gen) []string {
			return []string{strconv.FormatUint(g.floatBits(), 10), proto.Hex([]byte(g.r.Pick([]string{"e", "f", "g", "g", "f", "", "G", "x", "ff"}))),
				strconv.Itoa([]int{-2, -1, 0, 1, 2, 5, 17, 30, 1000, 1001}[g.r.Intn(10)])}
		},
		run: func(a []string) (string, string, string) {
			bits, _ := strconv.ParseUint(a[0], 10, 64)
			f, format, prec := math.Float64frombits(bits), unhex(a[1]), atoi(a[2])
			got := call(func() any { return builtin.FormatFloat(f, format, prec) })
			var want string
			switch {
			case format != "e" && format != "f" && format != "g":
				want = "panic: formatFloat: invalid format " + strconv.Quote(format)
			case prec < -1 || prec > 1000:
				want = "panic: formatFloat: invalid precision " + strconv.Itoa(prec)
			default:
				want = q(strconv.FormatFloat(f, format[0], prec, 64))
			}
			return got, want, fmt.Sprintf("FormatFloat(%v, %q, %d)", f, format, prec)
		}},
	"Pow": {
		gen: func(g *gen) []string {
			return []string{strconv.FormatUint(g.floatBits(), 10), strconv.FormatUint(g.floatBits(), 10)}
		},
		run: func(a []string) (string, string, string) {
			xb, _ := strconv.ParseUint(a[0], 10, 64)
			yb, _ := strconv.ParseUint(a[1], 10, 64)
			x, y := math.Float64frombits(xb), math.Float64frombits(yb)
			return q(math.Float64bits(builtin.Pow(x, y))), q(math.Float64bits(math.Pow(x, y))), fmt.Sprintf("Pow(%v, %v)", x, y)
		}},
	"ParseDuration": {
		gen: func(g *gen) []string {
			return []string{proto.Hex([]byte(g.r.Pick([]string{"300ms", "-1.5h", "2h45m", "1µs", "", "x", "1", "9223372036854775807ns", "9223372036854775808ns", "1e3s", ".5m", "--1s"})))}
		},
		run: func(a []string) (string, string, string) {
			s := unhex(a[0])
			got := call(func() any { d, err := builtin.ParseDuration(s); return fmt.Sprint(int64(d), err != nil) })
			want := call(func() any {
				d, err := time.ParseDuration(s)
				if err != nil {
					d = 0
				}
				return fmt.Sprint(int64(d), err != nil)
			})
			return got, want, fmt.Sprintf("ParseDuration(%q)", s)
		}},
	"RegExp": {
		gen: func(g *gen) []string {
			return []string{proto.Hex([]byte(g.r.Pick([]string{`a+`, `(a)(b)?`, ``, `\s+`, `[`, `(?i)x|é`, `a{2,1}`, `\xff`, `.`, `^$`, `(`, `\pL+`}))), g.hexString(16), strconv.Itoa(g.r.Intn(5) - 1)}
		},
		run: func(a []string) (string, string, string) {
			expr, s, n := unhex(a[0]), unhex(a[1]), atoi(a[2])
			got := call(func() any {
				re := builtin.RegExp(expr)
				return []any{re.Match(s), re.Find(s), re.FindAll(s, n), re.FindSubmatch(s), re.FindAllSubmatch(s, n), re.ReplaceAll(s, "<$0>"), re.Split(s, n)}
			})
			want := call(func() any {
				re, err := regexp.Compile(expr)
				if err != nil {
					panic("regexp: " + err.Error()) // documented panic
				}
				return []any{re.MatchString(s), re.FindString(s), re.FindAllString(s, n), re.FindStringSubmatch(s), re.FindAllStringSubmatch(s, n), re.ReplaceAllString(s, "<$0>"), re.Split(s, n)}
			})
			return got, want, fmt.Sprintf("RegExp(%q) on %q, n=%d", expr, s, n)
		}},
	"Date": {
		gen: func(g *gen) []string {
			in := func() string {
				return strconv.Itoa([]int{0, 1, -1, 12, 13, 31, 32, 59, 60, 61, 2021, 1970, -1 << 31, 1<<31 - 1, math.MinInt64, math.MaxInt64, 999999999, 1000000000, g.r.Intn(4001) - 2000}[g.r.Intn(19)])
			}
			loc := g.r.Pick([]string{"", "UTC", "Local", "Europe/Rome", "America/New_York", "Nowhere/X", "utc", "\xff", "../x", "a\x00b", "/etc/passwd", "Europe/", g.str(5)})
			return []string{in(), in(), in(), in(), in(), in(), in(), proto.Hex([]byte(loc))}
		},
		run: func(a []string) (string, string, string) {
			var n [7]int
			for i := range n {
				n[i] = atoi(a[i])
			}
			loc := unhex(a[7])
			got := call(func() any {
				t, err := builtin.Date(n[0], n[1], n[2], n[3], n[4], n[5], n[6], loc)
				if err != nil {
					return fmt.Sprint("error ", strings.HasPrefix(err.Error(), "date: "))
				}
				return fmt.Sprint(t.Unix(), t.Nanosecond())
			})
			want := call(func() any {
				// documented: "If location does not exist, it returns an error"; out-of-range values are normalised
				l, err := time.LoadLocation(loc)
				if err != nil {
					return "error true"
				}
				t := time.Date(n[0], time.Month(n[1]), n[2], n[3], n[4], n[5], n[6], l)
				return fmt.Sprint(t.Unix(), t.Nanosecond())
			})
			return got, want, fmt.Sprintf("Date(%v, %q)", n, loc)
		}},
	"ParseTime": {
		gen: func(g *gen) []string {
			layout := g.r.Pick([]string{"", time.RFC3339, time.RFC1123, "2006-01-02", "15:04", "Jan _2", "2006-01-02T15:04:05.999999999Z07:00", "x", "\xff", "2006", "MST", "-0700", g.str(6)})
			value := g.r.Pick([]string{"", "2021-03-27T11:21:14+01:00", "2021-03-27", "11:21", "Mar 27", "Mon, 02 Jan 2006 15:04:05 MST", "2021-02-30", "0000-00-00", "x", "\xff", "9999-12-31T23:59:59.999999999Z",
				"2021-03-27 11:21:14", "27/03/2021", "2021", "+0100", "CET", g.str(10)})
			return []string{proto.Hex([]byte(layout)), proto.Hex([]byte(value))}
		},
		run: func(a []string) (string, string, string) {
			layout, value := unhex(a[0]), unhex(a[1])
			got := call(func() any {
				t, err := builtin.ParseTime(layout, value)
				if err != nil {
					return fmt.Sprint("error ", strings.HasPrefix(err.Error(), "parseTime: "))
				}
				return fmt.Sprint(t.Unix(), t.Nanosecond())
			})
			want := got
			if layout != "" { // with the empty layout a predefined list is tried: only "never a panic, error prefix" is checked
				want = call(func() any {
					t, err := time.Parse(layout, value)
					if err != nil {
						return "error true"
					}
					return fmt.Sprint(t.Unix(), t.Nanosecond())
				})
			} else if got == "error false" {
				want = "error true"
			}
			return got, want, fmt.Sprintf("ParseTime(%q, %q)", layout, value)
		}},
	"SortReverse": {
		gen: func(g *gen) []string { return []string{g.hexString(12)} },
		run: func(a []string) (string, string, string) {
			s := unhex(a[0])
			got := call(func() any {
				b, is, st := []byte(s), []int{}, strings.Split(s, "a")
				for _, c := range b {
					is = append(is, int(c)-128)
				}
				builtin.Sort(b, nil)
				builtin.Sort(is, nil)
				builtin.Sort(st, nil)
				builtin.Reverse(st)
				return []any{b, is, st}
			})
			want := call(func() any {
				b, is, st := []byte(s), []int{}, strings.Split(s, "a")
				for _, c := range b {
					is = append(is, int(c)-128)
				}
				sort.Slice(b, func(i, j int) bool { return b[i] < b[j] })
				sort.Ints(is)
				sort.Sort(sort.Reverse(sort.StringSlice(st)))
				return []any{b, is, st}
			})
			return got, want, fmt.Sprintf("Sort/Reverse on %q", s)
		}},
}

// ---------------------------------------------------------------------------------------------
// generators

type gen struct{ r *proto.Rand }

var multi = []string{"é", "ı", "ɐ", "ſ", "ǆ", "€", "ﬁ", "😀", " ", " ", "İ", "ß"}
var broken = []string{"\xff", "\x80", "\xc3", "\xe2\x82", "\xf0\x9f\x98", "\xed\xa0\x80", "\xc0\xaf", "\xf4\x90\x80\x80", "\xfe"}

// str: mostly text with the bytes the functions look at, some multi-byte runes, some ill-formed
// UTF-8, some arbitrary bytes; lengths biased to the boundaries 0..3.
func (g *gen) str(maxLen int) string {
	n := g.r.Intn(maxLen + 1)
	if g.r.Intn(4) == 0 {
		n = g.r.Intn(4)
	}
	var b []byte
	for len(b) < n {
		switch g.r.Intn(12) {
		case 0, 1, 2, 3:
			b = append(b, byte('a'+g.r.Intn(26)))
		case 4:
			b = append(b, "ABZ019_-.~"[g.r.Intn(10)])
		case 5, 6:
			b = append(b, " \n\r\t\f"[g.r.Intn(5)])
		case 7:
			b = append(b, ".,%+&=/?#\"'<>\\{}[]:"[g.r.Intn(19)])
		case 8, 9:
			b = append(b, multi[g.r.Intn(len(multi))]...)
		case 10:
			b = append(b, broken[g.r.Intn(len(broken))]...)
		default:
			b = append(b, byte(g.r.U64()))
		}
	}
	return string(b)
}

// caseString: words in mixed case with runes whose case mappings change the encoded length,
// title-case digraphs, separators of several kinds, some ill-formed bytes.
func (g *gen) caseString() string {
	pieces := []string{"a", "b", "Z", "Q", "x1", "9", "_", " ", "-", ".", "\t", "é", "É", "ı", "İ", "ɐ", "Ɐ", "ſ", "ǆ", "ǅ", "Ǆ", "ß", "ẞ", "ﬁ", "ω", "Ω",
		"K", "\u00a0", "\u2028", "٣", "中", "😀", "\xff", "\xc3", "\xe2\x82", "\ufffd", "fooBar", "HTTPServer", "snake_case"}
	var b strings.Builder
	for n := g.r.Intn(7); n >= 0; n-- {
		b.WriteString(pieces[g.r.Intn(len(pieces))])
	}
	return b.String()
}

func (g *gen) hexString(maxLen int) string { return proto.Hex([]byte(g.str(maxLen))) }

// related: a second argument that has a chance to occur in s (substring, cutset, prefix …).
func (g *gen) related(s string) string {
	switch g.r.Intn(5) {
	case 0:
		return ""
	case 1:
		return g.str(3)
	default:
		if len(s) == 0 {
			return g.str(2)
		}
		i := g.r.Intn(len(s))
		j := i + g.r.Intn(min(4, len(s)-i)+1)
		return s[i:j]
	}
}

func (g *gen) ws(maxLen int, dirty bool) string {
	n := g.r.Intn(maxLen + 1)
	b := make([]byte, n)
	for i := range b {
		b[i] = jsonWS[g.r.Intn(4)]
		if dirty && g.r.Intn(6) == 0 {
			b[i] = []byte{0xff, 0xfe, 0x00, 0x0b, 0x0c, 0xa0, 'x', '{', byte(g.r.U64())}[g.r.Intn(9)]
		}
	}
	return string(b)
}

var boundaryInts = []int{math.MinInt64, math.MinInt64 + 1, -1 << 32, -1<<31 - 1, -1 << 31, -3, -2, -1, 0, 1, 2, 3,
	1<<31 - 1, 1 << 31, 1 << 32, math.MaxInt64 - 1, math.MaxInt64}

func (g *gen) integer() int {
	if g.r.Intn(3) == 0 {
		return boundaryInts[g.r.Intn(len(boundaryInts))]
	}
	if g.r.Bool() {
		return int(g.r.U64())
	}
	return g.r.Intn(2001) - 1000
}

func (g *gen) base() int {
	return []int{-1, 0, 1, 2, 8, 10, 16, 36, 37, 2 + g.r.Intn(35)}[g.r.Intn(10)]
}

func (g *gen) number() string {
	return g.r.Pick([]string{"", "0", "-0", "+7", "42", "-42", "9223372036854775807", "9223372036854775808", "-9223372036854775808",
		"-9223372036854775809", "0x1f", "0X1F", "1_000", "zz", "1e3", "1.5", "-1.5e-3", ".5", "NaN", "Inf", "-inf", "+Inf", "1e400", "0x1p-2",
		" 1", "1 ", "١٢", "7f", "0b11", "0o7", "1e", strconv.Itoa(g.integer()), g.str(4)})
}

func (g *gen) floatBits() uint64 {
	switch g.r.Intn(4) {
	case 0:
		return math.Float64bits([]float64{0, math.Copysign(0, -1), 1, -1, 0.5, 2, 10, math.Inf(1), math.Inf(-1), math.NaN(), math.MaxFloat64, math.SmallestNonzeroFloat64, 1e21, 1e-7, 123456.789}[g.r.Intn(15)])
	case 1:
		return math.Float64bits(float64(g.r.Intn(2001)-1000) / 8)
	default:
		return g.r.U64()
	}
}

// ---------------------------------------------------------------------------------------------

// unicodeTable renders package unicode's answers for the runes of s (and for ' ' and U+FFFD):
// `cp.flags.upper.lower`, flags: 1 lower, 2 upper, 4 digit, 8 letter, 16 space. They instantiate
// the parameter U of the Lean models of Capitalize, CapitalizeAll and ToKebab.
func unicodeTable(s string) string {
	seen := map[rune]bool{}
	var parts []string
	for _, r := range append([]rune(s), ' ', utf8.RuneError) {
		if seen[r] {
			continue
		}
		seen[r] = true
		flags := 0
		for i, f := range []func(rune) bool{unicode.IsLower, unicode.IsUpper, unicode.IsDigit, unicode.IsLetter, unicode.IsSpace} {
			if f(r) {
				flags |= 1 << i
			}
		}
		parts = append(parts, fmt.Sprintf("%d.%d.%d.%d", r, flags, unicode.ToUpper(r), unicode.ToLower(r)))
	}
	return strings.Join(parts, ",")
}

// modelLine is the line sent to the Lean driver for a case line.
func modelLine(l string) string {
	f := strings.Fields(l)
	if o := ops[f[1]]; o != nil && o.modelFor != nil {
		return o.modelFor(f[2:])
	}
	switch f[1] {
	case "capitalize", "capitalizeall", "tokebab":
		return strings.Join(f[:3], " ") + " " + unicodeTable(unhex(f[2]))
	}
	return l
}

func line(opName string, args ...string) string {
	return "C25 " + opName + " " + strings.Join(args, " ")
}

// evalLine runs one protocol line on the real code: (op, args, clause, impl, human).
func evalLine(l string) (o *op, args []string, clause, impl, human string, err error) {
	f := strings.Fields(l)
	if len(f) < 2 || f[0] != "C25" || ops[f[1]] == nil {
		return nil, nil, "", "", "", fmt.Errorf("not a C25 case line: %q", l)
	}
	o, args = ops[f[1]], f[2:]
	if p := guard(func() { clause, impl, human = o.run(args) }); p != nil {
		return o, args, "", "", "", fmt.Errorf("case %q: %v", l, p)
	}
	return o, args, clause, impl, human, nil
}

// shrinkLine minimises the hex argument o.shrink of a failing line, keeping the clause.
func shrinkLine(l string, o *op, clause string) string {
	f := strings.Fields(l)
	if o.shrink < 0 || o.shrink+2 >= len(f) {
		return l
	}
	k := o.shrink + 2
	orig, err := proto.UnHex(f[k])
	if err != nil {
		return l
	}
	mk := func(b []byte) string {
		g := append([]string(nil), f...)
		g[k] = proto.Hex(b)
		return strings.Join(g, " ")
	}
	min := hx.ShrinkBytes(orig, func(b []byte) bool {
		_, _, cl, _, _, err := evalLine(mk(b))
		return err == nil && cl == clause
	})
	return mk(min)
}

func run(c *hx.Ctx) error {
	res := c.Res
	g := &gen{r: c.R}
	res.Rule = "one case = one call of a builtin on generated arguments. QueryEscape/onlyJSONWhitespace/trimJSONSpace: all single bytes, all strings over a small alphabet up to length L, random strings (text, multi-byte runes, ill-formed UTF-8, arbitrary bytes; lengths biased to 0..3); Abbreviate: the same strings with n from {boundaries, rune count±1, byte length±1, small, random}; Abs/Max/Min: boundary integers (all pairs) and random; MarshalJSONIndent/IndentJSON/UnmarshalJSON/YAML: whitespace strings polluted with 0xff, 0xfe, 0x00, 0x0b, 0x0c, 0xa0 and random JSON-ish documents; stdlib wrappers: random (s, related substring/cutset, n) triples (Date: boundary integers and existing/missing/ill-formed locations; ParseTime: layouts x values); argument-kind matrix (kinds.go): every builtin with an any parameter x ~250 values of every reflect.Kind (nil, scalars, slices of every element kind, arrays, maps, chans, funcs, structs, unsafe.Pointer, named types, a pointer to each, the nil pointer of each type, pointers to pointers/interfaces) x data strings, each from Go and from a template; every operation of Spec/Reflect.lean on every value of the matrix against package reflect. Non-trivial: the function changes/rejects its input (an escape is produced, whitespace is trimmed, abbreviation happens, prefix/indent non-empty …); distinct by case line"

	if c.Replay != "" { // re-run exactly the recorded case first, then the whole (deterministic) run
		if err := replay(c); err != nil {
			return err
		}
	}

	// recorded findings: replay the minimal input; still failing -> reported under its id
	// A finding is active only while its recorded witness still fails (and, for a finding with a
	// class, is predicted by its own class): a cured finding explains nothing.
	active := map[string]bool{}
	for _, f := range c.Findings {
		if o, args, clause, impl, human, err := evalLine(f.Minimal); err == nil && clause != "" {
			if o.classify != nil && o.classify(args, clause) != f.ID {
				continue
			}
			active[f.ID] = true
			res.AddBreak(proto.Break{Kind: "property", Name: clause, Case: f.Minimal, Human: human, Impl: impl, Finding: f.ID})
		}
	}
	if err := unicodeHypotheses(res); err != nil {
		return err
	}

	var cases []string
	add := func(opName string, args ...string) { cases = append(cases, line(opName, args...)) }

	// the regenerated table has the length the code declares
	if c.D != nil {
		ans, err := c.D.Ask("C25 tablelen")
		if err != nil {
			return err
		}
		if want := "ok " + strconv.Itoa(builtin.VerifLookupJSONSpaceLen()); ans != want {
			res.AddBreak(proto.Break{Kind: "correspondence", Name: "lookupJSONSpace-length", Case: "C25 tablelen", Impl: want, Model: ans})
		}
	}

	// --- all single bytes, small-alphabet exhaustive strings ---
	for b := 0; b < 256; b++ {
		h := proto.Hex([]byte{byte(b)})
		add("queryescape", h)
		add("onlyws", h)
		add("trim", h)
		add("mji", "0", h, "-")
		add("mji", "0", "-", h)
		add("indentjson", h, "-", "-")
		add("capitalize", h)
		add("capitalizeall", h)
		add("tokebab", h)
		add("formatfloat", h)
	}
	for _, f := range []string{"", "e", "f", "g", "G", "ee", "ef", "x", "g ", "\x00"} {
		add("formatfloat", proto.Hex([]byte(f)))
	}
	var small func(alpha []byte, maxLen int, f func(s []byte))
	small = func(alpha []byte, maxLen int, f func(s []byte)) {
		var rec func(p []byte)
		rec = func(p []byte) {
			f(p)
			if len(p) == maxLen {
				return
			}
			for _, a := range alpha {
				rec(append(p[:len(p):len(p)], a))
			}
		}
		rec(nil)
	}
	small([]byte{'a', '.', ' ', '%', 0xff, 0xC3}, c.N(4, 5), func(s []byte) { add("queryescape", proto.Hex(s)) })
	small([]byte{' ', '\n', '\t', 'x', 0xff}, c.N(5, 6), func(s []byte) {
		add("onlyws", proto.Hex(s))
		add("trim", proto.Hex(s))
	})
	small([]byte{' ', '\r', '1', 0xff}, 3, func(s []byte) { add("indentjson", proto.Hex(s), "-", "-") })
	small([]byte{'a', 'B', ' ', '-', 0xff}, c.N(5, 6), func(s []byte) {
		add("capitalize", proto.Hex(s))
		add("capitalizeall", proto.Hex(s))
		add("tokebab", proto.Hex(s))
	})
	small([]byte{1, 2, 3}, 6, func(s []byte) { add("reverse", proto.Hex(s)) })
	abbrAlpha := []string{"a", " ", ".", "é", "\xff"}
	var abbrRec func(p string, l int)
	abbrRec = func(p string, l int) {
		for n := -1; n <= l+2; n++ {
			add("abbr", proto.Hex([]byte(p)), strconv.Itoa(n))
		}
		if l == c.N(5, 6) {
			return
		}
		for _, a := range abbrAlpha {
			abbrRec(p+a, l+1)
		}
	}
	abbrRec("", 0)
	kindCases(add)
	nExhaustive := len(cases)
	if c.D != nil {
		if err := kindCoverage(c.D.Ask, func(what, name, ans string) {
			res.AddBreak(proto.Break{Kind: "correspondence", Name: "argument-kind coverage: " + what, Case: name, Impl: "no stream in go/props/c25", Model: ans})
		}); err != nil {
			return err
		}
	}

	// --- random ---
	for i := 0; i < c.N(25000, 250000); i++ {
		s := g.str(40)
		h := proto.Hex([]byte(s))
		add("queryescape", h)
		add("capitalize", h)
		add("capitalizeall", h)
		add("tokebab", h)
		if i%4 == 0 {
			add("reverse", h)
			add("capitalize", proto.Hex([]byte(g.caseString())))
			add("capitalizeall", proto.Hex([]byte(g.caseString())))
			add("tokebab", proto.Hex([]byte(g.caseString())))
		}
		// Abbreviate: n around the interesting thresholds
		t := strings.TrimRight(s, abbrSpaces)
		rc := utf8.RuneCountInString(t)
		ns := []int{rc - 1, rc, rc + 1, len(t) - 1, len(t), len(t) + 1, g.r.Intn(45) - 2, g.r.Intn(6), boundaryInts[g.r.Intn(len(boundaryInts))]}
		add("abbr", h, strconv.Itoa(ns[g.r.Intn(len(ns))]))
		add("abbr", h, strconv.Itoa(ns[g.r.Intn(len(ns))]))
	}
	for i := 0; i < c.N(12000, 120000); i++ {
		dirty := g.r.Intn(3) > 0
		lead, tail := g.ws(4, dirty), g.ws(4, dirty)
		body := ""
		if g.r.Intn(4) > 0 {
			body = g.r.Pick([]string{"1", "{}", "[1, 2]", `{"a": " x "}`, "x", "nul", `"é"`, "\xff", "[", "1 2", "\xa0", `{"k":[true,null,1.5e3]}`, g.str(6)})
		}
		data := proto.Hex([]byte(lead + body + tail))
		add("onlyws", proto.Hex([]byte(lead+tail)))
		add("trim", data)
		prefix, indent := g.ws(3, g.r.Intn(4) == 0), g.ws(3, g.r.Intn(4) == 0)
		add("mji", strconv.Itoa(g.r.Intn(len(jsonValues))), proto.Hex([]byte(prefix)), proto.Hex([]byte(indent)))
		add("indentjson", data, proto.Hex([]byte(prefix)), proto.Hex([]byte(indent)))
		add("unmarshaljson", data)
		if i%8 == 0 {
			add("yaml", proto.Hex([]byte(g.r.Pick([]string{"a: 1", "- x\n- y", "a: [1, 2", "\t", "a: &x 1\nb: *x", "? [a]\n: b", "!!binary x", "a: b: c", "\xff", "{a: 1}: 2", "*x", g.str(12)}))))
		}
	}
	for _, x := range boundaryInts {
		add("abs", strconv.Itoa(x))
		for _, y := range boundaryInts {
			add("max", strconv.Itoa(x), strconv.Itoa(y))
			add("min", strconv.Itoa(x), strconv.Itoa(y))
		}
	}
	for i := 0; i < c.N(2000, 20000); i++ {
		add("abs", strconv.Itoa(g.integer()))
		add("max", strconv.Itoa(g.integer()), strconv.Itoa(g.integer()))
		add("min", strconv.Itoa(g.integer()), strconv.Itoa(g.integer()))
	}
	names := make([]string, 0, len(wrappers))
	for n := range wrappers {
		names = append(names, n)
	}
	sort.Strings(names)
	for i := 0; i < c.N(600, 6000); i++ {
		for _, n := range names {
			add("w", append([]string{n}, wrappers[n].gen(g)...)...)
		}
	}
	res.Histogram["cases-exhaustive"] = nExhaustive
	res.Histogram["cases-random"] = len(cases) - nExhaustive

	// --- model answers ---
	model := map[string]string{}
	if c.D != nil {
		var lines []string
		seen := map[string]bool{}
		for _, l := range cases {
			if o := ops[strings.Fields(l)[1]]; o.model && !seen[l] {
				seen[l] = true
				lines = append(lines, l)
			}
		}
		var sent, asked []string
		for _, l := range lines {
			if m := modelLine(l); m != "" {
				sent, asked = append(sent, m), append(asked, l)
			}
		}
		ans, err := c.D.Batch(sent)
		if err != nil {
			return err
		}
		for i, l := range asked {
			model[l] = ans[i]
		}
	}

	// --- evaluate ---
	precision, firstMiss := map[string][2]int{}, map[string]string{}
	for i, l := range cases {
		o, args, clause, impl, human, err := evalLine(l)
		if err != nil {
			return err
		}
		opName := strings.Fields(l)[1]
		nontrivial := false
		if p := guard(func() { nontrivial = o.nontrivial(args) }); p != nil {
			nontrivial = true // the real code panicked while classifying: certainly not trivial
		}
		res.Count(l, nontrivial)
		res.Hist("op-" + opName)
		if opName == "w" {
			res.SpecChecks["stdlib-differential:"+args[0]]++
		}
		if opName == "reflectspec" && impl != "skipped" {
			res.SpecChecks["reflect-spec:"+args[0]]++
		}
		if opName == "kind" {
			res.Hist("kind-" + args[0] + "-" + args[3] + "-" + strings.Fields(impl)[0])
		}
		if i%7919 == 0 && nontrivial {
			res.Sample(map[string]string{"case": l, "human": human, "impl": impl, "model": model[l]})
		}
		attributed := false
		if opName == "kind" { // precision of the finding classes (fixes/FINDING-CLASSES.md 3), recorded on every run
			for _, kc := range kindClasses {
				if p := kc.predict(args); p != "" {
					precision[kc.id] = [2]int{precision[kc.id][0] + 1, precision[kc.id][1]}
					if p == clause {
						precision[kc.id] = [2]int{precision[kc.id][0], precision[kc.id][1] + 1}
					} else if firstMiss[kc.id] == "" {
						firstMiss[kc.id] = l
					}
				}
			}
		}
		if clause != "" {
			// attribution first, on the original input; shrinking keeps it (fixes/FINDING-CLASSES.md 2b)
			finding := ""
			if o.classify != nil {
				if id := o.classify(args, clause); active[id] {
					finding = id
				}
			}
			ml := l
			if finding == "" {
				ml = shrinkLine(l, o, clause)
				if o.classify != nil {
					if mo, margs, mcl, _, _, err := evalLine(ml); err != nil || mcl != clause || mo.classify(margs, mcl) != "" {
						ml = l
					}
				}
			}
			_, _, _, mimpl, mhuman, _ := evalLine(ml)
			attributed = finding != "" // the finding explains the deviation from the model as well
			res.AddBreak(proto.Break{Kind: "property", Name: clause, Case: ml, Human: mhuman, Impl: mimpl, Model: model[ml], Finding: finding})
		}
		if m, ok := model[l]; ok && o.model && !attributed {
			implLine := impl
			if strings.HasPrefix(impl, "err panic") {
				implLine = "err panic"
			}
			if o.agree != nil {
				if !o.agree(impl, m) {
					res.AddBreak(proto.Break{Kind: "correspondence", Name: opName + "-model-vs-builtin", Case: l, Human: human, Impl: impl, Model: m})
				}
			} else if m != implLine && !(implLine == "err panic" && strings.HasPrefix(m, "err ")) {
				res.AddBreak(proto.Break{Kind: "correspondence", Name: opName + "-model-vs-builtin", Case: l, Human: human, Impl: impl, Model: m})
			}
		}
	}

	for _, kc := range kindClasses {
		if !active[kc.id] {
			continue
		}
		n, hit := precision[kc.id][0], precision[kc.id][1]
		res.Histogram["class-precision/"+kc.id+"/predicted"] = n
		res.Histogram["class-precision/"+kc.id+"/fail-as-predicted"] = hit
		if os.Getenv("VERIF_C25_STRICT") == "1" { // authoring-time check of the classes, never part of a normal run
			if n == 0 {
				res.AddBreak(proto.Break{Kind: "correspondence", Name: "finding-class-precision-unmeasured: " + kc.id, Case: "-"})
			} else if hit*100 < n*95 {
				res.AddBreak(proto.Break{Kind: "correspondence", Name: "finding-class-too-broad: " + kc.id, Case: firstMiss[kc.id], Impl: fmt.Sprintf("%d of %d predicted cases fail as predicted", hit, n)})
			}
		}
	}
	return specValidation(c, g)
}

// unicodeHypotheses checks, over every rune, what the Lean theorems assume of package unicode
// (KebabUnicodeOK, UpperStable, validity preservation, U+FFFD is not a separator).
func unicodeHypotheses(res *proto.Result) error {
	bad := func(name string, r rune) {
		res.AddBreak(proto.Break{Kind: "correspondence", Name: "spec-validation unicode hypothesis " + name,
			Case: fmt.Sprintf("rune U+%04X", r), Impl: "does not hold", Model: "assumed by the theorem"})
	}
	for r := rune(0); r <= unicode.MaxRune; r++ {
		if r >= 0xD800 && r <= 0xDFFF {
			continue
		}
		up, lo := unicode.ToUpper(r), unicode.ToLower(r)
		if (unicode.IsLower(r) || unicode.IsDigit(r)) && r == '-' || unicode.IsUpper(r) && lo == '-' {
			bad("KebabUnicodeOK", r)
		}
		if unicode.ToUpper(up) != up {
			bad("UpperStable.1 (ToUpper idempotent)", r)
		}
		if refIsSeparator(up) != refIsSeparator(r) {
			bad("UpperStable.2 (ToUpper keeps separator-ness)", r)
		}
		if !utf8.ValidRune(up) {
			bad("ToUpper keeps validity", r)
		}
		res.SpecChecks["unicode-hypotheses-per-rune"]++
	}
	if refIsSeparator(utf8.RuneError) {
		bad("U+FFFD is not a separator", utf8.RuneError)
	}
	return nil
}

// specValidation compares the Lean specifications and stdlib-helper models with the stdlib.
func specValidation(c *hx.Ctx, g *gen) error {
	if c.D == nil {
		return nil
	}
	res := c.Res
	var lines []string
	var want []string
	var what []string
	add := func(name, l, w string) { lines = append(lines, l); want = append(want, w); what = append(what, name) }
	for i := 0; i < c.N(10000, 80000); i++ {
		// percent-decoding: strings made of %, hex digits, +, letters, junk
		n := g.r.Intn(10)
		var b []byte
		for len(b) < n {
			switch g.r.Intn(6) {
			case 0, 1:
				b = append(b, '%')
				if g.r.Intn(5) > 0 {
					b = append(b, "0123456789abcdefABCDEFgG%"[g.r.Intn(25)], "0123456789abcdefABCDEFgG+"[g.r.Intn(25)])
				}
			case 2:
				b = append(b, '+')
			case 3:
				b = append(b, byte(g.r.U64()))
			default:
				b = append(b, byte('a'+g.r.Intn(26)))
			}
		}
		w := "err malformed"
		if dec, err := url.QueryUnescape(string(b)); err == nil {
			w = okHex(dec)
		}
		add("pctDecode=net/url.QueryUnescape", line("pctdecode", proto.Hex(b)), w)

		s := g.str(20)
		if i%3 == 0 { // concatenations of broken and valid sequences
			s = ""
			for k := g.r.Intn(5); k >= 0; k-- {
				s += g.r.Pick(append(append([]string{"a", " "}, multi...), broken...))
			}
		} else if i%3 == 1 {
			s = string(g.r.Bytes(g.r.Intn(7)))
		}
		var ws []string
		for j := 0; j < len(s); {
			_, size := utf8.DecodeRuneInString(s[j:])
			ws = append(ws, strconv.Itoa(size))
			j += size
		}
		w = "ok -"
		if len(ws) > 0 {
			w = "ok " + strings.Join(ws, ",")
		}
		if len(ws) != utf8.RuneCountInString(s) {
			return fmt.Errorf("harness: utf8 decoding disagrees with itself on %q", s)
		}
		add("runes=unicode/utf8", line("runes", proto.Hex([]byte(s))), w)
		add("trimRight=strings.TrimRight", line("trimright", proto.Hex([]byte(s))), okHex(strings.TrimRight(s, abbrSpaces)))
		r, size := utf8.DecodeRuneInString(s)
		add("Utf8.decodeRune=utf8.DecodeRuneInString", line("decoderune", proto.Hex([]byte(s))), fmt.Sprintf("ok %d %d", r, size))
		cp := []int{g.r.Intn(0x80), g.r.Intn(0x800), g.r.Intn(0x10000), g.r.Intn(0x120000), 0xD800 + g.r.Intn(0x800), 0xFFFD, 0x10FFFF, 0x110000}[g.r.Intn(8)]
		add("Utf8.encodeRune=utf8.AppendRune", line("encoderune", strconv.Itoa(cp)), okHex(string(utf8.AppendRune(nil, rune(cp)))))
		add("lastIndexAny=strings.LastIndexAny", line("lastindexany", proto.Hex([]byte(s))), okInt(strings.LastIndexAny(s, abbrSpaces)))
	}
	ans, err := c.D.Batch(lines)
	if err != nil {
		return err
	}
	for i := range lines {
		res.SpecChecks[what[i]]++
		if ans[i] != want[i] {
			res.AddBreak(proto.Break{Kind: "correspondence", Name: "spec-validation " + what[i], Case: lines[i], Impl: want[i], Model: ans[i]})
		}
	}
	return nil
}

// replay re-evaluates the case of a replay file written by ./check.
func replay(c *hx.Ctx) error {
	data, err := os.ReadFile(c.Replay)
	if err != nil && !filepath.IsAbs(c.Replay) { // ./check gives a path relative to /verif and runs us in /verif/go
		data, err = os.ReadFile(filepath.Join("..", c.Replay))
	}
	if err != nil {
		return err
	}
	var r struct {
		Case string `json:"case"`
	}
	if err := json.Unmarshal(data, &r); err != nil {
		return err
	}
	for _, l := range strings.Split(r.Case, "\n") {
		if f := strings.Fields(l); len(f) < 2 || f[0] != "C25" || ops[f[1]] == nil {
			continue // not a case line of this runner (e.g. a broken-obligation replay)
		}
		o, args, clause, impl, human, err := evalLine(l)
		if err != nil {
			return err
		}
		c.Res.Count(l, o.nontrivial(args))
		m := ""
		if ml := modelLine(l); c.D != nil && o.model && ml != "" {
			if m, err = c.D.Ask(ml); err != nil {
				return err
			}
		}
		if clause != "" {
			c.Res.AddBreak(proto.Break{Kind: "property", Name: clause, Case: l, Human: human, Impl: impl, Model: m})
		} else if o.model && m != "" && (o.agree == nil && m != impl || o.agree != nil && !o.agree(impl, m)) {
			c.Res.AddBreak(proto.Break{Kind: "correspondence", Name: strings.Fields(l)[1] + "-model-vs-builtin", Case: l, Human: human, Impl: impl, Model: m})
		}
	}
	return nil
}
