package main

// Argument-kind matrix: every builtin with a parameter of type `any` (UnmarshalJSON,
// UnmarshalYAML, MarshalJSON, MarshalJSONIndent, MarshalYAML, Reverse, Sort, Sprint, Sprintf)
// × a value of every reflect.Kind (nil, bool, every integer/float/complex kind, string, slices,
// arrays, maps, chans, funcs, structs, unsafe.Pointer, named types, a pointer to each, the nil
// pointer of each type, pointers to pointers and to interfaces) × a few data strings, called
// both from Go (package builtin) and from a template (scriggo.BuildTemplate + Run, the value
// passed as a global of type any).
//
//   - property oracle (no model involved): a function documented to return an error never
//     panics and returns the error exactly for the documented arguments (nil, non-pointer, nil
//     pointer; otherwise as encoding/json does, with the pointee replaced on success and
//     untouched on failure); a function documented to panic on a non-slice panics with its own
//     message ("reverse: …", "sort: …") for exactly the non-slice arguments and with nothing else;
//   - correspondence: the observed outcome (ok / err / documented panic / other panic) is one of
//     the outcomes the regenerated guard program (Gen/ReflectGuards.lean) has for the
//     argument's kind and zero-ness (`C25 guards <Func> <kind>/<z|n>`);
//   - spec validation (`reflectspec`): every operation of Spec/Reflect.lean on every value of
//     the matrix against the real package reflect (panics or not).

import (
	"encoding/json"
	"errors"
	"fmt"
	"math"
	"reflect"
	"sort"
	"strings"
	"time"
	"unsafe"

	"github.com/open2b/scriggo"
	"github.com/open2b/scriggo/builtin"
	"github.com/open2b/scriggo/native"

	"verifharness/internal/proto"
)

type kPoint struct{ X, Y int }
type kInt int
type kString string
type kBool bool
type kFloat float64
type kSlice []int
type kMap map[string]int
type kPtr *int
type kFunc func()
type kTagged struct {
	A int    `json:"a" yaml:"a"`
	B string `json:"b,omitempty" yaml:"b,omitempty"`
	c int
}

type kval struct {
	name string
	mk   func() any // a fresh value on every call (the builtins write through pointers and into slices)
}

func kNop() {}

var kindValues = func() []kval {
	var vs []kval
	add := func(name string, mk func() any) { vs = append(vs, kval{name, mk}) }
	val := func(name string, v any) { add(name, func() any { return v }) }
	add("nil", func() any { return nil })
	val("bool:true", true)
	val("bool:false", false)
	val("int:0", int(0))
	val("int:5", int(5))
	val("int8", int8(-3))
	val("int16", int16(300))
	val("int32", int32('x'))
	val("int64:min", int64(math.MinInt64))
	val("uint:0", uint(0))
	val("uint8", uint8(200))
	val("uint16", uint16(65535))
	val("uint32", uint32(7))
	val("uint64:max", uint64(math.MaxUint64))
	val("uintptr:0", uintptr(0))
	val("uintptr:7", uintptr(7))
	val("float32", float32(1.5))
	val("float64:0", float64(0))
	val("float64:2.5", float64(2.5))
	val("complex64", complex64(complex(1, -1)))
	val("complex128:0", complex128(0))
	val("string:empty", "")
	val("string:abc", "abc")
	val("string:json", "[1,2]")
	add("slice:int:nil", func() any { return []int(nil) })
	add("slice:int:empty", func() any { return []int{} })
	add("slice:int:1", func() any { return []int{7} })
	add("slice:int", func() any { return []int{3, 1, 2} })
	add("slice:string", func() any { return []string{"b", "a", "c"} })
	add("slice:byte", func() any { return []byte("hi!") })
	add("slice:rune", func() any { return []rune("zéa") })
	add("slice:bool", func() any { return []bool{true, false, true} })
	add("slice:float64", func() any { return []float64{2.5, -1, 0} })
	add("slice:float32", func() any { return []float32{2.5, -1} })
	add("slice:uint16", func() any { return []uint16{9, 3} })
	add("slice:complex128", func() any { return []complex128{complex(1, 2), complex(1, 1)} })
	add("slice:any", func() any { return []any{2, "a", nil, 1} })
	add("slice:any:ints", func() any { return []any{2, 1} })
	add("slice:slice", func() any { return [][]int{{2}, {1}} })
	add("slice:slice:ragged", func() any { return [][]int{{1}, {1, 2}} })
	add("slice:slice:ragged:rev", func() any { return [][]int{{1, 2}, {1}} })
	add("slice:slice:ragged:differ", func() any { return [][]int{{2}, {1, 2}} })
	add("slice:array", func() any { return [][2]int{{2, 1}, {1, 2}} })
	add("slice:struct", func() any { return []kPoint{{2, 1}, {1, 2}} })
	add("slice:ptr", func() any { a, b := 1, 2; return []*int{&b, &a, nil} })
	add("slice:map", func() any { return []map[string]int{{"a": 1}, {"b": 2}} })
	add("slice:map:nils", func() any { return []map[string]int{nil, nil} })
	add("slice:map:1", func() any { return []map[string]int{{"a": 1}} })
	add("slice:map:nil+1", func() any { return []map[string]int{nil, {"a": 1}} })
	add("slice:func:1", func() any { return []func(){kNop} })
	add("slice:func:nil+1", func() any { return []func(){nil, kNop} })
	add("slice:func", func() any { return []func(){kNop, kNop} })
	add("slice:func:nils", func() any { return []func(){nil, nil} })
	add("slice:chan", func() any { return []chan int{make(chan int), nil, make(chan int)} })
	add("slice:unsafe", func() any { x := 1; return []unsafe.Pointer{unsafe.Pointer(&x), nil} })
	add("slice:error", func() any { return []error{errors.New("b"), nil, errors.New("a")} })
	add("slice:html", func() any { return []native.HTML{"<b>", "<a>"} })
	add("slice:named", func() any { return kSlice{2, 1} })
	add("slice:namedelem", func() any { return []kInt{2, 1} })
	add("slice:time", func() any { return []time.Duration{2, 1} })
	add("array:2", func() any { return [2]int{2, 1} })
	add("array:0", func() any { return [0]int{} })
	add("map:nil", func() any { return map[string]int(nil) })
	add("map", func() any { return map[string]int{"a": 1} })
	add("map:any", func() any { return map[any]any{1: 2} })
	add("map:named", func() any { return kMap{"k": 1} })
	add("chan:nil", func() any { return (chan int)(nil) })
	add("chan", func() any { return make(chan int, 1) })
	add("func:nil", func() any { return (func())(nil) })
	add("func", func() any { return kNop })
	add("func:named", func() any { return kFunc(kNop) })
	val("struct", struct {
		A int
		B string
	}{1, "x"})
	val("struct:empty", struct{}{})
	val("struct:named", kPoint{1, 2})
	val("struct:tagged", kTagged{A: 1, B: "b", c: 3})
	val("struct:time", time.Date(2020, 1, 2, 3, 4, 5, 6, time.UTC))
	add("unsafe:nil", func() any { return unsafe.Pointer(nil) })
	add("unsafe", func() any { x := 1; return unsafe.Pointer(&x) })
	val("named:int", kInt(3))
	val("named:string", kString("s"))
	val("named:bool", kBool(true))
	val("named:float", kFloat(0))
	val("named:html", native.HTML("<b>"))
	val("named:json", native.JSON("[1]"))
	val("named:duration", time.Second)
	add("named:ptr", func() any { x := 1; return kPtr(&x) })
	add("named:ptr:nil", func() any { return kPtr(nil) })
	add("error", func() any { return errors.New("e") })
	// a pointer to each non-nil value above, and the nil pointer of its type
	for _, b := range append([]kval(nil), vs[1:]...) {
		b := b
		add("ptr:"+b.name, func() any {
			x := reflect.ValueOf(b.mk())
			p := reflect.New(x.Type())
			p.Elem().Set(x)
			return p.Interface()
		})
		add("nilptr:"+b.name, func() any { return reflect.Zero(reflect.PointerTo(reflect.TypeOf(b.mk()))).Interface() })
	}
	add("ptr:ptr:int", func() any { x := 5; p := &x; return &p })
	add("ptr:nilptr:int", func() any { var p *int; return &p })
	add("ptr:iface:nil", func() any { var x any; return &x })
	add("ptr:iface:int", func() any { var x any = 5; return &x })
	add("ptr:iface:slice", func() any { var x any = []int{1}; return &x })
	add("ptr:iface:error", func() any { var x error = errors.New("e"); return &x })
	add("nilptr:iface", func() any { return (*any)(nil) })
	return vs
}()

var kindValueIndex = func() map[string]*kval {
	m := map[string]*kval{}
	for i := range kindValues {
		if m[kindValues[i].name] != nil {
			panic("harness: duplicate value name " + kindValues[i].name)
		}
		m[kindValues[i].name] = &kindValues[i]
	}
	return m
}()

// argToken is the abstract argument of Spec/Reflect.lean: nil, <kind>/z (IsZero), <kind>/n.
func argToken(v any) string {
	if v == nil {
		return "nil"
	}
	rv := reflect.ValueOf(v)
	kind := rv.Kind().String()
	if rv.Kind() == reflect.UnsafePointer {
		kind = "uptr"
	}
	if rv.IsZero() {
		return kind + "/z"
	}
	return kind + "/n"
}

// ---------------------------------------------------------------------------------------------
// the functions

type kobs struct {
	class string // "ok", "err", "docpanic", "panic"
	msg   string // error or panic text
	out   string // rendered result where there is one
}

func (o kobs) String() string {
	if o.class == "ok" {
		return "ok"
	}
	return o.class + " " + o.msg
}

type kfn struct {
	token   string
	builtin string // exported name in package builtin
	prefix  string // prefix of its error and panic messages
	model   bool   // there is a guard program for it
	tpl     string // template that calls it with the globals data and v
	datas   []string
	goCall  func(data string, v any) (out string, err error, returnsErr bool)
	// oracle looks at the observation (either mode) and says which clause fails; before is a
	// second fresh copy of the argument, v the argument after the call
	oracle func(data string, v, before any, o kobs, tplMode bool) string
}

func kIndexLess(i, j int) bool { return i < j }

var kfns = []*kfn{
	{token: "unmarshaljson", builtin: "UnmarshalJSON", prefix: "unmarshalJSON: ", model: true,
		tpl:    `{% err := unmarshalJSON(data, v) %}{% if err == nil %}ok{% else %}err {{ err.Error() }}{% end %}`,
		datas:  []string{`5`, `"s"`, `[1,2]`, `{"a":1,"X":2}`, `null`, `true`, `1.5`, `{`, ``},
		goCall: func(data string, v any) (string, error, bool) { return "", builtin.UnmarshalJSON(data, v), true },
		oracle: func(data string, v, before any, o kobs, tplMode bool) string {
			return unmarshalOracle("UnmarshalJSON", "unmarshalJSON: ", data, v, before, o, func(p any) error { return json.Unmarshal([]byte(data), p) })
		}},
	{token: "unmarshalyaml", builtin: "UnmarshalYAML", prefix: "unmarshalYAML: ", model: true,
		tpl:    `{% err := unmarshalYAML(data, v) %}{% if err == nil %}ok{% else %}err {{ err.Error() }}{% end %}`,
		datas:  []string{`5`, `s`, `[1, 2]`, "a: 1\nX: 2", `~`, `true`, `1.5`, `{`, ``},
		goCall: func(data string, v any) (string, error, bool) { return "", builtin.UnmarshalYAML(data, v), true },
		oracle: func(data string, v, before any, o kobs, tplMode bool) string {
			return unmarshalOracle("UnmarshalYAML", "unmarshalYAML: ", data, v, before, o, nil)
		}},
	{token: "marshaljson", builtin: "MarshalJSON", prefix: "marshalJSON: ",
		tpl:   `{% _, err := marshalJSON(v) %}{% if err == nil %}ok{% else %}err {{ err.Error() }}{% end %}`,
		datas: []string{``},
		goCall: func(data string, v any) (string, error, bool) {
			s, err := builtin.MarshalJSON(v)
			return string(s), err, true
		},
		oracle: func(data string, v, before any, o kobs, tplMode bool) string {
			return marshalOracle("MarshalJSON", "marshalJSON: ", o, tplMode, func() ([]byte, error) { return json.Marshal(before) })
		}},
	{token: "marshaljsonindent", builtin: "MarshalJSONIndent", prefix: "marshalJSONIndent: ",
		tpl:   `{% _, err := marshalJSONIndent(v, data, " ") %}{% if err == nil %}ok{% else %}err {{ err.Error() }}{% end %}`,
		datas: []string{``, "\t"},
		goCall: func(data string, v any) (string, error, bool) {
			s, err := builtin.MarshalJSONIndent(v, data, " ")
			return string(s), err, true
		},
		oracle: func(data string, v, before any, o kobs, tplMode bool) string {
			// the messages of encoding/json are passed on as they are ("json: …"): only err-ness and output are compared
			return marshalOracle("MarshalJSONIndent", "", o, tplMode, func() ([]byte, error) { return json.MarshalIndent(before, data, " ") })
		}},
	{token: "marshalyaml", builtin: "MarshalYAML", prefix: "marshalYAML: ",
		tpl:   `{% _, err := marshalYAML(v) %}{% if err == nil %}ok{% else %}err {{ err.Error() }}{% end %}`,
		datas: []string{``},
		goCall: func(data string, v any) (string, error, bool) {
			s, err := builtin.MarshalYAML(v)
			return s, err, true
		},
		oracle: func(data string, v, before any, o kobs, tplMode bool) string {
			return marshalOracle("MarshalYAML", "marshalYAML: ", o, tplMode, nil)
		}},
	{token: "reverse", builtin: "Reverse", prefix: "reverse: ", model: true,
		tpl:    `{% reverse(v) %}ok`,
		datas:  []string{``},
		goCall: func(data string, v any) (string, error, bool) { builtin.Reverse(v); return "", nil, false },
		oracle: func(data string, v, before any, o kobs, tplMode bool) string {
			if cl := sliceOnlyOracle("Reverse", "reverse: cannot reverse non-slice value of type ", before, o); cl != "" || o.class != "ok" || before == nil {
				return cl
			}
			a, b := reflect.ValueOf(v), reflect.ValueOf(before)
			for i := 0; i < b.Len(); i++ {
				if !sameValue(a.Index(i).Interface(), b.Index(b.Len()-1-i).Interface()) {
					return "Reverse-result"
				}
			}
			return ""
		}},
	{token: "sort", builtin: "Sort", prefix: "sort: ", model: true,
		tpl:    `{% sort(v, nil) %}ok`,
		datas:  []string{``},
		goCall: func(data string, v any) (string, error, bool) { builtin.Sort(v, nil); return "", nil, false },
		oracle: func(data string, v, before any, o kobs, tplMode bool) string {
			if cl := sliceOnlyOracle("Sort", "sort: cannot sort non-slice value of type ", before, o); cl != "" || o.class != "ok" || before == nil {
				return cl
			}
			if !isPermutation(v, before) {
				return "Sort-not-a-permutation"
			}
			if less := naturalLess(v); less != nil && !sort.SliceIsSorted(v, less) {
				return "Sort-natural-order"
			}
			return ""
		}},
	{token: "sortless", builtin: "Sort", prefix: "sort: ", model: true,
		tpl:    `{% sort(v, func(i, j int) bool { return i < j }) %}ok`,
		datas:  []string{``},
		goCall: func(data string, v any) (string, error, bool) { builtin.Sort(v, kIndexLess); return "", nil, false },
		oracle: func(data string, v, before any, o kobs, tplMode bool) string {
			if cl := sliceOnlyOracle("Sort", "sort: cannot sort non-slice value of type ", before, o); cl != "" || o.class != "ok" || before == nil {
				return cl
			}
			// less(i, j) = i < j says that every slice is already in order
			if !sameValue(v, before) {
				return "Sort-with-less-result"
			}
			return ""
		}},
	{token: "sprint", builtin: "Sprint", prefix: "sprint: ",
		tpl:    `{{ sprint(v) }}`,
		datas:  []string{``},
		goCall: func(data string, v any) (string, error, bool) { return builtin.Sprint(v), nil, false },
		oracle: func(data string, v, before any, o kobs, tplMode bool) string {
			if o.class != "ok" {
				return "Sprint-panics"
			}
			if !tplMode && o.out != fmt.Sprint(before) && !hasAddress(before) {
				return "Sprint-differs-from-fmt"
			}
			return ""
		}},
	{token: "sprintf", builtin: "Sprintf", prefix: "sprintf: ",
		tpl:    `{{ sprintf(data, v) }}`,
		datas:  []string{`%v`, `%d`, `%s`, `%#v`, `%T`, `%q`, `%x`, `%5.2f`, `%`, `%!`, `%[2]v`, `%*d`},
		goCall: func(data string, v any) (string, error, bool) { return builtin.Sprintf(data, v), nil, false },
		oracle: func(data string, v, before any, o kobs, tplMode bool) string {
			if o.class != "ok" {
				return "Sprintf-panics"
			}
			if !tplMode && o.out != fmt.Sprintf(data, before) && !hasAddress(before) {
				return "Sprintf-differs-from-fmt"
			}
			return ""
		}},
}

var kfnIndex = func() map[string]*kfn {
	m := map[string]*kfn{}
	for _, f := range kfns {
		m[f.token] = f
	}
	return m
}()

// snapshot: what the caller can compare the argument with after the call — a shallow copy of the
// slice's elements or of the pointee (inner pointers, chans and funcs keep their identity).
func snapshot(v any) any {
	if v == nil {
		return nil
	}
	rv := reflect.ValueOf(v)
	switch {
	case rv.Kind() == reflect.Slice && !rv.IsNil():
		c := reflect.MakeSlice(rv.Type(), rv.Len(), rv.Len())
		reflect.Copy(c, rv)
		return c.Interface()
	case rv.Kind() == reflect.Pointer && !rv.IsNil():
		c := reflect.New(rv.Type().Elem())
		c.Elem().Set(rv.Elem())
		if rv.Type().Name() != "" { // a named pointer type
			return c.Convert(rv.Type()).Interface()
		}
		return c.Interface()
	}
	return v
}

// a finding class predicts, from the case alone, that it fails with this clause on the
// unchanged tree (fixes/FINDING-CLASSES.md)
type kindClass struct {
	id      string
	predict func(a []string) string // the clause that fails, "" when the class says nothing about the case
}

// pairOf: the two elements of a slice of length 2 passed to sort with a nil less. With two
// elements the natural order is decided by exactly one comparison, of s[1] with s[0], so what
// happens can be told from the argument alone.
func pairOf(a []string) (second, first reflect.Value, ok bool) {
	kv := kindValueIndex[a[1]]
	if a[0] != "sort" || kv == nil {
		return
	}
	v := kv.mk()
	if v == nil {
		return
	}
	rv := reflect.ValueOf(v)
	if rv.Kind() != reflect.Slice || rv.Len() != 2 {
		return
	}
	return rv.Index(1), rv.Index(0), true
}

var kindClasses = []kindClass{
	// thirdparties.Compare treats Func and Map like Interface and calls Value.Elem on them
	{id: "sort-natural-order-map-func", predict: func(a []string) string {
		x, y, ok := pairOf(a)
		if ok && (x.Kind() == reflect.Map || x.Kind() == reflect.Func) && !x.IsNil() && !y.IsNil() {
			return "Sort-undocumented-panic"
		}
		return ""
	}},
	// thirdparties.Compare walks two slices up to the length of the first one
	{id: "sort-natural-order-ragged-slices", predict: func(a []string) string {
		x, y, ok := pairOf(a)
		if ok && x.Kind() == reflect.Slice && x.Type().Elem().Kind() == reflect.Int && x.Len() > y.Len() &&
			reflect.DeepEqual(x.Slice(0, y.Len()).Interface(), y.Interface()) {
			return "Sort-undocumented-panic"
		}
		return ""
	}},
}

func kindClassify(a []string, clause string) string {
	for _, c := range kindClasses {
		if p := c.predict(a); p != "" && p == clause {
			return c.id
		}
	}
	return ""
}

// hasAddress: the printed form contains an address that differs between two fresh copies.
func hasAddress(v any) bool {
	if v == nil {
		return false
	}
	return strings.Contains(fmt.Sprintf("%#v %v", v, v), "0x")
}

// sameValue: equal as far as a caller can tell (funcs and chans by identity, NaN equal to itself).
func sameValue(a, b any) bool {
	return reflect.DeepEqual(a, b) || fmt.Sprintf("%#v", a) == fmt.Sprintf("%#v", b)
}

func isPermutation(a, b any) bool {
	x, y := reflect.ValueOf(a), reflect.ValueOf(b)
	if x.Len() != y.Len() {
		return false
	}
	used := make([]bool, y.Len())
outer:
	for i := 0; i < x.Len(); i++ {
		for j := 0; j < y.Len(); j++ {
			if !used[j] && sameValue(x.Index(i).Interface(), y.Index(j).Interface()) {
				used[j] = true
				continue outer
			}
		}
		return false
	}
	return true
}

// naturalLess: the order on the element kinds for which "natural order" has one meaning only.
func naturalLess(s any) func(i, j int) bool {
	rv := reflect.ValueOf(s)
	switch rv.Type().Elem().Kind() {
	case reflect.Int, reflect.Int8, reflect.Int16, reflect.Int32, reflect.Int64:
		return func(i, j int) bool { return rv.Index(i).Int() < rv.Index(j).Int() }
	case reflect.Uint, reflect.Uint8, reflect.Uint16, reflect.Uint32, reflect.Uint64, reflect.Uintptr:
		return func(i, j int) bool { return rv.Index(i).Uint() < rv.Index(j).Uint() }
	case reflect.Float32, reflect.Float64:
		return func(i, j int) bool { return rv.Index(i).Float() < rv.Index(j).Float() }
	case reflect.String:
		return func(i, j int) bool { return rv.Index(i).String() < rv.Index(j).String() }
	}
	return nil
}

// unmarshalOracle: "If v is nil or not a pointer, Unmarshal… returns an error" (and for a nil
// pointer); never a panic; otherwise as the reference decoder on a fresh value of the pointee's
// type: the pointee is replaced on success and untouched on failure.
func unmarshalOracle(name, prefix, data string, v, before any, o kobs, ref func(p any) error) string {
	if o.class == "panic" || o.class == "docpanic" {
		return name + "-panics"
	}
	if o.class == "err" && !strings.HasPrefix(o.msg, prefix) {
		return name + "-error-prefix"
	}
	rv := reflect.ValueOf(before)
	if before == nil || rv.Kind() != reflect.Pointer || rv.IsNil() {
		if o.class != "err" {
			return name + "-accepts-nil-or-non-pointer"
		}
		return ""
	}
	if o.class == "err" {
		if !sameValue(reflect.ValueOf(v).Elem().Interface(), rv.Elem().Interface()) {
			return name + "-changes-pointee-on-error"
		}
	}
	if ref == nil {
		return ""
	}
	fresh := reflect.New(rv.Type().Elem())
	var werr error
	if p := guard(func() { werr = ref(fresh.Interface()) }); p != nil {
		return "" // the reference decoder itself panics on this type: nothing to compare with
	}
	if (werr != nil) != (o.class == "err") {
		return name + "-differs-from-reference-decoder"
	}
	if werr == nil && !sameValue(reflect.ValueOf(v).Elem().Interface(), fresh.Elem().Interface()) {
		return name + "-result-differs-from-reference-decoder"
	}
	return ""
}

func marshalOracle(name, prefix string, o kobs, tplMode bool, ref func() ([]byte, error)) string {
	if o.class == "panic" || o.class == "docpanic" {
		return name + "-panics"
	}
	if o.class == "err" && !strings.HasPrefix(o.msg, prefix) {
		return name + "-error-prefix"
	}
	if ref == nil {
		return ""
	}
	var want []byte
	var werr error
	if p := guard(func() { want, werr = ref() }); p != nil {
		return ""
	}
	if (werr != nil) != (o.class == "err") {
		return name + "-differs-from-encoding/json"
	}
	if werr == nil && !tplMode && o.out != string(want) {
		return name + "-output-differs-from-encoding/json"
	}
	return ""
}

// sliceOnlyOracle: "If slice is not a slice, it panics" — with the function's own message, for
// exactly the non-nil non-slice arguments; nothing else panics.
func sliceOnlyOracle(name, message string, before any, o kobs) string {
	isSlice := before != nil && reflect.TypeOf(before).Kind() == reflect.Slice
	switch {
	case o.class == "panic":
		return name + "-undocumented-panic"
	case o.class == "docpanic" && (before == nil || isSlice):
		return name + "-panics-on-a-slice"
	case o.class == "docpanic" && o.msg != message+reflect.TypeOf(before).String():
		return name + "-panic-message"
	case o.class == "ok" && before != nil && !isSlice:
		return name + "-accepts-a-non-slice"
	}
	return ""
}

// ---------------------------------------------------------------------------------------------
// running a case

var kTemplates = map[string]*scriggo.Template{}

func kTemplate(f *kfn) (*scriggo.Template, error) {
	if t, ok := kTemplates[f.token]; ok {
		return t, nil
	}
	globals := native.Declarations{
		"v": (*any)(nil), "data": (*string)(nil),
		"unmarshalJSON": builtin.UnmarshalJSON, "unmarshalYAML": builtin.UnmarshalYAML,
		"marshalJSON": builtin.MarshalJSON, "marshalJSONIndent": builtin.MarshalJSONIndent, "marshalYAML": builtin.MarshalYAML,
		"reverse": builtin.Reverse, "sort": builtin.Sort, "sprint": builtin.Sprint, "sprintf": builtin.Sprintf,
	}
	t, err := scriggo.BuildTemplate(scriggo.Files{"index.txt": []byte(f.tpl)}, "index.txt", &scriggo.BuildOptions{Globals: globals})
	if err != nil {
		return nil, fmt.Errorf("harness: template for %s does not build: %v", f.builtin, err)
	}
	kTemplates[f.token] = t
	return t, nil
}

func kClassifyPanic(f *kfn, text string) kobs {
	if strings.HasPrefix(text, f.prefix) {
		return kobs{class: "docpanic", msg: text}
	}
	return kobs{class: "panic", msg: text}
}

// kObserve calls the builtin on v (which it may modify).
func kObserve(f *kfn, data string, v any, tplMode bool) (kobs, error) {
	if !tplMode {
		var out string
		var err error
		if p := guard(func() { out, err, _ = f.goCall(data, v) }); p != nil {
			return kClassifyPanic(f, fmt.Sprint(p)), nil
		}
		if err != nil {
			return kobs{class: "err", msg: err.Error()}, nil
		}
		return kobs{class: "ok", out: out}, nil
	}
	t, err := kTemplate(f)
	if err != nil {
		return kobs{}, err
	}
	var b strings.Builder
	var rerr error
	if p := guard(func() { rerr = t.Run(&b, map[string]any{"v": &v, "data": &data}, nil) }); p != nil {
		return kobs{class: "panic", msg: "Run panicked: " + fmt.Sprint(p)}, nil
	}
	if rerr != nil {
		if pe, ok := rerr.(*scriggo.PanicError); ok {
			return kClassifyPanic(f, fmt.Sprint(pe.Message())), nil
		}
		return kobs{class: "panic", msg: "Run failed: " + rerr.Error()}, nil
	}
	if s := b.String(); strings.HasPrefix(s, "err ") {
		return kobs{class: "err", msg: s[4:]}, nil
	}
	return kobs{class: "ok", out: b.String()}, nil
}

// modelOutcomeMatches: the observed class is one of the outcomes of the guard program.
func modelOutcomeMatches(impl, model string) bool {
	if !strings.HasPrefix(model, "ok ") {
		return false
	}
	class := strings.Fields(impl)[0]
	for _, m := range strings.Split(model[3:], "|") {
		switch {
		case m == "done" || m == "left:ok" || m == "left:plain":
			if class == "ok" {
				return true
			}
		case m == "left:err":
			if class == "err" {
				return true
			}
		case m == "left:docpanic":
			if class == "docpanic" {
				return true
			}
		case strings.HasPrefix(m, "panic:"):
			if class == "panic" {
				return true
			}
		case strings.HasPrefix(m, "recovered-panic:"):
			if class == "err" || class == "panic" {
				return true
			}
		}
	}
	return false
}

func init() {
	// kind <fn> <value> <data> <go|tpl>
	ops["kind"] = &op{model: true, shrink: 2,
		nontrivial: func(a []string) bool { return a[1] != "ptr:struct:named" },
		modelFor: func(a []string) string {
			f, kv := kfnIndex[a[0]], kindValueIndex[a[1]]
			if f == nil || kv == nil || !f.model {
				return ""
			}
			return "C25 guards " + f.builtin + " " + argToken(kv.mk())
		},
		agree:    modelOutcomeMatches,
		classify: kindClassify,
		run: func(a []string) (string, string, string) {
			f, kv := kfnIndex[a[0]], kindValueIndex[a[1]]
			if f == nil || kv == nil || (a[3] != "go" && a[3] != "tpl") {
				panic("harness: bad kind case " + strings.Join(a, " "))
			}
			data := unhex(a[2])
			v := kv.mk()
			before := snapshot(v)
			human := fmt.Sprintf("%s: %s(… %T value %q, data %q)", map[string]string{"go": "Go call", "tpl": "template call"}[a[3]], f.builtin, before, a[1], data)
			o, err := kObserve(f, data, v, a[3] == "tpl")
			if err != nil {
				panic(err.Error())
			}
			return f.oracle(data, v, before, o, a[3] == "tpl"), o.String(), human
		}}
	// reflectspec <op> <value>: Spec/Reflect.lean against package reflect
	ops["reflectspec"] = &op{model: true, shrink: -1,
		nontrivial: func(a []string) bool { return true },
		modelFor: func(a []string) string {
			kv := kindValueIndex[a[1]]
			if kv == nil {
				return ""
			}
			if _, skip := realReflectOp(a[0], kv.mk()); skip {
				return ""
			}
			return "C25 reflectop " + a[0] + " " + argToken(kv.mk())
		},
		run: func(a []string) (string, string, string) {
			kv := kindValueIndex[a[1]]
			if kv == nil {
				panic("harness: bad reflectspec case " + strings.Join(a, " "))
			}
			v := kv.mk()
			panicked, skip := realReflectOp(a[0], v)
			human := fmt.Sprintf("reflect operation %s on a %T (%s)", a[0], v, a[1])
			switch {
			case skip:
				return "", "skipped", human
			case panicked:
				return "", "panic", human
			}
			return "", "ok", human
		}}
}

var reflectOpNames = []string{"valueOf", "typeOf", "swapper", "sortSlice", "vType", "vKind", "vString", "vElem", "vInterface", "vIsZero", "vIsNil",
	"vLen", "vIndex", "tKind", "tString", "tElem", "new", "elemset"}

// realReflectOp runs the operation of Spec/Reflect.lean on the real package. skip: the model
// deliberately does not describe this case (index out of range, Len of a pointer to an array).
func realReflectOp(op string, v any) (panicked, skip bool) {
	rv := reflect.ValueOf(v)
	var f func()
	switch op {
	case "valueOf":
		f = func() { reflect.ValueOf(v) }
	case "typeOf":
		f = func() { reflect.TypeOf(v) }
	case "swapper":
		f = func() { reflect.Swapper(v) }
	case "sortSlice":
		f = func() { sort.Slice(v, func(i, j int) bool { return false }) }
	case "vType":
		f = func() { rv.Type() }
	case "vKind":
		f = func() { rv.Kind() }
	case "vString":
		f = func() { _ = rv.String() }
	case "vElem":
		f = func() { rv.Elem() }
	case "vInterface":
		f = func() { rv.Interface() }
	case "vIsZero":
		f = func() { rv.IsZero() }
	case "vIsNil":
		f = func() { rv.IsNil() }
	case "vLen":
		if rv.Kind() == reflect.Pointer && rv.Type().Elem().Kind() == reflect.Array {
			return false, true
		}
		f = func() { rv.Len() }
	case "vIndex":
		switch rv.Kind() {
		case reflect.Array, reflect.Slice, reflect.String:
			if rv.Len() == 0 {
				return false, true
			}
		}
		f = func() { rv.Index(0) }
	case "tKind":
		f = func() { reflect.TypeOf(v).Kind() }
	case "tString":
		f = func() { _ = reflect.TypeOf(v).String() }
	case "tElem":
		f = func() { reflect.TypeOf(v).Elem() }
	case "new":
		f = func() { reflect.New(reflect.TypeOf(v)) }
	case "elemset":
		f = func() { rv.Elem().Set(reflect.New(reflect.TypeOf(v).Elem()).Elem()) }
	default:
		panic("harness: unknown reflect operation " + op)
	}
	return guard(f) != nil, false
}

// kindCases is the matrix. Quick and thorough run all of it (it is small); the data strings of a
// function are all tried on the pointer arguments and one of them, by rotation, on the others.
func kindCases(add func(opName string, args ...string)) {
	for _, f := range kfns {
		for i, kv := range kindValues {
			for k, data := range f.datas {
				if !strings.HasPrefix(kv.name, "ptr:") && k != i%len(f.datas) {
					continue
				}
				for _, mode := range []string{"go", "tpl"} {
					add("kind", f.token, kv.name, proto.Hex([]byte(data)), mode)
				}
			}
		}
	}
	for _, op := range reflectOpNames {
		for _, kv := range kindValues {
			add("reflectspec", op, kv.name)
		}
	}
}

// kindCoverage: every function the generator found (an `any` parameter; a guard program) has a
// row in the matrix, and every function that returns an error has a stream somewhere.
func kindCoverage(ask func(string) (string, error), report func(name, impl, model string)) error {
	rows, modelled := map[string]bool{}, map[string]bool{}
	for _, f := range kfns {
		rows[f.builtin] = true
		if f.model {
			modelled[f.builtin] = true
		}
	}
	errStreams := map[string]bool{"Date": true, "ParseDuration": true, "ParseFloat": true, "ParseInt": true, "ParseTime": true}
	for _, w := range []string{"Date", "ParseDuration", "ParseFloat", "ParseInt", "ParseTime"} {
		if wrappers[w] == nil {
			delete(errStreams, w)
		}
	}
	for _, q := range []struct {
		line string
		have map[string]bool
		what string
	}{
		{"C25 anyfuncs", rows, "function with an `any` parameter has no row in the argument-kind matrix"},
		{"C25 guardfuncs", modelled, "function with a guard program is not compared with it"},
		{"C25 errfuncs", nil, "function that returns an error has no never-panics stream"},
	} {
		ans, err := ask(q.line)
		if err != nil {
			return err
		}
		if !strings.HasPrefix(ans, "ok ") {
			return fmt.Errorf("harness: driver answered %q to %q", ans, q.line)
		}
		for _, name := range strings.Split(ans[3:], ",") {
			if name == "" {
				continue
			}
			if q.have != nil && !q.have[name] || q.have == nil && !rows[name] && !errStreams[name] {
				report(q.what, name, ans)
			}
		}
	}
	return nil
}
