package main

// Generator "Importers" (property C19): which answer of a member importer is decisive.
// Regenerates from /repo/native/packages.go
//
//	stopOnPkg / stopOnErr   (CombinedImporter).Import, the loop `for _, importer := range importers`:
//	                        the member's answer `p, err := importer.Import(path)` is returned when
//	                        the stop condition holds; the condition is a disjunction of the atoms
//	                        `p != nil` and `err != nil` — which of them it contains
//	stopReturnsAnswer       the statement under the condition is `return p, err`
//	fallThroughNilNil       after the loop: `return nil, nil`
//	packagesImportExact     (Packages).Import is `if p, ok := pp[path]; ok { return p, nil }; return nil, nil`
//
// so that a change of when a combination stops asking its members changes a definition the C19
// theorems are stated over. Anything outside these shapes is "shape not recognised".

import (
	"fmt"
	"go/ast"
	"go/token"
	"path/filepath"
	"strings"
)

func init() {
	generators = append(generators, generator{name: "Importers", run: genImporters})
}

// imAtoms splits a condition into the atoms of a disjunction.
func imAtoms(g *vbFile, e ast.Expr) []string {
	if p, ok := e.(*ast.ParenExpr); ok {
		return imAtoms(g, p.X)
	}
	if b, ok := e.(*ast.BinaryExpr); ok && b.Op == token.LOR {
		return append(imAtoms(g, b.X), imAtoms(g, b.Y)...)
	}
	return []string{g.src(e)}
}

func genImporters(repo string) (string, error) {
	g, err := vbParse(filepath.Join(repo, "native/packages.go"))
	if err != nil {
		return "", err
	}
	fd, err := g.fn("CombinedImporter", "Import")
	if err != nil {
		return "", err
	}
	if len(fd.Body.List) != 2 {
		return "", g.errf(fd.Body, "CombinedImporter.Import is not a loop followed by a return")
	}
	loop, ok := fd.Body.List[0].(*ast.RangeStmt)
	if !ok || loop.Value == nil || g.src(loop.X) != "importers" {
		return "", g.errf(fd.Body.List[0], "CombinedImporter.Import: not `for _, importer := range importers`")
	}
	member := g.src(loop.Value)
	// the answer and the test: `p, err := m.Import(path); if cond {…}` or `if p, err := m.Import(path); cond {…}`
	var asg *ast.AssignStmt
	var test *ast.IfStmt
	switch len(loop.Body.List) {
	case 1:
		test, _ = loop.Body.List[0].(*ast.IfStmt)
		if test != nil {
			asg, _ = test.Init.(*ast.AssignStmt)
		}
	case 2:
		asg, _ = loop.Body.List[0].(*ast.AssignStmt)
		test, _ = loop.Body.List[1].(*ast.IfStmt)
		if test != nil && test.Init != nil {
			test = nil
		}
	}
	if asg == nil || test == nil || test.Else != nil {
		return "", g.errf(loop.Body, "CombinedImporter.Import: the loop body is not `p, err := importer.Import(path)` and one `if`")
	}
	if len(asg.Lhs) != 2 || len(asg.Rhs) != 1 || g.src(asg.Rhs[0]) != member+".Import(path)" {
		return "", g.errf(asg, "CombinedImporter.Import: the member is not asked with `%s.Import(path)`", member)
	}
	pv, ev := g.src(asg.Lhs[0]), g.src(asg.Lhs[1])
	stopPkg, stopErr := false, false
	for _, a := range imAtoms(g, test.Cond) {
		switch a {
		case pv + " != nil":
			stopPkg = true
		case ev + " != nil":
			stopErr = true
		default:
			return "", g.errf(test.Cond, "CombinedImporter.Import: the stop condition is not a disjunction of `%s != nil` / `%s != nil`", pv, ev)
		}
	}
	returnsAnswer := false
	if len(test.Body.List) == 1 {
		if r, ok := test.Body.List[0].(*ast.ReturnStmt); ok && len(r.Results) == 2 && g.src(r.Results[0]) == pv && g.src(r.Results[1]) == ev {
			returnsAnswer = true
		}
	}
	fall := false
	if r, ok := fd.Body.List[1].(*ast.ReturnStmt); ok && len(r.Results) == 2 && g.src(r.Results[0]) == "nil" && g.src(r.Results[1]) == "nil" {
		fall = true
	}
	// Packages.Import
	pd, err := g.fn("Packages", "Import")
	if err != nil {
		return "", err
	}
	pkgsExact := strings.Join(strings.Fields(g.src(pd.Body)), " ") == "{ if p, ok := pp[path]; ok { return p, nil } return nil, nil }"

	var b strings.Builder
	b.WriteString("/-! When a combination of importers stops asking its members, re-read from native/packages.go. -/\nnamespace ScriggoV.Gen.Importers\n\n")
	fmt.Fprintf(&b, "/-- (CombinedImporter).Import: the stop condition `%s` of the loop over the members contains the atom `%s != nil` -/\ndef stopOnPkg : Bool := %v\n\n", g.src(test.Cond), pv, stopPkg)
	fmt.Fprintf(&b, "/-- … and the atom `%s != nil` -/\ndef stopOnErr : Bool := %v\n\n", ev, stopErr)
	fmt.Fprintf(&b, "/-- under the condition the member's answer is returned as it is (`return %s, %s`) -/\ndef stopReturnsAnswer : Bool := %v\n\n", pv, ev, returnsAnswer)
	fmt.Fprintf(&b, "/-- after the loop: `return nil, nil` -/\ndef fallThroughNilNil : Bool := %v\n\n", fall)
	fmt.Fprintf(&b, "/-- (Packages).Import is `if p, ok := pp[path]; ok { return p, nil }; return nil, nil` -/\ndef packagesImportExact : Bool := %v\n\n", pkgsExact)
	b.WriteString("end ScriggoV.Gen.Importers\n")
	return b.String(), nil
}
