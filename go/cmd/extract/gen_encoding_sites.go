package main

// Part of generator "Encoding" (C20): the *function-builder creation sites* — every place of
// internal/compiler where a runtime.Function is made (a call of newFunction / newMacro, a
// runtime.Function composite literal) with the position it is given:
//
//	nilLit    the position argument is the literal nil
//	absent    a composite literal without a Pos field
//	emptyLit  &ast.Position{…}
//	node      the position of a node: X.Pos(), possibly through convertPosition
//	other     anything else (not recognised as a position that is there)
//
// Every limit check reports with newLimitExceededError(fb.fn.Pos, …), which reads the fields of
// the position: a function without a position makes it a nil pointer dereference, i.e. a panic of
// Build that the recover of emitProgram/emitTemplate does not turn into an error. For a site
// without a position the generator therefore lists what is done with the builder of that
// function: the functionBuilder methods called between `em.fb = newBuilder(fn, …)` and the
// statement that restores em.fb, or openBody = true when anything else happens in between (or
// the builder is not used in that shape). limitRaising is the set of functions of the package
// that can reach a `panic(newLimitExceededError(…))` (closure of the call graph by name).

import (
	"fmt"
	"go/ast"
	"sort"
	"strings"
)

type encSite struct {
	where, how, pos, posSrc string
	open                    bool
	emits                   []string
}

func classifyPos(p *encPkg, e ast.Expr) string {
	switch e := e.(type) {
	case *ast.Ident:
		if e.Name == "nil" {
			return "nilLit"
		}
	case *ast.UnaryExpr:
		if cl, ok := e.X.(*ast.CompositeLit); ok && e.Op.String() == "&" {
			if t := p.src(cl.Type); t == "ast.Position" || t == "runtime.Position" {
				return "emptyLit"
			}
		}
	case *ast.CallExpr:
		if c, ok := isCall(e, "convertPosition"); ok && len(c.Args) == 1 {
			return classifyPos(p, c.Args[0])
		}
		if sel, ok := e.Fun.(*ast.SelectorExpr); ok && sel.Sel.Name == "Pos" && len(e.Args) == 0 {
			return "node"
		}
	}
	return "other"
}

// builderUse: what happens with the builder of the function assigned to `name` in the statement
// list `list` after index i.
func builderUse(p *encPkg, list []ast.Stmt, i int, name string) (open bool, emits []string) {
	start := -1
	for j := i + 1; j < len(list); j++ {
		as, ok := list[j].(*ast.AssignStmt)
		if !ok || len(as.Lhs) != 1 || len(as.Rhs) != 1 || p.src(as.Lhs[0]) != "em.fb" {
			continue
		}
		if c, ok := isCall(as.Rhs[0], "newBuilder"); ok && len(c.Args) >= 1 && p.src(c.Args[0]) == name {
			start = j
			break
		}
	}
	if start < 0 {
		return true, nil
	}
	closed := false
	for j := start + 1; j < len(list) && !closed; j++ {
		if as, ok := list[j].(*ast.AssignStmt); ok && len(as.Lhs) == 1 && len(as.Rhs) == 1 && p.src(as.Lhs[0]) == "em.fb" {
			if _, ok := as.Rhs[0].(*ast.Ident); ok {
				closed = true
				break
			}
		}
		ast.Inspect(list[j], func(n ast.Node) bool {
			c, ok := n.(*ast.CallExpr)
			if !ok {
				return true
			}
			src := p.src(c.Fun)
			if strings.HasPrefix(src, "em.fb.") && strings.Count(src, ".") == 2 {
				emits = append(emits, strings.TrimPrefix(src, "em.fb."))
			} else {
				open = true
			}
			return true
		})
	}
	if !closed {
		open = true
	}
	return open, emits
}

func builderSites(p *encPkg) (sites []encSite, raising []string, nilSafe bool, err error) {
	// newFunction / newMacro copy the position they are given and keep a nil one
	for _, name := range []string{"newFunction", "newMacro"} {
		d := p.funcs[name]
		if d == nil {
			return nil, nil, false, fmt.Errorf("shape not recognised: func %s not found", name)
		}
		params := d.Type.Params.List
		last := params[len(params)-1]
		if len(last.Names) != 1 || last.Names[0].Name != "pos" || p.src(last.Type) != "*ast.Position" {
			return nil, nil, false, fmt.Errorf("shape not recognised: the last parameter of %s is not `pos *ast.Position`", name)
		}
		found := false
		for _, s := range d.Body.List {
			if is, ok := s.(*ast.IfStmt); ok && p.src(is.Cond) == "pos != nil" && len(is.Body.List) == 1 && is.Else == nil {
				if as, ok := is.Body.List[0].(*ast.AssignStmt); ok && p.src(as.Lhs[0]) == "fn.Pos" && strings.HasPrefix(p.src(as.Rhs[0]), "&runtime.Position{") {
					found = true
				}
			} else if as, ok := s.(*ast.AssignStmt); ok && len(as.Lhs) == 1 && p.src(as.Lhs[0]) == "fn.Pos" {
				return nil, nil, false, fmt.Errorf("shape not recognised: %s assigns fn.Pos outside `if pos != nil`", name)
			}
		}
		if !found {
			return nil, nil, false, fmt.Errorf("shape not recognised: %s no longer has `if pos != nil { fn.Pos = &runtime.Position{…} }`", name)
		}
	}
	// does newLimitExceededError test its position before reading it?
	le := p.funcs["newLimitExceededError"]
	if le == nil {
		return nil, nil, false, fmt.Errorf("shape not recognised: func newLimitExceededError not found")
	}
	if len(le.Type.Params.List) == 0 || len(le.Type.Params.List[0].Names) != 1 || le.Type.Params.List[0].Names[0].Name != "pos" {
		return nil, nil, false, fmt.Errorf("shape not recognised: the first parameter of newLimitExceededError is not pos")
	}
	ast.Inspect(le.Body, func(n ast.Node) bool {
		if be, ok := n.(*ast.BinaryExpr); ok {
			if s := p.src(be); s == "pos == nil" || s == "pos != nil" {
				nilSafe = true
			}
		}
		return true
	})

	// the creation sites
	for _, fname := range p.order {
		file := p.files[fname]
		for _, decl := range file.Decls {
			fd, ok := decl.(*ast.FuncDecl)
			if !ok || fd.Body == nil || fd.Name.Name == "newFunction" || fd.Name.Name == "newMacro" {
				continue
			}
			encl := fd.Name.Name
			if fd.Recv != nil && len(fd.Recv.List) == 1 {
				encl = strings.TrimPrefix(p.src(fd.Recv.List[0].Type), "*") + "." + encl
			}
			// statement lists, to find what follows a site
			type at struct {
				list []ast.Stmt
				i    int
			}
			where := map[ast.Expr]at{} // the site expression (rhs of an assignment / define) -> its place
			ast.Inspect(fd.Body, func(n ast.Node) bool {
				var list []ast.Stmt
				switch n := n.(type) {
				case *ast.BlockStmt:
					list = n.List
				case *ast.CaseClause:
					list = n.Body
				case *ast.CommClause:
					list = n.Body
				}
				for i, s := range list {
					if as, ok := s.(*ast.AssignStmt); ok && len(as.Lhs) == 1 && len(as.Rhs) == 1 {
						where[as.Rhs[0]] = at{list, i}
					}
				}
				return true
			})
			assignedName := func(e ast.Expr) (string, at, bool) {
				a, ok := where[e]
				if !ok {
					return "", at{}, false
				}
				id, ok := a.list[a.i].(*ast.AssignStmt).Lhs[0].(*ast.Ident)
				if !ok {
					return "", at{}, false
				}
				return id.Name, a, true
			}
			seen := map[*ast.CompositeLit]bool{}
			ast.Inspect(fd.Body, func(n ast.Node) bool {
				e, ok := n.(ast.Expr)
				if !ok {
					return true
				}
				var s *encSite
				var whole ast.Expr = e
				if c, ok := e.(*ast.CallExpr); ok {
					if id, ok := c.Fun.(*ast.Ident); ok && (id.Name == "newFunction" || id.Name == "newMacro") && len(c.Args) > 0 {
						last := c.Args[len(c.Args)-1]
						s = &encSite{how: id.Name, pos: classifyPos(p, last), posSrc: p.src(last)}
					}
				}
				litSite := func(cl *ast.CompositeLit) *encSite {
					k := &encSite{how: "literal", pos: "absent", posSrc: "(no Pos field)"}
					for _, el := range cl.Elts {
						if kv, ok := el.(*ast.KeyValueExpr); ok && p.src(kv.Key) == "Pos" {
							k.pos, k.posSrc = classifyPos(p, kv.Value), p.src(kv.Value)
						}
					}
					return k
				}
				isFn := func(x ast.Expr) (*ast.CompositeLit, bool) {
					cl, ok := x.(*ast.CompositeLit)
					return cl, ok && cl.Type != nil && p.src(cl.Type) == "runtime.Function"
				}
				if u, ok := e.(*ast.UnaryExpr); ok {
					if cl, ok := isFn(u.X); ok {
						s = litSite(cl)
						seen[cl] = true
					}
				} else if cl, ok := isFn(e); ok && !seen[cl] {
					s = litSite(cl)
				}
				if s == nil {
					return true
				}
				s.where = encl + " " + p.pos(e)
				s.open = true
				if s.pos != "emptyLit" && s.pos != "node" {
					if name, a, ok := assignedName(whole); ok {
						s.open, s.emits = builderUse(p, a.list, a.i, name)
					}
				}
				sites = append(sites, *s)
				return true
			})
		}
	}
	if len(sites) < 3 {
		return nil, nil, false, fmt.Errorf("shape not recognised: only %d function creation sites found in internal/compiler", len(sites))
	}

	// functions that can reach panic(newLimitExceededError(…)), by name
	calls := map[string]map[string]bool{}
	for key, d := range p.funcs {
		if d.Body == nil {
			continue
		}
		name := key[strings.LastIndex(key, ".")+1:] // by bare name: methods of different types are merged (errs on the side of "can raise")
		m := calls[name]
		if m == nil {
			m = map[string]bool{}
		}
		ast.Inspect(d.Body, func(n ast.Node) bool {
			if c, ok := n.(*ast.CallExpr); ok {
				switch f := c.Fun.(type) {
				case *ast.Ident:
					m[f.Name] = true
				case *ast.SelectorExpr:
					m[f.Sel.Name] = true
				}
			}
			return true
		})
		calls[name] = m
	}
	can := map[string]bool{"newLimitExceededError": true}
	for changed := true; changed; {
		changed = false
		for name, m := range calls {
			if can[name] {
				continue
			}
			for callee := range m {
				if can[callee] {
					can[name], changed = true, true
					break
				}
			}
		}
	}
	delete(can, "newLimitExceededError")
	for name := range can {
		raising = append(raising, name)
	}
	sort.Strings(raising)
	if !can["newRegister"] || !can["addType"] {
		return nil, nil, false, fmt.Errorf("shape not recognised: newRegister / addType are not found to raise a limit error")
	}
	return sites, raising, nilSafe, nil
}

func builderSitesLean(sites []encSite, raising []string, nilSafe bool) string {
	var sb strings.Builder
	sb.WriteString("/-! ### function-builder creation sites: where a runtime.Function is made and which position it gets\n\n(see gen_encoding_sites.go) -/\n")
	sb.WriteString("inductive PosArg | nilLit | absent | emptyLit | node | other\n  deriving Repr, DecidableEq\n\n")
	sb.WriteString("structure BuilderSite where\n  site : String\n  how : String\n  pos : PosArg\n  posSrc : String\n  openBody : Bool\n  emits : List String\n  deriving Repr, DecidableEq\n\ndef builderSites : List BuilderSite := [\n")
	for i, s := range sites {
		sep := ","
		if i == len(sites)-1 {
			sep = ""
		}
		var em []string
		for _, e := range s.emits {
			em = append(em, fmt.Sprintf("%q", e))
		}
		fmt.Fprintf(&sb, "  { site := %q, how := %q, pos := .%s, posSrc := %q, openBody := %v, emits := [%s] }%s\n", s.where, s.how, s.pos, s.posSrc, s.open, strings.Join(em, ", "), sep)
	}
	sb.WriteString("]\n\n/-- functions of internal/compiler that can reach `panic(newLimitExceededError(…))` -/\ndef limitRaising : List String := [")
	for i, r := range raising {
		if i > 0 {
			sb.WriteString(", ")
		}
		if i%8 == 7 {
			sb.WriteString("\n  ")
		}
		fmt.Fprintf(&sb, "%q", r)
	}
	fmt.Fprintf(&sb, "]\n\n/-- newLimitExceededError tests its position for nil before reading it -/\ndef limitErrorNilSafe : Bool := %v\n\n", nilSafe)
	return sb.String()
}
