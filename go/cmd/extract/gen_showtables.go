package main

// Generator "ShowTables" (property C09, usable by C06/C08): regenerates, from the bodies of
//
//	internal/compiler/checker_statements.go   checkShow, checkShowJS, checkShowJSON
//	internal/runtime/renderer.go              renderer.Show, renderer.showInURL, toString, showIn*
//
// the decisions the two sides take about the *type* of a shown value, as decision trees
// (`DTree`, Model/ShowTypes.lean) over the questions the code asks (kind comparisons and ranges,
// comparisons with exact types, Implements / type-switch cases): one `<func>_tree` per Go
// function, plus the dispatchers `checkShow_tree`/`showTop_tree : Bool → ACtx → DTree`, the
// trees a dispatcher's context recurses with (`checkShowComp_tree`/`showComp_tree`), their
// map-key decisions (`…Key_tree`) and the outcome for a type already in the `types` list
// (`checkShowSeen`).
//
// The translation is a symbolic walk of the statements in continuation-passing style:
//
//	switch x := value.(type) { case T, U: … }     if-chain in case order over `impl`/`ident`/nil
//	switch v.Kind() { case reflect.A, reflect.B: } match on the kind, with break and fallthrough
//	switch ctx { case ast.ContextX: }              match on the context
//	switch { case cond: }, if cond { }             if-chain, cond made of kind comparisons and ranges
//	                                               (`reflect.Bool <= k && k <= reflect.Complex128`),
//	                                               `t == xType`, `v.Type() == xType`, `v.IsValid()`,
//	                                               `t.Implements(xType)`, `t.Key().Implements(xType)`,
//	                                               `ctx == ast.ContextX`, `inURL`, `x, ok := value.(T); ok`
//	s, err := toString(env, x); if err != nil { return err }     sequence: toString, then the rest
//	err = showInX(env, out, <component>)           recursion into elem / exported fields / map values
//	switch k := key.Interface().(type) { }         the map-key decision (a function of its own)
//	value = v.String() / v.Error()                 the shown value becomes a string
//	if slices.Contains(types, t) { return nil }    the outcome for a `seen` type; every recursive
//	                                               call must pass append(types, t)
//
// Conditions on the value that the type does not determine (`v.IsNil()`, `v.Len() == 0`,
// `err != nil`, `env.conv != nil`, loop conditions, struct tags) are walked on both sides and the
// results put in sequence (worst case over values) — only on the dynamic side; on the static
// side every condition must be translated. Calls of package-level functions outside a fixed
// list of pure helpers, and anything else outside these shapes, is an error
// ("shape not recognised"), never a guess.

import (
	"bytes"
	"fmt"
	"go/ast"
	"go/parser"
	"go/printer"
	"go/token"
	"path/filepath"
	"sort"
	"strings"
)

func init() {
	generators = append(generators, generator{name: "ShowTables", run: genShowTables})
}

// ---------------------------------------------------------------------------------------------
// vocabulary

var showKindNames = map[string]string{
	"Invalid": "invalid", "Bool": "bool", "Int": "int", "Int8": "int8", "Int16": "int16", "Int32": "int32",
	"Int64": "int64", "Uint": "uint", "Uint8": "uint8", "Uint16": "uint16", "Uint32": "uint32",
	"Uint64": "uint64", "Uintptr": "uintptr", "Float32": "float32", "Float64": "float64",
	"Complex64": "complex64", "Complex128": "complex128", "Array": "array", "Chan": "chan",
	"Func": "func", "Interface": "interface", "Map": "map", "Pointer": "pointer", "Ptr": "pointer",
	"Slice": "slice", "String": "string", "Struct": "struct", "UnsafePointer": "unsafePointer",
}

const showKindCount = 27

var showCtxNames = map[string]string{
	"ContextText": "text", "ContextHTML": "html", "ContextCSS": "css", "ContextJS": "js",
	"ContextJSON": "json", "ContextMarkdown": "markdown", "ContextTag": "tag",
	"ContextQuotedAttr": "quotedAttr", "ContextUnquotedAttr": "unquotedAttr",
	"ContextCSSString": "cssString", "ContextJSString": "jsString", "ContextJSONString": "jsonString",
	"ContextTabCodeBlock": "tabCodeBlock", "ContextSpacesCodeBlock": "spacesCodeBlock",
}

var showCtxOrder = []string{"text", "html", "css", "js", "json", "markdown", "tag", "quotedAttr",
	"unquotedAttr", "cssString", "jsString", "jsonString", "tabCodeBlock", "spacesCodeBlock"}

var showIfaceOrder = []string{"stringer", "envStringer", "error", "htmlStringer", "htmlEnvStringer",
	"cssStringer", "cssEnvStringer", "jsStringer", "jsEnvStringer", "jsonStringer", "jsonEnvStringer",
	"mdStringer", "mdEnvStringer"}

// a Go type expression the code tests for → "iface:<Iface>" or "ident:<Ident>"
var showTypeTags = map[string]string{
	"fmt.Stringer": "iface:stringer", "native.EnvStringer": "iface:envStringer", "error": "iface:error",
	"native.HTMLStringer": "iface:htmlStringer", "native.HTMLEnvStringer": "iface:htmlEnvStringer",
	"native.CSSStringer": "iface:cssStringer", "native.CSSEnvStringer": "iface:cssEnvStringer",
	"native.JSStringer": "iface:jsStringer", "native.JSEnvStringer": "iface:jsEnvStringer",
	"native.JSONStringer": "iface:jsonStringer", "native.JSONEnvStringer": "iface:jsonEnvStringer",
	"native.MarkdownStringer": "iface:mdStringer", "native.MarkdownEnvStringer": "iface:mdEnvStringer",
	"[]byte": "ident:byteSlice", "[]uint8": "ident:byteSlice", "time.Time": "ident:time",
	"any": "ident:emptyInterface", "interface{}": "ident:emptyInterface",
	"native.HTML": "ident:html", "native.CSS": "ident:css", "native.JS": "ident:js",
	"native.JSON": "ident:json", "native.Markdown": "ident:markdown",
}

// method of a narrowed value whose result the shown value is rebound to → TInfo of the result
var showRebindMethods = map[string]string{
	"String": "TInfo.str", "Error": "TInfo.str",
	"HTML": "(TInfo.ofIdent .html)", "CSS": "(TInfo.ofIdent .css)", "JS": "(TInfo.ofIdent .js)",
	"JSON": "(TInfo.ofIdent .json)", "Markdown": "(TInfo.ofIdent .markdown)",
}

// package-level functions (called by bare name) that cannot fail for a reason of type
var showPureFuncs = map[string]bool{
	"newStringWriter": true, "htmlEscape": true, "attributeEscape": true, "cssStringEscape": true,
	"jsStringEscape": true, "jsonStringEscape": true, "markdownEscape": true,
	"markdownCodeBlockEscape": true, "escapeBytes": true, "showTimeInJS": true, "parseTagValue": true,
	"isEmptyValue": true, "valueOf": true, "pathEscape": true, "queryEscape": true,
	"string": true, "len": true, "make": true, "append": true, "real": true, "imag": true,
	"int64": true, "int": true, "min": true, "max": true, "byte": true,
}

type showErr struct{ msg string }

// ---------------------------------------------------------------------------------------------
// intermediate representation of an action

type showNode interface{}

type (
	snRet struct{ res string }   // ok | fail | panic
	snSub struct{ which string } // elem | fields | key
	snSeq struct{ items []showNode }
	// a question about a type: typ K (arg: predicate on the kind `k`), I (predicate on the exact
	// type `i`), F (arg: interface)
	snAsk struct {
		typ, subj, arg string
		yes, no        showNode
	}
	// a condition on the context (evaluated by Lean, the context being a parameter)
	snIfC struct {
		cond      string
		then, els showNode
	}
	snCase struct {
		ctors []string
		body  showNode
	}
	snMatchC struct { // switch ctx
		cases []snCase
		def   showNode // nil when the cases are exhaustive
	}
	snCall struct {
		fn  string // Go function
		arg string // TInfo expression: t, k or a constant
	}
)

// conditions
type showCond interface{}

type (
	scConst struct{ v bool }
	scAtom  struct{ typ, subj, arg string } // typ K, I, F as in snAsk; C: arg is a Lean Bool over c / inURL
	scNot   struct{ x showCond }
	scAnd   struct{ x, y showCond }
	scOr    struct{ x, y showCond }
)

func showOr(a, b showCond) showCond {
	if a == nil {
		return b
	}
	if b == nil {
		return a
	}
	return scOr{a, b}
}

func showCondUsesKey(c showCond) bool {
	switch c := c.(type) {
	case scAtom:
		return c.subj == "key"
	case scNot:
		return showCondUsesKey(c.x)
	case scAnd:
		return showCondUsesKey(c.x) || showCondUsesKey(c.y)
	case scOr:
		return showCondUsesKey(c.x) || showCondUsesKey(c.y)
	}
	return false
}

// showBranch compiles `if c { yes } else { no }` into questions, with Go's short-circuit order.
func showBranch(c showCond, yes, no showNode) showNode {
	switch c := c.(type) {
	case scConst:
		if c.v {
			return yes
		}
		return no
	case scNot:
		return showBranch(c.x, no, yes)
	case scAnd:
		return showBranch(c.x, showBranch(c.y, yes, no), no)
	case scOr:
		return showBranch(c.x, yes, showBranch(c.y, yes, no))
	case scAtom:
		if showEmit(yes, "") == showEmit(no, "") {
			return yes
		}
		if c.typ == "C" {
			return snIfC{c.arg, showAssume(yes, c.arg, true), showAssume(no, c.arg, false)}
		}
		return snAsk{c.typ, c.subj, c.arg, yes, no}
	}
	panic(showErr{"internal: unknown condition"})
}

// showAssume simplifies a tree under the assumption that a condition on the context holds
// (or not): a nested test of the same condition is decided.
func showAssume(n showNode, cond string, val bool) showNode {
	switch n := n.(type) {
	case snIfC:
		if n.cond == cond {
			if val {
				return showAssume(n.then, cond, val)
			}
			return showAssume(n.els, cond, val)
		}
		return snIfC{n.cond, showAssume(n.then, cond, val), showAssume(n.els, cond, val)}
	case snAsk:
		return snAsk{n.typ, n.subj, n.arg, showAssume(n.yes, cond, val), showAssume(n.no, cond, val)}
	case snSeq:
		items := make([]showNode, len(n.items))
		for i, it := range n.items {
			items[i] = showAssume(it, cond, val)
		}
		return snSeq{items}
	}
	return n
}

func showEmit(n showNode, ind string) string {
	switch n := n.(type) {
	case snRet:
		return "(.leaf (.ret ." + n.res + "))"
	case snSub:
		return "(.leaf ." + n.which + ")"
	case snCall:
		switch {
		case n.arg == "t":
			return n.fn + "_tree"
		case n.arg == "k":
			return n.fn + "_tree.onKey"
		}
		return "(.leaf (" + n.fn + "_tree.run " + n.arg + " TInfo.nil))"
	case snSeq:
		if len(n.items) == 0 {
			return "(.leaf (.ret .ok))"
		}
		s := showEmit(n.items[len(n.items)-1], ind+"  ")
		for i := len(n.items) - 2; i >= 0; i-- {
			s = "(DTree.andThen " + showEmit(n.items[i], ind+"  ") + "\n" + ind + "  " + s + ")"
		}
		return s
	case snAsk:
		q := ""
		switch n.typ {
		case "K":
			q = ".askK ." + n.subj + " (fun k => " + n.arg + ")"
		case "I":
			q = ".askI ." + n.subj + " (fun i => " + n.arg + ")"
		case "F":
			q = ".askF ." + n.subj + " ." + n.arg
		}
		return "(" + q + "\n" + ind + "  " + showEmit(n.yes, ind+"  ") + "\n" + ind + "  " + showEmit(n.no, ind+"  ") + ")"
	case snIfC:
		return "(if " + n.cond + " then\n" + ind + "  " + showEmit(n.then, ind+"  ") +
			"\n" + ind + "else\n" + ind + "  " + showEmit(n.els, ind+"  ") + ")"
	case snMatchC:
		s := "(match c with"
		for _, c := range n.cases {
			alts := make([]string, len(c.ctors))
			for i, k := range c.ctors {
				alts[i] = "." + k
			}
			s += "\n" + ind + "| " + strings.Join(alts, " | ") + " =>\n" + ind + "  " + showEmit(c.body, ind+"  ")
		}
		if n.def != nil {
			s += "\n" + ind + "| _ =>\n" + ind + "  " + showEmit(n.def, ind+"  ")
		}
		return s + ")"
	}
	panic(showErr{fmt.Sprintf("internal: unknown node %T", n)})
}

func showIsRet(n showNode, res string) bool {
	r, ok := n.(snRet)
	return ok && r.res == res
}

// showSeq puts actions in sequence and simplifies: ok is neutral, nothing follows a constant
// failure, a repeated action is checked once.
func showSeq(items ...showNode) showNode {
	var flat []showNode
	var add func(n showNode) bool
	seen := map[string]bool{}
	add = func(n showNode) bool {
		if s, ok := n.(snSeq); ok {
			for _, it := range s.items {
				if !add(it) {
					return false
				}
			}
			return true
		}
		if showIsRet(n, "ok") {
			return true
		}
		key := showEmit(n, "")
		if seen[key] {
			return true
		}
		seen[key] = true
		flat = append(flat, n)
		if r, ok := n.(snRet); ok && r.res != "ok" {
			return false
		}
		return true
	}
	for _, it := range items {
		if !add(it) {
			break
		}
	}
	switch len(flat) {
	case 0:
		return snRet{"ok"}
	case 1:
		return flat[0]
	}
	return snSeq{flat}
}

// showConst: the kind and ident of a constant TInfo expression (TInfo.str, TInfo.ofIdent .x).
func showConst(info string) (kind, ident string, ok bool) {
	switch {
	case info == "TInfo.str":
		return "string", "none", true
	case strings.HasPrefix(info, "(TInfo.ofIdent ."):
		return "string", strings.TrimSuffix(strings.TrimPrefix(info, "(TInfo.ofIdent ."), ")"), true
	}
	return "", "", false
}

func showBool(b bool) string {
	if b {
		return "true"
	}
	return "false"
}

// ---------------------------------------------------------------------------------------------
// the generator

type showFn struct {
	name      string
	decl      *ast.FuncDecl
	static    bool
	body      showNode // action of the function on a value of type t
	keyBody   showNode // map-key decision (t: the map, k: the key), nil if none
	seen      string   // static: outcome for a type in the `types` list
	recursive bool
	valParam  string // dynamic: name of the parameter holding the shown value; static: the type
	valIndex  int
}

type showGen struct {
	fset     *token.FileSet
	funcs    map[string]*ast.FuncDecl
	static   map[string]bool   // function name → belongs to the checker
	typeVars map[string]string // xType variable → tag (per side: "c:"/"r:" prefix + name)
	fns      map[string]*showFn
	order    []string
	busy     map[string]bool
}

func (g *showGen) src(n ast.Node) string {
	var b bytes.Buffer
	printer.Fprint(&b, g.fset, n)
	return strings.Join(strings.Fields(b.String()), " ")
}

func (g *showGen) fail(at ast.Node, format string, args ...any) {
	pos := ""
	if at != nil {
		p := g.fset.Position(at.Pos())
		pos = fmt.Sprintf("%s:%d: ", filepath.Base(p.Filename), p.Line)
	}
	panic(showErr{"shape not recognised: " + pos + fmt.Sprintf(format, args...)})
}

func genShowTables(repo string) (out string, err error) {
	defer func() {
		if r := recover(); r != nil {
			if e, ok := r.(showErr); ok {
				out, err = "", fmt.Errorf("%s", e.msg)
				return
			}
			panic(r)
		}
	}()
	g := &showGen{fset: token.NewFileSet(), funcs: map[string]*ast.FuncDecl{}, static: map[string]bool{},
		typeVars: map[string]string{}, fns: map[string]*showFn{}, busy: map[string]bool{}}
	for _, side := range []struct {
		dir, file, prefix string
		static            bool
	}{
		{"internal/compiler", "checker_statements.go", "c:", true},
		{"internal/runtime", "renderer.go", "r:", false},
	} {
		files, _ := filepath.Glob(filepath.Join(repo, side.dir, "*.go"))
		if len(files) == 0 {
			return "", fmt.Errorf("shape not recognised: no Go files in %s", side.dir)
		}
		for _, f := range files {
			if strings.HasSuffix(f, "_test.go") {
				continue
			}
			file, err := parser.ParseFile(g.fset, f, nil, parser.SkipObjectResolution)
			if err != nil {
				return "", fmt.Errorf("shape not recognised: %v", err)
			}
			for _, d := range file.Decls {
				switch d := d.(type) {
				case *ast.GenDecl:
					if d.Tok == token.VAR {
						g.collectTypeVars(d, side.prefix)
					}
				case *ast.FuncDecl:
					if filepath.Base(f) != side.file || d.Body == nil {
						continue
					}
					name := d.Name.Name
					if side.static && !strings.HasPrefix(name, "checkShow") {
						continue
					}
					if !side.static && !(name == "toString" || name == "Show" || strings.HasPrefix(name, "showIn")) {
						continue
					}
					if _, dup := g.funcs[name]; dup {
						return "", fmt.Errorf("shape not recognised: two functions named %s", name)
					}
					g.funcs[name] = d
					g.static[name] = side.static
				}
			}
		}
	}
	for _, need := range []string{"checkShow", "Show", "toString"} {
		if g.funcs[need] == nil {
			return "", fmt.Errorf("shape not recognised: function %s not found", need)
		}
	}
	// every function of the two families is translated (callees first)
	names := make([]string, 0, len(g.funcs))
	for n := range g.funcs {
		names = append(names, n)
	}
	sort.Strings(names)
	for _, n := range names {
		g.translate(n, nil)
	}
	return g.render(), nil
}

// collectTypeVars records `xType = reflect.TypeFor[T]()` / `reflect.TypeOf((*T)(nil)).Elem()`.
func (g *showGen) collectTypeVars(d *ast.GenDecl, prefix string) {
	for _, sp := range d.Specs {
		vs, ok := sp.(*ast.ValueSpec)
		if !ok || len(vs.Names) != len(vs.Values) {
			continue
		}
		for i, name := range vs.Names {
			call, ok := vs.Values[i].(*ast.CallExpr)
			if !ok || len(call.Args) != 0 {
				continue
			}
			ix, ok := call.Fun.(*ast.IndexExpr)
			if !ok || g.src(ix.X) != "reflect.TypeFor" {
				continue
			}
			if tag, ok := showTypeTags[g.src(ix.Index)]; ok {
				g.typeVars[prefix+name.Name] = tag
			}
		}
	}
}

// ---------------------------------------------------------------------------------------------
// the walk

type showState struct {
	cur       string            // TInfo expression of the shown value ("t", "k", "TInfo.str", …)
	vals      map[string]bool   // identifiers that denote the shown value
	bound     map[string]bool   // identifiers bound by a type switch (never assigned)
	rvals     map[string]string // reflect.Value variables → TInfo expression of what they reflect
	kinds     map[string]string // reflect.Kind variables → Kind expression
	types     map[string]string // static: reflect.Type variables → self | elem | field | key
	fieldVals map[string]bool   // dynamic: variables bound to v.Field(i)
	keyVals   map[string]bool   // dynamic: variables bound to iter.Key()
	ranges    map[string]string // range value variables → source of the ranged expression
	exported  bool              // inside `if field.PkgPath == ""`
	ctxName   string
	inURLName string
}

func cloneSet(m map[string]bool) map[string]bool {
	r := make(map[string]bool, len(m))
	for k, v := range m {
		r[k] = v
	}
	return r
}
func cloneStr(m map[string]string) map[string]string {
	r := make(map[string]string, len(m))
	for k, v := range m {
		r[k] = v
	}
	return r
}

func (st showState) clone() showState {
	st.vals, st.bound, st.fieldVals, st.keyVals = cloneSet(st.vals), cloneSet(st.bound), cloneSet(st.fieldVals), cloneSet(st.keyVals)
	st.rvals, st.kinds, st.types, st.ranges = cloneStr(st.rvals), cloneStr(st.kinds), cloneStr(st.types), cloneStr(st.ranges)
	return st
}

// forget removes every meaning of a name that is declared again.
func (st *showState) forget(name string) {
	delete(st.vals, name)
	delete(st.bound, name)
	delete(st.rvals, name)
	delete(st.kinds, name)
	delete(st.types, name)
	delete(st.fieldVals, name)
	delete(st.keyVals, name)
	delete(st.ranges, name)
}

type showKont func(st showState) showNode

type showJumps struct {
	brk, cont, fall showKont
}

type showWalker struct {
	g  *showGen
	fn *showFn
	// key function under construction
	inKey bool
}

// leave gives the continuation of a nested block: names declared inside go out of scope, an
// assignment to the shown value (`value = v.String()`) stays.
func showLeave(outer showState, k showKont) showKont {
	return func(inner showState) showNode {
		st := outer.clone()
		st.cur = inner.cur
		return k(st)
	}
}

func (g *showGen) translate(name string, from ast.Node) *showFn {
	if f, ok := g.fns[name]; ok {
		return f
	}
	decl := g.funcs[name]
	if decl == nil {
		g.fail(from, "call of unknown function %s", name)
	}
	if g.busy[name] {
		g.fail(from, "mutual recursion through %s", name)
	}
	g.busy[name] = true
	defer delete(g.busy, name)
	f := &showFn{name: name, decl: decl, static: g.static[name], seen: "ok"}
	w := &showWalker{g: g, fn: f}
	st := showState{cur: "t", vals: map[string]bool{}, bound: map[string]bool{}, rvals: map[string]string{},
		kinds: map[string]string{}, types: map[string]string{}, fieldVals: map[string]bool{},
		keyVals: map[string]bool{}, ranges: map[string]string{}}
	idx := 0
	f.valIndex = -1
	for _, p := range decl.Type.Params.List {
		typ := g.src(p.Type)
		for _, n := range p.Names {
			switch {
			case f.static && typ == "reflect.Type":
				if f.valIndex >= 0 {
					g.fail(p, "%s has two reflect.Type parameters", name)
				}
				f.valIndex, f.valParam = idx, n.Name
				st.types[n.Name] = "self"
			case !f.static && (typ == "any" || typ == "interface{}"):
				if f.valIndex >= 0 {
					g.fail(p, "%s has two parameters of type any", name)
				}
				f.valIndex, f.valParam = idx, n.Name
				st.vals[n.Name] = true
			case f.static && name == "checkShow" && typ == "ast.Context":
				st.ctxName = n.Name
			case f.static && name == "checkShow" && typ == "bool":
				st.inURLName = n.Name
			}
			idx++
		}
	}
	if f.valIndex < 0 {
		g.fail(decl, "%s has no parameter for the shown value", name)
	}
	stmts := decl.Body.List
	if f.static && name != "checkShow" {
		// if slices.Contains(types, t) { return nil }
		if len(stmts) == 0 {
			g.fail(decl, "empty body")
		}
		ifs, ok := stmts[0].(*ast.IfStmt)
		if !ok || ifs.Init != nil || ifs.Else != nil || g.src(ifs.Cond) != "slices.Contains(types, "+f.valParam+")" || len(ifs.Body.List) != 1 {
			g.fail(stmts[0], "%s does not start with the test of the types list", name)
		}
		f.seen = w.staticReturn(ifs.Body.List[0])
		stmts = stmts[1:]
	}
	end := func(st showState) showNode {
		g.fail(decl, "control reaches the end of %s", name)
		return nil
	}
	f.body = w.stmts(st, stmts, end, showJumps{})
	g.fns[name] = f
	g.order = append(g.order, name)
	return f
}

func (w *showWalker) staticReturn(s ast.Stmt) string {
	r, ok := s.(*ast.ReturnStmt)
	if !ok || len(r.Results) != 1 {
		w.g.fail(s, "expected a return of one value")
	}
	return w.errorResult(r.Results[0])
}

// errorResult classifies an expression of type error that is returned.
func (w *showWalker) errorResult(e ast.Expr) string {
	switch src := w.g.src(e); {
	case src == "nil":
		return "ok"
	case strings.HasPrefix(src, "fmt.Errorf(") || strings.HasPrefix(src, "errors.New("):
		return "fail"
	}
	w.g.fail(e, "returned error %s", w.g.src(e))
	return ""
}

func (w *showWalker) stmts(st showState, list []ast.Stmt, k showKont, j showJumps) showNode {
	if len(list) == 0 {
		return k(st)
	}
	g := w.g
	s, rest := list[0], list[1:]
	next := func(st showState) showNode { return w.stmts(st, rest, k, j) }
	switch s := s.(type) {
	case *ast.EmptyStmt:
		return next(st)
	case *ast.DeclStmt:
		gd, ok := s.Decl.(*ast.GenDecl)
		if !ok {
			g.fail(s, "declaration")
		}
		st = st.clone()
		for _, sp := range gd.Specs {
			switch sp := sp.(type) {
			case *ast.ValueSpec:
				for _, v := range sp.Values {
					w.pure(v)
				}
				for _, n := range sp.Names {
					st.forget(n.Name)
				}
			case *ast.TypeSpec:
			default:
				g.fail(s, "declaration")
			}
		}
		return next(st)
	case *ast.IncDecStmt:
		return next(st)
	case *ast.ExprStmt:
		if call, ok := s.X.(*ast.CallExpr); ok {
			if id, ok := call.Fun.(*ast.Ident); ok && id.Name == "panic" {
				return snRet{"panic"}
			}
		}
		w.pure(s.X)
		return next(st)
	case *ast.BlockStmt:
		return w.stmts(st, s.List, showLeave(st, next), j)
	case *ast.AssignStmt:
		return w.assign(st, s, rest, k, j)
	case *ast.ReturnStmt:
		return w.ret(st, s)
	case *ast.IfStmt:
		return w.ifStmt(st, s, next, j)
	case *ast.SwitchStmt:
		return w.switchStmt(st, s, next, j)
	case *ast.TypeSwitchStmt:
		return w.typeSwitch(st, s, next, j)
	case *ast.ForStmt:
		if w.fn.static {
			g.fail(s, "for statement in a static check")
		}
		if s.Init != nil {
			w.pureStmt(s.Init)
		}
		if s.Cond != nil {
			w.pure(s.Cond)
		}
		if s.Post != nil {
			w.pureStmt(s.Post)
		}
		done := func(showState) showNode { return snRet{"ok"} }
		body := w.stmts(st.clone(), s.Body.List, done, showJumps{brk: done, cont: done})
		return showSeq(body, next(st))
	case *ast.RangeStmt:
		w.pure(s.X)
		inner := st.clone()
		for _, kv := range []ast.Expr{s.Key, s.Value} {
			if id, ok := kv.(*ast.Ident); ok {
				inner.forget(id.Name)
			}
		}
		if id, ok := s.Value.(*ast.Ident); ok {
			inner.ranges[id.Name] = g.src(s.X)
		}
		done := func(showState) showNode { return snRet{"ok"} }
		body := w.stmts(inner, s.Body.List, done, showJumps{brk: done, cont: done})
		return showSeq(body, next(st))
	case *ast.BranchStmt:
		if s.Label != nil {
			g.fail(s, "labelled branch")
		}
		switch s.Tok {
		case token.BREAK:
			if j.brk == nil {
				g.fail(s, "break outside switch or loop")
			}
			return j.brk(st)
		case token.CONTINUE:
			if j.cont == nil {
				g.fail(s, "continue outside loop")
			}
			return j.cont(st)
		case token.FALLTHROUGH:
			if j.fall == nil {
				g.fail(s, "fallthrough outside switch")
			}
			return j.fall(st)
		}
	}
	g.fail(s, "statement %s", g.src(s))
	return nil
}

// pure checks that an expression contains no call that the translation must know about.
func (w *showWalker) pure(e ast.Node) {
	g := w.g
	ast.Inspect(e, func(n ast.Node) bool {
		call, ok := n.(*ast.CallExpr)
		if !ok {
			return true
		}
		switch fun := call.Fun.(type) {
		case *ast.Ident:
			if !showPureFuncs[fun.Name] {
				g.fail(call, "call of %s in %s", fun.Name, g.src(e))
			}
		case *ast.SelectorExpr:
			if _, interesting := g.funcs[fun.Sel.Name]; interesting {
				g.fail(call, "call of %s in %s", g.src(fun), g.src(e))
			}
		case *ast.ArrayType, *ast.ParenExpr, *ast.IndexExpr, *ast.FuncLit:
		default:
			g.fail(call, "call %s", g.src(call))
		}
		return true
	})
}

func (w *showWalker) pureStmt(s ast.Stmt) {
	switch s := s.(type) {
	case *ast.AssignStmt:
		for _, r := range s.Rhs {
			w.pure(r)
		}
		for _, l := range s.Lhs {
			w.pure(l)
		}
	case *ast.IncDecStmt:
	case *ast.ExprStmt:
		w.pure(s.X)
	default:
		w.g.fail(s, "statement %s", w.g.src(s))
	}
}

// isPureBlock tells whether a block has no jump, no return and only pure expressions.
func (w *showWalker) isPureBlock(b ast.Stmt) (ok bool) {
	if b == nil {
		return true
	}
	defer func() {
		if r := recover(); r != nil {
			if _, is := r.(showErr); is {
				ok = false
				return
			}
			panic(r)
		}
	}()
	ok = true
	ast.Inspect(b, func(n ast.Node) bool {
		switch n := n.(type) {
		case *ast.ReturnStmt, *ast.BranchStmt, *ast.TypeSwitchStmt:
			ok = false
		case *ast.AssignStmt:
			for _, l := range n.Lhs {
				if id, isId := l.(*ast.Ident); isId && n.Tok == token.ASSIGN && id.Name == w.fn.valParam {
					ok = false
				}
			}
		case ast.Expr:
			w.pure(n)
			return false
		}
		return ok
	})
	return ok
}

// callee returns the function of the two families that a call expression calls, if any.
func (w *showWalker) callee(e ast.Expr) (*ast.CallExpr, string) {
	call, ok := e.(*ast.CallExpr)
	if !ok {
		return nil, ""
	}
	name := ""
	switch fun := call.Fun.(type) {
	case *ast.Ident:
		name = fun.Name
	case *ast.SelectorExpr:
		// a method of the same receiver: r.showInURL(…)
		id, ok := fun.X.(*ast.Ident)
		if !ok || w.fn.decl.Recv == nil || len(w.fn.decl.Recv.List) != 1 || len(w.fn.decl.Recv.List[0].Names) != 1 ||
			w.fn.decl.Recv.List[0].Names[0].Name != id.Name {
			return nil, ""
		}
		name = fun.Sel.Name
	}
	if _, ok := w.g.funcs[name]; ok {
		return call, name
	}
	return nil, ""
}

// invoke translates a call of a function of the families into an action.
func (w *showWalker) invoke(st showState, call *ast.CallExpr, name string) showNode {
	g := w.g
	if g.static[name] != w.fn.static {
		g.fail(call, "call of %s from %s", name, w.fn.name)
	}
	decl := g.funcs[name]
	// index of the value parameter of the callee
	idx, vi := 0, -1
	for _, p := range decl.Type.Params.List {
		typ := g.src(p.Type)
		for range p.Names {
			if (w.fn.static && typ == "reflect.Type") || (!w.fn.static && (typ == "any" || typ == "interface{}")) {
				vi = idx
			}
			idx++
		}
	}
	if vi < 0 || len(call.Args) != idx {
		g.fail(call, "arguments of %s", g.src(call))
	}
	arg := call.Args[vi]
	if w.fn.static && name != "checkShow" {
		// the `types` argument: nil from the dispatcher, append(types, t) in a recursive call
		tl := g.src(call.Args[len(call.Args)-1])
		if name == w.fn.name {
			if tl != "append(types, "+w.fn.valParam+")" {
				g.fail(call, "recursive call does not pass append(types, %s): %s", w.fn.valParam, g.src(call))
			}
		} else if tl != "nil" {
			g.fail(call, "call does not start with an empty types list: %s", g.src(call))
		}
	}
	if name == w.fn.name {
		w.fn.recursive = true
		return snSub{w.sub(st, arg)}
	}
	info := w.valueInfo(st, arg)
	if info == "" {
		g.fail(call, "argument %s of %s is not the shown value", g.src(arg), name)
	}
	callee := g.translate(name, call)
	if callee.recursive && w.fn.name != "Show" && w.fn.name != "checkShow" {
		g.fail(call, "%s delegates to the recursive function %s", w.fn.name, name)
	}
	return snCall{fn: name, arg: info}
}

// valueInfo gives the TInfo expression of an expression that denotes the shown value.
func (w *showWalker) valueInfo(st showState, e ast.Expr) string {
	if p, ok := e.(*ast.ParenExpr); ok {
		return w.valueInfo(st, p.X)
	}
	id, ok := e.(*ast.Ident)
	if !ok {
		return ""
	}
	if w.fn.static {
		if st.types[id.Name] == "self" {
			return "t"
		}
		return ""
	}
	if st.vals[id.Name] {
		return st.cur
	}
	return ""
}

// sub says which component of the value a recursive call shows.
func (w *showWalker) sub(st showState, arg ast.Expr) string {
	g := w.g
	src := g.src(arg)
	if w.fn.static {
		if id, ok := arg.(*ast.Ident); ok && st.types[id.Name] == "elem" {
			return "elem"
		}
		if call, ok := arg.(*ast.CallExpr); ok && len(call.Args) == 0 {
			if sel, ok := call.Fun.(*ast.SelectorExpr); ok && sel.Sel.Name == "Elem" {
				if id, ok := sel.X.(*ast.Ident); ok && st.types[id.Name] == "self" {
					return "elem"
				}
			}
		}
		if sel, ok := arg.(*ast.SelectorExpr); ok && sel.Sel.Name == "Type" {
			if id, ok := sel.X.(*ast.Ident); ok && st.types[id.Name] == "field" {
				if !st.exported {
					g.fail(arg, "field %s is checked outside `if field.PkgPath == \"\"`", src)
				}
				return "fields"
			}
		}
		g.fail(arg, "recursive call on %s", src)
	}
	// X.Index(i).Interface(), X.Elem().Interface(), F.Interface(), P.val
	if call, ok := arg.(*ast.CallExpr); ok && len(call.Args) == 0 {
		if sel, ok := call.Fun.(*ast.SelectorExpr); ok && sel.Sel.Name == "Interface" {
			if id, ok := sel.X.(*ast.Ident); ok && st.fieldVals[id.Name] {
				if !st.exported {
					g.fail(arg, "field %s is shown outside `if field.PkgPath == \"\"`", src)
				}
				return "fields"
			}
			if inner, ok := sel.X.(*ast.CallExpr); ok {
				if isel, ok := inner.Fun.(*ast.SelectorExpr); ok {
					if id, ok := isel.X.(*ast.Ident); ok && st.rvals[id.Name] == st.cur && st.cur == "t" {
						if (isel.Sel.Name == "Index" && len(inner.Args) == 1) || (isel.Sel.Name == "Elem" && len(inner.Args) == 0) {
							return "elem"
						}
					}
				}
			}
		}
	}
	if sel, ok := arg.(*ast.SelectorExpr); ok && sel.Sel.Name == "val" {
		if id, ok := sel.X.(*ast.Ident); ok && st.ranges[id.Name] == "keyPairs" && w.mapValuesStored() {
			return "elem"
		}
	}
	g.fail(arg, "recursive call on %s", src)
	return ""
}

// mapValuesStored checks that the function has `keyPairs[i].val = iter.Value().Interface()`.
func (w *showWalker) mapValuesStored() bool {
	found := false
	ast.Inspect(w.fn.decl.Body, func(n ast.Node) bool {
		if a, ok := n.(*ast.AssignStmt); ok && len(a.Lhs) == 1 && len(a.Rhs) == 1 {
			if w.g.src(a.Lhs[0]) == "keyPairs[i].val" && w.g.src(a.Rhs[0]) == "iter.Value().Interface()" {
				found = true
			}
		}
		return true
	})
	return found
}

// errCheck recognises `if err != nil { return err }` (or a return of a new error): the
// statement that propagates the failure of the call before it.
func (w *showWalker) errCheck(s ast.Stmt, errName string) bool {
	ifs, ok := s.(*ast.IfStmt)
	if !ok || ifs.Init != nil || ifs.Else != nil || w.g.src(ifs.Cond) != errName+" != nil" || len(ifs.Body.List) != 1 {
		return false
	}
	r, ok := ifs.Body.List[0].(*ast.ReturnStmt)
	if !ok || len(r.Results) == 0 {
		return false
	}
	last := w.g.src(r.Results[len(r.Results)-1])
	return last == errName || strings.HasPrefix(last, "fmt.Errorf(")
}

func (w *showWalker) assign(st showState, s *ast.AssignStmt, rest []ast.Stmt, k showKont, j showJumps) showNode {
	g := w.g
	next := func(st showState) showNode { return w.stmts(st, rest, k, j) }
	lhsNames := make([]string, len(s.Lhs))
	for i, l := range s.Lhs {
		if id, ok := l.(*ast.Ident); ok {
			lhsNames[i] = id.Name
		}
	}
	declare := func(st showState) showState {
		st = st.clone()
		if s.Tok == token.DEFINE {
			for _, n := range lhsNames {
				if n != "" && n != "_" {
					st.forget(n)
				}
			}
		}
		return st
	}
	if len(s.Rhs) == 1 {
		rhs := s.Rhs[0]
		// calls of functions of the families
		if call, name := w.callee(rhs); call != nil {
			errName := lhsNames[len(lhsNames)-1]
			if errName == "" || errName == "_" {
				g.fail(s, "the error of %s is dropped", name)
			}
			act := w.invoke(st, call, name)
			st2 := declare(st)
			if len(rest) > 0 && w.errCheck(rest[0], errName) {
				return showSeq(act, w.stmts(st2, rest[1:], k, j))
			}
			if len(lhsNames) != 1 || w.fn.static {
				g.fail(s, "the error of %s is not checked by the next statement", name)
			}
			// err = showInX(…): the error is carried in err to a later `return err`
			return showSeq(act, next(st2))
		}
		if !w.fn.static {
			// value = v.String()
			if len(lhsNames) == 1 && s.Tok == token.ASSIGN && lhsNames[0] != "" && st.vals[lhsNames[0]] {
				if st.bound[lhsNames[0]] {
					g.fail(s, "assignment to the variable of a type switch")
				}
				call, ok := rhs.(*ast.CallExpr)
				if ok {
					if sel, ok := call.Fun.(*ast.SelectorExpr); ok {
						if id, ok := sel.X.(*ast.Ident); ok && st.vals[id.Name] {
							if info, ok := showRebindMethods[sel.Sel.Name]; ok {
								st2 := st.clone()
								st2.cur = info
								return next(st2)
							}
						}
					}
				}
				g.fail(s, "the shown value is rebound to %s", g.src(rhs))
			}
			if call, ok := rhs.(*ast.CallExpr); ok && len(lhsNames) == 1 && lhsNames[0] != "" {
				fun := g.src(call.Fun)
				// v := valueOf(env, value) / reflect.ValueOf(value)
				if (fun == "valueOf" && len(call.Args) == 2) || (fun == "reflect.ValueOf" && len(call.Args) == 1) {
					if info := w.valueInfo(st, call.Args[len(call.Args)-1]); info != "" {
						st2 := declare(st)
						st2.rvals[lhsNames[0]] = info
						return next(st2)
					}
				}
				if sel, ok := call.Fun.(*ast.SelectorExpr); ok {
					if id, ok := sel.X.(*ast.Ident); ok {
						switch {
						case sel.Sel.Name == "Field" && st.rvals[id.Name] == "t" && s.Tok == token.DEFINE:
							st2 := declare(st)
							st2.fieldVals[lhsNames[0]] = true
							return next(st2)
						case sel.Sel.Name == "Key" && id.Name == "iter" && len(call.Args) == 0 && s.Tok == token.DEFINE:
							st2 := declare(st)
							st2.keyVals[lhsNames[0]] = true
							return next(st2)
						}
					}
				}
			}
			// ctx, inURL, _ := decodeRenderContext(context)
			if call, ok := rhs.(*ast.CallExpr); ok && g.src(call.Fun) == "decodeRenderContext" && len(lhsNames) == 3 && w.fn.name == "Show" {
				st2 := declare(st)
				st2.ctxName, st2.inURLName = lhsNames[0], lhsNames[1]
				return next(st2)
			}
		} else if len(lhsNames) == 1 && lhsNames[0] != "" && s.Tok == token.DEFINE {
			// kind := t.Kind(); key := t.Key().Kind(); te := t.Elem(); field := t.Field(i)
			src := g.src(rhs)
			p := w.fn.valParam
			st2 := declare(st)
			switch {
			case src == p+".Kind()":
				st2.kinds[lhsNames[0]] = "t.kind"
				return next(st2)
			case src == p+".Key().Kind()":
				st2.kinds[lhsNames[0]] = "k.kind"
				return next(st2)
			case src == p+".Elem()":
				st2.types[lhsNames[0]] = "elem"
				return next(st2)
			case src == p+".Field(i)":
				st2.types[lhsNames[0]] = "field"
				return next(st2)
			case src == p+".NumField()":
				return next(st2)
			}
			g.fail(s, "assignment %s", g.src(s))
		}
	}
	if w.fn.static {
		g.fail(s, "assignment %s", g.src(s))
	}
	for _, r := range s.Rhs {
		w.pure(r)
	}
	for i, l := range s.Lhs {
		if lhsNames[i] == "" {
			w.pure(l)
		} else if s.Tok == token.ASSIGN && (st.vals[lhsNames[i]] || st.rvals[lhsNames[i]] != "" || st.kinds[lhsNames[i]] != "") {
			g.fail(s, "assignment to %s", lhsNames[i])
		}
	}
	return next(declare(st))
}

func (w *showWalker) ret(st showState, s *ast.ReturnStmt) showNode {
	g := w.g
	if w.fn.name == "toString" {
		if len(s.Results) != 2 {
			g.fail(s, "return %s", g.src(s))
		}
		w.pure(s.Results[0])
		return snRet{w.errorResult(s.Results[1])}
	}
	if len(s.Results) != 1 {
		g.fail(s, "return %s", g.src(s))
	}
	e := s.Results[0]
	if call, name := w.callee(e); call != nil {
		return w.invoke(st, call, name)
	}
	if w.fn.static {
		return snRet{w.errorResult(e)}
	}
	switch src := g.src(e); {
	case src == "nil", src == "err":
		// err carries a writer's error (the failures of toString and of the recursive calls
		// are accounted for where they are assigned)
		return snRet{"ok"}
	case strings.HasPrefix(src, "fmt.Errorf(") || strings.HasPrefix(src, "errors.New("):
		return snRet{"fail"}
	}
	if _, ok := e.(*ast.CallExpr); ok {
		w.pure(e)
		return snRet{"ok"}
	}
	g.fail(s, "return %s", g.src(s))
	return nil
}

// subjOf maps a TInfo expression to the subject of a question ("" for a constant).
func showSubj(info string) string {
	switch info {
	case "t":
		return "self"
	case "k":
		return "key"
	}
	return ""
}

// cond translates a condition that the types decide. panics is the condition (or nil) under
// which its evaluation panics.
func (w *showWalker) cond(st showState, e ast.Expr) (c, panics showCond, ok bool) {
	g := w.g
	switch e := e.(type) {
	case *ast.ParenExpr:
		return w.cond(st, e.X)
	case *ast.Ident:
		if st.inURLName != "" && e.Name == st.inURLName {
			return scAtom{typ: "C", arg: "inURL"}, nil, true
		}
	case *ast.UnaryExpr:
		if e.Op == token.NOT {
			x, p, ok := w.cond(st, e.X)
			if ok {
				return scNot{x}, p, true
			}
		}
	case *ast.BinaryExpr:
		switch e.Op {
		case token.LAND, token.LOR:
			a, pa, ok1 := w.cond(st, e.X)
			b, pb, ok2 := w.cond(st, e.Y)
			if !ok1 || !ok2 {
				return nil, nil, false
			}
			if e.Op == token.LAND {
				if pb != nil {
					pb = scAnd{a, pb}
				}
				return scAnd{a, b}, showOr(pa, pb), true
			}
			if pb != nil {
				pb = scAnd{scNot{a}, pb}
			}
			return scOr{a, b}, showOr(pa, pb), true
		case token.EQL, token.NEQ, token.LEQ, token.GEQ, token.LSS, token.GTR:
			// kinds
			if a, sa, ok1 := w.kindExpr(st, e.X); ok1 {
				if b, sb, ok2 := w.kindExpr(st, e.Y); ok2 {
					if sa != "" && sb != "" {
						g.fail(e, "comparison of two kinds that are not constants: %s", g.src(e))
					}
					var l string
					switch e.Op {
					case token.EQL:
						l = "(" + a + " == " + b + ")"
					case token.NEQ:
						l = "(" + a + " != " + b + ")"
					case token.LEQ:
						l = "(Kind.le " + a + " " + b + ")"
					case token.GEQ:
						l = "(Kind.le " + b + " " + a + ")"
					case token.LSS:
						l = "(Kind.le " + a + " " + b + " && " + a + " != " + b + ")"
					case token.GTR:
						l = "(Kind.le " + b + " " + a + " && " + a + " != " + b + ")"
					}
					if sa == "" && sb == "" {
						return scAtom{typ: "C", arg: l}, nil, true
					}
					return scAtom{typ: "K", subj: sa + sb, arg: l}, nil, true
				}
			}
			if e.Op != token.EQL && e.Op != token.NEQ {
				return nil, nil, false
			}
			neg := func(c showCond) showCond {
				if e.Op == token.NEQ {
					return scNot{c}
				}
				return c
			}
			// contexts
			if id, ok := e.X.(*ast.Ident); ok && st.ctxName != "" && id.Name == st.ctxName {
				if c, ok := w.ctxConst(e.Y); ok {
					return neg(scAtom{typ: "C", arg: "(c == ." + c + ")"}), nil, true
				}
			}
			// exact types
			for _, pair := range [][2]ast.Expr{{e.X, e.Y}, {e.Y, e.X}} {
				tv, ok := pair[1].(*ast.Ident)
				if !ok {
					continue
				}
				prefix := "r:"
				if w.fn.static {
					prefix = "c:"
				}
				tag, ok := g.typeVars[prefix+tv.Name]
				if !ok {
					continue
				}
				info, p := w.typeOperand(st, pair[0])
				if info == "" {
					continue
				}
				if !strings.HasPrefix(tag, "ident:") {
					g.fail(e, "comparison with the interface type %s", tv.Name)
				}
				return neg(w.identCond(info, strings.TrimPrefix(tag, "ident:"))), p, true
			}
		}
	case *ast.CallExpr:
		sel, ok := e.Fun.(*ast.SelectorExpr)
		if !ok {
			break
		}
		switch sel.Sel.Name {
		case "Implements":
			if !w.fn.static || len(e.Args) != 1 {
				break
			}
			tv, ok := e.Args[0].(*ast.Ident)
			if !ok {
				break
			}
			tag, ok := g.typeVars["c:"+tv.Name]
			if !ok || !strings.HasPrefix(tag, "iface:") {
				g.fail(e, "Implements of %s, which is not a known interface type", tv.Name)
			}
			recv := g.src(sel.X)
			switch recv {
			case w.fn.valParam:
				return scAtom{typ: "F", subj: "self", arg: strings.TrimPrefix(tag, "iface:")}, nil, true
			case w.fn.valParam + ".Key()":
				return scAtom{typ: "F", subj: "key", arg: strings.TrimPrefix(tag, "iface:")}, nil, true
			}
			g.fail(e, "Implements on %s", recv)
		case "IsValid":
			if id, ok := sel.X.(*ast.Ident); ok && len(e.Args) == 0 && st.rvals[id.Name] != "" {
				return scNot{w.kindIs(st.rvals[id.Name], "invalid")}, nil, true
			}
		}
	}
	return nil, nil, false
}

// kindIs: "the kind of info is k"
func (w *showWalker) kindIs(info, kind string) showCond {
	if ck, _, isConst := showConst(info); isConst {
		return scConst{ck == kind}
	}
	return scAtom{typ: "K", subj: showSubj(info), arg: "(k == Kind." + kind + ")"}
}

// identCond: "info is exactly the type ident"
func (w *showWalker) identCond(info, ident string) showCond {
	if _, ci, isConst := showConst(info); isConst {
		return scConst{ci == ident}
	}
	return scAtom{typ: "I", subj: showSubj(info), arg: "(i == Ident." + ident + ")"}
}

// typeOperand: the operand of `… == xType`: the type itself (static) or v.Type() (dynamic).
func (w *showWalker) typeOperand(st showState, e ast.Expr) (info string, panics showCond) {
	if w.fn.static {
		if id, ok := e.(*ast.Ident); ok && st.types[id.Name] == "self" {
			return "t", nil
		}
		return "", nil
	}
	if call, ok := e.(*ast.CallExpr); ok && len(call.Args) == 0 {
		if sel, ok := call.Fun.(*ast.SelectorExpr); ok && sel.Sel.Name == "Type" {
			if id, ok := sel.X.(*ast.Ident); ok && st.rvals[id.Name] != "" {
				// reflect.Value.Type panics on the zero Value (a nil interface)
				return st.rvals[id.Name], w.kindIs(st.rvals[id.Name], "invalid")
			}
		}
	}
	return "", nil
}

// kindExpr translates an expression of type reflect.Kind: a constant (subj "") or the kind of
// a subject, written `k`.
func (w *showWalker) kindExpr(st showState, e ast.Expr) (lean, subj string, ok bool) {
	ofInfo := func(info string) (string, string, bool) {
		if ck, _, isConst := showConst(info); isConst {
			return "Kind." + ck, "", true
		}
		return "k", showSubj(info), true
	}
	switch e := e.(type) {
	case *ast.ParenExpr:
		return w.kindExpr(st, e.X)
	case *ast.Ident:
		if k, ok := st.kinds[e.Name]; ok {
			return ofInfo(strings.TrimSuffix(k, ".kind"))
		}
	case *ast.SelectorExpr:
		if id, ok := e.X.(*ast.Ident); ok && id.Name == "reflect" {
			if k, ok := showKindNames[e.Sel.Name]; ok {
				return "Kind." + k, "", true
			}
		}
	case *ast.CallExpr:
		if sel, ok := e.Fun.(*ast.SelectorExpr); ok && sel.Sel.Name == "Kind" && len(e.Args) == 0 {
			if id, ok := sel.X.(*ast.Ident); ok {
				if info := st.rvals[id.Name]; info != "" {
					return ofInfo(info)
				}
				if w.fn.static && st.types[id.Name] == "self" {
					return ofInfo("t")
				}
			}
			if w.fn.static && w.g.src(sel.X) == w.fn.valParam+".Key()" {
				return ofInfo("k")
			}
		}
	}
	return "", "", false
}

func (w *showWalker) ctxConst(e ast.Expr) (string, bool) {
	sel, ok := e.(*ast.SelectorExpr)
	if !ok {
		return "", false
	}
	if id, ok := sel.X.(*ast.Ident); !ok || id.Name != "ast" {
		return "", false
	}
	c, ok := showCtxNames[sel.Sel.Name]
	return c, ok
}

// typeCond: does a value described by info match `case T` of a type switch / `x.(T)`?
func (w *showWalker) typeCond(info string, t ast.Expr) showCond {
	src := w.g.src(t)
	if src == "nil" {
		return w.kindIs(info, "invalid")
	}
	tag, ok := showTypeTags[src]
	if !ok || tag == "ident:emptyInterface" {
		w.g.fail(t, "type %s in a type switch or assertion", src)
	}
	if strings.HasPrefix(tag, "iface:") {
		if _, _, isConst := showConst(info); isConst {
			return scConst{false} // the string types have no methods
		}
		return scAtom{typ: "F", subj: showSubj(info), arg: strings.TrimPrefix(tag, "iface:")}
	}
	return w.identCond(info, strings.TrimPrefix(tag, "ident:"))
}

func showGuard(panics showCond, n showNode) showNode {
	if panics == nil {
		return n
	}
	return showBranch(panics, snRet{"panic"}, n)
}

func (w *showWalker) ifStmt(st showState, s *ast.IfStmt, next showKont, j showJumps) showNode {
	g := w.g
	after := showLeave(st, next)
	elseNode := func(st showState) showNode {
		switch e := s.Else.(type) {
		case nil:
			return after(st)
		case *ast.BlockStmt:
			return w.stmts(st, e.List, after, j)
		case *ast.IfStmt:
			return w.ifStmt(st, e, after, j)
		}
		g.fail(s.Else, "else")
		return nil
	}
	inner := st.clone()
	if s.Init != nil {
		init, ok := s.Init.(*ast.AssignStmt)
		if !ok || len(init.Rhs) != 1 {
			g.fail(s.Init, "if with %s", g.src(s.Init))
		}
		rhs := init.Rhs[0]
		names := make([]string, len(init.Lhs))
		for i, l := range init.Lhs {
			if id, ok := l.(*ast.Ident); ok {
				names[i] = id.Name
			}
		}
		// if err := checkShowX(T, append(types, t)); err != nil { return … }
		if call, name := w.callee(rhs); call != nil {
			if len(names) != 1 || g.src(s.Cond) != names[0]+" != nil" || s.Else != nil || len(s.Body.List) != 1 {
				g.fail(s, "call of %s in an if that is not `if err := …; err != nil { return … }`", name)
			}
			r, ok := s.Body.List[0].(*ast.ReturnStmt)
			if !ok || len(r.Results) != 1 {
				g.fail(s.Body, "the failure of %s is not returned", name)
			}
			if src := g.src(r.Results[0]); src != names[0] && !strings.HasPrefix(src, "fmt.Errorf(") {
				g.fail(r, "the failure of %s is not returned", name)
			}
			return showSeq(w.invoke(st, call, name), after(st))
		}
		// if x, ok := value.(T); ok { … }
		if ta, ok := rhs.(*ast.TypeAssertExpr); ok && len(names) == 2 && ta.Type != nil && g.src(s.Cond) == names[1] {
			info := w.valueInfo(st, ta.X)
			if info == "" {
				g.fail(s, "type assertion on %s, which is not the shown value", g.src(ta.X))
			}
			inner.forget(names[0])
			inner.forget(names[1])
			inner.vals[names[0]] = true
			inner.bound[names[0]] = true
			return showBranch(w.typeCond(info, ta.Type), w.stmts(inner, s.Body.List, after, j), elseNode(st))
		}
		// if field := t.Field(i); field.PkgPath == "" { … }   (exported fields only)
		if len(names) == 1 && g.src(s.Cond) == names[0]+`.PkgPath == ""` && s.Else == nil {
			src := g.src(rhs)
			okRecv := false
			if w.fn.static {
				okRecv = src == w.fn.valParam+".Field(i)"
			} else if call, ok := rhs.(*ast.CallExpr); ok {
				// t.Field(i) with t := v.Type()
				okRecv = strings.HasSuffix(g.src(call.Fun), ".Field") && len(call.Args) == 1
			}
			if !okRecv {
				g.fail(s, "exported-field test on %s", src)
			}
			inner.forget(names[0])
			inner.exported = true
			if w.fn.static {
				inner.types[names[0]] = "field"
			}
			// some fields are exported, some are not: both ways, in sequence
			return showSeq(w.stmts(inner, s.Body.List, after, j), after(st))
		}
		if w.fn.static {
			g.fail(s, "if with %s", g.src(s.Init))
		}
		w.pure(rhs)
		for _, n := range names {
			if n != "" {
				inner.forget(n)
			}
		}
	}
	// static: field := t.Field(i) …; if field.PkgPath == "" { … }
	if s.Init == nil && s.Else == nil {
		if be, ok := s.Cond.(*ast.BinaryExpr); ok && be.Op == token.EQL && g.src(be.Y) == `""` {
			if sel, ok := be.X.(*ast.SelectorExpr); ok && sel.Sel.Name == "PkgPath" {
				if id, ok := sel.X.(*ast.Ident); ok && (st.types[id.Name] == "field") {
					inner.exported = true
					return showSeq(w.stmts(inner, s.Body.List, after, j), after(st))
				}
			}
		}
	}
	if c, panics, ok := w.cond(inner, s.Cond); ok {
		return showGuard(panics, showBranch(c, w.stmts(inner, s.Body.List, after, j), elseNode(st)))
	}
	if w.fn.static {
		g.fail(s, "condition %s", g.src(s.Cond))
	}
	// a condition on the value: both branches, worst case
	w.pure(s.Cond)
	if w.isPureBlock(s.Body) && w.isPureBlock(s.Else) {
		return after(st)
	}
	return showSeq(w.stmts(inner, s.Body.List, after, j), elseNode(st))
}

func (w *showWalker) switchStmt(st showState, s *ast.SwitchStmt, next showKont, j showJumps) showNode {
	g := w.g
	if s.Init != nil {
		g.fail(s, "switch with an init statement")
	}
	after := showLeave(st, next)
	clauses := make([]*ast.CaseClause, len(s.Body.List))
	def := -1
	for i, c := range s.Body.List {
		clauses[i] = c.(*ast.CaseClause)
		if clauses[i].List == nil {
			def = i
		}
	}
	var bodyOf func(i int, st showState) showNode
	bodyOf = func(i int, st showState) showNode {
		jj := showJumps{brk: after, cont: j.cont}
		if i+1 < len(clauses) {
			jj.fall = func(st showState) showNode { return bodyOf(i+1, st) }
		}
		return w.stmts(st.clone(), clauses[i].Body, after, jj)
	}
	defNode := func() showNode {
		if def >= 0 {
			return bodyOf(def, st)
		}
		return after(st)
	}
	if s.Tag == nil {
		// switch { case cond: … }
		if !w.fn.static {
			g.fail(s, "switch without tag on the dynamic side")
		}
		usesKey := false
		conds := make([]showCond, len(clauses))
		for i, c := range clauses {
			if i == def {
				continue
			}
			var cc showCond
			for _, e := range c.List {
				c1, panics, ok := w.cond(st, e)
				if !ok || panics != nil {
					g.fail(e, "condition %s", g.src(e))
				}
				cc = showOr(cc, c1)
			}
			conds[i] = cc
			if showCondUsesKey(cc) {
				usesKey = true
			}
		}
		build := func(leaf func(i int) showNode) showNode {
			var n showNode
			if def >= 0 {
				n = leaf(def)
			} else {
				n = leaf(-1)
			}
			for i := len(clauses) - 1; i >= 0; i-- {
				if i != def {
					n = showBranch(conds[i], leaf(i), n)
				}
			}
			return n
		}
		if usesKey {
			// the key decision of a map: every clause either accepts (empty) or returns an error
			if w.fn.keyBody != nil {
				g.fail(s, "two key decisions in %s", w.fn.name)
			}
			w.fn.keyBody = build(func(i int) showNode {
				if i < 0 {
					return snRet{"ok"}
				}
				switch body := clauses[i].Body; len(body) {
				case 0:
					return snRet{"ok"}
				case 1:
					return snRet{w.staticReturn(body[0])}
				}
				g.fail(clauses[i], "clause of the key decision")
				return nil
			})
			return showSeq(snSub{"key"}, after(st))
		}
		return build(func(i int) showNode {
			if i < 0 {
				return after(st)
			}
			return bodyOf(i, st)
		})
	}
	// switch on the context
	if id, ok := s.Tag.(*ast.Ident); ok && st.ctxName != "" && id.Name == st.ctxName {
		m := snMatchC{}
		covered := map[string]bool{}
		for i, c := range clauses {
			if i == def {
				continue
			}
			var ctors []string
			for _, e := range c.List {
				k, ok := w.ctxConst(e)
				if !ok {
					g.fail(e, "case %s", g.src(e))
				}
				if covered[k] {
					g.fail(e, "duplicate case %s", g.src(e))
				}
				covered[k] = true
				ctors = append(ctors, k)
			}
			m.cases = append(m.cases, snCase{ctors, bodyOf(i, st)})
		}
		if len(covered) < len(showCtxOrder) {
			m.def = defNode()
		}
		return m
	}
	// switch on a kind
	lean, subj, ok := w.kindExpr(st, s.Tag)
	if !ok {
		g.fail(s, "switch on %s", g.src(s.Tag))
	}
	kindOf := func(e ast.Expr) string {
		sel, ok := e.(*ast.SelectorExpr)
		if !ok || g.src(sel.X) != "reflect" {
			g.fail(e, "case %s", g.src(e))
		}
		k, ok := showKindNames[sel.Sel.Name]
		if !ok {
			g.fail(e, "case %s", g.src(e))
		}
		return k
	}
	if subj == "" {
		// the kind is known (the value was rebound to a string): only its clause is reachable
		for i, c := range clauses {
			for _, e := range c.List {
				if "Kind."+kindOf(e) == lean {
					return bodyOf(i, st)
				}
			}
		}
		return defNode()
	}
	covered := map[string]bool{}
	n := showNode(nil)
	type arm struct {
		cond showCond
		i    int
	}
	var arms []arm
	for i, c := range clauses {
		if i == def {
			continue
		}
		var cc showCond
		for _, e := range c.List {
			k := kindOf(e)
			if covered[k] {
				g.fail(e, "duplicate case %s", g.src(e))
			}
			covered[k] = true
			cc = showOr(cc, scAtom{typ: "K", subj: subj, arg: "(k == Kind." + k + ")"})
		}
		if cc != nil {
			arms = append(arms, arm{cc, i})
		}
	}
	if len(covered) < showKindCount {
		n = defNode()
	} else {
		// every kind has its clause: the last one needs no question
		n = bodyOf(arms[len(arms)-1].i, st)
		arms = arms[:len(arms)-1]
	}
	for a := len(arms) - 1; a >= 0; a-- {
		n = showBranch(arms[a].cond, bodyOf(arms[a].i, st), n)
	}
	return n
}

func (w *showWalker) typeSwitch(st showState, s *ast.TypeSwitchStmt, next showKont, j showJumps) showNode {
	g := w.g
	if w.fn.static {
		g.fail(s, "type switch in a static check")
	}
	if s.Init != nil {
		g.fail(s, "type switch with an init statement")
	}
	var bound string
	var x ast.Expr
	switch a := s.Assign.(type) {
	case *ast.AssignStmt:
		bound = a.Lhs[0].(*ast.Ident).Name
		x = a.Rhs[0].(*ast.TypeAssertExpr).X
	case *ast.ExprStmt:
		x = a.X.(*ast.TypeAssertExpr).X
	}
	after := showLeave(st, next)
	info := w.valueInfo(st, x)
	keySwitch := false
	if info == "" {
		// switch k := key.Interface().(type): the key decision of a map
		if call, ok := x.(*ast.CallExpr); ok && len(call.Args) == 0 {
			if sel, ok := call.Fun.(*ast.SelectorExpr); ok && sel.Sel.Name == "Interface" {
				if id, ok := sel.X.(*ast.Ident); ok && st.keyVals[id.Name] {
					keySwitch = true
				}
			}
		}
		if !keySwitch {
			g.fail(s, "type switch on %s, which is not the shown value", g.src(x))
		}
		if w.fn.keyBody != nil || w.inKey {
			g.fail(s, "two key decisions in %s", w.fn.name)
		}
		info = "k"
	}
	clauses := make([]*ast.CaseClause, len(s.Body.List))
	def := -1
	for i, c := range s.Body.List {
		clauses[i] = c.(*ast.CaseClause)
		if clauses[i].List == nil {
			def = i
		}
	}
	base := st
	k := after
	if keySwitch {
		// the decision is a function of the key alone: its continuation is "accepted"
		base = showState{cur: "k", vals: map[string]bool{}, bound: map[string]bool{}, rvals: map[string]string{},
			kinds: map[string]string{}, types: map[string]string{}, fieldVals: map[string]bool{},
			keyVals: map[string]bool{}, ranges: map[string]string{}}
		k = func(showState) showNode { return snRet{"ok"} }
		w.inKey = true
		defer func() { w.inKey = false }()
	}
	bodyOf := func(i int) showNode {
		inner := base.clone()
		if bound != "" {
			inner.forget(bound)
			inner.vals[bound] = true
			inner.bound[bound] = true
		}
		return w.stmts(inner, clauses[i].Body, k, showJumps{brk: k, cont: j.cont})
	}
	var n showNode
	if def >= 0 {
		n = bodyOf(def)
	} else {
		n = k(base)
	}
	for i := len(clauses) - 1; i >= 0; i-- {
		if i == def {
			continue
		}
		var cc showCond
		for _, t := range clauses[i].List {
			cc = showOr(cc, w.typeCond(info, t))
		}
		n = showBranch(cc, bodyOf(i), n)
	}
	if keySwitch {
		w.fn.keyBody = n
		return showSeq(snSub{"key"}, after(st))
	}
	return n
}

// ---------------------------------------------------------------------------------------------
// output

// project reads off a dispatcher, for each context, the function its show goes to.
func (g *showGen) project(n showNode, leaf func(f *showFn) string, none string) showNode {
	isNone := func(n showNode) bool {
		c, ok := n.(snCall)
		return ok && c.fn == none && c.arg == ""
	}
	combine := func(parts []showNode) showNode {
		var res showNode = snCall{fn: none}
		for _, p := range parts {
			if isNone(p) {
				continue
			}
			if isNone(res) {
				res = p
				continue
			}
			if showEmitProjected(res, "") != showEmitProjected(p, "") {
				panic(showErr{"shape not recognised: a dispatcher reaches two different functions for one context"})
			}
		}
		return res
	}
	switch n := n.(type) {
	case snRet, snSub:
		return snCall{fn: none}
	case snCall:
		return snCall{fn: leaf(g.fns[n.fn])}
	case snSeq:
		parts := make([]showNode, len(n.items))
		for i, it := range n.items {
			parts[i] = g.project(it, leaf, none)
		}
		return combine(parts)
	case snAsk:
		return combine([]showNode{g.project(n.yes, leaf, none), g.project(n.no, leaf, none)})
	case snIfC:
		a, b := g.project(n.then, leaf, none), g.project(n.els, leaf, none)
		if showEmitProjected(a, "") == showEmitProjected(b, "") {
			return a
		}
		return snIfC{n.cond, a, b}
	case snMatchC:
		m := snMatchC{}
		for _, c := range n.cases {
			m.cases = append(m.cases, snCase{c.ctors, g.project(c.body, leaf, none)})
		}
		if n.def != nil {
			m.def = g.project(n.def, leaf, none)
		}
		return m
	}
	panic(showErr{"internal: project"})
}

func showEmitProjected(n showNode, ind string) string {
	// leaves are bare names
	switch n := n.(type) {
	case snCall:
		return n.fn
	case snIfC:
		return "(if " + n.cond + " then " + showEmitProjected(n.then, ind) + " else " + showEmitProjected(n.els, ind) + ")"
	case snMatchC:
		s := "(match c with"
		for _, c := range n.cases {
			alts := make([]string, len(c.ctors))
			for i, k := range c.ctors {
				alts[i] = "." + k
			}
			s += "\n" + ind + "| " + strings.Join(alts, " | ") + " => " + showEmitProjected(c.body, ind+"  ")
		}
		if n.def != nil {
			s += "\n" + ind + "| _ => " + showEmitProjected(n.def, ind+"  ")
		}
		return s + ")"
	}
	panic(showErr{"internal: emit projected"})
}

func (g *showGen) render() string {
	var b strings.Builder
	b.WriteString("import ScriggoV.Model.ShowTypes\n")
	b.WriteString("/-! What `checkShow*` (internal/compiler/checker_statements.go) and `renderer.Show`, `toString`,\n")
	b.WriteString("`showIn*` (internal/runtime/renderer.go) decide about the type of a shown value, as decision\n")
	b.WriteString("trees over the questions they ask. One definition per Go function, statement by statement (see\n")
	b.WriteString("go/cmd/extract/gen_showtables.go). `self` is the shown value, `key` the key of a map. -/\n")
	b.WriteString("set_option linter.unusedVariables false\nnamespace ScriggoV.Gen.ShowTables\nopen ScriggoV.Show\n")
	for _, name := range g.order {
		f := g.fns[name]
		side := "internal/runtime/renderer.go"
		if f.static {
			side = "internal/compiler/checker_statements.go"
		}
		if f.keyBody != nil {
			fmt.Fprintf(&b, "\n/-- %s: %s, the decision about the key (`key`) of a map (`self`) -/\n", side, name)
			fmt.Fprintf(&b, "def %s_key_tree : DTree :=\n  %s\n", name, showEmit(f.keyBody, "  "))
		}
		if f.static && name != "checkShow" {
			fmt.Fprintf(&b, "\n/-- %s: %s on a type that is in its `types` list -/\n", side, name)
			fmt.Fprintf(&b, "def %s_seen : Res := .%s\n", name, f.seen)
		}
		fmt.Fprintf(&b, "\n/-- %s: func %s -/\n", side, name)
		switch name {
		case "Show", "checkShow":
			pre := "showTop"
			if f.static {
				pre = "checkShow"
			}
			fmt.Fprintf(&b, "def %s_tree (inURL : Bool) (c : ACtx) : DTree :=\n  %s\n", pre, showEmit(f.body, "  "))
			if !f.static {
				pre = "show"
			}
			rec := g.project(f.body, func(f *showFn) string {
				if f.recursive {
					return f.name + "_tree"
				}
				return "DTree.none"
			}, "DTree.none")
			fmt.Fprintf(&b, "\n/-- the function the components of a value shown in context `c` are given to -/\n")
			fmt.Fprintf(&b, "def %sComp_tree (inURL : Bool) (c : ACtx) : DTree :=\n  %s\n", pre, showEmitProjected(rec, "  "))
			key := g.project(f.body, func(f *showFn) string {
				if f.keyBody != nil {
					return f.name + "_key_tree"
				}
				return "DTree.none"
			}, "DTree.none")
			fmt.Fprintf(&b, "\n/-- the decision about map keys in context `c` -/\n")
			fmt.Fprintf(&b, "def %sKey_tree (inURL : Bool) (c : ACtx) : DTree :=\n  %s\n", pre, showEmitProjected(key, "  "))
			if f.static {
				seen := g.project(f.body, func(f *showFn) string {
					if f.recursive {
						return f.name + "_seen"
					}
					return "Res.ok"
				}, "Res.ok")
				fmt.Fprintf(&b, "\n/-- the outcome for a type that is already in the `types` list -/\n")
				fmt.Fprintf(&b, "def checkShowSeen (inURL : Bool) (c : ACtx) : Res :=\n  %s\n", showEmitProjected(seen, "  "))
			}
		default:
			fmt.Fprintf(&b, "def %s_tree : DTree :=\n  %s\n", name, showEmit(f.body, "  "))
		}
	}
	b.WriteString("\nend ScriggoV.Gen.ShowTables\n")
	return b.String()
}
