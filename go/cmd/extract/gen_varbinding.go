package main

// Generator "VarBinding" (property C17): regenerates from /repo the handful of decisions on
// which the binding of template variables to Run's values rests, as the configuration
// `ScriggoV.Gen.VarBinding.*` the hand-written state machine Model/VarStore.lean is run with:
//
//	globalsPkgName    internal/compiler/checker.go, typecheck: native.Package{Name: "main", Declarations: opts.globals}
//	bindPkgName       templates.go, initGlobalVariables: `if variable.Pkg == "main"`
//	pointerInit       …: the statement that stores a pointer initializer  (shares | copies)
//	valueInit         …: the statements that store a non-pointer initializer (copies)
//	upvarPkgSource    internal/compiler/checker_expressions.go, checkIdentifier: ast.Upvar{NativePkg: …}
//	upvarNameSource   …: ast.Upvar{NativeName: …}
//	usePkgSource      internal/compiler/emitter_var_store.go, nonLocalVarIndex: 3rd argument of predefVarIndex
//	useNameSource     …: 4th argument
//	upvarRefOwner     internal/compiler/emitter_util.go, setFunctionVarRefs: 1st argument of setPredefVarRef
//	upvarIndexPkg/Name …: 3rd/4th argument of predefVarIndex
//	oneGlobalPerVariable  emitter_var_store.go, predefVarIndex: the body is one of two pinned shapes
//	                      (index reused through predefVarGlobal | a new global per function)
//
// Every source expression must be one of the spelled-out alternatives; anything else is
// "shape not recognised". Helpers are prefixed `vb` so that this file stands alone.

import (
	"bytes"
	"fmt"
	"go/ast"
	"go/parser"
	"go/printer"
	"go/token"
	"path/filepath"
	"strconv"
	"strings"
)

func init() {
	generators = append(generators, generator{name: "VarBinding", run: genVarBinding})
}

type vbFile struct {
	fset *token.FileSet
	file *ast.File
}

func vbParse(path string) (*vbFile, error) {
	fset := token.NewFileSet()
	f, err := parser.ParseFile(fset, path, nil, parser.SkipObjectResolution)
	if err != nil {
		return nil, err
	}
	return &vbFile{fset, f}, nil
}

func (g *vbFile) src(n ast.Node) string {
	var b bytes.Buffer
	printer.Fprint(&b, g.fset, n)
	return strings.Join(strings.Fields(b.String()), " ")
}

func (g *vbFile) errf(n ast.Node, format string, a ...any) error {
	return fmt.Errorf("shape not recognised: %s (at %s: %s)", fmt.Sprintf(format, a...), g.fset.Position(n.Pos()), g.src(n))
}

// fn returns the function or method with the given name (recv "" = plain function).
func (g *vbFile) fn(recv, name string) (*ast.FuncDecl, error) {
	for _, d := range g.file.Decls {
		f, ok := d.(*ast.FuncDecl)
		if !ok || f.Name.Name != name || f.Body == nil {
			continue
		}
		if recv == "" && f.Recv == nil {
			return f, nil
		}
		if recv != "" && f.Recv != nil && len(f.Recv.List) == 1 && strings.TrimPrefix(g.src(f.Recv.List[0].Type), "*") == recv {
			return f, nil
		}
	}
	return nil, fmt.Errorf("shape not recognised: func %s.%s not found", recv, name)
}

// one returns the single node under root for which pick answers true.
func vbOne[T ast.Node](g *vbFile, root ast.Node, what string, pick func(T) bool) (T, error) {
	var found []T
	ast.Inspect(root, func(n ast.Node) bool {
		if t, ok := n.(T); ok && pick(t) {
			found = append(found, t)
		}
		return true
	})
	var zero T
	if len(found) != 1 {
		return zero, g.errf(root, "expected exactly one %s, found %d", what, len(found))
	}
	return found[0], nil
}

func vbStringLit(e ast.Expr) (string, bool) {
	if b, ok := e.(*ast.BasicLit); ok && b.Kind == token.STRING {
		s, err := strconv.Unquote(b.Value)
		return s, err == nil
	}
	return "", false
}

func vbKeyValue(g *vbFile, lit *ast.CompositeLit, key string) (ast.Expr, error) {
	for _, e := range lit.Elts {
		if kv, ok := e.(*ast.KeyValueExpr); ok && g.src(kv.Key) == key {
			return kv.Value, nil
		}
	}
	return nil, g.errf(lit, "no field %s", key)
}

// source classifies an expression that supplies a package or variable name.
func vbSource(g *vbFile, e ast.Expr, alts map[string]string) (string, error) {
	s := g.src(e)
	if lean, ok := alts[s]; ok {
		return lean, nil
	}
	if lit, ok := vbStringLit(e); ok {
		return ".lit " + strconv.Quote(lit), nil
	}
	return "", g.errf(e, "name source is none of the known alternatives")
}

// pinned bodies of varStore.predefVarIndex (whitespace-normalised)
const vbPredefShared = `{ currFn := vs.emitter.fb.fn if index, ok := vs.predefVarRef[currFn][v]; ok { return index } index, ok := vs.predefVarGlobal[v] if !ok { index = int16(len(vs.globals)) g := newGlobal(pkg, name, typ, reflect.Value{}) if v.IsValid() { g.Value = *v } vs.globals = append(vs.globals, g) vs.predefVarGlobal[v] = index } if vs.predefVarRef[currFn] == nil { vs.predefVarRef[currFn] = map[*reflect.Value]int16{} } vs.predefVarRef[currFn][v] = index return index }`
const vbPredefPerFunction = `{ currFn := vs.emitter.fb.fn if index, ok := vs.predefVarRef[currFn][v]; ok { return index } index := int16(len(vs.globals)) g := newGlobal(pkg, name, typ, reflect.Value{}) if v.IsValid() { g.Value = *v } if vs.predefVarRef[currFn] == nil { vs.predefVarRef[currFn] = map[*reflect.Value]int16{} } vs.globals = append(vs.globals, g) vs.predefVarRef[currFn][v] = index return index }`

// pinned body of varStore.setPredefVarRef
const vbSetPredefVarRef = `{ if vs.predefVarRef[fn] == nil { vs.predefVarRef[fn] = map[*reflect.Value]int16{} } vs.predefVarRef[fn][v] = index }`

// the statements of varStore.packageVarRef (commit ccfaf1d) before and after its limit checks
var vbPackageVarRefHead = []string{
	"if fn.VarRefs == nil { return index }",
	"if ref, ok := vs.closureVars[fn][name]; ok { return ref }",
}
var vbPackageVarRefTail = []string{
	"fn.VarRefs = append(fn.VarRefs, vs.packageVarRef(fn.Parent, name, index))",
	"ref := int16(len(fn.VarRefs) - 1)",
	"vs.setClosureVar(fn, name, ref)",
	"return ref",
}

func vbStripComments(g *vbFile, n ast.Node) string {
	// printer.Fprint of a node (not a file) does not print free-floating comments
	return g.src(n)
}

func genVarBinding(repo string) (string, error) {
	var b strings.Builder
	b.WriteString("/-! What the binding of template variables to `Run`'s values rests on, re-read from the code:\n")
	b.WriteString("the package name the globals are declared under, the one `initGlobalVariables` binds, where\n")
	b.WriteString("checker and emitter take package and name of a recorded global from, which function a\n")
	b.WriteString("function literal's predefined upvar is recorded for, whether a variable is added to the\n")
	b.WriteString("globals once, and how pointer / non-pointer initializers are stored. -/\n")
	b.WriteString("namespace ScriggoV.Gen.VarBinding\n\n")
	b.WriteString("/-- where a recorded name comes from -/\ninductive NameSource\n  | nativePackageName   -- `ti.NativePackageName`: the name of the package the declaration comes from\n  | identName           -- `ident.Name` / `name`: the identifier as written in the template\n  | upvarPkg            -- `v.NativePkg` of the checker's Upvar\n  | upvarName           -- `v.NativeName` of the checker's Upvar\n  | lit (s : String)\n  deriving DecidableEq, Repr\n\n")
	b.WriteString("/-- the function a predefined upvar's index is recorded for -/\ninductive RefOwner\n  | newFunction       -- `fn`, the function literal being created\n  | currentFunction   -- `em.fb.fn`, the enclosing function\n  deriving DecidableEq, Repr\n\n")
	b.WriteString("/-- how `initGlobalVariables` stores an initializer -/\ninductive InitMode\n  | shares   -- the global is the caller's variable (`reflect.ValueOf(value).Elem()`)\n  | copies   -- a new variable set to the value\n  deriving DecidableEq, Repr\n\n")

	// 1. checker.go
	ck, err := vbParse(filepath.Join(repo, "internal/compiler/checker.go"))
	if err != nil {
		return "", err
	}
	tcf, err := ck.fn("", "typecheck")
	if err != nil {
		return "", err
	}
	lit, err := vbOne(ck, tcf, "native.Package{…Declarations: opts.globals}", func(c *ast.CompositeLit) bool {
		if c.Type == nil || ck.src(c.Type) != "native.Package" {
			return false
		}
		for _, e := range c.Elts {
			if kv, ok := e.(*ast.KeyValueExpr); ok && ck.src(kv.Key) == "Declarations" && ck.src(kv.Value) == "opts.globals" {
				return true
			}
		}
		return false
	})
	if err != nil {
		return "", err
	}
	nameE, err := vbKeyValue(ck, lit, "Name")
	if err != nil {
		return "", err
	}
	gname, ok := vbStringLit(nameE)
	if !ok {
		return "", ck.errf(nameE, "package name of the globals is not a string literal")
	}
	fmt.Fprintf(&b, "/-- checker.go, typecheck: the globals are the declarations of a package with this name -/\ndef globalsPkgName : String := %s\n\n", strconv.Quote(gname))

	// 2. templates.go
	tp, err := vbParse(filepath.Join(repo, "templates.go"))
	if err != nil {
		return "", err
	}
	igv, err := tp.fn("", "initGlobalVariables")
	if err != nil {
		return "", err
	}
	if got := tp.src(igv.Type); got != "func(variables []compiler.Global, init map[string]any) []reflect.Value" {
		return "", tp.errf(igv.Type, "signature of initGlobalVariables")
	}
	pkgIf, err := vbOne(tp, igv, "`if variable.Pkg == …`", func(s *ast.IfStmt) bool {
		be, ok := s.Cond.(*ast.BinaryExpr)
		return ok && be.Op == token.EQL && tp.src(be.X) == "variable.Pkg"
	})
	if err != nil {
		return "", err
	}
	bname, ok := vbStringLit(pkgIf.Cond.(*ast.BinaryExpr).Y)
	if !ok {
		return "", tp.errf(pkgIf.Cond, "bound package is not a string literal")
	}
	fmt.Fprintf(&b, "/-- templates.go, initGlobalVariables: only globals of this package take a value from `Run` -/\ndef bindPkgName : String := %s\n\n", strconv.Quote(bname))
	// the rest of initGlobalVariables is pinned as a whole, with the two stores classified
	typeIf, err := vbOne(tp, pkgIf, "`if typ := val.Type(); typ == variable.Type`", func(s *ast.IfStmt) bool {
		return s.Init != nil && tp.src(s.Init) == "typ := val.Type()" && tp.src(s.Cond) == "typ == variable.Type"
	})
	if err != nil {
		return "", err
	}
	valueMode := ""
	switch tp.src(typeIf.Body) {
	case "{ v := reflect.New(typ).Elem() v.Set(val) values[i] = v }":
		valueMode = ".copies"
	default:
		return "", tp.errf(typeIf.Body, "store of a non-pointer initializer")
	}
	els, ok := typeIf.Else.(*ast.BlockStmt)
	if !ok || len(els.List) != 3 {
		return "", tp.errf(typeIf, "else branch of the type test: want [type check; nil check; store]")
	}
	if c := tp.src(els.List[0].(*ast.IfStmt).Cond); c != "typ.Kind() != reflect.Pointer || typ.Elem() != variable.Type" {
		return "", tp.errf(els.List[0], "pointer type test")
	}
	if c, ok := els.List[1].(*ast.IfStmt); !ok || tp.src(c.Cond) != "val.IsNil()" {
		return "", tp.errf(els.List[1], "nil pointer test")
	}
	ptrMode := ""
	switch tp.src(els.List[2]) {
	case "values[i] = reflect.ValueOf(value).Elem()", "values[i] = val.Elem()":
		ptrMode = ".shares"
	case "{ v := reflect.New(variable.Type).Elem() v.Set(val.Elem()) values[i] = v }":
		ptrMode = ".copies"
	default:
		return "", tp.errf(els.List[2], "store of a pointer initializer")
	}
	fmt.Fprintf(&b, "/-- initGlobalVariables: an initializer of the variable's own type -/\ndef valueInit : InitMode := %s\n", valueMode)
	fmt.Fprintf(&b, "/-- initGlobalVariables: an initializer that is a pointer to the variable's type -/\ndef pointerInit : InitMode := %s\n\n", ptrMode)
	// the tail: without initializer
	tail := igv.Body.List[len(igv.Body.List)-2]
	loop, ok := tail.(*ast.RangeStmt)
	if !ok || tp.src(loop.Key) != "i" || tp.src(loop.Value) != "variable" || tp.src(loop.X) != "variables" || len(loop.Body.List) != 2 {
		return "", tp.errf(tail, "loop over variables")
	}
	if loop.Body.List[0] != ast.Stmt(pkgIf) {
		return "", tp.errf(loop.Body.List[0], "first statement of the loop is not the package test")
	}
	if got := tp.src(loop.Body.List[1]); got != "if variable.Value.IsValid() { values[i] = variable.Value } else { values[i] = reflect.New(variable.Type).Elem() }" {
		return "", tp.errf(loop.Body.List[1], "store of a variable without initializer")
	}
	lookup := pkgIf.Body.List
	if len(lookup) != 1 {
		return "", tp.errf(pkgIf.Body, "body of the package test")
	}
	if li, ok := lookup[0].(*ast.IfStmt); !ok || tp.src(li.Init) != "value, ok := init[variable.Name]" || tp.src(li.Cond) != "ok" {
		return "", tp.errf(lookup[0], "lookup of the initializer by variable.Name")
	}
	uv, err := tp.fn("Template", "UsedVars")
	if err != nil {
		return "", err
	}
	switch got := tp.src(uv.Body); got {
	case "{ vars := make([]string, len(t.globals)) for i, global := range t.globals { vars[i] = global.Name } sort.Strings(vars) return vars }":
		b.WriteString("/-- templates.go, UsedVars: the sorted names of *all* the globals of the compiled template -/\ndef usedVarsPkg : Option String := none\n\n")
	default:
		// the sorted names of the globals of one package
		const pre = "{ vars := make([]string, 0, len(t.globals)) for _, global := range t.globals { if global.Pkg == "
		const post = " { vars = append(vars, global.Name) } } sort.Strings(vars) return vars }"
		if !strings.HasPrefix(got, pre) || !strings.HasSuffix(got, post) {
			return "", tp.errf(uv.Body, "UsedVars is neither `sorted names of t.globals` nor `… of the globals of package P`")
		}
		lit, err := strconv.Unquote(got[len(pre) : len(got)-len(post)])
		if err != nil {
			return "", tp.errf(uv.Body, "package compared in UsedVars is not a string literal")
		}
		fmt.Fprintf(&b, "/-- templates.go, UsedVars: the sorted names of the globals of this package -/\ndef usedVarsPkg : Option String := some %s\n\n", strconv.Quote(lit))
	}

	// 2b. checker_statements.go: the package a template file is turned into; emitter.go: its variables
	cs, err := vbParse(filepath.Join(repo, "internal/compiler/checker_statements.go"))
	if err != nil {
		return "", err
	}
	tfp, err := cs.fn("typechecker", "templateFileToPackage")
	if err != nil {
		return "", err
	}
	np, err := vbOne(cs, tfp, "ast.NewPackage call", func(c *ast.CallExpr) bool { return cs.src(c.Fun) == "ast.NewPackage" })
	if err != nil {
		return "", err
	}
	if len(np.Args) != 3 {
		return "", cs.errf(np, "arguments of ast.NewPackage")
	}
	tname, ok := vbStringLit(np.Args[1])
	if !ok {
		return "", cs.errf(np.Args[1], "name of a template file's package is not a string literal")
	}
	em, err := vbParse(filepath.Join(repo, "internal/compiler/emitter.go"))
	if err != nil {
		return "", err
	}
	ep, err := em.fn("emitter", "emitPackage")
	if err != nil {
		return "", err
	}
	cv, err := vbOne(em, ep, "createScriggoPackageVar call", func(c *ast.CallExpr) bool { return em.src(c.Fun) == "em.varStore.createScriggoPackageVar" })
	if err != nil {
		return "", err
	}
	if len(cv.Args) != 2 || em.src(cv.Args[1]) != "newGlobal(pkg.Name, v.Name, varType, reflect.Value{})" {
		return "", em.errf(cv, "global of a package variable is not newGlobal(pkg.Name, v.Name, …)")
	}
	fmt.Fprintf(&b, "/-- checker_statements.go, templateFileToPackage + emitter.go, emitPackage: the package recorded for a\nvariable declared by an imported / extending template file -/\ndef templatePkgName : String := %s\n\n", strconv.Quote(tname))

	// 3. checker_expressions.go: the Upvar of a predeclared template variable
	ce, err := vbParse(filepath.Join(repo, "internal/compiler/checker_expressions.go"))
	if err != nil {
		return "", err
	}
	ci, err := ce.fn("typechecker", "checkIdentifier")
	if err != nil {
		return "", err
	}
	up, err := vbOne(ce, ci, "ast.Upvar{NativeName: …}", func(c *ast.CompositeLit) bool {
		if c.Type == nil || ce.src(c.Type) != "ast.Upvar" {
			return false
		}
		_, err := vbKeyValue(ce, c, "NativeName")
		return err == nil
	})
	if err != nil {
		return "", err
	}
	ckAlts := map[string]string{"ti.NativePackageName": ".nativePackageName", "ident.Name": ".identName"}
	e, err := vbKeyValue(ce, up, "NativePkg")
	if err != nil {
		return "", err
	}
	upPkg, err := vbSource(ce, e, ckAlts)
	if err != nil {
		return "", err
	}
	e, _ = vbKeyValue(ce, up, "NativeName")
	upName, err := vbSource(ce, e, ckAlts)
	if err != nil {
		return "", err
	}
	if e, err = vbKeyValue(ce, up, "NativeValue"); err != nil || ce.src(e) != "rv" {
		return "", ce.errf(up, "NativeValue is not rv")
	}
	fmt.Fprintf(&b, "/-- checker_expressions.go, checkIdentifier: `ast.Upvar{NativePkg: …}` of a predeclared variable -/\ndef upvarPkgSource : NameSource := %s\n", upPkg)
	fmt.Fprintf(&b, "/-- …: `ast.Upvar{NativeName: …}` -/\ndef upvarNameSource : NameSource := %s\n\n", upName)

	// 4. emitter_var_store.go
	vs, err := vbParse(filepath.Join(repo, "internal/compiler/emitter_var_store.go"))
	if err != nil {
		return "", err
	}
	nl, err := vs.fn("varStore", "nonLocalVarIndex")
	if err != nil {
		return "", err
	}
	call, err := vbOne(vs, nl, "call of predefVarIndex", func(c *ast.CallExpr) bool { return vs.src(c.Fun) == "vs.predefVarIndex" })
	if err != nil {
		return "", err
	}
	if len(call.Args) != 4 || vs.src(call.Args[0]) != "ti.value.(*reflect.Value)" {
		return "", vs.errf(call, "arguments of predefVarIndex")
	}
	emAlts := map[string]string{"ti.NativePackageName": ".nativePackageName", "name": ".identName", "fullName": ".identName"}
	usePkg, err := vbSource(vs, call.Args[2], emAlts)
	if err != nil {
		return "", err
	}
	useName, err := vbSource(vs, call.Args[3], emAlts)
	if err != nil {
		return "", err
	}
	// the order of the three lookups: the statements of nonLocalVarIndex after the name switch are
	// [ti := …; currFn := …; currPkg := …; <three ifs in some order>; return 0, false]
	{
		body := nl.Body.List
		start := -1
		for i, st := range body {
			if vs.src(st) == "currPkg := vs.emitter.pkg" {
				start = i + 1
			}
		}
		if start < 0 || len(body) != start+4 || vs.src(body[len(body)-1]) != "return 0, false" {
			return "", vs.errf(nl.Body, "nonLocalVarIndex is not [… currPkg := vs.emitter.pkg; three lookups; return 0, false]")
		}
		var order []string
		pkgVarIndexing := ""
		for _, st := range body[start : start+3] {
			is, ok := st.(*ast.IfStmt)
			if !ok || is.Else != nil {
				return "", vs.errf(st, "lookup of nonLocalVarIndex is not a plain if")
			}
			switch {
			case is.Init == nil && vs.src(is.Cond) == "ti != nil && ti.IsNative()" &&
				vs.src(is.Body) == "{ index := vs.predefVarIndex(ti.value.(*reflect.Value), ti.Type, ti.NativePackageName, name) return int(index), true }":
				order = append(order, ".predefined")
			case is.Init != nil && vs.src(is.Init) == "index, ok := vs.closureVars[currFn][fullName]" && vs.src(is.Cond) == "ok" && vs.src(is.Body) == "{ return int(index), true }":
				order = append(order, ".closureVars")
			case is.Init != nil && vs.src(is.Init) == "index, ok := vs.scriggoPackageVarRefs[currPkg][fullName]" && vs.src(is.Cond) == "ok" &&
				vs.src(is.Body) == "{ return int(vs.packageVarRef(currFn, fullName, index)), true }":
				// since ccfaf1d the index of the global goes through packageVarRef: the global's own index
				// in a function that is not a closure, an entry of the closure's VarRefs otherwise. The
				// helper is pinned whole; the bare `return int(index), true` of before (a closure then read
				// vars[index of the global]) is no longer a recognised shape.
				pr, err := vs.fn("varStore", "packageVarRef")
				if err != nil {
					return "", err
				}
				if got := vs.src(pr.Type); got != "func(fn *runtime.Function, name string, index int16) int16" {
					return "", vs.errf(pr.Type, "signature of packageVarRef")
				}
				// [not a closure: the global's index; known entry; limit checks; new entry that refers to what
				// the parent refers to the global with; record it; return it]
				pst := pr.Body.List
				if len(pst) < len(vbPackageVarRefHead)+len(vbPackageVarRefTail) {
					return "", vs.errf(pr.Body, "body of packageVarRef is not the pinned shape")
				}
				for i, want := range vbPackageVarRefHead {
					if vs.src(pst[i]) != want {
						return "", vs.errf(pst[i], "statement of packageVarRef is not `%s`", want)
					}
				}
				for i, want := range vbPackageVarRefTail {
					if st := pst[len(pst)-len(vbPackageVarRefTail)+i]; vs.src(st) != want {
						return "", vs.errf(st, "statement of packageVarRef is not `%s`", want)
					}
				}
				for _, mid := range pst[len(vbPackageVarRefHead) : len(pst)-len(vbPackageVarRefTail)] {
					is, ok := mid.(*ast.IfStmt)
					if !ok || is.Init != nil || is.Else != nil || len(is.Body.List) != 1 || !strings.HasPrefix(vs.src(is.Body.List[0]), "panic(") {
						return "", vs.errf(mid, "statement of packageVarRef that is not a limit check")
					}
				}
				order = append(order, ".packageVars")
				pkgVarIndexing = ".globalIndexOrVarRef"
			default:
				return "", vs.errf(st, "lookup of nonLocalVarIndex is none of predefined / closureVars / scriggoPackageVarRefs")
			}
		}
		seen := map[string]bool{}
		for _, o := range order {
			seen[o] = true
		}
		if len(seen) != 3 {
			return "", vs.errf(nl.Body, "the three lookups of nonLocalVarIndex are not distinct")
		}
		if pkgVarIndexing == "" {
			return "", vs.errf(nl.Body, "nonLocalVarIndex: how a package variable is indexed was not recognised")
		}
		fmt.Fprintf(&b, "/-- emitter_var_store.go, nonLocalVarIndex + packageVarRef: the index returned for a name found among\nthe package variables of the current package -/\ninductive PkgVarIndexing\n  | globalIndex           -- the index of the global, whatever the current function\n  | globalIndexOrVarRef   -- `fn.VarRefs == nil`: the index of the global; a closure: the entry of its VarRefs\n                          --   (added on first use, here and in the enclosing closures) that refers to the global\n  deriving DecidableEq, Repr\ndef pkgVarIndexing : PkgVarIndexing := %s\n\n", pkgVarIndexing)
		fmt.Fprintf(&b, "/-- emitter_var_store.go, nonLocalVarIndex: the order in which a non-local name is looked up -/\ninductive Lookup\n  | predefined    -- `ti.IsNative()`: what the checker resolved to a native (global) variable\n  | closureVars   -- by name among the captured variables of the current function\n  | packageVars   -- by name among the package-level variables bound in the current package\n  deriving DecidableEq, Repr\ndef lookupOrder : List Lookup := [%s]\n\n", strings.Join(order, ", "))
	}
	// bindScriggoPackageVar binds imported package variables by name, whatever their case
	ems, err := vbParse(filepath.Join(repo, "internal/compiler/emitter_statements.go"))
	if err != nil {
		return "", err
	}
	ei, err := ems.fn("emitter", "emitImport")
	if err != nil {
		return "", err
	}
	if _, err := vbOne(ems, ei, "for name, v := range vars { … bindScriggoPackageVar(targetPkg, name, v) }", func(r *ast.RangeStmt) bool {
		return ems.src(r.X) == "vars" && strings.HasSuffix(ems.src(r.Body), "em.varStore.bindScriggoPackageVar(targetPkg, name, v) }")
	}); err != nil {
		return "", err
	}
	fmt.Fprintf(&b, "/-- emitter_var_store.go, nonLocalVarIndex: package passed to predefVarIndex -/\ndef usePkgSource : NameSource := %s\n", usePkg)
	fmt.Fprintf(&b, "/-- …: name passed to predefVarIndex -/\ndef useNameSource : NameSource := %s\n\n", useName)
	pv, err := vs.fn("varStore", "predefVarIndex")
	if err != nil {
		return "", err
	}
	if got := vs.src(pv.Type); got != "func(v *reflect.Value, typ reflect.Type, pkg, name string) int16" {
		return "", vs.errf(pv.Type, "signature of predefVarIndex")
	}
	body := vbStripComments(vs, pv.Body)
	if strings.Contains(body, "vs.addGlobal(") {
		// the append is factored out (with a limit check): pin addGlobal and put the append back
		ag, err := vs.fn("varStore", "addGlobal")
		if err != nil {
			return "", err
		}
		st := ag.Body.List
		if vs.src(ag.Type) != "func(global Global) int16" || len(st) < 3 || vs.src(st[0]) != "index := len(vs.globals)" ||
			vs.src(st[len(st)-2]) != "vs.globals = append(vs.globals, global)" || vs.src(st[len(st)-1]) != "return int16(index)" {
			return "", vs.errf(ag, "addGlobal is not `index := len(vs.globals); [limit checks]; append; return int16(index)`")
		}
		for _, mid := range st[1 : len(st)-2] {
			is, ok := mid.(*ast.IfStmt)
			if !ok || is.Else != nil || len(is.Body.List) != 1 || !strings.HasPrefix(vs.src(is.Body.List[0]), "panic(") {
				return "", vs.errf(mid, "statement of addGlobal that is not a limit check")
			}
		}
		body = strings.Replace(body, "g := newGlobal(pkg, name, typ, reflect.Value{}) if v.IsValid() { g.Value = *v } index = vs.addGlobal(g)",
			"index = int16(len(vs.globals)) g := newGlobal(pkg, name, typ, reflect.Value{}) if v.IsValid() { g.Value = *v } vs.globals = append(vs.globals, g)", 1)
		body = strings.Replace(body, "g := newGlobal(pkg, name, typ, reflect.Value{}) if v.IsValid() { g.Value = *v } index := vs.addGlobal(g) if vs.predefVarRef[currFn] == nil { vs.predefVarRef[currFn] = map[*reflect.Value]int16{} }",
			"index := int16(len(vs.globals)) g := newGlobal(pkg, name, typ, reflect.Value{}) if v.IsValid() { g.Value = *v } if vs.predefVarRef[currFn] == nil { vs.predefVarRef[currFn] = map[*reflect.Value]int16{} } vs.globals = append(vs.globals, g)", 1)
	}
	switch body {
	case vbPredefShared:
		b.WriteString("/-- predefVarIndex: a variable no function has recorded yet is appended to the globals; a\nvariable another function has recorded keeps its index (`predefVarGlobal`) -/\ndef oneGlobalPerVariable : Bool := true\n\n")
	case vbPredefPerFunction:
		b.WriteString("/-- predefVarIndex: a variable the *current function* has not recorded yet is appended to the\nglobals, whatever other functions have recorded -/\ndef oneGlobalPerVariable : Bool := false\n\n")
	default:
		return "", vs.errf(pv.Body, "body of predefVarIndex is neither of the two pinned shapes")
	}
	sp, err := vs.fn("varStore", "setPredefVarRef")
	if err != nil {
		return "", err
	}
	if vs.src(sp.Type) != "func(fn *runtime.Function, v *reflect.Value, index int16)" || vs.src(sp.Body) != vbSetPredefVarRef {
		return "", vs.errf(sp, "setPredefVarRef")
	}

	// 5. emitter_util.go: setFunctionVarRefs
	eu, err := vbParse(filepath.Join(repo, "internal/compiler/emitter_util.go"))
	if err != nil {
		return "", err
	}
	sf, err := eu.fn("emitter", "setFunctionVarRefs")
	if err != nil {
		return "", err
	}
	if eu.src(sf.Type) != "func(fn *runtime.Function, closureVars []ast.Upvar)" {
		return "", eu.errf(sf.Type, "signature of setFunctionVarRefs")
	}
	branch, err := vbOne(eu, sf, "`if v.Declaration == nil`", func(s *ast.IfStmt) bool { return eu.src(s.Cond) == "v.Declaration == nil" })
	if err != nil {
		return "", err
	}
	if len(branch.Body.List) != 3 || eu.src(branch.Body.List[2]) != "continue" {
		return "", eu.errf(branch, "predefined-upvar branch: want [refs[i] = …; setPredefVarRef(…); continue]")
	}
	as, ok := branch.Body.List[0].(*ast.AssignStmt)
	if !ok || len(as.Lhs) != 1 || eu.src(as.Lhs[0]) != "refs[i]" || len(as.Rhs) != 1 {
		return "", eu.errf(branch.Body.List[0], "refs[i] = …")
	}
	pc, ok := as.Rhs[0].(*ast.CallExpr)
	if !ok || eu.src(pc.Fun) != "em.varStore.predefVarIndex" || len(pc.Args) != 4 || eu.src(pc.Args[0]) != "v.NativeValue" {
		return "", eu.errf(as, "refs[i] = em.varStore.predefVarIndex(v.NativeValue, …)")
	}
	upAlts := map[string]string{"v.NativePkg": ".upvarPkg", "v.NativeName": ".upvarName"}
	ixPkg, err := vbSource(eu, pc.Args[2], upAlts)
	if err != nil {
		return "", err
	}
	ixName, err := vbSource(eu, pc.Args[3], upAlts)
	if err != nil {
		return "", err
	}
	es, ok := branch.Body.List[1].(*ast.ExprStmt)
	if !ok {
		return "", eu.errf(branch.Body.List[1], "setPredefVarRef call")
	}
	sc, ok := es.X.(*ast.CallExpr)
	if !ok || eu.src(sc.Fun) != "em.varStore.setPredefVarRef" || len(sc.Args) != 3 || eu.src(sc.Args[1]) != "v.NativeValue" || eu.src(sc.Args[2]) != "int16(i)" {
		return "", eu.errf(es, "em.varStore.setPredefVarRef(<fn>, v.NativeValue, int16(i))")
	}
	owner := ""
	switch eu.src(sc.Args[0]) {
	case "fn":
		owner = ".newFunction"
	case "em.fb.fn":
		owner = ".currentFunction"
	default:
		return "", eu.errf(sc.Args[0], "function the upvar index is recorded for")
	}
	if last := sf.Body.List[len(sf.Body.List)-1]; eu.src(last) != "fn.VarRefs = refs" {
		return "", eu.errf(last, "fn.VarRefs = refs")
	}
	fmt.Fprintf(&b, "/-- emitter_util.go, setFunctionVarRefs: package / name passed to predefVarIndex for an upvar -/\ndef upvarIndexPkgSource : NameSource := %s\ndef upvarIndexNameSource : NameSource := %s\n", ixPkg, ixName)
	fmt.Fprintf(&b, "/-- …: the function whose `predefVarRef` gets the upvar's position -/\ndef upvarRefOwner : RefOwner := %s\n\n", owner)
	b.WriteString("end ScriggoV.Gen.VarBinding\n")
	return b.String(), nil
}
