package main

// Generator "WriteSites" (property C13): an abstract interpretation of the functions of
// internal/runtime/escapers.go and renderer.go that tracks one bit about the error variable
// `err` — "known nil" (clean) or "may hold an unreturned error" (dirty) — and lists
//
//   - every call that writes to the output (Write, WriteString, io.WriteString, or a call whose
//     error result is assigned to err / returned) together with the state in which it is
//     entered: a write entered in state dirty is a write that can happen after a failed write;
//   - every write whose error result is discarded;
//   - every `return nil`-like exit reached in state dirty (an error that is dropped);
//
// and, from run.go / errors.go / vm.go, the three facts that carry a writer error from the
// renderer to Run's caller. The Lean side (Props/C13.lean) demands that all of this is as the
// failure-semantics theorem assumes; anything irregular is reported, never guessed.

import (
	"bytes"
	"fmt"
	"go/ast"
	"go/parser"
	"go/printer"
	"go/token"
	"path/filepath"
	"sort"
	"strings"
)

func init() {
	generators = append(generators, generator{name: "WriteSites", run: genWriteSites})
}

type wsState int

const (
	wsBottom wsState = iota // unreachable
	wsClean
	wsDirty
)

func wsJoin(a, b wsState) wsState {
	if a > b {
		return a
	}
	return b
}

type wsSite struct {
	fn, callee, kind, state string
	ord                     int
}

type wsAnalyzer struct {
	fset     *token.FileSet
	fn       string
	sites    []wsSite
	ord      int
	builders map[string]bool // local strings.Builder / bytes.Buffer variables (writes cannot fail)
	breaks   []*wsState      // stack of break-target accumulators
	conts    []*wsState
	problems []string
}

func exprString(fset *token.FileSet, e ast.Node) string {
	var b bytes.Buffer
	printer.Fprint(&b, fset, e)
	return b.String()
}

func (a *wsAnalyzer) site(callee, kind string, st wsState) {
	s := "clean"
	if st == wsDirty {
		s = "dirty"
	}
	a.sites = append(a.sites, wsSite{fn: a.fn, callee: callee, kind: kind, state: s, ord: a.ord})
	a.ord++
}

// isWriteCall tells whether call is a direct write to an io.Writer-like value.
func (a *wsAnalyzer) isWriteCall(call *ast.CallExpr) (callee string, builder bool, ok bool) {
	sel, isSel := call.Fun.(*ast.SelectorExpr)
	if !isSel {
		return "", false, false
	}
	switch sel.Sel.Name {
	case "Write", "WriteString", "WriteRune", "WriteByte":
	default:
		return "", false, false
	}
	recv := exprString(a.fset, sel.X)
	if recv == "io" {
		return "io." + sel.Sel.Name, false, true
	}
	return recv + "." + sel.Sel.Name, a.builders[recv], true
}

func hasErrIdent(exprs []ast.Expr) bool {
	for _, e := range exprs {
		if id, ok := e.(*ast.Ident); ok && id.Name == "err" {
			return true
		}
	}
	return false
}

// condKind classifies a condition with respect to err: "nonnil" (err != nil), "nil" (a
// conjunction containing err == nil), "" otherwise.
func condKind(e ast.Expr) string {
	switch c := e.(type) {
	case *ast.ParenExpr:
		return condKind(c.X)
	case *ast.BinaryExpr:
		if c.Op == token.LAND {
			if condKind(c.X) == "nil" || condKind(c.Y) == "nil" {
				return "nil"
			}
			return ""
		}
		x, xok := c.X.(*ast.Ident)
		y, yok := c.Y.(*ast.Ident)
		if xok && yok && x.Name == "err" && y.Name == "nil" {
			if c.Op == token.NEQ {
				return "nonnil"
			}
			if c.Op == token.EQL {
				return "nil"
			}
		}
	}
	return ""
}

// calls visits the calls of an expression that matter, in evaluation order approximation.
func (a *wsAnalyzer) effectCalls(e ast.Node, st wsState, assignedToErr bool) (performed bool) {
	ast.Inspect(e, func(n ast.Node) bool {
		if _, ok := n.(*ast.FuncLit); ok {
			return false
		}
		call, ok := n.(*ast.CallExpr)
		if !ok {
			return true
		}
		if callee, builder, ok := a.isWriteCall(call); ok {
			if builder {
				return true
			}
			kind := "write"
			if !assignedToErr {
				kind = "ignored"
			}
			a.site(callee, kind, st)
			performed = true
			return true
		}
		if assignedToErr {
			// a call whose error flows to err: it may write (escapers, showIn*) — record it
			if id, ok := call.Fun.(*ast.Ident); ok {
				switch id.Name {
				case "string", "len", "append", "make", "new", "int", "byte", "rune", "cap", "copy":
					return true
				}
			}
			a.site(exprString(a.fset, call.Fun), "call", st)
			performed = true
			return false
		}
		return true
	})
	return
}

func (a *wsAnalyzer) block(stmts []ast.Stmt, st wsState) wsState {
	for _, s := range stmts {
		st = a.stmt(s, st)
	}
	return st
}

func (a *wsAnalyzer) stmt(s ast.Stmt, st wsState) wsState {
	if st == wsBottom {
		return st
	}
	switch s := s.(type) {
	case *ast.AssignStmt:
		toErr := hasErrIdent(s.Lhs)
		hasCall := false
		for _, r := range s.Rhs {
			ast.Inspect(r, func(n ast.Node) bool {
				if _, ok := n.(*ast.CallExpr); ok {
					hasCall = true
				}
				return true
			})
		}
		// builder declarations
		if len(s.Lhs) == 1 && len(s.Rhs) == 1 {
			if id, ok := s.Lhs[0].(*ast.Ident); ok {
				rs := exprString(a.fset, s.Rhs[0])
				if strings.Contains(rs, "strings.Builder{}") || strings.Contains(rs, "bytes.Buffer{}") {
					a.builders[id.Name] = true
				}
			}
		}
		performed := false
		for _, r := range s.Rhs {
			if a.effectCalls(r, st, toErr) {
				performed = true
			}
		}
		if toErr {
			if hasCall && performed {
				return wsDirty
			}
			if hasCall {
				return wsDirty
			}
			// err = <non-call>: e.g. err = nil
			if len(s.Rhs) == 1 {
				if id, ok := s.Rhs[0].(*ast.Ident); ok && id.Name == "nil" {
					return wsClean
				}
			}
			return wsDirty
		}
		return st
	case *ast.DeclStmt:
		if gd, ok := s.Decl.(*ast.GenDecl); ok {
			for _, sp := range gd.Specs {
				if vs, ok := sp.(*ast.ValueSpec); ok {
					ts := ""
					if vs.Type != nil {
						ts = exprString(a.fset, vs.Type)
					}
					for _, n := range vs.Names {
						if ts == "strings.Builder" || ts == "bytes.Buffer" {
							a.builders[n.Name] = true
						}
					}
					for _, v := range vs.Values {
						a.effectCalls(v, st, false)
					}
				}
			}
		}
		return st
	case *ast.ExprStmt:
		a.effectCalls(s.X, st, false)
		return st
	case *ast.IncDecStmt, *ast.EmptyStmt:
		return st
	case *ast.ReturnStmt:
		returnsErr := hasErrIdent(s.Results)
		callInResult := false
		for _, r := range s.Results {
			if _, ok := r.(*ast.CallExpr); ok {
				callInResult = true
			}
			// a returned call performs its writes now and its error is returned: checked
			a.effectCalls(r, st, true)
		}
		if !returnsErr && !callInResult && st == wsDirty {
			a.site("return "+exprString(a.fset, s), "dropped", st)
		}
		return wsBottom
	case *ast.BlockStmt:
		return a.block(s.List, st)
	case *ast.IfStmt:
		if s.Init != nil {
			st = a.stmt(s.Init, st)
		}
		a.effectCalls(s.Cond, st, false)
		thenIn, elseIn := st, st
		switch condKind(s.Cond) {
		case "nonnil":
			thenIn, elseIn = wsDirty, wsClean
			if st == wsClean {
				thenIn = wsBottom // err is known nil: the branch is dead for this analysis
				thenIn = wsDirty  // (kept reachable: harmless, its body returns)
			}
		case "nil":
			thenIn = wsClean
			// else: err may be non-nil
			elseIn = st
		}
		thenOut := a.block(s.Body.List, thenIn)
		elseOut := elseIn
		if s.Else != nil {
			elseOut = a.stmt(s.Else, elseIn)
		}
		return wsJoin(thenOut, elseOut)
	case *ast.ForStmt:
		if s.Init != nil {
			st = a.stmt(s.Init, st)
		}
		return a.loop(s.Body, s.Post, st, s.Cond == nil)
	case *ast.RangeStmt:
		return a.loop(s.Body, nil, st, false)
	case *ast.SwitchStmt:
		if s.Init != nil {
			st = a.stmt(s.Init, st)
		}
		return a.switchBody(s.Body, st)
	case *ast.TypeSwitchStmt:
		if s.Init != nil {
			st = a.stmt(s.Init, st)
		}
		return a.switchBody(s.Body, st)
	case *ast.BranchStmt:
		switch s.Tok {
		case token.BREAK:
			if n := len(a.breaks); n > 0 {
				*a.breaks[n-1] = wsJoin(*a.breaks[n-1], st)
			}
			return wsBottom
		case token.CONTINUE:
			if n := len(a.conts); n > 0 {
				*a.conts[n-1] = wsJoin(*a.conts[n-1], st)
			}
			return wsBottom
		case token.FALLTHROUGH:
			return st
		}
		a.problems = append(a.problems, "goto/labelled branch in "+a.fn)
		return st
	case *ast.LabeledStmt:
		return a.stmt(s.Stmt, st)
	case *ast.DeferStmt, *ast.GoStmt:
		a.problems = append(a.problems, "defer/go in "+a.fn)
		return st
	default:
		a.problems = append(a.problems, fmt.Sprintf("statement %T in %s", s, a.fn))
		return st
	}
}

func (a *wsAnalyzer) loop(body *ast.BlockStmt, post ast.Stmt, st wsState, infinite bool) wsState {
	entry := st
	var brk, cont wsState
	saveSites, saveOrd := len(a.sites), a.ord
	for iter := 0; iter < 3; iter++ {
		// only the last iteration's sites are kept (states have reached their fixpoint by then:
		// the lattice has height 2)
		a.sites, a.ord = a.sites[:saveSites], saveOrd
		brk, cont = wsBottom, wsBottom
		a.breaks = append(a.breaks, &brk)
		a.conts = append(a.conts, &cont)
		out := a.block(body.List, entry)
		a.breaks = a.breaks[:len(a.breaks)-1]
		a.conts = a.conts[:len(a.conts)-1]
		out = wsJoin(out, cont)
		if post != nil {
			out = a.stmt(post, out)
		}
		entry = wsJoin(entry, out)
	}
	exit := brk
	if !infinite {
		exit = wsJoin(exit, entry)
	}
	return exit
}

func (a *wsAnalyzer) switchBody(body *ast.BlockStmt, st wsState) wsState {
	out := wsBottom
	hasDefault := false
	var brk wsState
	a.breaks = append(a.breaks, &brk)
	fall := wsBottom
	for _, c := range body.List {
		cc := c.(*ast.CaseClause)
		if cc.List == nil {
			hasDefault = true
		}
		in := wsJoin(st, fall)
		o := a.block(cc.Body, in)
		fall = wsBottom
		if n := len(cc.Body); n > 0 {
			if b, ok := cc.Body[n-1].(*ast.BranchStmt); ok && b.Tok == token.FALLTHROUGH {
				fall = o
				continue
			}
		}
		out = wsJoin(out, o)
	}
	a.breaks = a.breaks[:len(a.breaks)-1]
	out = wsJoin(out, brk)
	if !hasDefault {
		out = wsJoin(out, st)
	}
	return out
}

func leanStr(s string) string {
	s = strings.ReplaceAll(s, "\\", "\\\\")
	s = strings.ReplaceAll(s, "\"", "\\\"")
	s = strings.ReplaceAll(s, "\n", " ")
	s = strings.ReplaceAll(s, "\t", " ")
	return "\"" + s + "\""
}

func genWriteSites(repo string) (string, error) {
	fset := token.NewFileSet()
	var all []wsSite
	var problems []string
	for _, name := range []string{"escapers.go", "renderer.go"} {
		f, err := parser.ParseFile(fset, filepath.Join(repo, "internal/runtime", name), nil, 0)
		if err != nil {
			return "", err
		}
		for _, d := range f.Decls {
			fd, ok := d.(*ast.FuncDecl)
			if !ok || fd.Body == nil {
				continue
			}
			// only functions that return an error can report a failed write
			returnsError := false
			if fd.Type.Results != nil {
				for _, r := range fd.Type.Results.List {
					if id, ok := r.Type.(*ast.Ident); ok && id.Name == "error" {
						returnsError = true
					}
				}
			}
			fname := fd.Name.Name
			if fd.Recv != nil && len(fd.Recv.List) == 1 {
				fname = strings.TrimPrefix(exprString(fset, fd.Recv.List[0].Type), "*") + "." + fname
			}
			a := &wsAnalyzer{fset: fset, fn: fname, builders: map[string]bool{}}
			// named result `err error` starts clean
			a.block(fd.Body.List, wsClean)
			if !returnsError {
				// a function without error result must not write to a fallible writer at all
				for i := range a.sites {
					if a.sites[i].kind == "write" || a.sites[i].kind == "ignored" {
						a.sites[i].kind = "noerror-" + a.sites[i].kind
					}
				}
			}
			all = append(all, a.sites...)
			problems = append(problems, a.problems...)
		}
	}
	if len(problems) > 0 {
		return "", fmt.Errorf("shape not recognised: %s", strings.Join(problems, "; "))
	}
	if len(all) < 100 {
		return "", fmt.Errorf("shape not recognised: only %d write sites found in escapers.go/renderer.go", len(all))
	}

	// --- how a writer error travels from the renderer to Run's caller
	facts, err := vmOutErrorFacts(repo, fset)
	if err != nil {
		return "", err
	}

	var b strings.Builder
	b.WriteString("namespace ScriggoV.Gen.WriteSites\n\n")
	b.WriteString("structure Site where\n  fn : String\n  callee : String\n  ord : Nat\n  kind : String   -- write | call | ignored | dropped | noerror-write | noerror-ignored\n  state : String  -- clean | dirty : what is known about `err` when the call is entered\n  deriving DecidableEq, Repr\n\n")
	b.WriteString("def sites : List Site := [\n")
	for i, s := range all {
		sep := ","
		if i == len(all)-1 {
			sep = ""
		}
		fmt.Fprintf(&b, "  ⟨%s, %s, %d, %s, %s⟩%s\n", leanStr(s.fn), leanStr(s.callee), s.ord, leanStr(s.kind), leanStr(s.state), sep)
	}
	b.WriteString("]\n\n")
	keys := make([]string, 0, len(facts))
	for k := range facts {
		keys = append(keys, k)
	}
	sort.Strings(keys)
	for _, k := range keys {
		fmt.Fprintf(&b, "def %s : %s\n", k, facts[k])
	}
	b.WriteString("\nend ScriggoV.Gen.WriteSites\n")
	return b.String(), nil
}

// vmOutErrorFacts reads run.go, errors.go and vm.go.
func vmOutErrorFacts(repo string, fset *token.FileSet) (map[string]string, error) {
	facts := map[string]string{}
	parse := func(name string) (*ast.File, error) {
		return parser.ParseFile(fset, filepath.Join(repo, "internal/runtime", name), nil, 0)
	}
	// 1. run.go: every `err := vm.renderer.Show/Text(...)` must be followed by
	//    `if err != nil { panic(outError{err}) }`
	run, err := parse("run.go")
	if err != nil {
		return nil, err
	}
	var calls []string
	ast.Inspect(run, func(n ast.Node) bool {
		var list []ast.Stmt
		switch b := n.(type) {
		case *ast.BlockStmt:
			list = b.List
		case *ast.CaseClause:
			list = b.Body
		default:
			return true
		}
		for i, s := range list {
			as, ok := s.(*ast.AssignStmt)
			if !ok || len(as.Rhs) != 1 {
				continue
			}
			call, ok := as.Rhs[0].(*ast.CallExpr)
			if !ok {
				continue
			}
			fun := exprString(fset, call.Fun)
			if fun != "vm.renderer.Show" && fun != "vm.renderer.Text" {
				continue
			}
			wrapped := false
			if hasErrIdent(as.Lhs) && i+1 < len(list) {
				if is, ok := list[i+1].(*ast.IfStmt); ok && condKind(is.Cond) == "nonnil" && len(is.Body.List) == 1 {
					if strings.ReplaceAll(exprString(fset, is.Body.List[0]), " ", "") == "panic(outError{err})" {
						wrapped = true
					}
				}
			}
			calls = append(calls, fmt.Sprintf("(%s, %v)", leanStr(fun), wrapped))
		}
		return true
	})
	if len(calls) < 2 {
		return nil, fmt.Errorf("shape not recognised: calls of vm.renderer.Show/Text in run.go (%d found)", len(calls))
	}
	facts["rendererCalls"] = "List (String × Bool) := [" + strings.Join(calls, ", ") + "]"

	// 1b. run.go OpReturn: the Markdown converter writes through a convWriter, and a write error
	//     recorded by it is raised as outError whatever the converter itself returns
	convShape := ""
	ast.Inspect(run, func(n ast.Node) bool {
		b, ok := n.(*ast.BlockStmt)
		if !ok {
			return true
		}
		for i, s := range b.List {
			as, ok := s.(*ast.AssignStmt)
			if !ok || len(as.Rhs) != 1 {
				continue
			}
			call, ok := as.Rhs[0].(*ast.CallExpr)
			if !ok || exprString(fset, call.Fun) != "vm.env.conv" || len(call.Args) != 2 {
				continue
			}
			wname := exprString(fset, call.Args[1])
			shape := "conv(" + wname + ")"
			// the writer must be a convWriter declared just before
			if i > 0 {
				if prev, ok := b.List[i-1].(*ast.AssignStmt); ok && len(prev.Lhs) == 1 && exprString(fset, prev.Lhs[0]) == wname {
					shape += " writer=" + strings.Join(strings.Fields(exprString(fset, prev.Rhs[0])), " ")
				}
			}
			// the statement right after the call, at the same nesting level
			if i+1 < len(b.List) {
				shape += " next=" + strings.Join(strings.Fields(exprString(fset, b.List[i+1])), " ")
			}
			if convShape != "" {
				convShape += " | "
			}
			convShape += shape
		}
		return true
	})
	if convShape == "" {
		return nil, fmt.Errorf("shape not recognised: no call of vm.env.conv in run.go")
	}
	facts["converterCall"] = "String := " + leanStr(convShape)

	// 2. errors.go convertPanic: the first switch on msg.(type) maps outError to vm.newPanic(err)
	ef, err := parse("errors.go")
	if err != nil {
		return nil, err
	}
	outErrTo := ""
	firstSwitch := true
	for _, d := range ef.Decls {
		fd, ok := d.(*ast.FuncDecl)
		if !ok || fd.Name.Name != "convertPanic" || fd.Body == nil {
			continue
		}
		for _, s := range fd.Body.List {
			ts, ok := s.(*ast.TypeSwitchStmt)
			if !ok {
				if _, isSwitch := s.(*ast.SwitchStmt); isSwitch {
					firstSwitch = false
				}
				continue
			}
			if !firstSwitch {
				continue
			}
			for _, c := range ts.Body.List {
				cc := c.(*ast.CaseClause)
				for _, t := range cc.List {
					if exprString(fset, t) == "outError" && len(cc.Body) == 1 {
						outErrTo = strings.ReplaceAll(exprString(fset, cc.Body[0]), "\n", " ")
					}
				}
			}
			firstSwitch = false
		}
	}
	if outErrTo == "" {
		return nil, fmt.Errorf("shape not recognised: convertPanic has no leading `case outError:` clause")
	}
	facts["convertPanicOutError"] = "String := " + leanStr(outErrTo)

	// 3. vm.go VM.Run: `case *PanicError: if outErr, ok := e.message.(outError); ok { err = outErr.err }`
	vf, err := parse("vm.go")
	if err != nil {
		return nil, err
	}
	unwrap := ""
	for _, d := range vf.Decls {
		fd, ok := d.(*ast.FuncDecl)
		if !ok || fd.Name.Name != "Run" || fd.Recv == nil || fd.Body == nil {
			continue
		}
		ast.Inspect(fd.Body, func(n ast.Node) bool {
			cc, ok := n.(*ast.CaseClause)
			if !ok || len(cc.List) != 1 || exprString(fset, cc.List[0]) != "*PanicError" {
				return true
			}
			var parts []string
			for _, s := range cc.Body {
				parts = append(parts, strings.Join(strings.Fields(exprString(fset, s)), " "))
			}
			unwrap = strings.Join(parts, "; ")
			return false
		})
	}
	if unwrap == "" {
		return nil, fmt.Errorf("shape not recognised: VM.Run has no `case *PanicError:` clause")
	}
	facts["runUnwrapPanicError"] = "String := " + leanStr(unwrap)

	// 4. vm.go / errors.go: while a panic (the writer's error included) unwinds the call stack,
	//    VM.Run sets vm.fn = nil and nextCall runs the pending deferred calls; a deferred native
	//    function is called through callNative with vm.fn still nil, and a panic raised there is
	//    classified by convertPanic/newPanic. Every dereference `vm.fn.<field>` in a function is
	//    counted as guarded (inside `if … vm.fn != nil … {`, or after `if vm.fn == nil { …; return }`)
	//    or unguarded.
	var rows []string
	for _, f := range []*ast.File{vf, ef} {
		for _, d := range f.Decls {
			fd, ok := d.(*ast.FuncDecl)
			if !ok || fd.Body == nil || fd.Recv == nil {
				continue
			}
			g, u := nilFnDerefs(fset, fd.Body)
			if g+u > 0 {
				rows = append(rows, fmt.Sprintf("(%s, %d, %d)", leanStr(fd.Name.Name), g, u))
			}
		}
	}
	sort.Strings(rows)
	facts["fnDerefs"] = "List (String × Nat × Nat) := [" + strings.Join(rows, ", ") + "]"
	// nextCall calls a deferred native function without setting vm.fn
	nativeFromNextCall := false
	for _, d := range vf.Decls {
		fd, ok := d.(*ast.FuncDecl)
		if !ok || fd.Name.Name != "nextCall" || fd.Body == nil {
			continue
		}
		ast.Inspect(fd.Body, func(n ast.Node) bool {
			if c, ok := n.(*ast.CallExpr); ok && exprString(fset, c.Fun) == "vm.callNative" {
				nativeFromNextCall = true
			}
			return true
		})
	}
	facts["nextCallCallsNative"] = fmt.Sprintf("Bool := %v", nativeFromNextCall)

	// 5. run.go OpRecover: what the interpreted code receives from recover(). A deferred function
	//    that recovers and panics again with the recovered value (`if e := recover(); e != nil {
	//    cleanup; panic(e) }`) must hand back the very value that was raised — for a failed write
	//    the outError that convertPanic and VM.Run recognise — otherwise Run returns a PanicError
	//    about E instead of E.
	var recAssigns []string
	ast.Inspect(run, func(n ast.Node) bool {
		cc, ok := n.(*ast.CaseClause)
		if !ok || len(cc.List) != 1 || exprString(fset, cc.List[0]) != "OpRecover" {
			return true
		}
		for _, st := range cc.Body {
			ast.Inspect(st, func(m ast.Node) bool {
				as, ok := m.(*ast.AssignStmt)
				if !ok || len(as.Lhs) != 1 || exprString(fset, as.Lhs[0]) != "msg" {
					return true
				}
				recAssigns = append(recAssigns, strings.Join(strings.Fields(exprString(fset, as.Rhs[0])), " "))
				return true
			})
			// any other use of vm.panic.message in the clause is part of the shape
			ast.Inspect(st, func(m ast.Node) bool {
				if ce, ok := m.(*ast.CallExpr); ok && exprString(fset, ce.Fun) == "vm.setGeneral" && len(ce.Args) == 2 {
					recAssigns = append(recAssigns, "setGeneral:"+exprString(fset, ce.Args[1]))
				}
				return true
			})
		}
		return false
	})
	if len(recAssigns) == 0 {
		return nil, fmt.Errorf("shape not recognised: run.go has no `case OpRecover:` clause assigning msg")
	}
	var q []string
	for _, r := range recAssigns {
		q = append(q, leanStr(r))
	}
	facts["recoverValue"] = "List String := [" + strings.Join(q, ", ") + "]"
	return facts, nil
}

// nilFnDerefs counts the dereferences of vm.fn in body: (guarded, unguarded).
func nilFnDerefs(fset *token.FileSet, body *ast.BlockStmt) (guarded, unguarded int) {
	isFn := func(e ast.Expr) bool { return strings.ReplaceAll(exprString(fset, e), " ", "") == "vm.fn" }
	hasConj := func(cond ast.Expr, op token.Token) bool {
		found := false
		var walk func(e ast.Expr)
		walk = func(e ast.Expr) {
			switch x := e.(type) {
			case *ast.ParenExpr:
				walk(x.X)
			case *ast.BinaryExpr:
				if x.Op == token.LAND {
					walk(x.X)
					walk(x.Y)
				} else if x.Op == op && isFn(x.X) && exprString(fset, x.Y) == "nil" {
					found = true
				}
			}
		}
		walk(cond)
		return found
	}
	terminates := func(b *ast.BlockStmt) bool {
		if len(b.List) == 0 {
			return false
		}
		switch s := b.List[len(b.List)-1].(type) {
		case *ast.ReturnStmt:
			return true
		case *ast.ExprStmt:
			if c, ok := s.X.(*ast.CallExpr); ok && exprString(fset, c.Fun) == "panic" {
				return true
			}
		}
		return false
	}
	children := func(n ast.Node, f func(ast.Node)) {
		first := true
		ast.Inspect(n, func(c ast.Node) bool {
			if c == nil {
				return false
			}
			if first {
				first = false
				return true
			}
			f(c)
			return false
		})
	}
	var visit func(n ast.Node, g bool)
	var visitList func(list []ast.Stmt, g bool)
	visitList = func(list []ast.Stmt, g bool) {
		for _, s := range list {
			visit(s, g)
			if is, ok := s.(*ast.IfStmt); ok && is.Init == nil && is.Else == nil && hasConj(is.Cond, token.EQL) && terminates(is.Body) {
				if be, ok := is.Cond.(*ast.BinaryExpr); ok && be.Op == token.EQL {
					g = true
				}
			}
		}
	}
	visit = func(n ast.Node, g bool) {
		switch x := n.(type) {
		case *ast.BlockStmt:
			visitList(x.List, g)
		case *ast.CaseClause:
			for _, e := range x.List {
				visit(e, g)
			}
			visitList(x.Body, g)
		case *ast.CommClause:
			if x.Comm != nil {
				visit(x.Comm, g)
			}
			visitList(x.Body, g)
		case *ast.IfStmt:
			if x.Init != nil {
				visit(x.Init, g)
			}
			visit(x.Cond, g)
			visit(x.Body, g || hasConj(x.Cond, token.NEQ))
			if x.Else != nil {
				visit(x.Else, g)
			}
		case *ast.SelectorExpr:
			if isFn(x.X) {
				if g {
					guarded++
				} else {
					unguarded++
				}
				return
			}
			children(x, func(c ast.Node) { visit(c, g) })
		default:
			children(n, func(c ast.Node) { visit(c, g) })
		}
	}
	visit(body, false)
	return
}
