package main

// Generator "CallableValue" (property C05): regenerates from /repo what the code says *now*
// about function values that leave the registers of the virtual machine as Go values
// (reflect.Value of a func type):
//
//	internal/runtime/vm.go, (*callable).Value — the one conversion of a callable into a Go func
//	value: for each of its three branches (a bound Go value, a native function, a Scriggo
//	function) whether the value handed out is the Go function as it is (raw) or adapted to the
//	type the Scriggo code sees (withoutEnv(…, env): the native.Env parameter removed);
//	internal/compiler/checker_util.go, removeEnvArg — the type the Scriggo code sees, recognised
//	as a whole (the model's removeEnvArg mirrors exactly this text);
//	internal/runtime/*.go — every switch over a reflect.Kind (one with a clause for
//	reflect.String) whose default clause stores a general register, read there and then
//	(vm.general(…), vm.generalk(…), regs[i]), into a Go value with Set (a "store site"), and
//	whether it has a clause for reflect.Func that converts with callable.Value(vm.env);
//	the places, outside the constructor, the accessor, callNative and callable.Value, that read
//	NativeFunction.function (there must be none: callable.Value is the only conversion).
//
// Shapes outside these are "shape not recognised".

import (
	"fmt"
	"go/ast"
	"go/parser"
	"go/token"
	"os"
	"path/filepath"
	"sort"
	"strings"
)

func init() {
	generators = append(generators, generator{name: "CallableValue", run: genCallableValue})
}

const cvRemoveEnvArg = `{ numIn := typ.NumIn() if hasReceiver && (numIn <= 1 || typ.In(1) != envType) { return typ } if !hasReceiver && (numIn == 0 || typ.In(0) != envType) { return typ } ins := make([]reflect.Type, numIn-1) if hasReceiver { ins[0] = typ.In(0) for i := 2; i < numIn; i++ { ins[i-1] = typ.In(i) } } else { for i := 1; i < numIn; i++ { ins[i-1] = typ.In(i) } } outs := make([]reflect.Type, typ.NumOut()) for i := range outs { outs[i] = typ.Out(i) } return reflect.FuncOf(ins, outs, typ.IsVariadic()) }`

func genCallableValue(repo string) (string, error) {
	g := &cpGen{fset: token.NewFileSet()}
	// removeEnvArg
	cu, err := parser.ParseFile(g.fset, filepath.Join(repo, "internal/compiler/checker_util.go"), nil, 0)
	if err != nil {
		return "", err
	}
	var rea *ast.FuncDecl
	for _, d := range cu.Decls {
		if fd, ok := d.(*ast.FuncDecl); ok && fd.Recv == nil && fd.Name.Name == "removeEnvArg" {
			rea = fd
		}
	}
	if rea == nil {
		return "", fmt.Errorf("shape not recognised: function removeEnvArg not found in checker_util.go")
	}
	if got := g.src(rea.Type); got != "func(typ reflect.Type, hasReceiver bool) reflect.Type" {
		return "", g.errf(rea, "signature of removeEnvArg")
	}
	if got := g.src(rea.Body); got != cvRemoveEnvArg {
		return "", g.errf(rea.Body, "body of removeEnvArg (the model's removeEnvArg mirrors the former text)")
	}
	// the runtime package
	dir := filepath.Join(repo, "internal/runtime")
	entries, err := os.ReadDir(dir)
	if err != nil {
		return "", err
	}
	type fn struct {
		decl *ast.FuncDecl
		file string
	}
	var funcs []fn
	byName := map[string]*ast.FuncDecl{}
	for _, e := range entries {
		n := e.Name()
		if !strings.HasSuffix(n, ".go") || strings.HasSuffix(n, "_test.go") || strings.HasPrefix(n, "verif_") {
			continue
		}
		f, err := parser.ParseFile(g.fset, filepath.Join(dir, n), nil, 0)
		if err != nil {
			return "", err
		}
		for _, d := range f.Decls {
			if fd, ok := d.(*ast.FuncDecl); ok && fd.Body != nil {
				name := fd.Name.Name
				if fd.Recv != nil && len(fd.Recv.List) == 1 {
					name = strings.TrimPrefix(g.src(fd.Recv.List[0].Type), "*") + "." + name
				}
				funcs = append(funcs, fn{fd, n})
				byName[name] = fd
			}
		}
	}
	// callable.Value
	val := byName["callable.Value"]
	if val == nil {
		return "", fmt.Errorf("shape not recognised: method (*callable).Value not found")
	}
	if got := g.src(val.Type); got != "func(env *env) reflect.Value" {
		return "", g.errf(val, "signature of callable.Value")
	}
	if len(val.Body.List) != 6 {
		return "", g.errf(val.Body, "callable.Value: expected two branches, the Scriggo function wrapper and a return")
	}
	conv := func(st ast.Stmt, cond, rawBody, adaptedBody string) (string, error) {
		is, ok := st.(*ast.IfStmt)
		if !ok || is.Init != nil || is.Else != nil || g.src(is.Cond) != cond {
			return "", g.errf(st, "callable.Value: expected `if %s { … }`", cond)
		}
		switch g.src(is.Body) {
		case rawBody:
			return "raw", nil
		case adaptedBody:
			return "adapted", nil
		}
		return "", g.errf(is.Body, "callable.Value: branch %s", cond)
	}
	valueConv, err := conv(val.Body.List[0], "c.value.IsValid()", "{ return c.value }", "{ c.value = withoutEnv(c.value, env) return c.value }")
	if err != nil {
		return "", err
	}
	nativeConv, err := conv(val.Body.List[1], "c.native != nil", "{ c.value = reflect.ValueOf(c.native.function) return c.value }",
		"{ c.value = withoutEnv(reflect.ValueOf(c.native.function), env) return c.value }")
	if err != nil {
		return "", err
	}
	if valueConv == "adapted" || nativeConv == "adapted" {
		we := byName["withoutEnv"]
		if we == nil || g.src(we.Type) != "func(v reflect.Value, env *env) reflect.Value" || !strings.Contains(g.src(we.Body), "reflect.MakeFunc(reflect.FuncOf(") {
			return "", fmt.Errorf("shape not recognised: withoutEnv(v reflect.Value, env *env) reflect.Value, a reflect.MakeFunc wrapper, expected beside callable.Value")
		}
	}
	if g.src(val.Body.List[2]) != "fn := c.fn" || g.src(val.Body.List[3]) != "vars := c.vars" ||
		!strings.HasPrefix(g.src(val.Body.List[4]), "c.value = reflect.MakeFunc(fn.Type, func(args []reflect.Value) []reflect.Value {") ||
		g.src(val.Body.List[5]) != "return c.value" {
		return "", g.errf(val.Body, "callable.Value: the Scriggo function branch (reflect.MakeFunc(fn.Type, …))")
	}
	// store sites and reads of NativeFunction.function
	type site struct {
		name    string
		hasFunc bool
		pos     string
	}
	var sites []site
	var rawReads []string
	allowed := map[string]bool{"NewNativeFunction": true, "NativeFunction.Func": true, "VM.callNative": true, "callable.Value": true}
	for _, f := range funcs {
		name := f.decl.Name.Name
		if f.decl.Recv != nil && len(f.decl.Recv.List) == 1 {
			name = strings.TrimPrefix(g.src(f.decl.Recv.List[0].Type), "*") + "." + name
		}
		var serr error
		ast.Inspect(f.decl.Body, func(n ast.Node) bool {
			switch n := n.(type) {
			case *ast.SelectorExpr:
				if n.Sel.Name == "function" && !allowed[name] {
					rawReads = append(rawReads, name+" ("+g.fset.Position(n.Pos()).String()+")")
				}
			case *ast.SwitchStmt:
				var def *ast.CaseClause
				hasString, hasFunc, funcConverts := false, false, false
				for _, s := range n.Body.List {
					cc := s.(*ast.CaseClause)
					if cc.List == nil {
						def = cc
					}
					for _, e := range cc.List {
						switch g.src(e) {
						case "reflect.String":
							hasString = true
						case "reflect.Func":
							hasFunc = true
							funcConverts = strings.Contains(g.src(cc), ".Value(vm.env)")
						}
					}
				}
				if !hasString || def == nil {
					return true
				}
				stores := false
				ast.Inspect(def, func(m ast.Node) bool {
					if ce, ok := m.(*ast.CallExpr); ok && len(ce.Args) == 1 {
						if se, ok := ce.Fun.(*ast.SelectorExpr); ok && se.Sel.Name == "Set" {
							// the stored value is read from the general registers there and then
							arg := g.src(ce.Args[0])
							if strings.HasPrefix(arg, "vm.general(") || strings.HasPrefix(arg, "vm.generalk(") || strings.HasPrefix(arg, "regs[") {
								stores = true
							}
						}
					}
					return true
				})
				if !stores {
					return true
				}
				if hasFunc && !funcConverts {
					serr = g.errf(n, "%s: the reflect.Func clause of a store site does not convert with callable.Value(vm.env)", name)
				}
				sites = append(sites, site{name, hasFunc && funcConverts, g.fset.Position(n.Pos()).String()})
			}
			return true
		})
		if serr != nil {
			return "", serr
		}
	}
	if len(sites) == 0 {
		return "", fmt.Errorf("shape not recognised: no switch over reflect.Kind that stores general registers found in internal/runtime")
	}
	sort.Slice(sites, func(i, j int) bool { return sites[i].name < sites[j].name })
	for i := 1; i < len(sites); i++ {
		if sites[i].name == sites[i-1].name {
			return "", fmt.Errorf("shape not recognised: two store sites in %s", sites[i].name)
		}
	}
	var b strings.Builder
	b.WriteString(`/-! Function values as Go values, as the code has them now (internal/runtime/vm.go:
callable.Value; internal/compiler/checker_util.go: removeEnvArg; the switches over reflect.Kind of
internal/runtime that store general registers), regenerated from /repo. -/
namespace ScriggoV.Gen.CallableValue

/-- what callable.Value hands out for a Go function: the function as it is, or adapted to the
type the Scriggo code sees (the native.Env parameter removed) -/
inductive Conv where
  | raw | adapted
  deriving DecidableEq, Repr

`)
	fmt.Fprintf(&b, "/-- branch `c.value.IsValid()` (method values, function values that came out of native code) -/\ndef valueConv : Conv := .%s\n\n", valueConv)
	fmt.Fprintf(&b, "/-- branch `c.native != nil` (native functions, method expressions) -/\ndef nativeConv : Conv := .%s\n\n", nativeConv)
	b.WriteString("/-- the Scriggo function branch is `reflect.MakeFunc(fn.Type, …)` -/\ndef scriggoTyped : Bool := true\n\n")
	b.WriteString("/-- removeEnvArg of checker_util.go has the text that `Model/CallableValue.lean` mirrors -/\ndef removeEnvArgRecognised : Bool := true\n\n")
	b.WriteString("/-- the switches over reflect.Kind that store general registers into a Go value, and whether\neach has a clause for reflect.Func that converts with callable.Value(vm.env) -/\ndef storeSites : List (String × Bool) := [\n")
	for i, s := range sites {
		sep := ","
		if i == len(sites)-1 {
			sep = ""
		}
		fmt.Fprintf(&b, "  (%q, %v)%s  -- %s\n", s.name, s.hasFunc, sep, strings.TrimPrefix(s.pos, repo+"/"))
	}
	b.WriteString("]\n\n")
	fmt.Fprintf(&b, "/-- reads of NativeFunction.function outside NewNativeFunction, Func, callNative and\ncallable.Value%s -/\ndef rawFunctionReads : Nat := %d\n\nend ScriggoV.Gen.CallableValue\n", func() string {
		if len(rawReads) == 0 {
			return ""
		}
		return ": " + strings.Join(rawReads, ", ")
	}(), len(rawReads))
	return b.String(), nil
}
