package main

// Generator "EscapeTables" (property C07, shared with C06/C13): regenerates from
// /repo/internal/runtime/escapers.go the byte tables and byte predicates of the escapers:
//
//	hexchars                                     const
//	htmlEscape / htmlNoEntitiesEscape            switch s[i] { case 'x': esc = "…" … default: continue }
//	attributeEscape (unquoted loop)              switch s[i] { case 'x': esc = "…" | if escapeEntities { esc = "…" } }
//	cssStringEscapes, jsStringEscapes            []string{ key: `…`, … }
//	prefixWithSpace, isHexDigit                  switch c { case …: return true }; return <range expr>
//	queryEscape                                  if <range expr> { continue }
//	pathEscape                                   if <range expr> { continue }; switch c { … }
//
// The loops around them are hand-modelled in Model/Escape.lean and tied by the
// correspondence harness. Anything outside these shapes is an error, never a guess.

import (
	"bytes"
	"fmt"
	"go/ast"
	"go/parser"
	"go/printer"
	"go/token"
	"path/filepath"
	"strconv"
	"strings"
)

func init() {
	generators = append(generators, generator{name: "EscapeTables", run: genEscapeTables})
}

type escGen struct {
	fset  *token.FileSet
	file  *ast.File
	funcs map[string]*ast.FuncDecl
	out   strings.Builder
}

func (g *escGen) src(n ast.Node) string {
	var b bytes.Buffer
	printer.Fprint(&b, g.fset, n)
	return strings.Join(strings.Fields(b.String()), " ")
}

func leanBytes(s string) string {
	if len(s) == 0 {
		return "[]"
	}
	parts := make([]string, len(s))
	for i := 0; i < len(s); i++ {
		parts[i] = strconv.Itoa(int(s[i]))
	}
	return "[" + strings.Join(parts, ", ") + "]"
}

// byteLit evaluates a character or integer literal that is compared with a byte.
func (g *escGen) byteLit(e ast.Expr) (int, error) {
	lit, ok := e.(*ast.BasicLit)
	if !ok {
		return 0, fmt.Errorf("shape not recognised: expected a byte literal, got %s", g.src(e))
	}
	switch lit.Kind {
	case token.CHAR:
		s, err := strconv.Unquote(lit.Value)
		if err != nil {
			return 0, fmt.Errorf("shape not recognised: char literal %s", lit.Value)
		}
		r := []rune(s)
		if len(r) != 1 || r[0] > 255 {
			return 0, fmt.Errorf("shape not recognised: char literal %s is not a byte", lit.Value)
		}
		return int(r[0]), nil
	case token.INT:
		n, err := strconv.ParseInt(lit.Value, 0, 64)
		if err != nil || n < 0 || n > 255 {
			return 0, fmt.Errorf("shape not recognised: int literal %s is not a byte", lit.Value)
		}
		return int(n), nil
	}
	return 0, fmt.Errorf("shape not recognised: literal %s", lit.Value)
}

func (g *escGen) stringLit(e ast.Expr) (string, error) {
	lit, ok := e.(*ast.BasicLit)
	if !ok || lit.Kind != token.STRING {
		return "", fmt.Errorf("shape not recognised: expected a string literal, got %s", g.src(e))
	}
	s, err := strconv.Unquote(lit.Value)
	if err != nil {
		return "", fmt.Errorf("shape not recognised: string literal %s", lit.Value)
	}
	return s, nil
}

// boolExpr translates a Go boolean expression over the byte variable `v` (comparisons with
// byte literals joined by && and ||) into a Lean Bool expression over `c`.
func (g *escGen) boolExpr(e ast.Expr, v string) (string, error) {
	switch e := e.(type) {
	case *ast.ParenExpr:
		return g.boolExpr(e.X, v)
	case *ast.BinaryExpr:
		switch e.Op {
		case token.LAND, token.LOR:
			l, err := g.boolExpr(e.X, v)
			if err != nil {
				return "", err
			}
			r, err := g.boolExpr(e.Y, v)
			if err != nil {
				return "", err
			}
			op := "&&"
			if e.Op == token.LOR {
				op = "||"
			}
			return "(" + l + " " + op + " " + r + ")", nil
		case token.LEQ, token.LSS, token.GEQ, token.GTR, token.EQL, token.NEQ:
			side := func(x ast.Expr) (string, error) {
				if id, ok := x.(*ast.Ident); ok {
					if id.Name != v {
						return "", fmt.Errorf("shape not recognised: identifier %s in byte predicate", id.Name)
					}
					return "c", nil
				}
				n, err := g.byteLit(x)
				if err != nil {
					return "", err
				}
				return strconv.Itoa(n), nil
			}
			l, err := side(e.X)
			if err != nil {
				return "", err
			}
			r, err := side(e.Y)
			if err != nil {
				return "", err
			}
			if (l == "c") == (r == "c") {
				return "", fmt.Errorf("shape not recognised: comparison %s", g.src(e))
			}
			op := map[token.Token]string{token.LEQ: "≤", token.LSS: "<", token.GEQ: "≥", token.GTR: ">", token.EQL: "==", token.NEQ: "!="}[e.Op]
			if l != "c" {
				l = "(" + l + " : UInt8)"
			}
			if e.Op == token.EQL || e.Op == token.NEQ {
				return "(" + l + " " + op + " " + r + ")", nil
			}
			return "decide (" + l + " " + op + " " + r + ")", nil
		}
	}
	return "", fmt.Errorf("shape not recognised: byte predicate %s", g.src(e))
}

func isContinue(stmts []ast.Stmt) bool {
	if len(stmts) != 1 {
		return false
	}
	b, ok := stmts[0].(*ast.BranchStmt)
	return ok && b.Tok == token.CONTINUE && b.Label == nil
}

// escAssign recognises `esc = "…"`.
func (g *escGen) escAssign(s ast.Stmt) (string, bool) {
	a, ok := s.(*ast.AssignStmt)
	if !ok || a.Tok != token.ASSIGN || len(a.Lhs) != 1 || len(a.Rhs) != 1 {
		return "", false
	}
	if id, ok := a.Lhs[0].(*ast.Ident); !ok || id.Name != "esc" {
		return "", false
	}
	v, err := g.stringLit(a.Rhs[0])
	if err != nil || v == "" {
		return "", false
	}
	return v, true
}

// findSwitch returns the only switch statement of fn whose tag prints as tag.
func (g *escGen) findSwitch(fn *ast.FuncDecl, tag string) (*ast.SwitchStmt, error) {
	var found []*ast.SwitchStmt
	ast.Inspect(fn.Body, func(n ast.Node) bool {
		if s, ok := n.(*ast.SwitchStmt); ok && s.Tag != nil && g.src(s.Tag) == tag && s.Init == nil {
			found = append(found, s)
		}
		return true
	})
	if len(found) != 1 {
		return nil, fmt.Errorf("shape not recognised: %s: expected exactly one `switch %s`, found %d", fn.Name.Name, tag, len(found))
	}
	return found[0], nil
}

type escCase struct {
	c    int
	esc  string
	cond string // "" or the name of the Bool parameter guarding the assignment
}

// caseTable reads a `switch s[i]` whose clauses are `esc = "…"` (optionally under
// `if <guard> { … }`), with `default: continue` when wantDefault.
func (g *escGen) caseTable(fn *ast.FuncDecl, tag string, wantDefault bool, guard string) ([]escCase, error) {
	sw, err := g.findSwitch(fn, tag)
	if err != nil {
		return nil, err
	}
	name := fn.Name.Name
	var cases []escCase
	seen := map[int]bool{}
	hasDefault := false
	for _, st := range sw.Body.List {
		cc := st.(*ast.CaseClause)
		if cc.List == nil {
			if !wantDefault || !isContinue(cc.Body) {
				return nil, fmt.Errorf("shape not recognised: %s: default clause %q", name, g.src(cc))
			}
			hasDefault = true
			continue
		}
		if len(cc.Body) != 1 {
			return nil, fmt.Errorf("shape not recognised: %s: clause %q", name, g.src(cc))
		}
		esc, ok := g.escAssign(cc.Body[0])
		cond := ""
		if !ok {
			ifs, isIf := cc.Body[0].(*ast.IfStmt)
			if !isIf || guard == "" || ifs.Init != nil || ifs.Else != nil || g.src(ifs.Cond) != guard || len(ifs.Body.List) != 1 {
				return nil, fmt.Errorf("shape not recognised: %s: clause %q", name, g.src(cc))
			}
			esc, ok = g.escAssign(ifs.Body.List[0])
			if !ok {
				return nil, fmt.Errorf("shape not recognised: %s: clause %q", name, g.src(cc))
			}
			cond = guard
		}
		for _, e := range cc.List {
			c, err := g.byteLit(e)
			if err != nil {
				return nil, fmt.Errorf("%s: %v", name, err)
			}
			if seen[c] {
				return nil, fmt.Errorf("shape not recognised: %s: duplicate case %d", name, c)
			}
			seen[c] = true
			cases = append(cases, escCase{c, esc, cond})
		}
	}
	if wantDefault != hasDefault {
		return nil, fmt.Errorf("shape not recognised: %s: default clause", name)
	}
	return cases, nil
}

func (g *escGen) emitCaseTable(leanName, params string, cases []escCase, doc string) {
	fmt.Fprintf(&g.out, "/-- %s -/\ndef %s %s(c : UInt8) : Option Bytes :=\n", doc, leanName, params)
	for i, c := range cases {
		kw := "  else if"
		if i == 0 {
			kw = "  if"
		}
		val := "some " + leanBytes(c.esc)
		if c.cond != "" {
			val = "(if " + c.cond + " then some " + leanBytes(c.esc) + " else none)"
		}
		fmt.Fprintf(&g.out, "%s c == %d then %s  -- %s => %s\n", kw, c.c, val, strconv.QuoteRune(rune(c.c)), strconv.Quote(c.esc))
	}
	if len(cases) == 0 {
		g.out.WriteString("  none\n\n")
	} else {
		g.out.WriteString("  else none\n\n")
	}
}

// stringTable reads `var name = []string{ key: "…", … }`.
func (g *escGen) stringTable(name string) ([]string, error) {
	for _, d := range g.file.Decls {
		gd, ok := d.(*ast.GenDecl)
		if !ok || gd.Tok != token.VAR {
			continue
		}
		for _, sp := range gd.Specs {
			vs := sp.(*ast.ValueSpec)
			if len(vs.Names) != 1 || vs.Names[0].Name != name {
				continue
			}
			if len(vs.Values) != 1 {
				return nil, fmt.Errorf("shape not recognised: var %s", name)
			}
			cl, ok := vs.Values[0].(*ast.CompositeLit)
			if !ok || g.src(cl.Type) != "[]string" {
				return nil, fmt.Errorf("shape not recognised: var %s is not a []string literal", name)
			}
			tbl := map[int]string{}
			idx, maxIdx := 0, -1
			for _, el := range cl.Elts {
				val := el
				if kv, ok := el.(*ast.KeyValueExpr); ok {
					k, err := g.byteLit(kv.Key)
					if err != nil {
						return nil, fmt.Errorf("%s: %v", name, err)
					}
					idx, val = k, kv.Value
				}
				s, err := g.stringLit(val)
				if err != nil {
					return nil, fmt.Errorf("%s: %v", name, err)
				}
				if _, dup := tbl[idx]; dup || idx > 255 {
					return nil, fmt.Errorf("shape not recognised: %s: index %d", name, idx)
				}
				tbl[idx] = s
				if idx > maxIdx {
					maxIdx = idx
				}
				idx++
			}
			res := make([]string, maxIdx+1)
			for k, v := range tbl {
				res[k] = v
			}
			return res, nil
		}
	}
	return nil, fmt.Errorf("shape not recognised: var %s not found", name)
}

func (g *escGen) emitStringTable(leanName string, tbl []string, doc string) {
	fmt.Fprintf(&g.out, "/-- %s (index = byte / rune value; `[]` = the Go empty string, i.e. no entry) -/\ndef %s : List Bytes := [\n", doc, leanName)
	for i, s := range tbl {
		sep := ","
		if i == len(tbl)-1 {
			sep = ""
		}
		fmt.Fprintf(&g.out, "  %s%s  -- %d: %s\n", leanBytes(s), sep, i, strconv.Quote(s))
	}
	g.out.WriteString("]\n\n")
}

// bytePredicate reads `func name(c byte) bool { [switch c { case …: return true }] return <expr> }`.
func (g *escGen) bytePredicate(name string, allowSwitch bool) (string, error) {
	fn := g.funcs[name]
	if fn == nil {
		return "", fmt.Errorf("shape not recognised: func %s not found", name)
	}
	if got := g.src(fn.Type); got != "func(c byte) bool" {
		return "", fmt.Errorf("shape not recognised: %s has signature %s", name, got)
	}
	body := fn.Body.List
	var parts []string
	if len(body) == 2 && allowSwitch {
		sw, ok := body[0].(*ast.SwitchStmt)
		if !ok || sw.Init != nil || sw.Tag == nil || g.src(sw.Tag) != "c" {
			return "", fmt.Errorf("shape not recognised: %s: first statement", name)
		}
		for _, st := range sw.Body.List {
			cc := st.(*ast.CaseClause)
			if cc.List == nil || len(cc.Body) != 1 || g.src(cc.Body[0]) != "return true" {
				return "", fmt.Errorf("shape not recognised: %s: clause %q", name, g.src(cc))
			}
			for _, e := range cc.List {
				c, err := g.byteLit(e)
				if err != nil {
					return "", fmt.Errorf("%s: %v", name, err)
				}
				parts = append(parts, fmt.Sprintf("(c == %d)", c))
			}
		}
		body = body[1:]
	}
	if len(body) != 1 {
		return "", fmt.Errorf("shape not recognised: %s: body", name)
	}
	ret, ok := body[0].(*ast.ReturnStmt)
	if !ok || len(ret.Results) != 1 {
		return "", fmt.Errorf("shape not recognised: %s: return", name)
	}
	e, err := g.boolExpr(ret.Results[0], "c")
	if err != nil {
		return "", fmt.Errorf("%s: %v", name, err)
	}
	parts = append(parts, e)
	return strings.Join(parts, " || "), nil
}

// loopBody returns the statements of the only `for i := 0; i < len(s); i++` loop of fn.
func (g *escGen) loopBody(fn *ast.FuncDecl) ([]ast.Stmt, error) {
	var loops []*ast.ForStmt
	for _, st := range fn.Body.List {
		if f, ok := st.(*ast.ForStmt); ok {
			loops = append(loops, f)
		}
	}
	if len(loops) != 1 || loops[0].Init == nil || loops[0].Cond == nil || loops[0].Post == nil ||
		g.src(loops[0].Init) != "i := 0" || g.src(loops[0].Cond) != "i < len(s)" || g.src(loops[0].Post) != "i++" {
		return nil, fmt.Errorf("shape not recognised: %s: loop header", fn.Name.Name)
	}
	return loops[0].Body.List, nil
}

// unreserved reads the leading `c := s[i]; if <expr> { continue }` of the loop of fn.
func (g *escGen) unreserved(fn *ast.FuncDecl) (string, error) {
	body, err := g.loopBody(fn)
	if err != nil {
		return "", err
	}
	name := fn.Name.Name
	if len(body) < 2 || g.src(body[0]) != "c := s[i]" {
		return "", fmt.Errorf("shape not recognised: %s: loop does not start with c := s[i]", name)
	}
	ifs, ok := body[1].(*ast.IfStmt)
	if !ok || ifs.Init != nil || ifs.Else != nil || !isContinue(ifs.Body.List) {
		return "", fmt.Errorf("shape not recognised: %s: second loop statement is not `if … { continue }`", name)
	}
	e, err := g.boolExpr(ifs.Cond, "c")
	if err != nil {
		return "", fmt.Errorf("%s: %v", name, err)
	}
	return e, nil
}

const (
	pathPercentCond  = "i+2 < len(s) && isHexDigit(s[i+1]) && isHexDigit(s[i+2])"
	hexBufStatements = "if buf == nil { buf = make([]byte, 3) buf[0] = '%' } buf[1] = hexchars[c>>4] buf[2] = hexchars[c&0xF]"
)

func (g *escGen) pathSwitch(fn *ast.FuncDecl) error {
	sw, err := g.findSwitch(fn, "c")
	if err != nil {
		return err
	}
	var keep []int
	var escs []escCase
	space, spaceEsc, percent := -1, "", -1
	seen := map[int]bool{}
	hasDefault := false
	for k, st := range sw.Body.List {
		cc := st.(*ast.CaseClause)
		bad := fmt.Errorf("shape not recognised: pathEscape: clause %q", g.src(cc))
		if cc.List == nil {
			// default: the %XX encoding of c; must be the last clause (the '%' clause falls into it)
			parts := make([]string, len(cc.Body))
			for i, s := range cc.Body {
				parts[i] = g.src(s)
			}
			if k != len(sw.Body.List)-1 || strings.Join(parts, " ") != hexBufStatements {
				return bad
			}
			hasDefault = true
			continue
		}
		var cs []int
		for _, e := range cc.List {
			c, err := g.byteLit(e)
			if err != nil {
				return fmt.Errorf("pathEscape: %v", err)
			}
			if seen[c] {
				return bad
			}
			seen[c] = true
			cs = append(cs, c)
		}
		switch {
		case isContinue(cc.Body):
			keep = append(keep, cs...)
		case len(cc.Body) == 1:
			esc, ok := g.escAssign(cc.Body[0])
			if !ok {
				return bad
			}
			for _, c := range cs {
				escs = append(escs, escCase{c, esc, ""})
			}
		case len(cc.Body) == 2 && len(cs) == 1:
			ifs, ok := cc.Body[0].(*ast.IfStmt)
			if !ok || ifs.Init != nil || ifs.Else != nil || !isContinue(ifs.Body.List) {
				return bad
			}
			if esc, ok := g.escAssign(cc.Body[1]); ok && g.src(ifs.Cond) == "quoted" && space < 0 {
				space, spaceEsc = cs[0], esc
			} else if br, ok := cc.Body[1].(*ast.BranchStmt); ok && br.Tok == token.FALLTHROUGH && g.src(ifs.Cond) == pathPercentCond &&
				percent < 0 && k == len(sw.Body.List)-2 {
				percent = cs[0]
			} else {
				return bad
			}
		default:
			return bad
		}
	}
	if !hasDefault || space < 0 || percent < 0 {
		return fmt.Errorf("shape not recognised: pathEscape: switch lacks the default, the `if quoted` or the %%XX look-ahead clause")
	}
	g.out.WriteString("/-- pathEscape: `case …: continue` -/\ndef pathKeepCase (c : UInt8) : Bool :=\n  ")
	parts := []string{}
	for _, c := range keep {
		parts = append(parts, fmt.Sprintf("c == %d", c))
	}
	if len(parts) == 0 {
		parts = []string{"false"}
	}
	g.out.WriteString(strings.Join(parts, " || ") + "\n\n")
	g.emitCaseTable("pathEscCase", "", escs, "pathEscape: `case 'x': esc = \"…\"`")
	fmt.Fprintf(&g.out, "/-- pathEscape: `case %s: if quoted { continue }; esc = %s` -/\ndef pathSpaceChar : UInt8 := %d\ndef pathSpaceEsc : Bytes := %s\n\n",
		strconv.QuoteRune(rune(space)), strconv.Quote(spaceEsc), space, leanBytes(spaceEsc))
	fmt.Fprintf(&g.out, "/-- pathEscape: `case %s: if %s { continue }; fallthrough` into the default (%%XX) -/\ndef pathPercentChar : UInt8 := %d\n\n",
		strconv.QuoteRune(rune(percent)), pathPercentCond, percent)
	return nil
}

func genEscapeTables(repo string) (string, error) {
	g := &escGen{fset: token.NewFileSet(), funcs: map[string]*ast.FuncDecl{}}
	path := filepath.Join(repo, "internal", "runtime", "escapers.go")
	f, err := parser.ParseFile(g.fset, path, nil, parser.SkipObjectResolution)
	if err != nil {
		return "", fmt.Errorf("shape not recognised: %v", err)
	}
	g.file = f
	for _, d := range f.Decls {
		if fd, ok := d.(*ast.FuncDecl); ok && fd.Recv == nil && fd.Body != nil {
			g.funcs[fd.Name.Name] = fd
		}
	}
	need := func(name string) (*ast.FuncDecl, error) {
		if fn := g.funcs[name]; fn != nil {
			return fn, nil
		}
		return nil, fmt.Errorf("shape not recognised: func %s not found", name)
	}
	g.out.WriteString("import ScriggoV.Basic.Bytes\n/-! Byte tables and byte predicates of internal/runtime/escapers.go. -/\nnamespace ScriggoV.Gen.EscapeTables\nopen ScriggoV\n\n")

	// hexchars
	hex := ""
	for _, d := range f.Decls {
		if gd, ok := d.(*ast.GenDecl); ok && gd.Tok == token.CONST {
			for _, sp := range gd.Specs {
				vs := sp.(*ast.ValueSpec)
				if len(vs.Names) == 1 && vs.Names[0].Name == "hexchars" && len(vs.Values) == 1 {
					if hex, err = g.stringLit(vs.Values[0]); err != nil {
						return "", err
					}
				}
			}
		}
	}
	if len(hex) != 16 {
		return "", fmt.Errorf("shape not recognised: const hexchars is not a 16-byte string")
	}
	fmt.Fprintf(&g.out, "/-- `const hexchars = %s` -/\ndef hexchars : Bytes := %s\n\n", strconv.Quote(hex), leanBytes(hex))

	// htmlEscape, htmlNoEntitiesEscape, attributeEscape
	for _, n := range []string{"htmlEscape", "htmlNoEntitiesEscape"} {
		fn, err := need(n)
		if err != nil {
			return "", err
		}
		cases, err := g.caseTable(fn, "s[i]", true, "")
		if err != nil {
			return "", err
		}
		g.emitCaseTable(n+"Case", "", cases, "the `switch s[i]` of "+n+" (`none` = `default: continue`)")
	}
	fn, err := need("attributeEscape")
	if err != nil {
		return "", err
	}
	if got, want := g.src(fn.Type), "func(w strWriter, s string, escapeEntities, quoted bool) error"; got != want {
		return "", fmt.Errorf("shape not recognised: attributeEscape has signature %s", got)
	}
	if len(fn.Body.List) == 0 || g.src(fn.Body.List[0]) != "if quoted { if escapeEntities { return htmlEscape(w, s) } return htmlNoEntitiesEscape(w, s) }" {
		return "", fmt.Errorf("shape not recognised: attributeEscape: quoted prelude")
	}
	cases, err := g.caseTable(fn, "s[i]", false, "escapeEntities")
	if err != nil {
		return "", err
	}
	g.emitCaseTable("attributeEscapeCase", "(escapeEntities : Bool) ", cases,
		"the `switch s[i]` of the unquoted loop of attributeEscape (`none` = esc stays \"\"); quoted attributes use htmlEscape / htmlNoEntitiesEscape")

	// CSS
	css, err := g.stringTable("cssStringEscapes")
	if err != nil {
		return "", err
	}
	g.emitStringTable("cssStringEscapes", css, "`var cssStringEscapes`")
	p, err := g.bytePredicate("prefixWithSpace", true)
	if err != nil {
		return "", err
	}
	fmt.Fprintf(&g.out, "/-- `func prefixWithSpace` -/\ndef prefixWithSpace (c : UInt8) : Bool :=\n  %s\n\n", p)

	// JS
	js, err := g.stringTable("jsStringEscapes")
	if err != nil {
		return "", err
	}
	g.emitStringTable("jsStringEscapes", js, "`var jsStringEscapes`")

	// URL
	p, err = g.bytePredicate("isHexDigit", false)
	if err != nil {
		return "", err
	}
	fmt.Fprintf(&g.out, "/-- `func isHexDigit` -/\ndef isHexDigit (c : UInt8) : Bool :=\n  %s\n\n", p)
	fn, err = need("queryEscape")
	if err != nil {
		return "", err
	}
	p, err = g.unreserved(fn)
	if err != nil {
		return "", err
	}
	fmt.Fprintf(&g.out, "/-- queryEscape: `if … { continue }` (bytes written unchanged) -/\ndef queryUnreserved (c : UInt8) : Bool :=\n  %s\n\n", p)
	body, _ := g.loopBody(fn)
	if len(body) < 5 || g.src(body[2])+" "+g.src(body[3])+" "+g.src(body[4]) != hexBufStatements {
		return "", fmt.Errorf("shape not recognised: queryEscape: %%XX encoding statements")
	}
	fn, err = need("pathEscape")
	if err != nil {
		return "", err
	}
	p, err = g.unreserved(fn)
	if err != nil {
		return "", err
	}
	fmt.Fprintf(&g.out, "/-- pathEscape: leading `if … { continue }` -/\ndef pathAlnum (c : UInt8) : Bool :=\n  %s\n\n", p)
	if err := g.pathSwitch(fn); err != nil {
		return "", err
	}
	g.out.WriteString("end ScriggoV.Gen.EscapeTables\n")
	return g.out.String(), nil
}
