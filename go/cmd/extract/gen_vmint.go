package main

// Generator "VMInt" (property C01, stage one): a small partial evaluator over go/ast.
//
// For every integer opcode case body of (*VM).run in internal/runtime/run.go and every integer
// reflect.Kind, the body is executed symbolically with the kind KNOWN (switch/if on the kind are
// folded), vm.int(x)/vm.intk(x, op < 0) as the symbolic 64-bit inputs and the argument of
// vm.setInt as the output; the result is one closed BitVec-64 term per (opcode, kind). The same
// evaluator runs flattenIntegerKind (builder.go) and the emitAdd … emitShr/emitNeg/emitAnd …
// functions of builder_instructions.go with the kind known, giving the opcode and the operand
// placement the emitter chooses. Anything outside the recognised subset is an error
// ("shape not recognised: …"): nothing is guessed.

import (
	"bytes"
	"fmt"
	"go/ast"
	"go/parser"
	"go/printer"
	"go/token"
	"path/filepath"
	"reflect"
	"strconv"
	"strings"
)

func init() { generators = append(generators, generator{name: "VMInt", run: genVMInt}) }

type vTag int

const (
	tBV      vTag = iota // Lean term of type BitVec w, Go integer type (w, signed)
	tBool                // Lean term of type Bool
	tKnown               // boolean known at translation time
	tKind                // a known reflect.Kind
	tName                // a named constant (runtime.OpX, ConditionX), possibly negated
	tOperand             // one of the instruction operands a b c / emitter parameters x y z
	tRType               // a reflect.Type whose Kind() is the known kind
	tInt                 // an untyped integer constant
	tInstr               // emitter result
	tStr                 // Lean term of type Bytes (a Go string)
)

type value struct {
	tag    vTag
	term   string
	w      int
	signed bool
	k      reflect.Kind
	name   string
	b      bool
	n      int64
	fields map[string]*value
}

type guard struct{ cond, fault string }

type vmiErr struct{ msg string }

type interp struct {
	fset     *token.FileSet
	emit     bool         // emitter mode (builder_instructions.go) rather than VM mode (run.go)
	kind     reflect.Kind // the known kind
	cond     string       // the known Condition (OpIfInt), "" otherwise
	role     map[string]string
	guards   []guard
	out      *value
	scopes   []map[string]*value
	zEqX     bool
	funcs    map[string]*ast.FuncDecl // callable helper functions (flattenIntegerKind)
	returned *value
}

var intKinds = []reflect.Kind{reflect.Int, reflect.Int8, reflect.Int16, reflect.Int32, reflect.Int64,
	reflect.Uint, reflect.Uint8, reflect.Uint16, reflect.Uint32, reflect.Uint64, reflect.Uintptr}

var kindByName = func() map[string]reflect.Kind {
	m := map[string]reflect.Kind{}
	for k := reflect.Invalid; k <= reflect.UnsafePointer; k++ {
		s := k.String()
		m[strings.ToUpper(s[:1])+s[1:]] = k
	}
	m["Ptr"] = reflect.Pointer
	m["Pointer"] = reflect.Pointer
	m["UnsafePointer"] = reflect.UnsafePointer
	return m
}()

// goIntType gives width and signedness of a Go integer type name (amd64).
func goIntType(name string) (w int, signed bool, ok bool) {
	switch name {
	case "int", "int64":
		return 64, true, true
	case "int8":
		return 8, true, true
	case "int16":
		return 16, true, true
	case "int32", "rune":
		return 32, true, true
	case "uint", "uint64", "uintptr":
		return 64, false, true
	case "uint8", "byte":
		return 8, false, true
	case "uint16":
		return 16, false, true
	case "uint32":
		return 32, false, true
	}
	return 0, false, false
}

func leanKind(k reflect.Kind) string { return "." + k.String() }

func (it *interp) fail(n ast.Node, format string, args ...any) {
	var buf bytes.Buffer
	if n != nil {
		printer.Fprint(&buf, it.fset, n)
	}
	src := buf.String()
	if len(src) > 120 {
		src = src[:120] + "…"
	}
	pos := ""
	if n != nil {
		p := it.fset.Position(n.Pos())
		pos = fmt.Sprintf("%s:%d: ", filepath.Base(p.Filename), p.Line)
	}
	panic(vmiErr{fmt.Sprintf("shape not recognised: %s%s: `%s`", pos, fmt.Sprintf(format, args...), strings.ReplaceAll(src, "\n", " "))})
}

func (it *interp) src(n ast.Node) string {
	var buf bytes.Buffer
	printer.Fprint(&buf, it.fset, n)
	return buf.String()
}

func (it *interp) push() { it.scopes = append(it.scopes, map[string]*value{}) }
func (it *interp) pop()  { it.scopes = it.scopes[:len(it.scopes)-1] }
func (it *interp) lookup(name string) *value {
	for i := len(it.scopes) - 1; i >= 0; i-- {
		if v, ok := it.scopes[i][name]; ok {
			return v
		}
	}
	return nil
}
func (it *interp) assign(n ast.Node, name string, v *value) {
	for i := len(it.scopes) - 1; i >= 0; i-- {
		if old, ok := it.scopes[i][name]; ok {
			if it.emit && old.tag == tOperand && v.tag == tKind {
				// x = int8(flattenIntegerKind(kind)): the A field carries the kind from here on
			} else if old.tag != v.tag || (v.tag == tBV && (old.w != v.w || old.signed != v.signed)) {
				it.fail(n, "assignment changes the type of %s", name)
			}
			it.scopes[i][name] = v
			return
		}
	}
	it.fail(n, "assignment to undeclared %s", name)
}

// useOperand records how an instruction operand is used; one operand cannot be both a register
// index and a kind/condition/type index in one execution.
func (it *interp) useOperand(n ast.Node, letter, role string) {
	if old, ok := it.role[letter]; ok && old != role {
		it.fail(n, "operand %s used both as %s and as %s", letter, old, role)
	}
	it.role[letter] = role
}

// ---------------------------------------------------------------- expressions

func (it *interp) constBV(n ast.Node, c int64, w int, signed bool) *value {
	if c < 0 {
		it.fail(n, "negative constant")
	}
	return &value{tag: tBV, term: fmt.Sprintf("%d#%d", c, w), w: w, signed: signed}
}

func (it *interp) convert(n ast.Node, v *value, w int, signed bool) *value {
	switch v.tag {
	case tInt:
		return it.constBV(n, v.n, w, signed)
	case tKind:
		return v // int8(flattenIntegerKind(kind)): still the kind
	case tBV:
		switch {
		case w == v.w:
			return &value{tag: tBV, term: v.term, w: w, signed: signed} // reinterpretation
		case w < v.w:
			return &value{tag: tBV, term: fmt.Sprintf("(BitVec.setWidth %d %s)", w, v.term), w: w, signed: signed}
		case v.signed:
			return &value{tag: tBV, term: fmt.Sprintf("(BitVec.signExtend %d %s)", w, v.term), w: w, signed: signed}
		default:
			return &value{tag: tBV, term: fmt.Sprintf("(BitVec.setWidth %d %s)", w, v.term), w: w, signed: signed}
		}
	}
	it.fail(n, "conversion of a non-integer")
	return nil
}

func (it *interp) eval(e ast.Expr) *value {
	switch e := e.(type) {
	case *ast.ParenExpr:
		return it.eval(e.X)
	case *ast.BasicLit:
		if e.Kind != token.INT {
			it.fail(e, "literal")
		}
		n, err := strconv.ParseInt(e.Value, 0, 64)
		if err != nil {
			it.fail(e, "literal")
		}
		return &value{tag: tInt, n: n}
	case *ast.Ident:
		if v := it.lookup(e.Name); v != nil {
			return v
		}
		switch {
		case e.Name == "true" || e.Name == "false":
			return &value{tag: tKnown, b: e.Name == "true"}
		case strings.HasPrefix(e.Name, "Condition") && len(e.Name) > 9, strings.HasPrefix(e.Name, "Op") && len(e.Name) > 2:
			return &value{tag: tName, name: e.Name}
		}
		it.fail(e, "unknown identifier")
	case *ast.SelectorExpr:
		if pkg, ok := e.X.(*ast.Ident); ok && it.lookup(pkg.Name) == nil {
			switch pkg.Name {
			case "reflect":
				if k, ok := kindByName[e.Sel.Name]; ok {
					return &value{tag: tKind, k: k}
				}
			case "runtime":
				if strings.HasPrefix(e.Sel.Name, "Op") || strings.HasPrefix(e.Sel.Name, "Condition") {
					return &value{tag: tName, name: e.Sel.Name}
				}
			case "strconv":
				if e.Sel.Name == "IntSize" {
					return &value{tag: tInt, n: 64} // amd64
				}
			case "unicode":
				switch e.Sel.Name {
				case "ReplacementChar":
					return &value{tag: tInt, n: 0xFFFD}
				case "MaxRune":
					return &value{tag: tInt, n: 0x10FFFF}
				}
			case "math":
				if e.Sel.Name == "MaxUint32" {
					return &value{tag: tInt, n: 1<<32 - 1}
				}
			}
		}
		it.fail(e, "selector")
	case *ast.IndexExpr:
		// t := vm.fn.Types[uint8(b)]
		if it.src(e.X) == "vm.fn.Types" {
			if call, ok := e.Index.(*ast.CallExpr); ok && it.src(call.Fun) == "uint8" && len(call.Args) == 1 {
				if op := it.eval(call.Args[0]); op.tag == tOperand {
					it.useOperand(e, op.name, "type")
					return &value{tag: tRType, k: it.kind}
				}
			}
		}
		it.fail(e, "index expression")
	case *ast.UnaryExpr:
		if e.Op == token.XOR && it.src(e) == "^uintptr(0)" {
			return &value{tag: tInt, n: -1, name: "maxuintptr"} // amd64: 2^64-1, only ever compared
		}
		v := it.eval(e.X)
		switch {
		case e.Op == token.SUB && v.tag == tBV:
			return &value{tag: tBV, term: "(-" + v.term + ")", w: v.w, signed: v.signed}
		case e.Op == token.XOR && v.tag == tBV:
			return &value{tag: tBV, term: "(~~~" + v.term + ")", w: v.w, signed: v.signed}
		case e.Op == token.SUB && v.tag == tName && it.emit:
			if strings.HasPrefix(v.name, "-") {
				return &value{tag: tName, name: v.name[1:]}
			}
			return &value{tag: tName, name: "-" + v.name}
		case e.Op == token.NOT && v.tag == tKnown:
			return &value{tag: tKnown, b: !v.b}
		case e.Op == token.NOT && v.tag == tBool:
			return &value{tag: tBool, term: "(!" + v.term + ")"}
		}
		it.fail(e, "unary operator")
	case *ast.BinaryExpr:
		return it.evalBinary(e)
	case *ast.CallExpr:
		return it.evalCall(e)
	}
	it.fail(e, "expression")
	return nil
}

func (it *interp) evalBinary(e *ast.BinaryExpr) *value {
	if it.src(e) == "op < 0" {
		it.fail(e, "use of the sign of op outside intk")
	}
	x, y := it.eval(e.X), it.eval(e.Y)
	// amd64 facts used by flattenIntegerKind
	if x.tag == tInt && x.name == "maxuintptr" && e.Op == token.EQL && it.src(e.Y) == "math.MaxUint32" {
		return &value{tag: tKnown, b: false}
	}
	// untyped constants take the type of the other operand
	if x.tag == tInt && y.tag == tBV && x.name == "" {
		x = it.constBV(e.X, x.n, y.w, y.signed)
	}
	if y.tag == tInt && x.tag == tBV && y.name == "" && e.Op != token.SHL && e.Op != token.SHR {
		y = it.constBV(e.Y, y.n, x.w, x.signed)
	}
	known := func(b bool) *value { return &value{tag: tKnown, b: b} }
	switch {
	case x.tag == tKnown && y.tag == tKnown:
		switch e.Op {
		case token.LAND:
			return known(x.b && y.b)
		case token.LOR:
			return known(x.b || y.b)
		case token.EQL:
			return known(x.b == y.b)
		case token.NEQ:
			return known(x.b != y.b)
		}
	case x.tag == tInt && y.tag == tInt && x.name == "" && y.name == "":
		switch e.Op {
		case token.EQL:
			return known(x.n == y.n)
		case token.NEQ:
			return known(x.n != y.n)
		case token.LSS:
			return known(x.n < y.n)
		case token.LEQ:
			return known(x.n <= y.n)
		case token.GTR:
			return known(x.n > y.n)
		case token.GEQ:
			return known(x.n >= y.n)
		}
	case x.tag == tKind && y.tag == tKind:
		switch e.Op {
		case token.EQL:
			return known(x.k == y.k)
		case token.NEQ:
			return known(x.k != y.k)
		case token.LSS:
			return known(x.k < y.k)
		case token.LEQ:
			return known(x.k <= y.k)
		case token.GTR:
			return known(x.k > y.k)
		case token.GEQ:
			return known(x.k >= y.k)
		}
	case x.tag == tName && y.tag == tName:
		switch e.Op {
		case token.EQL:
			return known(x.name == y.name)
		case token.NEQ:
			return known(x.name != y.name)
		}
	case x.tag == tOperand && y.tag == tOperand && it.emit:
		// `if z != x { panic(…) }`: the emitter requires the two registers to coincide
		if e.Op == token.NEQ && ((x.name == "z" && y.name == "x") || (x.name == "x" && y.name == "z")) {
			it.zEqX = true
			return known(false)
		}
	case x.tag == tBool && y.tag == tBool:
		switch e.Op {
		case token.LAND:
			return &value{tag: tBool, term: "(" + x.term + " && " + y.term + ")"}
		case token.LOR:
			return &value{tag: tBool, term: "(" + x.term + " || " + y.term + ")"}
		}
	case x.tag == tBV && y.tag == tBV && (e.Op == token.SHL || e.Op == token.SHR):
		if y.signed {
			// Go: a negative count of signed type is a run-time panic
			it.guards = append(it.guards, guard{fmt.Sprintf("BitVec.slt %s 0#%d", y.term, y.w), ".negShift"})
		}
		fn := "goShl"
		if e.Op == token.SHR {
			fn = "goShrU"
			if x.signed {
				fn = "goShrS"
			}
		}
		return &value{tag: tBV, term: fmt.Sprintf("(%s %s %s)", fn, x.term, y.term), w: x.w, signed: x.signed}
	case x.tag == tBV && y.tag == tBV:
		if x.w != y.w || x.signed != y.signed {
			it.fail(e, "operands of different integer types")
		}
		bv := func(format string) *value {
			return &value{tag: tBV, term: fmt.Sprintf(format, x.term, y.term), w: x.w, signed: x.signed}
		}
		bl := func(format string) *value { return &value{tag: tBool, term: fmt.Sprintf(format, x.term, y.term)} }
		su := func(s, u string) string {
			if x.signed {
				return s
			}
			return u
		}
		switch e.Op {
		case token.ADD:
			return bv("(%s + %s)")
		case token.SUB:
			return bv("(%s - %s)")
		case token.MUL:
			return bv("(%s * %s)")
		case token.QUO, token.REM:
			// Go: integer division by zero is a run-time panic
			it.guards = append(it.guards, guard{fmt.Sprintf("%s = 0#%d", y.term, y.w), ".divZero"})
			if e.Op == token.QUO {
				return bv(su("(BitVec.sdiv %s %s)", "(BitVec.udiv %s %s)"))
			}
			return bv(su("(BitVec.srem %s %s)", "(BitVec.umod %s %s)"))
		case token.AND:
			return bv("(%s &&& %s)")
		case token.OR:
			return bv("(%s ||| %s)")
		case token.XOR:
			return bv("(%s ^^^ %s)")
		case token.AND_NOT:
			return bv("(%s &&& ~~~%s)")
		case token.EQL:
			return bl("(%s == %s)")
		case token.NEQ:
			return bl("(%s != %s)")
		case token.LSS:
			return bl(su("(BitVec.slt %s %s)", "(BitVec.ult %s %s)"))
		case token.LEQ:
			return bl(su("(BitVec.sle %s %s)", "(BitVec.ule %s %s)"))
		case token.GTR:
			return bl(su("(BitVec.slt %[2]s %[1]s)", "(BitVec.ult %[2]s %[1]s)"))
		case token.GEQ:
			return bl(su("(BitVec.sle %[2]s %[1]s)", "(BitVec.ule %[2]s %[1]s)"))
		}
	}
	it.fail(e, "binary operator")
	return nil
}

func (it *interp) evalCall(e *ast.CallExpr) *value {
	fun := it.src(e.Fun)
	if w, signed, ok := goIntType(fun); ok && len(e.Args) == 1 {
		return it.convert(e, it.eval(e.Args[0]), w, signed)
	}
	if fun == "string" && len(e.Args) == 1 && !it.emit {
		// Go: string(r) for a rune r is its UTF-8 encoding, "\uFFFD" for an invalid code point
		switch v := it.eval(e.Args[0]); {
		case v.tag == tInt && v.name == "" && v.n >= 0:
			return &value{tag: tStr, term: fmt.Sprintf("(goStringOfRune %d#32)", v.n)}
		case v.tag == tBV && v.w == 32 && v.signed:
			return &value{tag: tStr, term: "(goStringOfRune " + v.term + ")"}
		}
		it.fail(e, "string conversion of something that is not a rune")
	}
	switch {
	case fun == "reflect.Kind" && len(e.Args) == 1 && !it.emit:
		if op := it.eval(e.Args[0]); op.tag == tOperand {
			it.useOperand(e, op.name, "kind")
			return &value{tag: tKind, k: it.kind}
		}
	case fun == "Condition" && len(e.Args) == 1 && !it.emit && it.cond != "":
		if op := it.eval(e.Args[0]); op.tag == tOperand {
			it.useOperand(e, op.name, "condition")
			return &value{tag: tName, name: it.cond}
		}
	case (fun == "vm.int" && len(e.Args) == 1 || fun == "vm.intk" && len(e.Args) == 2) && !it.emit:
		if fun == "vm.intk" && it.src(e.Args[1]) != "op < 0" {
			it.fail(e, "second argument of intk")
		}
		if op := it.eval(e.Args[0]); op.tag == tOperand {
			it.useOperand(e, op.name, "register")
			return &value{tag: tBV, term: "r" + op.name, w: 64, signed: true}
		}
	case len(e.Args) == 0 && !it.emit:
		if sel, ok := e.Fun.(*ast.SelectorExpr); ok && sel.Sel.Name == "Kind" {
			if t := it.eval(sel.X); t.tag == tRType {
				return &value{tag: tKind, k: t.k}
			}
		}
	case it.emit && it.funcs[fun] != nil && len(e.Args) == 1:
		return it.callFunc(e, it.funcs[fun], it.eval(e.Args[0]))
	}
	it.fail(e, "call")
	return nil
}

func (it *interp) callFunc(at ast.Node, fd *ast.FuncDecl, arg *value) *value {
	if fd.Type.Params.NumFields() != 1 || len(fd.Type.Params.List[0].Names) != 1 {
		it.fail(at, "helper function signature")
	}
	saved, savedRet := it.scopes, it.returned
	it.scopes, it.returned = []map[string]*value{{fd.Type.Params.List[0].Names[0].Name: arg}}, nil
	it.execBlock(fd.Body.List)
	ret := it.returned
	it.scopes, it.returned = saved, savedRet
	if ret == nil {
		it.fail(at, "helper function does not return")
	}
	return ret
}

// ---------------------------------------------------------------- statements

// execBlock runs the statements; it reports whether a return was executed.
func (it *interp) execBlock(list []ast.Stmt) bool {
	for _, s := range list {
		if it.exec(s) {
			return true
		}
	}
	return false
}

func (it *interp) exec(s ast.Stmt) bool {
	switch s := s.(type) {
	case *ast.BlockStmt:
		it.push()
		defer it.pop()
		return it.execBlock(s.List)
	case *ast.ReturnStmt:
		if len(s.Results) != 1 {
			it.fail(s, "return")
		}
		it.returned = it.eval(s.Results[0])
		return true
	case *ast.DeclStmt:
		gd, ok := s.Decl.(*ast.GenDecl)
		if !ok || gd.Tok != token.VAR || len(gd.Specs) != 1 {
			it.fail(s, "declaration")
		}
		vs := gd.Specs[0].(*ast.ValueSpec)
		if len(vs.Names) != 1 || len(vs.Values) > 1 {
			it.fail(s, "declaration")
		}
		var v *value
		if len(vs.Values) == 1 {
			v = it.eval(vs.Values[0])
			if vs.Type != nil {
				it.fail(s, "declaration with type and value")
			}
		} else {
			tn := it.src(vs.Type)
			if w, signed, ok := goIntType(tn); ok {
				v = &value{tag: tBV, term: fmt.Sprintf("0#%d", w), w: w, signed: signed}
			} else if tn == "bool" {
				v = &value{tag: tBool, term: "false"}
			} else if tn == "runtime.Operation" && it.emit {
				v = &value{tag: tName, name: "OpNone"}
			} else {
				it.fail(s, "declared type")
			}
		}
		it.scopes[len(it.scopes)-1][vs.Names[0].Name] = v
	case *ast.AssignStmt:
		if it.emit && len(s.Lhs) == 1 && it.src(s.Lhs[0]) == "fb.fn.Body" && s.Tok == token.ASSIGN {
			it.emitted(s)
			return false
		}
		if len(s.Lhs) != 1 || len(s.Rhs) != 1 {
			it.fail(s, "assignment")
		}
		id, ok := s.Lhs[0].(*ast.Ident)
		if !ok {
			it.fail(s, "assignment target")
		}
		v := it.eval(s.Rhs[0])
		if v.tag == tKnown && s.Tok == token.ASSIGN {
			if old := it.lookup(id.Name); old != nil && old.tag == tBool {
				v = &value{tag: tBool, term: strconv.FormatBool(v.b)}
			}
		}
		switch s.Tok {
		case token.DEFINE:
			it.scopes[len(it.scopes)-1][id.Name] = v
		case token.ASSIGN:
			it.assign(s, id.Name, v)
		default:
			it.fail(s, "assignment operator")
		}
	case *ast.SwitchStmt:
		it.push()
		defer it.pop()
		if s.Init != nil {
			it.exec(s.Init)
		}
		if s.Tag == nil {
			it.fail(s, "switch without tag")
		}
		tag := it.eval(s.Tag)
		if tag.tag != tKind && tag.tag != tName {
			it.fail(s.Tag, "switch on a value not known at translation time")
		}
		var chosen, deflt *ast.CaseClause
		for _, c := range s.Body.List {
			cc := c.(*ast.CaseClause)
			if cc.List == nil {
				deflt = cc
				continue
			}
			for _, x := range cc.List {
				v := it.eval(x)
				if v.tag != tag.tag {
					it.fail(x, "case of another type than the tag")
				}
				if chosen == nil && ((v.tag == tKind && v.k == tag.k) || (v.tag == tName && v.name == tag.name)) {
					chosen = cc
				}
			}
		}
		if chosen == nil {
			chosen = deflt
		}
		if chosen != nil {
			it.push()
			defer it.pop()
			for _, st := range chosen.Body {
				if _, ok := st.(*ast.BranchStmt); ok {
					it.fail(st, "branch statement")
				}
			}
			return it.execBlock(chosen.Body)
		}
	case *ast.IfStmt:
		if s.Init != nil {
			it.fail(s, "if with init")
		}
		c := it.eval(s.Cond)
		switch c.tag {
		case tKnown:
			if c.b {
				return it.exec(s.Body)
			} else if s.Else != nil {
				return it.exec(s.Else)
			}
		case tBool:
			// `if cond { vm.pc++ }`: the result of an OpIf… instruction
			if !it.emit && s.Else == nil && len(s.Body.List) == 1 && it.src(s.Body.List[0]) == "vm.pc++" {
				if it.out != nil {
					it.fail(s, "second output")
				}
				it.out = c
				return false
			}
			// `if cond { x = e; … }` without else: the assigned variables become conditional terms
			if !it.emit && s.Else == nil {
				type upd struct {
					name string
					v    *value
				}
				var upds []upd
				for _, st := range s.Body.List {
					as, ok := st.(*ast.AssignStmt)
					if !ok || as.Tok != token.ASSIGN || len(as.Lhs) != 1 || len(as.Rhs) != 1 {
						it.fail(st, "statement under a run-time condition")
					}
					id, ok := as.Lhs[0].(*ast.Ident)
					if !ok || it.lookup(id.Name) == nil {
						it.fail(st, "assignment target under a run-time condition")
					}
					for _, u := range upds {
						if u.name == id.Name {
							it.fail(st, "second assignment under a run-time condition")
						}
					}
					guards := len(it.guards)
					v := it.eval(as.Rhs[0])
					if len(it.guards) != guards {
						it.fail(st, "faulting operation under a run-time condition")
					}
					upds = append(upds, upd{id.Name, v})
				}
				for _, u := range upds {
					old := it.lookup(u.name)
					if old.tag != u.v.tag || (old.tag != tStr && old.tag != tBV && old.tag != tBool) ||
						(old.tag == tBV && (old.w != u.v.w || old.signed != u.v.signed)) {
						it.fail(s, "conditional assignment changes the type of %s", u.name)
					}
					m := *u.v
					m.term = fmt.Sprintf("(if %s then %s else %s)", c.term, u.v.term, old.term)
					it.assign(s, u.name, &m)
				}
				return false
			}
			it.fail(s, "if on a run-time condition")
		default:
			it.fail(s, "if condition")
		}
	case *ast.ExprStmt:
		call, ok := s.X.(*ast.CallExpr)
		if !ok {
			it.fail(s, "statement")
		}
		switch fun := it.src(call.Fun); {
		case fun == "vm.setInt" && len(call.Args) == 2 && !it.emit:
			dst := it.eval(call.Args[0])
			if dst.tag != tOperand || dst.name != "c" {
				it.fail(s, "destination of setInt")
			}
			v := it.eval(call.Args[1])
			if v.tag != tBV || v.w != 64 || !v.signed {
				it.fail(s, "setInt of a value that is not an int64")
			}
			if it.out != nil {
				it.fail(s, "second output")
			}
			it.out = v
		case fun == "vm.setString" && len(call.Args) == 2 && !it.emit:
			dst := it.eval(call.Args[0])
			if dst.tag != tOperand || dst.name != "c" {
				it.fail(s, "destination of setString")
			}
			v := it.eval(call.Args[1])
			if v.tag != tStr {
				it.fail(s, "setString of a value that is not a string")
			}
			if it.out != nil {
				it.fail(s, "second output")
			}
			it.out = v
		case fun == "fb.addPosAndPath" && it.emit:
			// position bookkeeping only
		default:
			it.fail(s, "call statement")
		}
	default:
		it.fail(s, "statement")
	}
	return false
}

// emitted handles `fb.fn.Body = append(fb.fn.Body, runtime.Instruction{Op: op, A: x, B: y, C: z})`.
func (it *interp) emitted(s *ast.AssignStmt) {
	call, ok := s.Rhs[0].(*ast.CallExpr)
	if !ok || it.src(call.Fun) != "append" || len(call.Args) != 2 || it.src(call.Args[0]) != "fb.fn.Body" {
		it.fail(s, "append to the function body")
	}
	lit, ok := call.Args[1].(*ast.CompositeLit)
	if !ok || it.src(lit.Type) != "runtime.Instruction" {
		it.fail(s, "instruction literal")
	}
	if it.out != nil {
		it.fail(s, "second instruction")
	}
	out := &value{tag: tInstr, fields: map[string]*value{}}
	for _, el := range lit.Elts {
		kv, ok := el.(*ast.KeyValueExpr)
		if !ok {
			it.fail(el, "instruction field")
		}
		out.fields[it.src(kv.Key)] = it.eval(kv.Value)
	}
	it.out = out
}

// ---------------------------------------------------------------- driver of the generator

func vmiCatch(err *error) {
	if r := recover(); r != nil {
		if e, ok := r.(vmiErr); ok {
			*err = fmt.Errorf("%s", e.msg)
			return
		}
		panic(r)
	}
}

// opcode case bodies of (*VM).run, by the name of the (positive) opcode
func vmCases(fset *token.FileSet, file *ast.File) (map[string]*ast.CaseClause, error) {
	var sw *ast.SwitchStmt
	for _, d := range file.Decls {
		fd, ok := d.(*ast.FuncDecl)
		if !ok || fd.Name.Name != "run" || fd.Recv == nil {
			continue
		}
		ast.Inspect(fd.Body, func(n ast.Node) bool {
			if s, ok := n.(*ast.SwitchStmt); ok && sw == nil {
				if id, ok := s.Tag.(*ast.Ident); ok && id.Name == "op" {
					sw = s
					return false
				}
			}
			return true
		})
	}
	if sw == nil {
		return nil, fmt.Errorf("shape not recognised: no `switch op` in (*VM).run")
	}
	res := map[string]*ast.CaseClause{}
	for _, c := range sw.Body.List {
		cc := c.(*ast.CaseClause)
		var names []string
		for _, x := range cc.List {
			var buf bytes.Buffer
			printer.Fprint(&buf, fset, x)
			names = append(names, buf.String())
		}
		if len(names) == 0 {
			continue
		}
		// `case OpX:` or `case OpX, -OpX:` (register and constant form share the body)
		if len(names) > 2 || (len(names) == 2 && names[1] != "-"+names[0]) {
			continue
		}
		res[names[0]] = cc
	}
	return res, nil
}

type vmOpSpec struct {
	goName, lean string
}

var vmiOps = []vmOpSpec{
	{"OpAdd", "add"}, {"OpAddInt", "addInt"}, {"OpSub", "sub"}, {"OpSubInt", "subInt"},
	{"OpSubInv", "subInv"}, {"OpSubInvInt", "subInvInt"}, {"OpMul", "mul"}, {"OpMulInt", "mulInt"},
	{"OpDiv", "div"}, {"OpDivInt", "divInt"}, {"OpRem", "rem"}, {"OpRemInt", "remInt"},
	{"OpShl", "shl"}, {"OpShlInt", "shlInt"}, {"OpShr", "shr"}, {"OpShrInt", "shrInt"},
	{"OpNeg", "neg"}, {"OpAnd", "and"}, {"OpOr", "or"}, {"OpXor", "xor"}, {"OpAndNot", "andNot"},
}

var vmiConds = []vmOpSpec{
	{"ConditionZero", "zero"}, {"ConditionNotZero", "notZero"},
	{"ConditionEqual", "equal"}, {"ConditionNotEqual", "notEqual"},
	{"ConditionLess", "less"}, {"ConditionLessEqual", "lessEqual"},
	{"ConditionGreater", "greater"}, {"ConditionGreaterEqual", "greaterEqual"},
	{"ConditionLessU", "lessU"}, {"ConditionLessEqualU", "lessEqualU"},
	{"ConditionGreaterU", "greaterU"}, {"ConditionGreaterEqualU", "greaterEqualU"},
}

var vmiEmitFns = []string{"emitAdd", "emitSub", "emitSubInv", "emitMul", "emitDiv", "emitRem",
	"emitShl", "emitShr", "emitAnd", "emitOr", "emitXor", "emitAndNot", "emitNeg"}

func (it *interp) result() string {
	if it.out == nil {
		panic(vmiErr{"shape not recognised: the body stores no integer result"})
	}
	var b strings.Builder
	for _, g := range it.guards {
		fmt.Fprintf(&b, "if %s then .error %s else ", g.cond, g.fault)
	}
	if it.out.tag == tBool || it.out.tag == tStr {
		if len(it.guards) > 0 {
			panic(vmiErr{"shape not recognised: a faulting condition"})
		}
		return it.out.term
	}
	b.WriteString(".ok " + it.out.term)
	return b.String()
}

func runVMCase(fset *token.FileSet, cc *ast.CaseClause, kind reflect.Kind, cond string) (res string, err error) {
	defer vmiCatch(&err)
	it := &interp{fset: fset, kind: kind, cond: cond, role: map[string]string{}}
	it.scopes = []map[string]*value{{
		"a": {tag: tOperand, name: "a"}, "b": {tag: tOperand, name: "b"}, "c": {tag: tOperand, name: "c"},
	}}
	it.push()
	if it.execBlock(cc.Body) {
		it.fail(cc, "return inside an opcode body")
	}
	return it.result(), nil
}

func genVMInt(repo string) (src string, err error) {
	defer vmiCatch(&err)
	fset := token.NewFileSet()
	runFile, err := parser.ParseFile(fset, filepath.Join(repo, "internal/runtime/run.go"), nil, 0)
	if err != nil {
		return "", err
	}
	cases, err := vmCases(fset, runFile)
	if err != nil {
		return "", err
	}
	var b strings.Builder
	b.WriteString(`import ScriggoV.Basic.GoBV
/-! Integer opcode bodies of internal/runtime/run.go as closed BitVec-64 terms, one per
(opcode, kind), and the kind→opcode choice of internal/compiler/builder_instructions.go.
` + "`ra rb rc`" + ` are the contents of the integer registers named by the operands A, B, C
(B may be the constant form: ` + "`vm.intk(b, op < 0)`" + `). -/
set_option linter.unusedVariables false
namespace ScriggoV.Gen.VMInt
open ScriggoV

/-- the opcodes whose case bodies are translated below -/
inductive VOp
`)
	b.WriteString(" ")
	for _, op := range vmiOps {
		b.WriteString(" | " + op.lean)
	}
	b.WriteString("\n  deriving DecidableEq, Repr, Inhabited\n\n/-- the integer conditions of OpIfInt -/\ninductive Cond\n ")
	for _, c := range vmiConds {
		b.WriteString(" | " + c.lean)
	}
	b.WriteString("\n  deriving DecidableEq, Repr, Inhabited\n\n")

	// opcode bodies: one definition per opcode (small matchers keep the proofs fast)
	for _, op := range vmiOps {
		cc := cases[op.goName]
		if cc == nil {
			return "", fmt.Errorf("shape not recognised: no `case %s, -%[1]s:` (or `case %[1]s:`) in (*VM).run", op.goName)
		}
		fmt.Fprintf(&b, "/-- `case %s…:` of `(*VM).run` with the kind operand known -/\n", op.goName)
		fmt.Fprintf(&b, "def body_%s : Kind → BitVec 64 → BitVec 64 → BitVec 64 → Except Fault (BitVec 64)\n", op.lean)
		for _, k := range intKinds {
			term, err := runVMCase(fset, cc, k, "")
			if err != nil {
				return "", fmt.Errorf("%s at kind %s: %v", op.goName, k, err)
			}
			fmt.Fprintf(&b, "  | %s, ra, rb, rc => %s\n", leanKind(k), term)
		}
		b.WriteString("\n")
	}
	b.WriteString("/-- the integer opcode bodies of `(*VM).run`, by opcode and kind operand -/\n")
	b.WriteString("def vmBody : VOp → Kind → BitVec 64 → BitVec 64 → BitVec 64 → Except Fault (BitVec 64)\n")
	for _, op := range vmiOps {
		fmt.Fprintf(&b, "  | .%s => body_%s\n", op.lean, op.lean)
	}
	// conversions
	for _, cv := range []struct{ goName, lean, doc string }{
		{"OpConvertInt", "vmConvertInt", "`case OpConvertInt:` with the kind of the destination type known"},
		{"OpConvertUint", "vmConvertUint", "`case OpConvertUint:` with the kind of the destination type known"},
	} {
		cc := cases[cv.goName]
		if cc == nil {
			return "", fmt.Errorf("shape not recognised: no `case %s:` in (*VM).run", cv.goName)
		}
		fmt.Fprintf(&b, "\n/-- %s -/\ndef %s : Kind → BitVec 64 → Except Fault (BitVec 64)\n", cv.doc, cv.lean)
		for _, k := range intKinds {
			term, err := runVMCase(fset, cc, k, "")
			if err != nil {
				return "", fmt.Errorf("%s to kind %s: %v", cv.goName, k, err)
			}
			fmt.Fprintf(&b, "  | %s, ra => %s\n", leanKind(k), term)
		}
	}
	// conversions to string
	for _, cv := range []struct{ goName, lean string }{{"OpConvertInt", "vmConvertIntStr"}, {"OpConvertUint", "vmConvertUintStr"}} {
		term, err := runVMCase(fset, cases[cv.goName], reflect.String, "")
		if err != nil {
			return "", fmt.Errorf("%s to string: %v", cv.goName, err)
		}
		fmt.Fprintf(&b, "\n/-- `case %s:` with a destination type of kind String -/\ndef %s (ra : BitVec 64) : Bytes := %s\n", cv.goName, cv.lean, term)
	}
	// OpIfInt
	cc := cases["OpIfInt"]
	if cc == nil {
		return "", fmt.Errorf("shape not recognised: no `case OpIfInt, -OpIfInt:` in (*VM).run")
	}
	b.WriteString("\n/-- `case OpIfInt, -OpIfInt:` with the condition known: whether the next instruction is skipped -/\n")
	b.WriteString("def vmIfInt : Cond → BitVec 64 → BitVec 64 → Bool\n")
	for _, c := range vmiConds {
		term, err := runVMCase(fset, cc, reflect.Invalid, c.goName)
		if err != nil {
			return "", fmt.Errorf("OpIfInt with %s: %v", c.goName, err)
		}
		fmt.Fprintf(&b, "  | .%s, ra, rc => %s\n", c.lean, term)
	}

	// emitter side
	funcs := map[string]*ast.FuncDecl{}
	for _, name := range []string{"internal/compiler/builder.go", "internal/compiler/builder_instructions.go"} {
		f, err := parser.ParseFile(fset, filepath.Join(repo, name), nil, 0)
		if err != nil {
			return "", err
		}
		for _, d := range f.Decls {
			if fd, ok := d.(*ast.FuncDecl); ok && fd.Body != nil {
				funcs[fd.Name.Name] = fd
			}
		}
	}
	flat := funcs["flattenIntegerKind"]
	if flat == nil {
		return "", fmt.Errorf("shape not recognised: no flattenIntegerKind")
	}
	b.WriteString("\n/-- `flattenIntegerKind` (builder.go) on amd64 (`strconv.IntSize = 64`, `uintptr` 64 bits) -/\ndef flatten : Kind → Kind\n")
	for _, k := range intKinds {
		it := &interp{fset: fset, emit: true, kind: k, role: map[string]string{}, funcs: funcs}
		it.scopes = []map[string]*value{{}}
		r := it.callFunc(flat, flat, &value{tag: tKind, k: k})
		if r.tag != tKind || !isIntKind(r.k) {
			return "", fmt.Errorf("shape not recognised: flattenIntegerKind(%s) is not an integer kind", k)
		}
		fmt.Fprintf(&b, "  | %s => %s\n", leanKind(k), leanKind(r.k))
	}
	b.WriteString(`
/-- what an instruction operand holds -/
inductive Operand | x | y | z | kind (k : Kind)
  deriving DecidableEq, Repr, Inhabited

/-- the instruction appended by an ` + "`emit…`" + ` function of builder_instructions.go for an operand kind:
opcode (the sign, i.e. register or constant form of ` + "`y`" + `, left out), the operands A B C, and whether the
function insists on ` + "`z == x`" + ` (it panics otherwise) -/
structure Emitted where
  op : VOp
  a : Operand
  b : Operand
  c : Operand
  zEqX : Bool
  deriving DecidableEq, Repr, Inhabited

inductive EmitFn
 `)
	for _, f := range vmiEmitFns {
		b.WriteString(" | " + f)
	}
	b.WriteString("\n  deriving DecidableEq, Repr, Inhabited\n\n")
	leanOp := map[string]string{}
	for _, op := range vmiOps {
		leanOp[op.goName] = op.lean
	}
	for _, name := range vmiEmitFns {
		fd := funcs[name]
		if fd == nil {
			return "", fmt.Errorf("shape not recognised: no %s in builder_instructions.go", name)
		}
		fmt.Fprintf(&b, "/-- `%s` of builder_instructions.go with the kind known -/\ndef %s : Kind → Emitted\n", name, name)
		for _, k := range intKinds {
			e, err := runEmit(fset, funcs, fd, k)
			if err != nil {
				return "", fmt.Errorf("%s at kind %s: %v", name, k, err)
			}
			op, ok := leanOp[e.op]
			if !ok {
				return "", fmt.Errorf("shape not recognised: %s at kind %s emits %s, which has no translated body", name, k, e.op)
			}
			fmt.Fprintf(&b, "  | %s => ⟨.%s, %s, %s, %s, %v⟩\n", leanKind(k), op, e.a, e.b, e.c, e.zEqX)
		}
		b.WriteString("\n")
	}
	b.WriteString("def emit : EmitFn → Kind → Emitted\n")
	for _, name := range vmiEmitFns {
		fmt.Fprintf(&b, "  | .%s => %s\n", name, name)
	}
	// decisions of emitter_expressions.go / emitter_util.go (gen_vmint_emitter.go)
	tables, err := genEmitterTables(repo, vmiEmitFns, vmiConds)
	if err != nil {
		return "", err
	}
	b.WriteString(tables)
	b.WriteString("\nend ScriggoV.Gen.VMInt\n")
	return b.String(), nil
}

func isIntKind(k reflect.Kind) bool { return reflect.Int <= k && k <= reflect.Uintptr }

type emittedInstr struct {
	op      string
	a, b, c string
	zEqX    bool
}

// runEmit executes an emit… function with the kind known, y in register form (k = false).
func runEmit(fset *token.FileSet, funcs map[string]*ast.FuncDecl, fd *ast.FuncDecl, kind reflect.Kind) (res emittedInstr, err error) {
	defer vmiCatch(&err)
	it := &interp{fset: fset, emit: true, kind: kind, role: map[string]string{}, funcs: map[string]*ast.FuncDecl{"flattenIntegerKind": funcs["flattenIntegerKind"]}}
	scope := map[string]*value{}
	for _, f := range fd.Type.Params.List {
		for _, n := range f.Names {
			switch tn := it.src(f.Type); {
			case tn == "bool" && (n.Name == "k" || n.Name == "ky"):
				scope[n.Name] = &value{tag: tKnown, b: false}
			case tn == "int8" && (n.Name == "x" || n.Name == "y" || n.Name == "z"):
				scope[n.Name] = &value{tag: tOperand, name: n.Name}
			case tn == "reflect.Kind" && n.Name == "kind":
				scope[n.Name] = &value{tag: tKind, k: kind}
			case tn == "*ast.Position" && n.Name == "pos":
				// only passed to addPosAndPath
			default:
				it.fail(f, "parameter of an emit function")
			}
		}
	}
	it.scopes = []map[string]*value{scope}
	it.push()
	if it.execBlock(fd.Body.List) {
		it.fail(fd, "return inside an emit function")
	}
	if it.out == nil || it.out.tag != tInstr {
		it.fail(fd, "no instruction appended")
	}
	operand := func(field string) string {
		v := it.out.fields[field]
		switch {
		case v == nil:
			it.fail(fd, "instruction without field %s", field)
		case v.tag == tOperand:
			return "." + v.name
		case v.tag == tKind && isIntKind(v.k):
			return "(.kind " + leanKind(v.k) + ")"
		}
		it.fail(fd, "instruction field %s", field)
		return ""
	}
	op := it.out.fields["Op"]
	if op == nil || op.tag != tName || strings.HasPrefix(op.name, "-") {
		it.fail(fd, "opcode of the instruction")
	}
	if len(it.out.fields) != 4 {
		it.fail(fd, "instruction fields")
	}
	return emittedInstr{op: op.name, a: operand("A"), b: operand("B"), c: operand("C"), zEqX: it.zEqX}, nil
}
