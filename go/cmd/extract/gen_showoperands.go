package main

// Generator "ShowOperands" (property C09): regenerates from
// /repo/internal/compiler/checker_statements.go the part of `case *ast.Show` of
// typechecker.checkNodes that decides whether a show is accepted:
//
//	case *ast.Show:
//		if len(node.Expressions) == 1 { … rewriting of {{ f() }} with (T, error) results … }
//		pre…
//		for _, expr := range node.Expressions {
//			exprPre…                                   (contains tis := tc.checkExpr2(expr, true))
//			for _, ti := range tis { body… }
//			exprPost…
//		}
//		post…
//
// as a ShowLoop (lean/ScriggoV/Model/ShowNodeTypes.lean): each statement is one of
//
//	var e error                                                        declErr slot
//	e := checkShow(ti.Type, node.Context, tc.inURL)  |  e = …          check slot     (body only)
//	if e != nil { panic(tc.errorf(node, "cannot show %s (%s)", expr, e)) }   report slot
//	if ti == nil { continue }                                          skipAbsent     (body only)
//	if ti.Nil() { panic(tc.errorf(node, "use of untyped nil")) }       nilPanic       (body only)
//	anything that mentions no error variable, no checkShow, and has no panic/continue/break/
//	return/goto                                                        skip
//
// Error variables are numbered by declaration, innermost scope first on lookup, so that an
// `e :=` in the loop that shadows an outer `var e error` is a different slot. Anything else is
// "shape not recognised".

import (
	"fmt"
	"go/ast"
	"go/parser"
	"go/token"
	"path/filepath"
	"strings"
)

func init() {
	generators = append(generators, generator{name: "ShowOperands", run: genShowOperands})
}

type soGen struct {
	*cpGen
	scopes []map[string]int // error variables in scope → slot
	nslots int
}

func (g *soGen) push() { g.scopes = append(g.scopes, map[string]int{}) }
func (g *soGen) pop()  { g.scopes = g.scopes[:len(g.scopes)-1] }
func (g *soGen) declare(name string) int {
	s := g.nslots
	g.nslots++
	g.scopes[len(g.scopes)-1][name] = s
	return s
}
func (g *soGen) lookup(name string) (int, bool) {
	for i := len(g.scopes) - 1; i >= 0; i-- {
		if s, ok := g.scopes[i][name]; ok {
			return s, true
		}
	}
	return 0, false
}

// inert reports whether a statement has no bearing on the acceptance of the show.
func (g *soGen) inert(s ast.Stmt) bool {
	ok := true
	ast.Inspect(s, func(n ast.Node) bool {
		switch n := n.(type) {
		case *ast.Ident:
			if _, is := g.lookup(n.Name); is || n.Name == "checkShow" || n.Name == "panic" {
				ok = false
			}
		case *ast.BranchStmt, *ast.ReturnStmt:
			ok = false
		}
		return ok
	})
	return ok
}

const soCheckCall = "checkShow(ti.Type, node.Context, tc.inURL)"

// stmt translates one statement; inBody says whether it stands in the loop over the pair.
func (g *soGen) stmt(s ast.Stmt, inBody bool) (string, error) {
	switch st := s.(type) {
	case *ast.DeclStmt:
		gd, ok := st.Decl.(*ast.GenDecl)
		if ok && gd.Tok == token.VAR && len(gd.Specs) == 1 {
			vs := gd.Specs[0].(*ast.ValueSpec)
			if len(vs.Names) == 1 && len(vs.Values) == 0 && vs.Type != nil && g.src(vs.Type) == "error" {
				return fmt.Sprintf(".declErr %d", g.declare(vs.Names[0].Name)), nil
			}
		}
	case *ast.AssignStmt:
		if len(st.Lhs) == 1 && len(st.Rhs) == 1 && strings.HasPrefix(g.src(st.Rhs[0]), "checkShow(") {
			id, ok := st.Lhs[0].(*ast.Ident)
			if !ok || !inBody || g.src(st.Rhs[0]) != soCheckCall {
				return "", g.errf(s, "call of checkShow (expected <err> [:]= %s in the loop over the pair)", soCheckCall)
			}
			if st.Tok == token.DEFINE {
				return fmt.Sprintf(".check %d", g.declare(id.Name)), nil
			}
			if slot, ok := g.lookup(id.Name); ok && st.Tok == token.ASSIGN {
				return fmt.Sprintf(".check %d", slot), nil
			}
			return "", g.errf(s, "assignment of checkShow's result to an unknown variable")
		}
	case *ast.IfStmt:
		if st.Init == nil && st.Else == nil && len(st.Body.List) == 1 {
			cond, body := g.src(st.Cond), g.src(st.Body.List[0])
			if inBody && cond == "ti == nil" && body == "continue" {
				return ".skipAbsent", nil
			}
			if inBody && cond == "ti.Nil()" && body == `panic(tc.errorf(node, "use of untyped nil"))` {
				return ".nilPanic", nil
			}
			if be, ok := st.Cond.(*ast.BinaryExpr); ok && be.Op == token.NEQ && g.src(be.Y) == "nil" {
				if id, ok := be.X.(*ast.Ident); ok {
					if slot, ok := g.lookup(id.Name); ok {
						if body != fmt.Sprintf(`panic(tc.errorf(node, "cannot show %%s (%%s)", expr, %s))`, id.Name) {
							return "", g.errf(s, "test of an error variable (expected the `cannot show` panic)")
						}
						return fmt.Sprintf(".report %d", slot), nil
					}
				}
			}
		}
	}
	if g.inert(s) {
		return ".skip", nil
	}
	where := "outside the loop over the pair"
	if inBody {
		where = "in the loop over the pair"
	}
	return "", g.errf(s, "statement of the Show case %s", where)
}

func (g *soGen) list(ss []ast.Stmt, inBody bool) ([]string, error) {
	var out []string
	for _, s := range ss {
		t, err := g.stmt(s, inBody)
		if err != nil {
			return nil, err
		}
		out = append(out, t)
	}
	return out, nil
}

func genShowOperands(repo string) (string, error) {
	fset := token.NewFileSet()
	g := &soGen{cpGen: &cpGen{fset: fset, helpers: map[string]*ast.FuncDecl{}}}
	file, err := parser.ParseFile(fset, filepath.Join(repo, "internal/compiler/checker_statements.go"), nil, 0)
	if err != nil {
		return "", err
	}
	var fn *ast.FuncDecl
	for _, d := range file.Decls {
		if fd, ok := d.(*ast.FuncDecl); ok && fd.Recv != nil && fd.Name.Name == "checkNodes" {
			fn = fd
		}
	}
	if fn == nil {
		return "", fmt.Errorf("shape not recognised: typechecker.checkNodes not found")
	}
	var clause *ast.CaseClause
	n := 0
	ast.Inspect(fn.Body, func(x ast.Node) bool {
		if cc, ok := x.(*ast.CaseClause); ok && len(cc.List) == 1 && g.src(cc.List[0]) == "*ast.Show" {
			clause = cc
			n++
		}
		return true
	})
	if n != 1 {
		return "", fmt.Errorf("shape not recognised: %d `case *ast.Show` clauses in checkNodes", n)
	}
	// checkShow is called from this clause only (checkShowJS/JSON are reached through it)
	calls := 0
	ast.Inspect(file, func(x ast.Node) bool {
		if c, ok := x.(*ast.CallExpr); ok && g.src(c.Fun) == "checkShow" {
			calls++
		}
		return true
	})
	inClause := 0
	ast.Inspect(clause, func(x ast.Node) bool {
		if c, ok := x.(*ast.CallExpr); ok && g.src(c.Fun) == "checkShow" {
			inClause++
		}
		return true
	})
	if calls != 1 || inClause != 1 {
		return "", fmt.Errorf("shape not recognised: %d calls of checkShow in checker_statements.go, %d in the Show case (expected 1, 1)", calls, inClause)
	}

	stmts := clause.Body
	// the rewriting of {{ f() }} with a (T, error) result: it re-enters the clause on {{ v }}
	rewrite := false
	if len(stmts) > 0 {
		if is, ok := stmts[0].(*ast.IfStmt); ok && is.Init == nil && g.src(is.Cond) == "len(node.Expressions) == 1" {
			bad := false
			ast.Inspect(is, func(x ast.Node) bool {
				if id, ok := x.(*ast.Ident); ok && (id.Name == "checkShow" || id.Name == "panic") {
					bad = true
				}
				if _, ok := x.(*ast.ReturnStmt); ok {
					bad = true
				}
				if b, ok := x.(*ast.BranchStmt); ok && g.src(b) != "continue nodesLoop" {
					bad = true
				}
				return !bad
			})
			if bad {
				return "", g.errf(is, "rewriting of a show of a call (expected no panic/return, only `continue nodesLoop`)")
			}
			rewrite = true
			stmts = stmts[1:]
		}
	}
	outerAt := -1
	var outer *ast.RangeStmt
	for i, s := range stmts {
		if rs, ok := s.(*ast.RangeStmt); ok {
			if outer != nil {
				return "", g.errf(s, "second loop in the Show case")
			}
			outer, outerAt = rs, i
		}
	}
	if outer == nil || g.src(outer.X) != "node.Expressions" || g.src(outer.Key) != "_" || outer.Value == nil || g.src(outer.Value) != "expr" || outer.Tok != token.DEFINE {
		return "", fmt.Errorf("shape not recognised: `for _, expr := range node.Expressions` not found in the Show case")
	}
	g.push()
	pre, err := g.list(stmts[:outerAt], false)
	if err != nil {
		return "", err
	}
	g.push()
	innerAt := -1
	var inner *ast.RangeStmt
	for i, s := range outer.Body.List {
		if rs, ok := s.(*ast.RangeStmt); ok {
			if inner != nil {
				return "", g.errf(s, "second loop over the pair in the Show case")
			}
			inner, innerAt = rs, i
		}
	}
	if inner == nil || g.src(inner.X) != "tis" || g.src(inner.Key) != "_" || inner.Value == nil || g.src(inner.Value) != "ti" || inner.Tok != token.DEFINE {
		return "", fmt.Errorf("shape not recognised: `for _, ti := range tis` not found in the loop over node.Expressions")
	}
	sawPair := false
	for _, s := range outer.Body.List[:innerAt] {
		if g.src(s) == "tis := tc.checkExpr2(expr, true)" {
			sawPair = true
		}
	}
	if !sawPair {
		return "", g.errf(outer, "`tis := tc.checkExpr2(expr, true)` before the loop over the pair")
	}
	exprPre, err := g.list(outer.Body.List[:innerAt], false)
	if err != nil {
		return "", err
	}
	g.push()
	body, err := g.list(inner.Body.List, true)
	if err != nil {
		return "", err
	}
	g.pop()
	exprPost, err := g.list(outer.Body.List[innerAt+1:], false)
	if err != nil {
		return "", err
	}
	g.pop()
	post, err := g.list(stmts[outerAt+1:], false)
	if err != nil {
		return "", err
	}
	g.pop()

	// checkExpr2: an ordinary expression gives (nil, ti), a default expression what checkDefault gives
	pairFact, err := genShowPairFact(repo, g.cpGen)
	if err != nil {
		return "", err
	}

	var b strings.Builder
	b.WriteString("import ScriggoV.Model.ShowNodeTypes\n")
	b.WriteString("/-! The statements of `case *ast.Show` of `typechecker.checkNodes`\n(internal/compiler/checker_statements.go) that decide whether a show is accepted, regenerated\nfrom /repo. -/\nnamespace ScriggoV.Gen.ShowOperands\nopen ScriggoV.Show\n\n")
	fmt.Fprintf(&b, "/-- `{{ f() }}` with a `(T, error)` result is first rewritten to `{%% if v, err := f(); err == nil %%}{{ v }}{%% end %%}`\nand the clause re-entered on `{{ v }}` -/\ndef rewritesCallWithError : Bool := %v\n\n", rewrite)
	l := func(ss []string) string { return "[" + strings.Join(ss, ", ") + "]" }
	fmt.Fprintf(&b, "def showLoop : ShowLoop :=\n  { pre := %s\n    exprPre := %s\n    body := %s\n    exprPost := %s\n    post := %s }\n\n", l(pre), l(exprPre), l(body), l(exprPost), l(post))
	b.WriteString(pairFact)
	b.WriteString("end ScriggoV.Gen.ShowOperands\n")
	return b.String(), nil
}

// genShowPairFact recognises checkExpr2 (internal/compiler/checker_expressions.go):
//
//	func (tc *typechecker) checkExpr2(expr ast.Expression, show bool) typeInfoPair {
//		if expr, ok := expr.(*ast.Default); ok { return tc.checkDefault(expr, show) }
//		return typeInfoPair{nil, tc.checkExpr(expr)}
//	}
//
// and in checkDefault that the right operand is always checked into tis[1]
// (`tis[1] = tc.checkExpr(expr.Expr2)` at the top level of the function, tis returned).
func genShowPairFact(repo string, g *cpGen) (string, error) {
	file, err := parser.ParseFile(g.fset, filepath.Join(repo, "internal/compiler/checker_expressions.go"), nil, 0)
	if err != nil {
		return "", err
	}
	var e2, def *ast.FuncDecl
	for _, d := range file.Decls {
		if fd, ok := d.(*ast.FuncDecl); ok && fd.Recv != nil {
			switch fd.Name.Name {
			case "checkExpr2":
				e2 = fd
			case "checkDefault":
				def = fd
			}
		}
	}
	if e2 == nil || def == nil {
		return "", fmt.Errorf("shape not recognised: checkExpr2/checkDefault not found")
	}
	want := "{ if expr, ok := expr.(*ast.Default); ok { return tc.checkDefault(expr, show) } return typeInfoPair{nil, tc.checkExpr(expr)} }"
	if g.src(e2.Body) != want {
		return "", g.errf(e2, "body of checkExpr2")
	}
	right, ret := 0, false
	for i, s := range def.Body.List {
		switch g.src(s) {
		case "tis[1] = tc.checkExpr(expr.Expr2)":
			right++
		case "return tis":
			ret = i == len(def.Body.List)-1
		}
	}
	if right != 1 || !ret {
		return "", g.errf(def, "checkDefault (expected one top-level `tis[1] = tc.checkExpr(expr.Expr2)` and a final `return tis`)")
	}
	return "/-- `checkExpr2` gives `(nil, ti)` for an ordinary expression and, for `x default y`, the pair of\n`checkDefault`, whose second member is always the type info of `y` -/\ndef ordinaryPairIsNilTi : Bool := true\ndef defaultRightAlwaysChecked : Bool := true\n\n", nil
}
