package main

// Generator "NativeCalls" (property C12): regenerates from /repo/internal/runtime/run.go and
// vm.go where the virtual machine hands control to native (host) code through vm.callNative,
// and what vm.pc is at that moment relative to the instruction being executed — the state
// convertPanic (errors.go) looks at (`vm.fn.Body[vm.pc-1].Op`) when the native code panics.
//
//	head:      for { … in := vm.fn.Body[vm.pc]; vm.pc++; op, a, b, c = …; switch op { … } }
//	           (the number of increments between the fetch and the switch is data)
//	per path of every case clause of that switch that reaches vm.callNative(…) or
//	vm.nextCall(): the case labels, the branch conditions taken, vm.pc minus the address
//	of the instruction at the call and at the end of the clause, and whether the path is
//	inside `if f.fn == nil` with `f := vm.general(a).Interface().(*callable)`;
//	nextCall: that it calls vm.callNative and that every assignment to vm.pc / vm.fn in
//	it lies in a block that returns (so the native deferred call runs in the caller's
//	state); every other caller of nextCall with the condition that guards it.
//
// Recognised statements on such a path: vm.pc++ / vm.pc-- / vm.pc += k / vm.pc -= k,
// if/else (both branches followed), return, and statements that neither assign vm.pc nor
// call a method that does. Anything else is "shape not recognised".

import (
	"fmt"
	"go/ast"
	"go/parser"
	"go/token"
	"path/filepath"
	"sort"
	"strconv"
	"strings"
)

func init() {
	generators = append(generators, generator{name: "NativeCalls", run: genNativeCalls})
}

type ncSite struct {
	ops      []string // Lean terms "(.OpX, false)"
	target   string
	guards   []string
	atCall   int
	atEnd    int // -1: vm.pc assigned or the function returns
	nativeIf bool
	pos      string
}

type ncGen struct {
	*cpGen
	pcWriters map[string]bool // methods of *VM that (transitively) assign vm.pc
	fFromA    bool            // `f := vm.general(a).Interface().(*callable)` seen on the path
}

// ncAssignsPC reports whether the node assigns vm.pc directly.
func ncAssignsPC(g *cpGen, n ast.Node) bool {
	found := false
	ast.Inspect(n, func(x ast.Node) bool {
		switch s := x.(type) {
		case *ast.AssignStmt:
			for _, l := range s.Lhs {
				if g.src(l) == "vm.pc" {
					found = true
				}
			}
		case *ast.IncDecStmt:
			if g.src(s.X) == "vm.pc" {
				found = true
			}
		case *ast.UnaryExpr:
			if s.Op == token.AND && g.src(s.X) == "vm.pc" {
				found = true
			}
		}
		return !found
	})
	return found
}

// ncCalls lists the methods called on vm inside n.
func ncCalls(g *cpGen, n ast.Node) []string {
	var out []string
	ast.Inspect(n, func(x ast.Node) bool {
		if c, ok := x.(*ast.CallExpr); ok {
			if sel, ok := c.Fun.(*ast.SelectorExpr); ok {
				if id, ok := sel.X.(*ast.Ident); ok && id.Name == "vm" {
					out = append(out, sel.Sel.Name)
				}
			}
		}
		return true
	})
	return out
}

func (g *ncGen) touchesPC(n ast.Node) bool {
	if ncAssignsPC(g.cpGen, n) {
		return true
	}
	for _, m := range ncCalls(g.cpGen, n) {
		if g.pcWriters[m] {
			return true
		}
	}
	return false
}

func (g *ncGen) hasTarget(n ast.Node) bool {
	for _, m := range ncCalls(g.cpGen, n) {
		if m == "callNative" || m == "nextCall" {
			return true
		}
	}
	return false
}

type ncState struct {
	adv     int // vm.pc - address of the instruction; -1 unknown
	guards  []string
	pending []*ncSite // sites met on this path, waiting for the value at the end
	fFromA  bool
	native  bool
}

func (s ncState) clone() ncState {
	c := s
	c.guards = append([]string{}, s.guards...)
	c.pending = append([]*ncSite{}, s.pending...)
	return c
}

// walk follows every path through list followed by the continuation rest; finish is called
// at the end of each path (returned == true: the path leaves the function).
func (g *ncGen) walk(list []ast.Stmt, st ncState, ops []string, out *[]*ncSite, finish func(ncState, bool)) error {
	if len(list) == 0 {
		finish(st, false)
		return nil
	}
	s, rest := list[0], list[1:]
	cont := func(st ncState) error { return g.walk(rest, st, ops, out, finish) }
	switch x := s.(type) {
	case *ast.IncDecStmt:
		if g.src(x.X) == "vm.pc" {
			if st.adv >= 0 {
				if x.Tok == token.INC {
					st.adv++
				} else {
					st.adv--
				}
			}
			return cont(st)
		}
	case *ast.AssignStmt:
		if len(x.Lhs) == 1 && g.src(x.Lhs[0]) == "vm.pc" {
			if lit, ok := x.Rhs[0].(*ast.BasicLit); ok && (x.Tok == token.ADD_ASSIGN || x.Tok == token.SUB_ASSIGN) {
				k, _ := strconv.Atoi(lit.Value)
				if st.adv >= 0 {
					if x.Tok == token.ADD_ASSIGN {
						st.adv += k
					} else {
						st.adv -= k
					}
				}
			} else {
				st.adv = -1
			}
			if g.hasTarget(x) {
				return g.errf(x, "call of callNative/nextCall inside an assignment to vm.pc")
			}
			return cont(st)
		}
		if len(x.Lhs) == 1 && len(x.Rhs) == 1 && g.src(x.Lhs[0]) == "f" && x.Tok == token.DEFINE {
			st.fFromA = g.src(x.Rhs[0]) == "vm.general(a).Interface().(*callable)"
		}
	case *ast.ReturnStmt:
		if g.hasTarget(x) {
			return g.errf(x, "call of callNative/nextCall inside a return statement")
		}
		finish(st, true)
		return nil
	case *ast.BlockStmt:
		return g.walk(append(append([]ast.Stmt{}, x.List...), rest...), st, ops, out, finish)
	case *ast.IfStmt:
		if !g.hasTarget(x) && !g.touchesPC(x) {
			return cont(st)
		}
		if x.Init != nil {
			return g.errf(x, "if statement with an init clause on a path to callNative/nextCall")
		}
		cond := g.src(x.Cond)
		thenSt := st.clone()
		elseSt := st.clone()
		// the condition itself may be the call of nextCall: `if !vm.nextCall() { return … }`
		if g.hasTarget(x.Cond) {
			if cond != "!vm.nextCall()" {
				return g.errf(x, "condition calling callNative/nextCall (expected !vm.nextCall())")
			}
			site := &ncSite{ops: ops, target: "nextCall", guards: append([]string{}, st.guards...), atCall: st.adv, atEnd: -1, pos: g.fset.Position(x.Pos()).String()}
			if st.adv < 0 {
				return g.errf(x, "vm.pc is not determined relative to the instruction when nextCall is called")
			}
			*out = append(*out, site)
			// nextCall assigns vm.pc when it returns true
			thenSt.adv, elseSt.adv = -1, -1
		}
		thenSt.guards = append(thenSt.guards, cond)
		elseSt.guards = append(elseSt.guards, "!("+cond+")")
		if cond == "f.fn == nil" && st.fFromA {
			thenSt.native = true
		}
		if err := g.walk(append(append([]ast.Stmt{}, x.Body.List...), rest...), thenSt, ops, out, finish); err != nil {
			return err
		}
		var elseList []ast.Stmt
		switch e := x.Else.(type) {
		case nil:
		case *ast.BlockStmt:
			elseList = e.List
		case *ast.IfStmt:
			elseList = []ast.Stmt{e}
		}
		return g.walk(append(append([]ast.Stmt{}, elseList...), rest...), elseSt, ops, out, finish)
	case *ast.ExprStmt:
		if c, ok := x.X.(*ast.CallExpr); ok {
			switch g.src(c.Fun) {
			case "vm.callNative":
				for _, a := range c.Args {
					if g.hasTarget(a) || g.touchesPC(a) {
						return g.errf(x, "argument of callNative touches vm.pc")
					}
				}
				if st.adv < 0 {
					return g.errf(x, "vm.pc is not determined relative to the instruction when callNative is called")
				}
				site := &ncSite{ops: ops, target: "callNative", guards: append([]string{}, st.guards...), atCall: st.adv, atEnd: -1, nativeIf: st.native, pos: g.fset.Position(x.Pos()).String()}
				*out = append(*out, site)
				st.pending = append(st.pending, site)
				return cont(st)
			case "vm.nextCall":
				return g.errf(x, "result of nextCall discarded")
			}
		}
	}
	// any other statement: opaque when it neither reaches a target nor touches vm.pc
	if g.hasTarget(s) {
		return g.errf(s, "callNative/nextCall inside a statement of an unsupported form (%T)", s)
	}
	if g.touchesPC(s) {
		st.adv = -1
	}
	return cont(st)
}

func genNativeCalls(repo string) (string, error) {
	fset := token.NewFileSet()
	cg := &cpGen{fset: fset, helpers: map[string]*ast.FuncDecl{}}
	dir := filepath.Join(repo, "internal/runtime")
	files := map[string]*ast.File{}
	matches, _ := filepath.Glob(filepath.Join(dir, "*.go"))
	sort.Strings(matches)
	for _, m := range matches {
		base := filepath.Base(m)
		if strings.HasSuffix(base, "_test.go") || strings.HasPrefix(base, "verif_") {
			continue
		}
		f, err := parser.ParseFile(fset, m, nil, 0)
		if err != nil {
			return "", err
		}
		files[base] = f
	}
	if files["run.go"] == nil || files["vm.go"] == nil {
		return "", fmt.Errorf("shape not recognised: run.go or vm.go not found")
	}
	// methods of *VM
	methods := map[string]*ast.FuncDecl{}
	var order []string
	for _, name := range matches {
		f := files[filepath.Base(name)]
		if f == nil {
			continue
		}
		for _, d := range f.Decls {
			if fd, ok := d.(*ast.FuncDecl); ok && fd.Recv != nil && len(fd.Recv.List) == 1 && fd.Body != nil {
				if cg.src(fd.Recv.List[0].Type) == "*VM" && len(fd.Recv.List[0].Names) == 1 && fd.Recv.List[0].Names[0].Name == "vm" {
					methods[fd.Name.Name] = fd
					order = append(order, fd.Name.Name)
				}
			}
		}
	}
	g := &ncGen{cpGen: cg, pcWriters: map[string]bool{}}
	for _, n := range order {
		if ncAssignsPC(cg, methods[n].Body) {
			g.pcWriters[n] = true
		}
	}
	for changed := true; changed; {
		changed = false
		for _, n := range order {
			if g.pcWriters[n] {
				continue
			}
			for _, c := range ncCalls(cg, methods[n].Body) {
				if g.pcWriters[c] {
					g.pcWriters[n] = true
					changed = true
					break
				}
			}
		}
	}
	if g.pcWriters["callNative"] {
		return "", fmt.Errorf("shape not recognised: callNative (or a method it calls) assigns vm.pc")
	}

	// every call of callNative / nextCall in the package, by enclosing method
	callers := map[string][]string{}
	for _, n := range order {
		for _, c := range ncCalls(cg, methods[n].Body) {
			if c == "callNative" || c == "nextCall" {
				callers[c] = append(callers[c], n)
			}
		}
	}
	for _, f := range files {
		for _, d := range f.Decls {
			fd, ok := d.(*ast.FuncDecl)
			if !ok || fd.Body == nil {
				continue
			}
			if _, isMethod := methods[fd.Name.Name]; isMethod && fd.Recv != nil {
				continue
			}
			for _, c := range ncCalls(cg, fd.Body) {
				if c == "callNative" || c == "nextCall" {
					return "", g.errf(fd, "%s is called outside a method of *VM with receiver vm (%s)", c, fd.Name.Name)
				}
			}
		}
	}
	for _, c := range callers["callNative"] {
		if c != "run" && c != "nextCall" {
			return "", fmt.Errorf("shape not recognised: callNative is called from VM.%s (expected only run and nextCall)", c)
		}
	}
	{
		sorted := append([]string{}, callers["nextCall"]...)
		sort.Strings(sorted)
		if strings.Join(sorted, ",") != "run,runRecoverable" {
			return "", fmt.Errorf("shape not recognised: nextCall is called from %v (expected once from run and once from runRecoverable)", sorted)
		}
	}

	// ---- the run loop
	run := methods["run"]
	if run == nil {
		return "", fmt.Errorf("shape not recognised: VM.run not found")
	}
	var loop *ast.ForStmt
	for _, s := range run.Body.List {
		if fs, ok := s.(*ast.ForStmt); ok && fs.Init == nil && fs.Cond == nil && fs.Post == nil {
			if loop != nil {
				return "", g.errf(fs, "second endless loop in VM.run")
			}
			loop = fs
		} else if g.hasTarget(s) || ncAssignsPC(cg, s) {
			return "", g.errf(s, "statement outside the instruction loop of VM.run calls callNative/nextCall or assigns vm.pc")
		}
	}
	if loop == nil {
		return "", fmt.Errorf("shape not recognised: instruction loop of VM.run not found")
	}
	fetch := -1
	headAdv := 0
	var sw *ast.SwitchStmt
	for i, s := range loop.Body.List {
		src := g.src(s)
		switch {
		case src == "in := vm.fn.Body[vm.pc]":
			if fetch >= 0 {
				return "", g.errf(s, "second instruction fetch")
			}
			fetch = i
		case src == "vm.pc++":
			if fetch < 0 {
				return "", g.errf(s, "vm.pc++ before the instruction fetch")
			}
			headAdv++
		default:
			if x, ok := s.(*ast.SwitchStmt); ok && x.Init == nil && x.Tag != nil && g.src(x.Tag) == "op" {
				if sw != nil {
					return "", g.errf(s, "second switch op")
				}
				if fetch < 0 {
					return "", g.errf(s, "switch op before the instruction fetch")
				}
				sw = x
				continue
			}
			if sw != nil {
				return "", g.errf(s, "statement after the switch op of the instruction loop")
			}
			if fetch >= 0 && src != "op, a, b, c = in.Op, in.A, in.B, in.C" {
				return "", g.errf(s, "statement between the instruction fetch and switch op")
			}
			if g.hasTarget(s) || g.touchesPC(s) {
				return "", g.errf(s, "loop head calls callNative/nextCall or touches vm.pc")
			}
		}
	}
	if sw == nil || fetch < 0 {
		return "", fmt.Errorf("shape not recognised: fetch `in := vm.fn.Body[vm.pc]` / `switch op` of the instruction loop not found")
	}

	var sites []*ncSite
	for _, cs := range sw.Body.List {
		cc := cs.(*ast.CaseClause)
		body := &ast.BlockStmt{List: cc.Body}
		if !g.hasTarget(body) {
			continue
		}
		var ops []string
		if cc.List == nil {
			return "", g.errf(cc, "default clause of switch op calls callNative/nextCall")
		}
		for _, e := range cc.List {
			switch x := e.(type) {
			case *ast.Ident:
				ops = append(ops, "(."+x.Name+", false)")
			case *ast.UnaryExpr:
				id, ok := x.X.(*ast.Ident)
				if !ok || x.Op != token.SUB {
					return "", g.errf(e, "case label")
				}
				ops = append(ops, "(."+id.Name+", true)")
			default:
				return "", g.errf(e, "case label")
			}
		}
		st := ncState{adv: headAdv}
		err := g.walk(cc.Body, st, ops, &sites, func(end ncState, returned bool) {
			for _, s := range end.pending {
				if !returned {
					s.atEnd = end.adv
				}
			}
		})
		if err != nil {
			return "", err
		}
	}
	nNative := 0
	for _, s := range sites {
		if s.target == "callNative" {
			nNative++
		}
	}
	nRunCalls := 0
	for _, c := range callers["callNative"] {
		if c == "run" {
			nRunCalls++
		}
	}
	if nNative != nRunCalls {
		return "", fmt.Errorf("shape not recognised: VM.run has %d calls of callNative, %d were located on paths of the instruction switch", nRunCalls, nNative)
	}

	// ---- nextCall
	nc := methods["nextCall"]
	if nc == nil {
		return "", fmt.Errorf("shape not recognised: VM.nextCall not found")
	}
	keeps := true
	var parents []ast.Node
	ast.Inspect(nc.Body, func(n ast.Node) bool {
		if n == nil {
			parents = parents[:len(parents)-1]
			return true
		}
		parents = append(parents, n)
		assigns := false
		if as, ok := n.(*ast.AssignStmt); ok {
			for _, l := range as.Lhs {
				if s := g.src(l); s == "vm.pc" || s == "vm.fn" {
					assigns = true
				}
			}
		}
		if id, ok := n.(*ast.IncDecStmt); ok && (g.src(id.X) == "vm.pc") {
			assigns = true
		}
		if assigns {
			// the innermost enclosing block must end in a return
			ok := false
			for i := len(parents) - 2; i >= 0; i-- {
				if b, isBlock := parents[i].(*ast.BlockStmt); isBlock {
					if len(b.List) > 0 {
						_, ok = b.List[len(b.List)-1].(*ast.ReturnStmt)
					}
					break
				}
			}
			if !ok {
				keeps = false
			}
		}
		return true
	})
	for _, c := range ncCalls(cg, nc.Body) {
		if c != "callNative" && g.pcWriters[c] {
			keeps = false
		}
	}
	nextCallNative := 0
	for _, c := range ncCalls(cg, nc.Body) {
		if c == "callNative" {
			nextCallNative++
		}
	}

	// ---- runRecoverable
	rr := methods["runRecoverable"]
	guard := ""
	ast.Inspect(rr.Body, func(n ast.Node) bool {
		if is, ok := n.(*ast.IfStmt); ok && g.hasTarget(is.Cond) {
			guard = g.src(is.Cond)
		}
		return true
	})
	fnNil := guard == "vm.fn != nil || vm.nextCall()"
	if guard == "" {
		return "", fmt.Errorf("shape not recognised: the call of nextCall in runRecoverable is not the condition of an if statement")
	}

	// ---- Lean
	var b strings.Builder
	b.WriteString("import ScriggoV.Gen.ConvertPanic\n")
	b.WriteString("/-! Where the virtual machine calls native code (`vm.callNative`) and what `vm.pc` is at that\nmoment relative to the instruction being executed, regenerated from internal/runtime/run.go and\nvm.go. -/\nnamespace ScriggoV.Gen.NativeCalls\nopen ScriggoV.Gen.ConvertPanic\n\n")
	b.WriteString("/-- one path of a case clause of the instruction switch that reaches `vm.callNative` or `vm.nextCall` -/\nstructure Site where\n  ops : List (Op × Bool)      -- the case labels: operation, negated\n  target : String             -- \"callNative\" | \"nextCall\"\n  guards : List String        -- the branch conditions on the path\n  pcAtCall : Nat              -- vm.pc minus the address of the instruction when the call is made\n  pcAtEnd : Option Nat        -- the same at the end of the clause on this path (none: vm.pc assigned, or return)\n  nativeCallee : Bool         -- the path is inside `if f.fn == nil`, f := vm.general(a).Interface().(*callable)\n  deriving Repr\n\n")
	fmt.Fprintf(&b, "/-- `vm.pc++` statements between the fetch `in := vm.fn.Body[vm.pc]` and `switch op` -/\ndef headAdvance : Nat := %d\n\n", headAdv)
	b.WriteString("def runSites : List Site := [\n")
	for i, s := range sites {
		end := "none"
		if s.atEnd >= 0 {
			end = fmt.Sprintf("(some %d)", s.atEnd)
		}
		var gs []string
		for _, x := range s.guards {
			gs = append(gs, strconv.Quote(x))
		}
		sep := ","
		if i == len(sites)-1 {
			sep = ""
		}
		fmt.Fprintf(&b, "  -- %s\n  { ops := [%s], target := %q, guards := [%s], pcAtCall := %d, pcAtEnd := %s, nativeCallee := %v }%s\n",
			strings.TrimPrefix(s.pos, repo+"/"), strings.Join(s.ops, ", "), s.target, strings.Join(gs, ", "), s.atCall, end, s.nativeIf, sep)
	}
	b.WriteString("]\n\n")
	fmt.Fprintf(&b, "/-- number of `vm.callNative` calls in VM.nextCall (deferred native functions are called in place) -/\ndef nextCallNativeCalls : Nat := %d\n\n", nextCallNative)
	fmt.Fprintf(&b, "/-- every assignment to vm.pc / vm.fn in nextCall lies in a block that returns, and nextCall calls no\nmethod that assigns vm.pc: a deferred native function runs in the state nextCall was called in -/\ndef nextCallKeepsFnPc : Bool := %v\n\n", keeps)
	fmt.Fprintf(&b, "/-- runRecoverable calls nextCall only as `%s`: with no running function -/\ndef recoverableNextCallOnlyWithoutFn : Bool := %v\n\n", "vm.fn != nil || vm.nextCall()", fnNil)
	b.WriteString("end ScriggoV.Gen.NativeCalls\n")
	return b.String(), nil
}
