package main

// Generator "LexTables" (properties C04, C21): regenerates from /repo what the hand-written
// lexer model (lean/ScriggoV/Model/Lexer/*.lean) is parameterised by:
//
//	internal/compiler/tokens.go   the tokenTyp constants (one iota block)         def tokenXxx : Nat
//	ast/ast.go                    the Context and Format constants                def ContextXxx / FormatXxx : Nat
//	internal/compiler/compiler.go formatTypeName                                  def formatTypeName : List Bytes
//	internal/compiler/lexer.go    the two keyword switches of lexIdentifierOrKeyword
//	                              (`case "break": typ = tokenBreak`)              def goKeywords / templateKeywords
//	                              the one-line byte predicates isSpace, isStartChar,
//	                              isASCIISpace, isAlpha, is{Bin,Oct,Dec,Hex}Digit   def isXxx (c : UInt8) : Bool
//	                              the []byte("…") variables cdataStart, cdataEnd,
//	                              jsMimeType, jsonLDMimeType, cssMimeType, moduleType,
//	                              http, https, and the BOM constant
//
// The scanning functions themselves are hand-modelled; the correspondence harness ties them.
// Helpers are prefixed `lx` so that this file stands alone.

import (
	"bytes"
	"fmt"
	"go/ast"
	"go/parser"
	"go/printer"
	"go/token"
	"path/filepath"
	"strconv"
	"strings"
)

func init() {
	generators = append(generators, generator{name: "LexTables", run: genLexTables})
}

type lxGen struct {
	fset *token.FileSet
	out  strings.Builder
}

func (g *lxGen) src(n ast.Node) string {
	var b bytes.Buffer
	printer.Fprint(&b, g.fset, n)
	return strings.Join(strings.Fields(b.String()), " ")
}

func (g *lxGen) errf(n ast.Node, format string, a ...any) error {
	return fmt.Errorf("shape not recognised: %s (at %s: %s)", fmt.Sprintf(format, a...), g.fset.Position(n.Pos()), g.src(n))
}

func (g *lxGen) parse(path string) (*ast.File, error) {
	return parser.ParseFile(g.fset, path, nil, parser.SkipObjectResolution)
}

func lxBytes(s string) string {
	if len(s) == 0 {
		return "[]"
	}
	parts := make([]string, len(s))
	for i := 0; i < len(s); i++ {
		parts[i] = fmt.Sprintf("0x%02x", s[i])
	}
	return "[" + strings.Join(parts, ", ") + "]"
}

// iotaBlock returns the names of the constants of the const block whose first spec has
// type typ and value iota; every following spec must be a bare name.
func (g *lxGen) iotaBlock(f *ast.File, typ string) ([]string, error) {
	for _, d := range f.Decls {
		gd, ok := d.(*ast.GenDecl)
		if !ok || gd.Tok != token.CONST || len(gd.Specs) == 0 {
			continue
		}
		first := gd.Specs[0].(*ast.ValueSpec)
		if id, ok := first.Type.(*ast.Ident); !ok || id.Name != typ {
			continue
		}
		if len(first.Values) != 1 || g.src(first.Values[0]) != "iota" || len(first.Names) != 1 {
			return nil, g.errf(first, "first constant of the %s block is not `= iota`", typ)
		}
		names := []string{first.Names[0].Name}
		for _, s := range gd.Specs[1:] {
			vs := s.(*ast.ValueSpec)
			if vs.Type != nil || len(vs.Values) != 0 || len(vs.Names) != 1 {
				return nil, g.errf(vs, "constant of the %s block is not a bare name", typ)
			}
			names = append(names, vs.Names[0].Name)
		}
		return names, nil
	}
	return nil, fmt.Errorf("shape not recognised: no iota const block of type %s", typ)
}

func (g *lxGen) funcDecl(f *ast.File, recv, name string) (*ast.FuncDecl, error) {
	for _, d := range f.Decls {
		fn, ok := d.(*ast.FuncDecl)
		if !ok || fn.Name.Name != name || fn.Body == nil {
			continue
		}
		if (recv == "") != (fn.Recv == nil) {
			continue
		}
		return fn, nil
	}
	return nil, fmt.Errorf("shape not recognised: func %s not found", name)
}

// byteExpr translates a boolean expression over the single byte parameter v.
func (g *lxGen) byteExpr(e ast.Expr, v string) (string, error) {
	switch e := e.(type) {
	case *ast.ParenExpr:
		s, err := g.byteExpr(e.X, v)
		return "(" + s + ")", err
	case *ast.BinaryExpr:
		switch e.Op {
		case token.LOR, token.LAND:
			l, err := g.byteExpr(e.X, v)
			if err != nil {
				return "", err
			}
			r, err := g.byteExpr(e.Y, v)
			if err != nil {
				return "", err
			}
			op := " || "
			if e.Op == token.LAND {
				op = " && "
			}
			return "(" + l + op + r + ")", nil
		case token.EQL, token.LEQ, token.LSS, token.NEQ:
			l, err := g.byteTerm(e.X, v)
			if err != nil {
				return "", err
			}
			r, err := g.byteTerm(e.Y, v)
			if err != nil {
				return "", err
			}
			op := map[token.Token]string{token.EQL: " == ", token.LEQ: " ≤ ", token.LSS: " < ", token.NEQ: " != "}[e.Op]
			if e.Op == token.LEQ || e.Op == token.LSS {
				return "decide (" + l + op + r + ")", nil
			}
			return "(" + l + op + r + ")", nil
		}
	}
	return "", g.errf(e, "byte predicate")
}

func (g *lxGen) byteTerm(e ast.Expr, v string) (string, error) {
	switch e := e.(type) {
	case *ast.Ident:
		if e.Name == v {
			return "c", nil
		}
	case *ast.BasicLit:
		switch e.Kind {
		case token.CHAR:
			s, err := strconv.Unquote(e.Value)
			if err == nil && len(s) == 1 {
				return fmt.Sprintf("(0x%02x : UInt8)", s[0]), nil
			}
		case token.INT:
			n, err := strconv.ParseInt(e.Value, 0, 64)
			if err == nil && 0 <= n && n <= 255 {
				return fmt.Sprintf("(0x%02x : UInt8)", n), nil
			}
		}
	}
	return "", g.errf(e, "byte term")
}

func (g *lxGen) bytePredicate(f *ast.File, name string) error {
	fn, err := g.funcDecl(f, "", name)
	if err != nil {
		return err
	}
	if fn.Type.Params == nil || len(fn.Type.Params.List) != 1 || len(fn.Type.Params.List[0].Names) != 1 ||
		g.src(fn.Type.Params.List[0].Type) != "byte" || len(fn.Body.List) != 1 {
		return g.errf(fn, "%s is not a one-line byte predicate", name)
	}
	ret, ok := fn.Body.List[0].(*ast.ReturnStmt)
	if !ok || len(ret.Results) != 1 {
		return g.errf(fn, "%s is not a one-line byte predicate", name)
	}
	s, err := g.byteExpr(ret.Results[0], fn.Type.Params.List[0].Names[0].Name)
	if err != nil {
		return err
	}
	fmt.Fprintf(&g.out, "/-- lexer.go `%s`: `%s` -/\ndef %s (c : UInt8) : Bool := %s\n\n", name, g.src(ret.Results[0]), name, s)
	return nil
}

// byteVar reads `var name = []byte("…")`.
func (g *lxGen) byteVar(f *ast.File, name string) error {
	for _, d := range f.Decls {
		gd, ok := d.(*ast.GenDecl)
		if !ok || gd.Tok != token.VAR {
			continue
		}
		for _, s := range gd.Specs {
			vs := s.(*ast.ValueSpec)
			if len(vs.Names) != 1 || vs.Names[0].Name != name || len(vs.Values) != 1 {
				continue
			}
			call, ok := vs.Values[0].(*ast.CallExpr)
			if !ok || g.src(call.Fun) != "[]byte" || len(call.Args) != 1 {
				return g.errf(vs, "%s is not []byte(\"…\")", name)
			}
			lit, ok := call.Args[0].(*ast.BasicLit)
			if !ok || lit.Kind != token.STRING {
				return g.errf(vs, "%s is not []byte(\"…\")", name)
			}
			str, err := strconv.Unquote(lit.Value)
			if err != nil {
				return g.errf(vs, "string literal")
			}
			fmt.Fprintf(&g.out, "/-- lexer.go `%s` -/\ndef %s : List UInt8 := %s\n\n", g.src(vs), name, lxBytes(str))
			return nil
		}
	}
	return fmt.Errorf("shape not recognised: var %s not found", name)
}

// keywordSwitch reads `switch id { case "kw": typ = tokenKw … }`.
func (g *lxGen) keywordSwitch(sw *ast.SwitchStmt, tokens map[string]int) ([][2]string, error) {
	if g.src(sw.Tag) != "id" {
		return nil, g.errf(sw, "keyword switch is not over id")
	}
	var out [][2]string
	for _, c := range sw.Body.List {
		cc := c.(*ast.CaseClause)
		if len(cc.List) != 1 || len(cc.Body) != 1 {
			return nil, g.errf(cc, "keyword case")
		}
		lit, ok := cc.List[0].(*ast.BasicLit)
		if !ok || lit.Kind != token.STRING {
			return nil, g.errf(cc, "keyword case")
		}
		kw, _ := strconv.Unquote(lit.Value)
		as, ok := cc.Body[0].(*ast.AssignStmt)
		if !ok || as.Tok != token.ASSIGN || len(as.Lhs) != 1 || len(as.Rhs) != 1 || g.src(as.Lhs[0]) != "typ" {
			return nil, g.errf(cc, "keyword case body")
		}
		tok := g.src(as.Rhs[0])
		if _, ok := tokens[tok]; !ok {
			return nil, g.errf(cc, "unknown token %s", tok)
		}
		out = append(out, [2]string{kw, tok})
	}
	return out, nil
}

func genLexTables(repo string) (string, error) {
	g := &lxGen{fset: token.NewFileSet()}
	g.out.WriteString("/-! Tables of the lexer (tokens.go, ast.go, lexer.go, compiler.go). -/\nnamespace ScriggoV.Gen.LexTables\n\n")

	// tokens
	tf, err := g.parse(filepath.Join(repo, "internal/compiler/tokens.go"))
	if err != nil {
		return "", err
	}
	toks, err := g.iotaBlock(tf, "tokenTyp")
	if err != nil {
		return "", err
	}
	tokens := map[string]int{}
	for i, n := range toks {
		tokens[n] = i
		fmt.Fprintf(&g.out, "def %s : Nat := %d\n", n, i)
	}
	fmt.Fprintf(&g.out, "def tokenCount : Nat := %d\n\n", len(toks))

	// contexts and formats
	af, err := g.parse(filepath.Join(repo, "ast/ast.go"))
	if err != nil {
		return "", err
	}
	for _, typ := range []string{"Context", "Format"} {
		names, err := g.iotaBlock(af, typ)
		if err != nil {
			return "", err
		}
		for i, n := range names {
			fmt.Fprintf(&g.out, "def %s : Nat := %d\n", n, i)
		}
		fmt.Fprintf(&g.out, "def %sCount : Nat := %d\n\n", strings.ToLower(typ), len(names))
	}

	// formatTypeName
	cf, err := g.parse(filepath.Join(repo, "internal/compiler/compiler.go"))
	if err != nil {
		return "", err
	}
	found := false
	for _, d := range cf.Decls {
		gd, ok := d.(*ast.GenDecl)
		if !ok || gd.Tok != token.VAR {
			continue
		}
		for _, s := range gd.Specs {
			vs := s.(*ast.ValueSpec)
			if len(vs.Names) != 1 || vs.Names[0].Name != "formatTypeName" || len(vs.Values) != 1 {
				continue
			}
			cl, ok := vs.Values[0].(*ast.CompositeLit)
			if !ok || g.src(cl.Type) != "[...]string" {
				return "", g.errf(vs, "formatTypeName is not a [...]string literal")
			}
			var items []string
			for _, e := range cl.Elts {
				lit, ok := e.(*ast.BasicLit)
				if !ok || lit.Kind != token.STRING {
					return "", g.errf(e, "formatTypeName element")
				}
				s, _ := strconv.Unquote(lit.Value)
				items = append(items, lxBytes(s))
			}
			fmt.Fprintf(&g.out, "/-- compiler.go `%s` -/\ndef formatTypeName : List (List UInt8) := [%s]\n\n", g.src(vs), strings.Join(items, ", "))
			found = true
		}
	}
	if !found {
		return "", fmt.Errorf("shape not recognised: var formatTypeName not found")
	}

	// lexer.go
	lf, err := g.parse(filepath.Join(repo, "internal/compiler/lexer.go"))
	if err != nil {
		return "", err
	}
	for _, n := range []string{"isSpace", "isStartChar", "isASCIISpace", "isAlpha", "isBinDigit", "isOctDigit", "isDecDigit", "isHexDigit"} {
		if err := g.bytePredicate(lf, n); err != nil {
			return "", err
		}
	}
	for _, n := range []string{"cdataStart", "cdataEnd", "jsMimeType", "jsonLDMimeType", "cssMimeType", "moduleType", "http", "https"} {
		if err := g.byteVar(lf, n); err != nil {
			return "", err
		}
	}
	// BOM
	bom := false
	for _, d := range lf.Decls {
		gd, ok := d.(*ast.GenDecl)
		if !ok || gd.Tok != token.CONST {
			continue
		}
		for _, s := range gd.Specs {
			vs := s.(*ast.ValueSpec)
			if len(vs.Names) == 1 && vs.Names[0].Name == "BOM" && len(vs.Values) == 1 {
				lit, ok := vs.Values[0].(*ast.BasicLit)
				if !ok || lit.Kind != token.INT {
					return "", g.errf(vs, "BOM is not an integer literal")
				}
				n, err := strconv.ParseInt(lit.Value, 0, 64)
				if err != nil {
					return "", g.errf(vs, "BOM value")
				}
				fmt.Fprintf(&g.out, "def BOM : Nat := 0x%x\n\n", n)
				bom = true
			}
		}
	}
	if !bom {
		return "", fmt.Errorf("shape not recognised: const BOM not found")
	}
	// keyword switches
	fn, err := g.funcDecl(lf, "lexer", "lexIdentifierOrKeyword")
	if err != nil {
		return "", err
	}
	var switches []*ast.SwitchStmt
	ast.Inspect(fn.Body, func(n ast.Node) bool {
		if sw, ok := n.(*ast.SwitchStmt); ok && sw.Tag != nil && g.src(sw.Tag) == "id" {
			switches = append(switches, sw)
		}
		return true
	})
	if len(switches) != 2 {
		return "", fmt.Errorf("shape not recognised: lexIdentifierOrKeyword has %d switches over id, expected 2", len(switches))
	}
	for i, name := range []string{"goKeywords", "templateKeywords"} {
		kws, err := g.keywordSwitch(switches[i], tokens)
		if err != nil {
			return "", err
		}
		var items []string
		for _, kw := range kws {
			items = append(items, fmt.Sprintf("(%s, %s) /- %s -/", lxBytes(kw[0]), kw[1], kw[0]))
		}
		fmt.Fprintf(&g.out, "/-- lexIdentifierOrKeyword: switch %d over the identifier text -/\ndef %s : List (List UInt8 × Nat) := [\n  %s]\n\n", i+1, name, strings.Join(items, ",\n  "))
	}
	g.out.WriteString("end ScriggoV.Gen.LexTables\n")
	return g.out.String(), nil
}
