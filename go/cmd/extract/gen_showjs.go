package main

// Generator "ShowJS" (property C08): regenerates from /repo/internal/runtime/renderer.go
//
//	showInJS / showInJSON   the order of the leading type switch, the `switch v.Kind()`
//	                        (which reflect.Kind goes to which branch) and every literal the
//	                        branches write ("null", "true", "[", `,"`, `":`, "undefined/* … */" …)
//	isEmptyValue            its `switch v.Kind()`
//	showTimeInJS            the common prefix / suffix of its format strings
//
// and checks that jsonStringEscape (escapers.go) only calls jsStringEscape. The loops of the
// branches (commas, the `first` flag, sorting, omitempty) are hand-modelled in
// Model/ShowValue.lean and tied by the correspondence harness; a branch is recognised by the
// reflect accessors it calls. Anything outside these shapes is an error, never a guess.

import (
	"bytes"
	"fmt"
	"go/ast"
	"go/parser"
	"go/printer"
	"go/token"
	"path/filepath"
	"regexp"
	"strconv"
	"strings"
)

func init() {
	generators = append(generators, generator{name: "ShowJS", run: genShowJS})
}

// reflect.Kind in declaration order
var sjKinds = []string{"Invalid", "Bool", "Int", "Int8", "Int16", "Int32", "Int64", "Uint", "Uint8", "Uint16",
	"Uint32", "Uint64", "Uintptr", "Float32", "Float64", "Complex64", "Complex128", "Array", "Chan", "Func",
	"Interface", "Map", "Pointer", "Slice", "String", "Struct", "UnsafePointer"}

func sjLeanKind(k string) string { return strings.ToLower(k[:1]) + k[1:] }

func sjLeanBytes(s string) string {
	if len(s) == 0 {
		return "[]"
	}
	parts := make([]string, len(s))
	for i := 0; i < len(s); i++ {
		parts[i] = strconv.Itoa(int(s[i]))
	}
	return "[" + strings.Join(parts, ", ") + "]"
}

type sjGen struct {
	fset *token.FileSet
}

func (g *sjGen) src(n any) string {
	var b bytes.Buffer
	printer.Fprint(&b, g.fset, n)
	return strings.Join(strings.Fields(b.String()), " ")
}

func sjErr(format string, a ...any) error {
	return fmt.Errorf("shape not recognised: "+format, a...)
}

func (g *sjGen) str(e ast.Expr) (string, error) {
	lit, ok := e.(*ast.BasicLit)
	if !ok || lit.Kind != token.STRING {
		return "", sjErr("expected a string literal, got %s", g.src(e))
	}
	s, err := strconv.Unquote(lit.Value)
	if err != nil {
		return "", sjErr("string literal %s", lit.Value)
	}
	return s, nil
}

// kindsOf returns the reflect.Kind names of a case list (`reflect.Ptr` is an alias).
func (g *sjGen) kindsOf(cc *ast.CaseClause) ([]string, error) {
	var ks []string
	for _, e := range cc.List {
		sel, ok := e.(*ast.SelectorExpr)
		if !ok {
			return nil, sjErr("case expression %s", g.src(e))
		}
		if id, ok := sel.X.(*ast.Ident); !ok || id.Name != "reflect" {
			return nil, sjErr("case expression %s", g.src(e))
		}
		name := sel.Sel.Name
		if name == "Ptr" {
			name = "Pointer"
		}
		found := false
		for _, k := range sjKinds {
			found = found || k == name
		}
		if !found {
			return nil, sjErr("unknown kind %s", g.src(e))
		}
		ks = append(ks, name)
	}
	return ks, nil
}

// literals written or assigned to s inside a clause, in source order:
// `w.WriteString("…")`, `s = "…"`, `fmt.Sprintf("…", t)`.
func (g *sjGen) lits(body []ast.Stmt) (writes []string, assigns []string, sprintf []string) {
	for _, st := range body {
		ast.Inspect(st, func(n ast.Node) bool {
			switch n := n.(type) {
			case *ast.CallExpr:
				fn := g.src(n.Fun)
				if fn == "w.WriteString" && len(n.Args) == 1 {
					if s, err := g.str(n.Args[0]); err == nil {
						writes = append(writes, s)
					}
				}
				if fn == "fmt.Sprintf" && len(n.Args) >= 1 {
					if s, err := g.str(n.Args[0]); err == nil {
						sprintf = append(sprintf, s)
					}
				}
			case *ast.AssignStmt:
				if len(n.Lhs) == 1 && len(n.Rhs) == 1 && g.src(n.Lhs[0]) == "s" && n.Tok == token.ASSIGN {
					if s, err := g.str(n.Rhs[0]); err == nil {
						assigns = append(assigns, s)
					}
				}
			}
			return true
		})
	}
	return
}

type sjFunc struct {
	typeCases []string          // the leading type switch, one entry per case
	branch    map[string]string // reflect.Kind -> branch
	lit       map[string]string // literal name -> spelling
	showsType bool              // the default branch prints the type name
}

var sjBranches = []string{"bool", "int", "uint", "float32", "float64", "string", "slice", "array", "pointer",
	"struct", "map", "default"}

// fingerprints: what the body of a branch must contain (normalised source text).
func sjFingerprints(fn string) map[string][]string {
	esc := "jsStringEscape"
	if fn == "showInJSON" {
		esc = "jsonStringEscape"
	}
	return map[string][]string{
		"bool":    {"v.Bool()"},
		"int":     {"s = strconv.FormatInt(v.Int(), 10)"},
		"uint":    {"s = strconv.FormatUint(v.Uint(), 10)"},
		"float32": {"s = strconv.FormatFloat(v.Float(), 'f', -1, 32)"},
		"float64": {"s = strconv.FormatFloat(v.Float(), 'f', -1, 64)"},
		"string":  {esc + "(w, v.String())"},
		"slice":   {"value.([]byte)", "escapeBytes(w, b, true)", "v.IsNil()", "fallthrough"},
		"array":   {"v.Len() == 0", fn + "(env, out, v.Index(i).Interface())", "i > 0"},
		"pointer": {"v.IsNil()", "return " + fn + "(env, out, v.Elem().Interface())"},
		"struct": {"t.NumField()", "field.PkgPath == \"\"", "field.Tag.Get(\"json\")", "tag == \"-\"",
			"parseTagValue(tag)", "omitempty && isEmptyValue(value)", "tagName != \"\"", "if first {",
			esc + "(w, name)", fn + "(env, w, value.Interface())", "first = false"},
		"map": {"v.IsNil()", "v.MapRange()", "k.String()", "k.String(env)", "toString(env, k)",
			"sort.Slice(keyPairs, func(i, j int) bool { return keyPairs[i].key < keyPairs[j].key })",
			"if i == 0 {", esc + "(w, keyPair.key)", fn + "(env, out, keyPair.val)"},
	}
}

func (g *sjGen) showFunc(fd *ast.FuncDecl) (*sjFunc, error) {
	name := fd.Name.Name
	res := &sjFunc{branch: map[string]string{}, lit: map[string]string{}}
	var ts *ast.TypeSwitchStmt
	var ks *ast.SwitchStmt
	for _, st := range fd.Body.List {
		switch st := st.(type) {
		case *ast.TypeSwitchStmt:
			if ts != nil || ks != nil {
				return nil, sjErr("%s: more than one type switch / type switch after the kind switch", name)
			}
			ts = st
		case *ast.SwitchStmt:
			if ks != nil {
				return nil, sjErr("%s: more than one switch", name)
			}
			ks = st
		}
	}
	if ts == nil || ks == nil {
		return nil, sjErr("%s: expected a type switch followed by `switch v.Kind()`", name)
	}
	if g.src(ts.Assign) != "v := value.(type)" {
		return nil, sjErr("%s: type switch header %s", name, g.src(ts.Assign))
	}
	for _, c := range ts.Body.List {
		cc := c.(*ast.CaseClause)
		if len(cc.List) != 1 {
			return nil, sjErr("%s: type switch case %s", name, g.src(cc))
		}
		res.typeCases = append(res.typeCases, g.src(cc.List[0]))
	}
	want := []string{"nil", "native.JS", "native.JSStringer", "native.JSEnvStringer", "time.Time", "error"}
	if name == "showInJSON" {
		want = []string{"nil", "native.JSON", "native.JSONStringer", "native.JSONEnvStringer", "time.Time", "error"}
	}
	if strings.Join(res.typeCases, "|") != strings.Join(want, "|") {
		return nil, sjErr("%s: type switch cases %v, expected %v", name, res.typeCases, want)
	}
	for i, c := range ts.Body.List {
		cc := c.(*ast.CaseClause)
		body := g.src(cc.Body)
		w, _, _ := g.lits(cc.Body)
		switch i {
		case 0:
			if len(w) != 1 {
				return nil, sjErr("%s: case nil: %s", name, body)
			}
			res.lit["nilIface"] = w[0]
		case 1:
			if !strings.Contains(body, "w.WriteString(string(v))") {
				return nil, sjErr("%s: case %s: %s", name, want[i], body)
			}
		case 2:
			if !strings.Contains(body, "w.WriteString(string(v.JS()))") && !strings.Contains(body, "w.WriteString(string(v.JSON()))") {
				return nil, sjErr("%s: case %s: %s", name, want[i], body)
			}
		case 3:
			if !strings.Contains(body, "w.WriteString(string(v.JS(env)))") && !strings.Contains(body, "w.WriteString(string(v.JSON(env)))") {
				return nil, sjErr("%s: case %s: %s", name, want[i], body)
			}
		case 4:
			if name == "showInJS" {
				if !strings.Contains(body, "w.WriteString(showTimeInJS(v))") {
					return nil, sjErr("%s: case time.Time: %s", name, body)
				}
			} else {
				if len(w) != 2 || !strings.Contains(body, "w.WriteString(v.Format(time.RFC3339))") {
					return nil, sjErr("%s: case time.Time: %s", name, body)
				}
				res.lit["timeOpen"], res.lit["timeClose"] = w[0], w[1]
			}
		case 5:
			if body != "value = v.Error()" {
				return nil, sjErr("%s: case error: %s", name, body)
			}
		}
	}
	if ks.Init != nil || ks.Tag == nil || g.src(ks.Tag) != "v.Kind()" {
		return nil, sjErr("%s: expected `switch v.Kind()`", name)
	}
	fps := sjFingerprints(name)
	seen := map[string]bool{}
	for ci, c := range ks.Body.List {
		cc := c.(*ast.CaseClause)
		body := g.src(cc.Body)
		w, a, sp := g.lits(cc.Body)
		var br string
		if cc.List == nil {
			br = "default"
		} else {
			for _, b := range sjBranches {
				fp, ok := fps[b]
				if !ok {
					continue
				}
				all := true
				for _, f := range fp {
					all = all && strings.Contains(body, f)
				}
				if all {
					if br != "" {
						return nil, sjErr("%s: case %s looks like both %s and %s", name, g.src(cc.List), br, b)
					}
					br = b
				}
			}
		}
		if br == "" {
			return nil, sjErr("%s: case %s: body not recognised: %s", name, g.src(cc.List), body)
		}
		if seen[br] {
			return nil, sjErr("%s: two cases look like the %s branch", name, br)
		}
		seen[br] = true
		kinds, err := g.kindsOf(cc)
		if err != nil {
			return nil, err
		}
		for _, k := range kinds {
			if _, dup := res.branch[k]; dup {
				return nil, sjErr("%s: kind %s in two cases", name, k)
			}
			res.branch[k] = br
		}
		need := func(got []string, n int, what string) error {
			if len(got) != n {
				return sjErr("%s: branch %s: expected %d %s literals, found %q", name, br, n, what, got)
			}
			return nil
		}
		switch br {
		case "bool":
			// s = "false"; if v.Bool() { s = "true" }
			if len(cc.Body) != 2 || len(a) != 2 || !strings.HasPrefix(g.src(cc.Body[1]), "if v.Bool() {") {
				return nil, sjErr("%s: bool branch: %s", name, body)
			}
			res.lit["falseLit"], res.lit["trueLit"] = a[0], a[1]
		case "string":
			if err := need(w, 2, "WriteString"); err != nil {
				return nil, err
			}
			res.lit["strOpen"], res.lit["strClose"] = w[0], w[1]
		case "slice":
			if err := need(a, 1, "s ="); err != nil {
				return nil, err
			}
			res.lit["nilSlice"] = a[0]
			// must fall through into the array branch
			if ci+1 >= len(ks.Body.List) {
				return nil, sjErr("%s: slice branch is last", name)
			}
			if last, ok := cc.Body[len(cc.Body)-1].(*ast.BranchStmt); !ok || last.Tok != token.FALLTHROUGH {
				return nil, sjErr("%s: slice branch does not end with fallthrough", name)
			}
			nk, err := g.kindsOf(ks.Body.List[ci+1].(*ast.CaseClause))
			if err != nil || len(nk) != 1 || nk[0] != "Array" {
				return nil, sjErr("%s: slice branch falls through into %v, expected the Array case", name, nk)
			}
		case "array":
			if err := need(a, 1, "s ="); err != nil {
				return nil, err
			}
			if err := need(w, 3, "WriteString"); err != nil {
				return nil, err
			}
			res.lit["emptyArray"] = a[0]
			res.lit["arrOpen"], res.lit["arrSep"], res.lit["arrClose"] = w[0], w[1], w[2]
		case "pointer":
			if err := need(a, 1, "s ="); err != nil {
				return nil, err
			}
			res.lit["nilPtr"] = a[0]
		case "struct":
			if err := need(w, 5, "WriteString"); err != nil {
				return nil, err
			}
			res.lit["structOpen"], res.lit["memberFirst"], res.lit["memberNext"], res.lit["memberColon"], res.lit["structClose"] = w[0], w[1], w[2], w[3], w[4]
		case "map":
			if err := need(a, 1, "s ="); err != nil {
				return nil, err
			}
			if err := need(w, 5, "WriteString"); err != nil {
				return nil, err
			}
			res.lit["nilMap"] = a[0]
			res.lit["mapOpen"], res.lit["mapFirst"], res.lit["mapNext"], res.lit["mapColon"], res.lit["mapClose"] = w[0], w[1], w[2], w[3], w[4]
		case "default":
			switch {
			case len(sp) == 1 && len(a) == 0 && strings.Count(sp[0], "%") == 1 && strings.Contains(sp[0], "%s") &&
				strings.Contains(body, "t := env.TypeOf(reflect.ValueOf(value))") && strings.Contains(body, ", t)"):
				i := strings.Index(sp[0], "%s")
				res.lit["defaultPrefix"], res.lit["defaultSuffix"] = sp[0][:i], sp[0][i+2:]
				res.showsType = true
			case len(sp) == 0 && len(a) == 1 && len(cc.Body) == 1:
				res.lit["defaultPrefix"], res.lit["defaultSuffix"] = a[0], ""
			default:
				return nil, sjErr("%s: default branch: %s", name, body)
			}
		}
	}
	for _, b := range sjBranches {
		if !seen[b] {
			return nil, sjErr("%s: no %s branch", name, b)
		}
	}
	return res, nil
}

// emptySwitch reads isEmptyValue: every case is `empty = <expr of v>`.
func (g *sjGen) emptySwitch(fd *ast.FuncDecl) (map[string]string, error) {
	if len(fd.Body.List) != 2 {
		return nil, sjErr("isEmptyValue: body")
	}
	sw, ok := fd.Body.List[0].(*ast.SwitchStmt)
	if !ok || sw.Init != nil || sw.Tag == nil || g.src(sw.Tag) != "v.Kind()" {
		return nil, sjErr("isEmptyValue: expected `switch v.Kind()`")
	}
	if g.src(fd.Body.List[1]) != "return" {
		return nil, sjErr("isEmptyValue: expected a bare return")
	}
	forms := map[string]string{
		"empty = !v.Bool()":      "bool",
		"empty = v.Int() == 0":   "int",
		"empty = v.Uint() == 0":  "uint",
		"empty = v.Float() == 0": "float",
		"empty = v.Len() == 0":   "len",
		"empty = v.IsNil()":      "nil",
	}
	res := map[string]string{}
	for _, c := range sw.Body.List {
		cc := c.(*ast.CaseClause)
		if cc.List == nil {
			return nil, sjErr("isEmptyValue: default case")
		}
		br, ok := forms[g.src(cc.Body)]
		if !ok {
			return nil, sjErr("isEmptyValue: case body %s", g.src(cc.Body))
		}
		kinds, err := g.kindsOf(cc)
		if err != nil {
			return nil, err
		}
		for _, k := range kinds {
			if _, dup := res[k]; dup {
				return nil, sjErr("isEmptyValue: kind %s in two cases", k)
			}
			res[k] = br
		}
	}
	return res, nil
}

// toStringSwitch reads toString: which kind is spelled how (map keys go through it).
func (g *sjGen) toStringSwitch(fd *ast.FuncDecl) (map[string]string, error) {
	var sw *ast.SwitchStmt
	for _, st := range fd.Body.List {
		if s, ok := st.(*ast.SwitchStmt); ok {
			if sw != nil {
				return nil, sjErr("toString: more than one switch")
			}
			sw = s
		}
	}
	if sw == nil || sw.Init != nil || sw.Tag == nil || g.src(sw.Tag) != "v.Kind()" {
		return nil, sjErr("toString: expected `switch v.Kind()`")
	}
	if g.src(fd.Body.List[0]) != "v := valueOf(env, i)" {
		return nil, sjErr("toString: first statement %s", g.src(fd.Body.List[0]))
	}
	res := map[string]string{}
	seen := map[string]bool{}
	for _, c := range sw.Body.List {
		cc := c.(*ast.CaseClause)
		body := g.src(cc.Body)
		var br string
		switch {
		case cc.List == nil:
			if !strings.HasPrefix(body, `return "", fmt.Errorf("cannot show value of type %s"`) {
				return nil, sjErr("toString: default: %s", body)
			}
			br = "default"
		case body == `return "", nil`:
			br = "empty"
		case body == `if v.Bool() { return "true", nil } return "false", nil`:
			br = "bool"
		case body == "return strconv.FormatInt(v.Int(), 10), nil":
			br = "int"
		case body == "return strconv.FormatUint(v.Uint(), 10), nil":
			br = "uint"
		case body == "return strconv.FormatFloat(v.Float(), 'f', -1, 32), nil":
			br = "float32"
		case body == "return strconv.FormatFloat(v.Float(), 'f', -1, 64), nil":
			br = "float64"
		case body == "return v.String(), nil":
			br = "string"
		case strings.HasPrefix(body, "c := v.Complex()"):
			br = "complex"
		default:
			return nil, sjErr("toString: case %s: %s", g.src(cc.List), body)
		}
		if seen[br] && br != "complex" {
			return nil, sjErr("toString: two %s cases", br)
		}
		seen[br] = true
		if cc.List == nil {
			continue
		}
		kinds, err := g.kindsOf(cc)
		if err != nil {
			return nil, err
		}
		for _, k := range kinds {
			if _, dup := res[k]; dup {
				return nil, sjErr("toString: kind %s in two cases", k)
			}
			res[k] = br
		}
	}
	return res, nil
}

// fmtSegs splits a Sprintf format made of text, %0.Nd, %+0.Nd and %c.
func fmtSegs(f string) (string, error) {
	var parts []string
	lit := ""
	flush := func() {
		if lit != "" {
			parts = append(parts, ".lit "+sjLeanBytes(lit))
			lit = ""
		}
	}
	for i := 0; i < len(f); {
		if f[i] != '%' {
			lit += f[i : i+1]
			i++
			continue
		}
		flush()
		rest := f[i:]
		switch {
		case strings.HasPrefix(rest, "%c"):
			parts = append(parts, ".chr")
			i += 2
		case len(rest) >= 5 && strings.HasPrefix(rest, "%0.") && rest[3] >= '1' && rest[3] <= '9' && rest[4] == 'd':
			parts = append(parts, fmt.Sprintf(".dec false %c", rest[3]))
			i += 5
		case len(rest) >= 6 && strings.HasPrefix(rest, "%+0.") && rest[4] >= '1' && rest[4] <= '9' && rest[5] == 'd':
			parts = append(parts, fmt.Sprintf(".dec true %c", rest[4]))
			i += 6
		default:
			return "", sjErr("showTimeInJS: verb in format %q", f)
		}
	}
	flush()
	return "[" + strings.Join(parts, ", ") + "]", nil
}

// timeLayout reads showTimeInJS as a whole: its text must be the expected one up to the four
// format strings and the four year bounds, which are regenerated.
func (g *sjGen) timeLayout(fd *ast.FuncDecl) (formats []string, bounds []string, err error) {
	body := g.src(fd.Body)
	var ints []string
	ast.Inspect(fd.Body, func(n ast.Node) bool {
		switch n := n.(type) {
		case *ast.BasicLit:
			if n.Kind == token.STRING {
				if s, err := strconv.Unquote(n.Value); err == nil && strings.Contains(s, "%") {
					formats = append(formats, s)
					body = strings.Replace(body, n.Value, "FORMAT", 1)
				}
			}
		}
		return true
	})
	if len(formats) != 4 {
		return nil, nil, sjErr("showTimeInJS: expected 4 format strings")
	}
	want := `{ y := tt.Year() if y < -B0 || y > B1 { panic("not representable year in JavaScript") } ` +
		`ms := int64(tt.Nanosecond()) / int64(time.Millisecond) name, offset := tt.Zone() if name == "UTC" { ` +
		`format := FORMAT if y < B2 || y > B3 { format = FORMAT } ` +
		`return fmt.Sprintf(format, y, tt.Month(), tt.Day(), tt.Hour(), tt.Minute(), tt.Second(), ms) } ` +
		`zone := offset / 60 sign := '+' if zone < 0 { sign = '-' zone = -zone } h, m := zone/60, zone%60 ` +
		`format := FORMAT if y < B2 || y > B3 { format = FORMAT } ` +
		`return fmt.Sprintf(format, y, tt.Month(), tt.Day(), tt.Hour(), tt.Minute(), tt.Second(), ms, sign, h, m) }`
	// the four bounds, in the order they appear: -N0, N1, N2, N3 (twice)
	re := regexp.MustCompile(`y < (-?[0-9]+) \|\| y > ([0-9]+)`)
	ms := re.FindAllStringSubmatch(body, -1)
	if len(ms) != 3 || ms[1][1] != ms[2][1] || ms[1][2] != ms[2][2] || !strings.HasPrefix(ms[0][1], "-") {
		return nil, nil, sjErr("showTimeInJS: year comparisons %v", ms)
	}
	ints = []string{ms[0][1][1:], ms[0][2], ms[1][1], ms[1][2]}
	w := want
	w = strings.ReplaceAll(w, "B0", ints[0])
	w = strings.ReplaceAll(w, "B1", ints[1])
	w = strings.ReplaceAll(w, "B2", ints[2])
	w = strings.ReplaceAll(w, "B3", ints[3])
	if body != w {
		return nil, nil, sjErr("showTimeInJS: body is not the expected one: %s", body)
	}
	return formats, []string{"-" + ints[0], ints[1], ints[2], ints[3]}, nil
}

// timeFormats reads showTimeInJS: all format strings must share the prefix up to and including
// the opening quote, and the suffix from the closing quote.
func (g *sjGen) timeFormats(fd *ast.FuncDecl) (string, string, error) {
	var formats []string
	ast.Inspect(fd.Body, func(n ast.Node) bool {
		if lit, ok := n.(*ast.BasicLit); ok && lit.Kind == token.STRING {
			if s, err := strconv.Unquote(lit.Value); err == nil && strings.Contains(s, "%") {
				formats = append(formats, s)
			}
		}
		return true
	})
	if len(formats) != 4 {
		return "", "", sjErr("showTimeInJS: expected 4 format strings, found %d", len(formats))
	}
	var pre, suf string
	for i, f := range formats {
		a := strings.Index(f, `"`)
		b := strings.LastIndex(f, `"`)
		if a < 0 || b <= a || strings.Contains(f[:a], "%") || strings.Contains(f[b:], "%") {
			return "", "", sjErr("showTimeInJS: format %q", f)
		}
		if i > 0 && (f[:a+1] != pre || f[b:] != suf) {
			return "", "", sjErr("showTimeInJS: formats differ outside the quotes")
		}
		pre, suf = f[:a+1], f[b:]
	}
	return pre, suf, nil
}

var sjLitNames = []string{"nilIface", "trueLit", "falseLit", "strOpen", "strClose", "nilSlice", "emptyArray",
	"arrOpen", "arrSep", "arrClose", "nilPtr", "structOpen", "memberFirst", "memberNext", "memberColon",
	"structClose", "nilMap", "mapOpen", "mapFirst", "mapNext", "mapColon", "mapClose", "defaultPrefix",
	"defaultSuffix", "timeOpen", "timeClose"}

func genShowJS(repo string) (string, error) {
	g := &sjGen{fset: token.NewFileSet()}
	funcs := map[string]*ast.FuncDecl{}
	for _, f := range []string{"renderer.go", "escapers.go"} {
		file, err := parser.ParseFile(g.fset, filepath.Join(repo, "internal", "runtime", f), nil, 0)
		if err != nil {
			return "", err
		}
		for _, d := range file.Decls {
			if fd, ok := d.(*ast.FuncDecl); ok && fd.Recv == nil {
				funcs[fd.Name.Name] = fd
			}
		}
	}
	for _, n := range []string{"showInJS", "showInJSON", "isEmptyValue", "showTimeInJS", "jsonStringEscape", "parseTagValue", "toString"} {
		if funcs[n] == nil {
			return "", sjErr("function %s not found", n)
		}
	}
	if b := g.src(funcs["jsonStringEscape"].Body); b != "{ return jsStringEscape(w, s) }" {
		return "", sjErr("jsonStringEscape: body %s", b)
	}
	js, err := g.showFunc(funcs["showInJS"])
	if err != nil {
		return "", err
	}
	json, err := g.showFunc(funcs["showInJSON"])
	if err != nil {
		return "", err
	}
	pre, suf, err := g.timeFormats(funcs["showTimeInJS"])
	if err != nil {
		return "", err
	}
	js.lit["timeOpen"], js.lit["timeClose"] = pre, suf
	empty, err := g.emptySwitch(funcs["isEmptyValue"])
	if err != nil {
		return "", err
	}
	tsw, err := g.toStringSwitch(funcs["toString"])
	if err != nil {
		return "", err
	}
	tformats, tbounds, err := g.timeLayout(funcs["showTimeInJS"])
	if err != nil {
		return "", err
	}

	var o strings.Builder
	o.WriteString("import ScriggoV.Basic.Bytes\n")
	o.WriteString("/-! The kind switches and literal spellings of showInJS / showInJSON / isEmptyValue\n(internal/runtime/renderer.go). -/\n")
	o.WriteString("namespace ScriggoV.Gen.ShowJS\nopen ScriggoV\n\n")
	o.WriteString("/-- `reflect.Kind` -/\ninductive RKind\n")
	for _, k := range sjKinds {
		o.WriteString("  | " + sjLeanKind(k) + "\n")
	}
	o.WriteString("  deriving DecidableEq, Repr, Inhabited\n\n")
	o.WriteString("def RKind.all : List RKind := [" + func() string {
		var p []string
		for _, k := range sjKinds {
			p = append(p, "."+sjLeanKind(k))
		}
		return strings.Join(p, ", ")
	}() + "]\n\n")
	o.WriteString("def RKind.name : RKind → String\n")
	for _, k := range sjKinds {
		fmt.Fprintf(&o, "  | .%s => %q\n", sjLeanKind(k), k)
	}
	o.WriteString("\n/-- the branches of `switch v.Kind()` in showInJS / showInJSON, named after what they do -/\ninductive Branch\n")
	for _, b := range sjBranches {
		o.WriteString("  | " + b + "\n")
	}
	o.WriteString("  deriving DecidableEq, Repr, Inhabited\n\n")
	o.WriteString("/-- the branches of `switch v.Kind()` in isEmptyValue (`none`: no case, `empty` stays false) -/\ninductive EmptyBranch\n  | bool | int | uint | float | len | nil | none\n  deriving DecidableEq, Repr, Inhabited\n\n")
	o.WriteString("/-- every literal the function writes -/\nstructure Lits where\n")
	for _, n := range sjLitNames {
		o.WriteString("  " + n + " : Bytes\n")
	}
	o.WriteString("  /-- the default branch prints the type name between defaultPrefix and defaultSuffix -/\n  defaultShowsType : Bool\n\n")
	emit := func(prefix string, f *sjFunc, goName string) error {
		fmt.Fprintf(&o, "/-- `switch v.Kind()` of %s -/\ndef %sBranch : RKind → Branch\n", goName, prefix)
		for _, k := range sjKinds {
			b, ok := f.branch[k]
			if !ok {
				b = "default"
			}
			fmt.Fprintf(&o, "  | .%s => .%s\n", sjLeanKind(k), b)
		}
		fmt.Fprintf(&o, "\n/-- literals of %s -/\ndef %sLits : Lits where\n", goName, prefix)
		for _, n := range sjLitNames {
			v, ok := f.lit[n]
			if !ok {
				return sjErr("%s: literal %s not found", goName, n)
			}
			fmt.Fprintf(&o, "  %s := %s  -- %q\n", n, sjLeanBytes(v), v)
		}
		fmt.Fprintf(&o, "  defaultShowsType := %v\n\n", f.showsType)
		fmt.Fprintf(&o, "/-- cases of the leading type switch of %s, in order -/\ndef %sTypeSwitch : List String := [", goName, prefix)
		for i, c := range f.typeCases {
			if i > 0 {
				o.WriteString(", ")
			}
			fmt.Fprintf(&o, "%q", c)
		}
		o.WriteString("]\n\n")
		return nil
	}
	if err := emit("js", js, "showInJS"); err != nil {
		return "", err
	}
	if err := emit("json", json, "showInJSON"); err != nil {
		return "", err
	}
	o.WriteString("/-- `switch v.Kind()` of isEmptyValue -/\ndef emptyBranch : RKind → EmptyBranch\n")
	for _, k := range sjKinds {
		b, ok := empty[k]
		if !ok {
			b = "none"
		}
		fmt.Fprintf(&o, "  | .%s => .%s\n", sjLeanKind(k), b)
	}
	o.WriteString("\n/-- the results of `toString` by kind (`default`: the error \"cannot show value\") -/\ninductive TSBranch\n  | empty | bool | int | uint | float32 | float64 | string | complex | default\n  deriving DecidableEq, Repr, Inhabited\n\n")
	o.WriteString("/-- `switch v.Kind()` of toString (map keys that are not Stringers) -/\ndef toStringBranch : RKind → TSBranch\n")
	for _, k := range sjKinds {
		b, ok := tsw[k]
		if !ok {
			b = "default"
		}
		fmt.Fprintf(&o, "  | .%s => .%s\n", sjLeanKind(k), b)
	}
	o.WriteString("\n/-- a piece of a `fmt.Sprintf` format: text, `%0.Nd` / `%+0.Nd`, `%c` -/\ninductive FmtSeg\n  | lit (b : Bytes)\n  | dec (plus : Bool) (width : Nat)\n  | chr\n  deriving Repr\n\n")
	for i, name := range []string{"jsDateUTC", "jsDateUTCExpanded", "jsDateZone", "jsDateZoneExpanded"} {
		segs, err := fmtSegs(tformats[i])
		if err != nil {
			return "", err
		}
		fmt.Fprintf(&o, "/-- showTimeInJS: %q -/\ndef %s : List FmtSeg := %s\n\n", tformats[i], name, segs)
	}
	fmt.Fprintf(&o, "/-- showTimeInJS panics outside `jsYearMin ≤ y ≤ jsYearMax`; uses the expanded formats outside `jsYear4Min ≤ y ≤ jsYear4Max` -/\ndef jsYearMin : Int := %s\ndef jsYearMax : Int := %s\ndef jsYear4Min : Int := %s\ndef jsYear4Max : Int := %s\n", tbounds[0], tbounds[1], tbounds[2], tbounds[3])
	o.WriteString("\nend ScriggoV.Gen.ShowJS\n")
	return o.String(), nil
}
