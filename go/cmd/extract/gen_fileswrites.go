package main

// Generator "FilesWrites" (property C23): regenerates from /repo/files.go, for every method with a
// pointer receiver of one of the struct types of the file (filesFile, filesDir, filesFileInfo,
// filesDirEntry), the set of receiver fields the method assigns; the fields the methods of
// *filesFileInfo read; and how Stat builds its answer (the handle itself converted to
// *filesFileInfo, i.e. an alias). Props/C23.lean states over these definitions that no method
// writes a field a FileInfo reads (the aliasing Stat is a value only under that condition) and
// that the writes are the ones the model's step performs.
//
// Recognised shape (anything else: "shape not recognised"): the receiver is used only as the root
// of a selector chain (r.f, r.f.g, r.f[i], r.f[i:j]), or as the single argument of the conversion
// (*filesFileInfo)(r) in a return statement; `&r.f` is reported under `exposes`.

import (
	"fmt"
	"go/ast"
	"go/parser"
	"go/token"
	"path/filepath"
	"sort"
	"strings"
)

func init() {
	generators = append(generators, generator{name: "FilesWrites", run: genFilesWrites})
}

func genFilesWrites(repo string) (string, error) {
	fset := token.NewFileSet()
	file, err := parser.ParseFile(fset, filepath.Join(repo, "files.go"), nil, 0)
	if err != nil {
		return "", err
	}
	// struct types and defined types over them
	fields := map[string][]string{}
	defined := map[string]string{}
	for _, d := range file.Decls {
		gd, ok := d.(*ast.GenDecl)
		if !ok || gd.Tok != token.TYPE {
			continue
		}
		for _, s := range gd.Specs {
			ts := s.(*ast.TypeSpec)
			switch t := ts.Type.(type) {
			case *ast.StructType:
				var fl []string
				for _, f := range t.Fields.List {
					if len(f.Names) == 0 {
						id, ok := f.Type.(*ast.Ident)
						if !ok {
							return "", fmt.Errorf("shape not recognised: embedded field of %s", ts.Name.Name)
						}
						fl = append(fl, id.Name)
					}
					for _, n := range f.Names {
						fl = append(fl, n.Name)
					}
				}
				fields[ts.Name.Name] = fl
			case *ast.Ident:
				defined[ts.Name.Name] = t.Name
			}
		}
	}
	for n, u := range defined {
		if fl, ok := fields[u]; ok {
			fields[n] = fl
		}
	}
	if defined["filesFileInfo"] != "filesFile" {
		return "", fmt.Errorf("shape not recognised: filesFileInfo is not defined as filesFile")
	}
	isField := map[string]bool{}
	for _, fl := range fields {
		for _, f := range fl {
			isField[f] = true
		}
	}

	type method struct {
		name    string
		writes  map[string]bool
		reads   map[string]bool
		exposes map[string]bool
	}
	var methods []*method
	statAlias := ""
	for _, d := range file.Decls {
		fn, ok := d.(*ast.FuncDecl)
		if !ok || fn.Recv == nil || len(fn.Recv.List) != 1 || fn.Body == nil {
			continue
		}
		st, ok := fn.Recv.List[0].Type.(*ast.StarExpr)
		if !ok {
			continue
		}
		tid, ok := st.X.(*ast.Ident)
		if !ok || fields[tid.Name] == nil {
			continue
		}
		if len(fn.Recv.List[0].Names) != 1 {
			return "", fmt.Errorf("shape not recognised: %s.%s: unnamed receiver", tid.Name, fn.Name.Name)
		}
		recv := fn.Recv.List[0].Names[0].Name
		m := &method{name: tid.Name + "." + fn.Name.Name, writes: map[string]bool{}, reads: map[string]bool{}, exposes: map[string]bool{}}
		methods = append(methods, m)
		// chain returns the selector names of an expression rooted at the receiver (nil if it is
		// not rooted there)
		var chain func(e ast.Expr) ([]string, bool)
		chain = func(e ast.Expr) ([]string, bool) {
			switch x := e.(type) {
			case *ast.Ident:
				return nil, x.Name == recv && x.Obj != nil && x.Obj.Decl == fn.Recv.List[0]
			case *ast.SelectorExpr:
				c, ok := chain(x.X)
				if ok && isField[x.Sel.Name] {
					c = append(c, x.Sel.Name)
				}
				return c, ok
			case *ast.IndexExpr:
				return chain(x.X)
			case *ast.SliceExpr:
				return chain(x.X)
			case *ast.ParenExpr:
				return chain(x.X)
			case *ast.StarExpr:
				return chain(x.X)
			}
			return nil, false
		}
		accounted := map[*ast.Ident]bool{}
		markRoot := func(e ast.Expr) {
			ast.Inspect(e, func(n ast.Node) bool {
				if id, ok := n.(*ast.Ident); ok && id.Name == recv {
					accounted[id] = true
				}
				return true
			})
		}
		var bad error
		write := func(e ast.Expr) {
			if c, ok := chain(e); ok {
				if len(c) == 0 {
					bad = fmt.Errorf("shape not recognised: %s assigns through its receiver without a field", m.name)
				}
				for _, f := range c {
					m.writes[f] = true
				}
			}
		}
		ast.Inspect(fn.Body, func(n ast.Node) bool {
			switch x := n.(type) {
			case *ast.AssignStmt:
				for _, l := range x.Lhs {
					write(l)
				}
			case *ast.IncDecStmt:
				write(x.X)
			case *ast.RangeStmt:
				if x.Tok == token.ASSIGN {
					if x.Key != nil {
						write(x.Key)
					}
					if x.Value != nil {
						write(x.Value)
					}
				}
			case *ast.CallExpr:
				if id, ok := x.Fun.(*ast.Ident); ok && (id.Name == "copy" || id.Name == "clear") && len(x.Args) > 0 {
					write(x.Args[0])
				}
				// (*filesFileInfo)(recv)
				if p, ok := x.Fun.(*ast.ParenExpr); ok && len(x.Args) == 1 {
					if s, ok := p.X.(*ast.StarExpr); ok {
						if id, ok := s.X.(*ast.Ident); ok && id.Name == "filesFileInfo" {
							if a, ok := x.Args[0].(*ast.Ident); ok && a.Name == recv {
								accounted[a] = true
								if fn.Name.Name == "Stat" {
									statAlias = tid.Name
								} else {
									m.exposes["(*filesFileInfo)("+recv+")"] = true
								}
							}
						}
					}
				}
			case *ast.UnaryExpr:
				if x.Op == token.AND {
					if c, ok := chain(x.X); ok {
						m.exposes[strings.Join(c, ".")] = true
					}
				}
			case *ast.SelectorExpr:
				if c, ok := chain(x); ok {
					markRoot(x)
					for _, f := range c {
						m.reads[f] = true
					}
				}
			}
			return true
		})
		if bad != nil {
			return "", bad
		}
		// every use of the receiver must be accounted for
		ast.Inspect(fn.Body, func(n ast.Node) bool {
			if id, ok := n.(*ast.Ident); ok && id.Name == recv && id.Obj != nil && id.Obj.Decl == fn.Recv.List[0] && !accounted[id] {
				bad = fmt.Errorf("shape not recognised: %s uses its receiver %s as a value (%s)", m.name, recv, fset.Position(id.Pos()))
			}
			return true
		})
		if bad != nil {
			return "", bad
		}
	}
	if statAlias != "filesFile" {
		return "", fmt.Errorf("shape not recognised: (*filesFile).Stat does not return (*filesFileInfo)(receiver)")
	}
	sort.Slice(methods, func(i, j int) bool { return methods[i].name < methods[j].name })
	keys := func(m map[string]bool) string {
		var k []string
		for f := range m {
			k = append(k, fmt.Sprintf("%q", f))
		}
		sort.Strings(k)
		return "[" + strings.Join(k, ", ") + "]"
	}
	infoReads := map[string]bool{}
	var out strings.Builder
	out.WriteString("/-! Receiver fields written by the methods of files.go; fields the FileInfo methods read. -/\nnamespace ScriggoV.Gen.FilesWrites\n\n")
	out.WriteString("/-- (type.method, receiver fields the method assigns) for every pointer-receiver method -/\ndef writes : List (String × List String) := [\n")
	for i, m := range methods {
		sep := ","
		if i == len(methods)-1 {
			sep = ""
		}
		fmt.Fprintf(&out, "  (%q, %s)%s\n", m.name, keys(m.writes), sep)
		if strings.HasPrefix(m.name, "filesFileInfo.") {
			for f := range m.reads {
				infoReads[f] = true
			}
		}
	}
	out.WriteString("]\n\n/-- (type.method, what it takes the address of) -/\ndef exposes : List (String × List String) := [\n")
	var ex []string
	for _, m := range methods {
		if len(m.exposes) > 0 {
			ex = append(ex, fmt.Sprintf("  (%q, %s)", m.name, keys(m.exposes)))
		}
	}
	out.WriteString(strings.Join(ex, ",\n"))
	out.WriteString("\n]\n\n")
	fmt.Fprintf(&out, "/-- the fields the methods of `*filesFileInfo` (Name, Size, Mode, ModTime, IsDir, Sys) read -/\ndef infoReads : List String := %s\n\n", keys(infoReads))
	out.WriteString("/-- `(*filesFile).Stat` returns `(*filesFileInfo)(f)`: the FileInfo is the handle's own struct -/\ndef statAliasesHandle : Bool := true\n\n")
	out.WriteString("end ScriggoV.Gen.FilesWrites\n")
	return out.String(), nil
}
