package main

// Generator "ShowInURLPipe" (property C07): regenerates from
// /repo/internal/runtime/renderer.go the pipeline a shown value goes through in
// renderer.showInURL before it reaches pathEscape / queryEscape:
//
//	var b strings.Builder
//	err := <shownVia>(env, &b, v)
//	if err != nil { return err }
//	s := <decodedBy>(b.String())          // or  s := b.String()  (decodedBy = "")
//	…                                     // s is never assigned again, and every call of
//	                                      // pathEscape / queryEscape takes s as the string
//
// The names are emitted as strings; Props/C07.lean states, over these definitions, that the
// pipeline gives the shown string back unchanged (`showInURL_pipeline_plain_string`), so a
// change of either function is re-checked against the models of the escapers and of the
// decoder. Anything outside this shape is an error, never a guess.

import (
	"bytes"
	"fmt"
	"go/ast"
	"go/parser"
	"go/printer"
	"go/token"
	"path/filepath"
	"strconv"
	"strings"
)

func init() {
	generators = append(generators, generator{name: "ShowInURLPipe", run: genShowInURLPipe})
}

func genShowInURLPipe(repo string) (string, error) {
	fset := token.NewFileSet()
	path := filepath.Join(repo, "internal", "runtime", "renderer.go")
	file, err := parser.ParseFile(fset, path, nil, 0)
	if err != nil {
		return "", err
	}
	src := func(n ast.Node) string {
		var b bytes.Buffer
		printer.Fprint(&b, fset, n)
		return strings.Join(strings.Fields(b.String()), " ")
	}
	var fn *ast.FuncDecl
	for _, d := range file.Decls {
		if f, ok := d.(*ast.FuncDecl); ok && f.Name.Name == "showInURL" && f.Recv != nil && f.Body != nil {
			if fn != nil {
				return "", fmt.Errorf("shape not recognised: two methods named showInURL")
			}
			fn = f
		}
	}
	if fn == nil {
		return "", fmt.Errorf("shape not recognised: method showInURL not found in renderer.go")
	}
	// the value parameter: the one of type any / interface{}
	valueParam := ""
	for _, p := range fn.Type.Params.List {
		if t := src(p.Type); (t == "any" || t == "interface{}") && len(p.Names) == 1 {
			if valueParam != "" {
				return "", fmt.Errorf("shape not recognised: showInURL has two parameters of type any")
			}
			valueParam = p.Names[0].Name
		}
	}
	if valueParam == "" {
		return "", fmt.Errorf("shape not recognised: showInURL has no parameter of type any")
	}
	st := fn.Body.List
	if len(st) < 5 {
		return "", fmt.Errorf("shape not recognised: showInURL has %d statements", len(st))
	}
	// var b strings.Builder
	builder := ""
	if ds, ok := st[0].(*ast.DeclStmt); ok {
		if gd, ok := ds.Decl.(*ast.GenDecl); ok && gd.Tok == token.VAR && len(gd.Specs) == 1 {
			if vs, ok := gd.Specs[0].(*ast.ValueSpec); ok && len(vs.Names) == 1 && vs.Type != nil && src(vs.Type) == "strings.Builder" && len(vs.Values) == 0 {
				builder = vs.Names[0].Name
			}
		}
	}
	if builder == "" {
		return "", fmt.Errorf("shape not recognised: showInURL: first statement is not `var b strings.Builder`: %s", src(st[0]))
	}
	// err := F(env, &b, v)
	as, ok := st[1].(*ast.AssignStmt)
	if !ok || as.Tok != token.DEFINE || len(as.Lhs) != 1 || len(as.Rhs) != 1 {
		return "", fmt.Errorf("shape not recognised: showInURL: second statement is not `err := f(env, &b, v)`: %s", src(st[1]))
	}
	errName := src(as.Lhs[0])
	call, ok := as.Rhs[0].(*ast.CallExpr)
	if !ok || len(call.Args) != 3 || src(call.Args[1]) != "&"+builder || src(call.Args[2]) != valueParam {
		return "", fmt.Errorf("shape not recognised: showInURL: second statement is not `err := f(env, &%s, %s)`: %s", builder, valueParam, src(st[1]))
	}
	shownVia, ok := call.Fun.(*ast.Ident)
	if !ok {
		return "", fmt.Errorf("shape not recognised: showInURL: the value is shown by %s, not by a package-level function", src(call.Fun))
	}
	// if err != nil { return err }
	if got := src(st[2]); got != "if "+errName+" != nil { return "+errName+" }" {
		return "", fmt.Errorf("shape not recognised: showInURL: third statement is not `if err != nil { return err }`: %s", got)
	}
	// s := G(b.String())  |  s := b.String()
	as2, ok := st[3].(*ast.AssignStmt)
	if !ok || as2.Tok != token.DEFINE || len(as2.Lhs) != 1 || len(as2.Rhs) != 1 {
		return "", fmt.Errorf("shape not recognised: showInURL: fourth statement is not `s := g(b.String())`: %s", src(st[3]))
	}
	sName := src(as2.Lhs[0])
	decodedBy := ""
	switch rhs := src(as2.Rhs[0]); {
	case rhs == builder+".String()":
	default:
		c2, ok := as2.Rhs[0].(*ast.CallExpr)
		if !ok || len(c2.Args) != 1 || src(c2.Args[0]) != builder+".String()" {
			return "", fmt.Errorf("shape not recognised: showInURL: fourth statement is not `s := g(%s.String())`: %s", builder, src(st[3]))
		}
		decodedBy = src(c2.Fun)
	}
	// the rest: s and the builder are not written again; every escaper call takes s
	var bad error
	var escapers []string
	for _, s := range st[4:] {
		ast.Inspect(s, func(n ast.Node) bool {
			if bad != nil {
				return false
			}
			switch x := n.(type) {
			case *ast.AssignStmt:
				for _, l := range x.Lhs {
					if name := src(l); name == sName || name == builder {
						bad = fmt.Errorf("shape not recognised: showInURL: %s is assigned again: %s", name, src(x))
					}
				}
			case *ast.IncDecStmt:
				if src(x.X) == sName {
					bad = fmt.Errorf("shape not recognised: showInURL: %s", src(x))
				}
			case *ast.UnaryExpr:
				if x.Op == token.AND && (src(x.X) == sName || src(x.X) == builder) {
					bad = fmt.Errorf("shape not recognised: showInURL: address taken: %s", src(x))
				}
			case *ast.CallExpr:
				id, ok := x.Fun.(*ast.Ident)
				if !ok {
					if sel, ok := x.Fun.(*ast.SelectorExpr); ok && src(sel.X) == builder {
						bad = fmt.Errorf("shape not recognised: showInURL: the builder is used again: %s", src(x))
					}
					return true
				}
				if strings.HasSuffix(id.Name, "Escape") {
					if len(x.Args) < 2 || src(x.Args[1]) != sName {
						bad = fmt.Errorf("shape not recognised: showInURL: %s is not called on %s: %s", id.Name, sName, src(x))
						return false
					}
					seen := false
					for _, e := range escapers {
						seen = seen || e == id.Name
					}
					if !seen {
						escapers = append(escapers, id.Name)
					}
				}
			}
			return true
		})
	}
	if bad != nil {
		return "", bad
	}
	if len(escapers) == 0 {
		return "", fmt.Errorf("shape not recognised: showInURL calls no escaper")
	}
	var out strings.Builder
	out.WriteString("/-! The pipeline of renderer.showInURL in front of pathEscape / queryEscape. -/\n")
	out.WriteString("namespace ScriggoV.Gen.ShowInURLPipe\n\n")
	out.WriteString("/-- `err := <shownVia>(env, &b, v)`: the function that writes the shown value into the builder -/\n")
	fmt.Fprintf(&out, "def shownVia : String := %s\n\n", strconv.Quote(shownVia.Name))
	out.WriteString("/-- `s := <decodedBy>(b.String())`: what is applied to the builder's content (\"\" = nothing) -/\n")
	fmt.Fprintf(&out, "def decodedBy : String := %s\n\n", strconv.Quote(decodedBy))
	out.WriteString("/-- the escapers called on `s` (in order of first appearance); `s` is not assigned again -/\n")
	qs := make([]string, len(escapers))
	for i, e := range escapers {
		qs[i] = strconv.Quote(e)
	}
	fmt.Fprintf(&out, "def escapers : List String := [%s]\n\n", strings.Join(qs, ", "))
	out.WriteString("end ScriggoV.Gen.ShowInURLPipe\n")
	return out.String(), nil
}
