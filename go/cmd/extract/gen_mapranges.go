package main

// Generator "MapRanges" (property C30). It type-checks /repo/internal/compiler (non-test
// files) with go/types through golang.org/x/tools/go/packages (offline: `go list` in /repo with
// GOFLAGS=-mod=mod GOPROXY=off) and lists every `range` statement whose operand has a map type
// (underlying type, so named map types count), with the file, the enclosing function, the
// ordinal of the loop among the map ranges of that function, the operand as written, the
// SHA-256 of the statement that follows the loop in its block (for collect-then-sort loops the
// sort is there) and the SHA-256 of the loop body's source text (gofmt-printed, so position and indentation of the
// surrounding code do not matter, while any edit of the body does).
//
// If the package cannot be loaded or has type errors the generator fails ("shape not
// recognised"): it never falls back to a syntactic guess.

import (
	"bytes"
	"crypto/sha256"
	"encoding/hex"
	"fmt"
	"go/ast"
	"go/printer"
	"go/token"
	"go/types"
	"path/filepath"
	"sort"
	"strings"
)

func init() {
	generators = append(generators, generator{name: "MapRanges", run: genMapRanges})
}

type mrSite struct {
	file, fn string
	ord      int
	operand  string
	hash     string
	next     string // SHA-256 of the statement that follows the loop in its block ("" if none)
	line     int
}

func mrBodyText(fset *token.FileSet, body *ast.BlockStmt) string {
	var b bytes.Buffer
	cfg := printer.Config{Mode: printer.RawFormat, Tabwidth: 1}
	cfg.Fprint(&b, fset, body)
	// normalise indentation: the same body nested deeper must hash the same
	var out []string
	for _, l := range strings.Split(b.String(), "\n") {
		out = append(out, strings.TrimSpace(l))
	}
	return strings.Join(out, "\n")
}

func genMapRanges(repo string) (string, error) {
	pkg, err := c30Load(repo)
	if err != nil {
		return "", err
	}
	var sites []mrSite
	for _, f := range pkg.Syntax {
		file := filepath.Base(pkg.Fset.Position(f.Pos()).Filename)
		for _, d := range f.Decls {
			fd, ok := d.(*ast.FuncDecl)
			if !ok || fd.Body == nil {
				// package-level initialisers with function literals
				ast.Inspect(d, func(n ast.Node) bool {
					if rs, ok := n.(*ast.RangeStmt); ok {
						if tv, ok := pkg.TypesInfo.Types[rs.X]; ok {
							if _, isMap := tv.Type.Underlying().(*types.Map); isMap {
								err = fmt.Errorf("shape not recognised: map range outside a function declaration in %s", file)
							}
						}
					}
					return true
				})
				continue
			}
			name := fd.Name.Name
			if fd.Recv != nil && len(fd.Recv.List) == 1 {
				t := fd.Recv.List[0].Type
				if s, ok := t.(*ast.StarExpr); ok {
					t = s.X
				}
				if id, ok := t.(*ast.Ident); ok {
					name = id.Name + "." + name
				}
			}
			ord := 0
			// the statement that follows each statement in its block
			following := map[ast.Stmt]ast.Stmt{}
			ast.Inspect(fd.Body, func(n ast.Node) bool {
				var list []ast.Stmt
				switch b := n.(type) {
				case *ast.BlockStmt:
					list = b.List
				case *ast.CaseClause:
					list = b.Body
				case *ast.CommClause:
					list = b.Body
				}
				for i := 0; i+1 < len(list); i++ {
					st := list[i]
					if l, ok := st.(*ast.LabeledStmt); ok {
						st = l.Stmt
					}
					following[st] = list[i+1]
				}
				return true
			})
			ast.Inspect(fd.Body, func(n ast.Node) bool {
				rs, ok := n.(*ast.RangeStmt)
				if !ok {
					return true
				}
				tv, ok := pkg.TypesInfo.Types[rs.X]
				if !ok {
					err = fmt.Errorf("shape not recognised: no type for range operand in %s %s", file, name)
					return true
				}
				if _, isMap := tv.Type.Underlying().(*types.Map); !isMap {
					return true
				}
				sum := sha256.Sum256([]byte(mrBodyText(pkg.Fset, rs.Body)))
				next := ""
				if st, ok := following[rs]; ok {
					var nb bytes.Buffer
					(&printer.Config{Mode: printer.RawFormat, Tabwidth: 1}).Fprint(&nb, pkg.Fset, st)
					var ls []string
					for _, l := range strings.Split(nb.String(), "\n") {
						ls = append(ls, strings.TrimSpace(l))
					}
					ns := sha256.Sum256([]byte(strings.Join(ls, "\n")))
					next = hex.EncodeToString(ns[:])
				}
				sites = append(sites, mrSite{file: file, fn: name, ord: ord, operand: exprString(pkg.Fset, rs.X),
					hash: hex.EncodeToString(sum[:]), next: next, line: pkg.Fset.Position(rs.Pos()).Line})
				ord++
				return true
			})
		}
	}
	if err != nil {
		return "", err
	}
	sort.Slice(sites, func(i, j int) bool {
		a, b := sites[i], sites[j]
		if a.file != b.file {
			return a.file < b.file
		}
		if a.fn != b.fn {
			return a.fn < b.fn
		}
		return a.ord < b.ord
	})
	var b strings.Builder
	b.WriteString("/-! Every `range` statement of /repo/internal/compiler (non-test files) whose operand has a map\ntype (go/types), with the enclosing function, its ordinal among the map ranges of that function,\nthe operand as written and the SHA-256 of the loop body. See go/cmd/extract/gen_mapranges.go. -/\n")
	b.WriteString("namespace ScriggoV.Gen.MapRanges\n\n")
	b.WriteString("structure Site where\n  file : String\n  fn : String\n  ord : Nat\n  operand : String\n  hash : String\n  next : String\n  deriving DecidableEq, Repr\n\n")
	b.WriteString("/-- identity of a site: where it is and what its body is -/\ndef Site.key (s : Site) : String := s.file ++ \":\" ++ s.fn ++ \":\" ++ s.hash\n\n")
	b.WriteString("def sites : List Site := [\n")
	for i, s := range sites {
		sep := ","
		if i == len(sites)-1 {
			sep = ""
		}
		fmt.Fprintf(&b, "  -- %s:%d\n  { file := %q, fn := %q, ord := %d, operand := %q,\n    hash := %q,\n    next := %q }%s\n", s.file, s.line, s.file, s.fn, s.ord, s.operand, s.hash, s.next, sep)
	}
	b.WriteString("]\n\nend ScriggoV.Gen.MapRanges\n")
	return b.String(), nil
}
