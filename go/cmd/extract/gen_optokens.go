package main

import (
	"fmt"
	"go/ast"
	"go/parser"
	"go/token"
	"path/filepath"
	"sort"
	"strconv"
	"strings"
)

// Generator "OpTokens" (property C27): the operator tables that lie between a printed operator
// and the constant the parser gives back.
//
//	ast/ast.go                            AssignmentType constants; (*Assignment).String()'s switch
//	                                      (what is written per constant); the node types that have a
//	                                      String method
//	internal/compiler/tokens.go           tokenTyp constants; tokenString; assignmentType's switch
//	internal/compiler/lexer.go            lexCode: every `l.emit(tokenX, n)` whose n bytes are fixed by
//	                                      the enclosing `case 'c'` / `l.src[k] == 'c'` conditions
//	                                      (text → token); lexIdentifierOrKeyword's two keyword switches
//	internal/compiler/parser_expressions.go  operatorFromTokenType's switch; in parseExpr the case
//	                                      lists under which a unary / binary operator node is built
//
// The OperatorType constants themselves are those of Gen/Precedence.lean (imported).
func init() {
	generators = append(generators, generator{name: "OpTokens", run: genOpTokens})
}

func otFunc(file *ast.File, recv, name string) *ast.FuncDecl {
	for _, d := range file.Decls {
		fd, ok := d.(*ast.FuncDecl)
		if !ok || fd.Name.Name != name || fd.Body == nil {
			continue
		}
		if recv == "" {
			if fd.Recv == nil {
				return fd
			}
			continue
		}
		if fd.Recv == nil || len(fd.Recv.List) != 1 {
			continue
		}
		t := fd.Recv.List[0].Type
		if st, ok := t.(*ast.StarExpr); ok {
			t = st.X
		}
		if id, ok := t.(*ast.Ident); ok && id.Name == recv {
			return fd
		}
	}
	return nil
}

// otEnum returns the names of the constants of the iota block of the given type.
func otEnum(file *ast.File, typ, prefix string) ([]string, error) {
	for _, d := range file.Decls {
		gd, ok := d.(*ast.GenDecl)
		if !ok || gd.Tok != token.CONST || len(gd.Specs) == 0 {
			continue
		}
		first := gd.Specs[0].(*ast.ValueSpec)
		if id, ok := first.Type.(*ast.Ident); !ok || id.Name != typ {
			continue
		}
		if len(first.Values) != 1 {
			return nil, fmt.Errorf("shape not recognised: %s constants", typ)
		}
		if id, ok := first.Values[0].(*ast.Ident); !ok || id.Name != "iota" {
			return nil, fmt.Errorf("shape not recognised: %s constants do not start at iota", typ)
		}
		var names []string
		for i, sp := range gd.Specs {
			vs := sp.(*ast.ValueSpec)
			if len(vs.Names) != 1 || (i > 0 && (vs.Type != nil || len(vs.Values) != 0)) {
				return nil, fmt.Errorf("shape not recognised: %s constant #%d", typ, i)
			}
			n := vs.Names[0].Name
			if !strings.HasPrefix(n, prefix) || len(n) == len(prefix) {
				return nil, fmt.Errorf("shape not recognised: %s constant %s", typ, n)
			}
			names = append(names, n)
		}
		return names, nil
	}
	return nil, fmt.Errorf("shape not recognised: %s constants not found", typ)
}

// otSelName gives "X" for the expression `pkg.X` (or the identifier `X` if pkg is "").
func otSelName(e ast.Expr, pkg string) (string, bool) {
	if pkg == "" {
		id, ok := e.(*ast.Ident)
		if !ok {
			return "", false
		}
		return id.Name, true
	}
	sel, ok := e.(*ast.SelectorExpr)
	if !ok {
		return "", false
	}
	if id, ok := sel.X.(*ast.Ident); !ok || id.Name != pkg {
		return "", false
	}
	return sel.Sel.Name, true
}

// otTypCond recognises `<v>.typ == tokenX` and returns v and tokenX.
func otTypCond(e ast.Expr) (string, string, bool) {
	be, ok := e.(*ast.BinaryExpr)
	if !ok || be.Op != token.EQL {
		return "", "", false
	}
	sel, ok := be.X.(*ast.SelectorExpr)
	if !ok || sel.Sel.Name != "typ" {
		return "", "", false
	}
	v, ok := sel.X.(*ast.Ident)
	if !ok {
		return "", "", false
	}
	t, ok := be.Y.(*ast.Ident)
	if !ok || !strings.HasPrefix(t.Name, "token") {
		return "", "", false
	}
	return v.Name, t.Name, true
}

func otConjuncts(e ast.Expr) []ast.Expr {
	switch x := e.(type) {
	case *ast.ParenExpr:
		return otConjuncts(x.X)
	case *ast.BinaryExpr:
		if x.Op == token.LAND {
			return append(otConjuncts(x.X), otConjuncts(x.Y)...)
		}
	}
	return []ast.Expr{e}
}

func otDisjuncts(e ast.Expr) []ast.Expr {
	switch x := e.(type) {
	case *ast.ParenExpr:
		return otDisjuncts(x.X)
	case *ast.BinaryExpr:
		if x.Op == token.LOR {
			return append(otDisjuncts(x.X), otDisjuncts(x.Y)...)
		}
	}
	return []ast.Expr{e}
}

type otLexEntry struct {
	text string
	tok  string
}

// otLexEmits walks the statements of one `case 'c':` clause of lexCode's byte switch and collects
// the emits whose text is fixed by the conditions on the path. fixed maps a byte index to the byte.
func otLexEmits(stmts []ast.Stmt, fixed map[int]byte, out *[]otLexEntry) error {
	with := func(extra map[int]byte) map[int]byte {
		m := map[int]byte{}
		for k, v := range fixed {
			m[k] = v
		}
		for k, v := range extra {
			m[k] = v
		}
		return m
	}
	// l.src[k] == 'c'
	srcEq := func(e ast.Expr) (int, byte, bool) {
		be, ok := e.(*ast.BinaryExpr)
		if !ok || be.Op != token.EQL {
			return 0, 0, false
		}
		k, ok := otSrcIndex(be.X)
		if !ok {
			return 0, 0, false
		}
		bl, ok := be.Y.(*ast.BasicLit)
		if !ok || bl.Kind != token.CHAR {
			return 0, 0, false
		}
		s, err := strconv.Unquote(bl.Value)
		if err != nil || len(s) != 1 {
			return 0, 0, false
		}
		return k, s[0], true
	}
	for _, st := range stmts {
		switch s := st.(type) {
		case *ast.ExprStmt:
			call, ok := s.X.(*ast.CallExpr)
			if !ok {
				continue
			}
			sel, ok := call.Fun.(*ast.SelectorExpr)
			if !ok || sel.Sel.Name != "emit" || len(call.Args) != 2 {
				continue
			}
			tok, ok := call.Args[0].(*ast.Ident)
			if !ok || !strings.HasPrefix(tok.Name, "token") {
				return fmt.Errorf("shape not recognised: lexCode: emit of a non-constant token type")
			}
			nl, ok := call.Args[1].(*ast.BasicLit)
			if !ok || nl.Kind != token.INT {
				return fmt.Errorf("shape not recognised: lexCode: emit(%s, …) with a non-literal length", tok.Name)
			}
			n, _ := strconv.Atoi(nl.Value)
			if n == 0 {
				continue // the automatically inserted semicolon
			}
			text := make([]byte, n)
			for k := 0; k < n; k++ {
				c, ok := fixed[k]
				if !ok {
					return fmt.Errorf("shape not recognised: lexCode: emit(%s, %d): byte %d is not fixed by the enclosing conditions", tok.Name, n, k)
				}
				text[k] = c
			}
			*out = append(*out, otLexEntry{string(text), tok.Name})
		case *ast.IfStmt:
			extra := map[int]byte{}
			for _, c := range otConjuncts(s.Cond) {
				if k, b, ok := srcEq(c); ok {
					extra[k] = b
				}
			}
			if err := otLexEmits(s.Body.List, with(extra), out); err != nil {
				return err
			}
			// in the else branch every disjunct of the condition is false: `l.src[k] != 'c'` false fixes byte k
			neg := map[int]byte{}
			for _, c := range otDisjuncts(s.Cond) {
				if be, ok := c.(*ast.BinaryExpr); ok && be.Op == token.NEQ {
					if k, b, ok := srcEq(&ast.BinaryExpr{X: be.X, Op: token.EQL, Y: be.Y}); ok {
						neg[k] = b
					}
				}
			}
			switch e := s.Else.(type) {
			case *ast.BlockStmt:
				if err := otLexEmits(e.List, with(neg), out); err != nil {
					return err
				}
			case *ast.IfStmt:
				if err := otLexEmits([]ast.Stmt{e}, with(neg), out); err != nil {
					return err
				}
			}
		case *ast.SwitchStmt:
			k, onSrc := 0, false
			if s.Tag != nil {
				k, onSrc = otSrcIndex(s.Tag)
			}
			for _, cst := range s.Body.List {
				cc := cst.(*ast.CaseClause)
				extra := map[int]byte{}
				if onSrc && len(cc.List) == 1 {
					if bl, ok := cc.List[0].(*ast.BasicLit); ok && bl.Kind == token.CHAR {
						if v, err := strconv.Unquote(bl.Value); err == nil && len(v) == 1 {
							extra[k] = v[0]
						}
					}
				}
				if err := otLexEmits(cc.Body, with(extra), out); err != nil {
					return err
				}
			}
		case *ast.BlockStmt:
			if err := otLexEmits(s.List, fixed, out); err != nil {
				return err
			}
		case *ast.ForStmt:
			if err := otLexEmits(s.Body.List, fixed, out); err != nil {
				return err
			}
		case *ast.RangeStmt:
			if err := otLexEmits(s.Body.List, fixed, out); err != nil {
				return err
			}
		}
	}
	return nil
}

// otSrcIndex recognises `l.src[k]`.
func otSrcIndex(e ast.Expr) (int, bool) {
	ix, ok := e.(*ast.IndexExpr)
	if !ok {
		return 0, false
	}
	sel, ok := ix.X.(*ast.SelectorExpr)
	if !ok || sel.Sel.Name != "src" {
		return 0, false
	}
	bl, ok := ix.Index.(*ast.BasicLit)
	if !ok || bl.Kind != token.INT {
		return 0, false
	}
	k, err := strconv.Atoi(bl.Value)
	return k, err == nil
}

// ---- string-typed fields: how the String methods write them, and which of them the parser
// stores after unquoteString

type otStructInfo struct {
	fields    []string        // all field names in order (embedded ones by type name)
	strFields map[string]bool // fields of type string or []byte
}

func otStructs(file *ast.File) map[string]*otStructInfo {
	out := map[string]*otStructInfo{}
	for _, d := range file.Decls {
		gd, ok := d.(*ast.GenDecl)
		if !ok || gd.Tok != token.TYPE {
			continue
		}
		for _, sp := range gd.Specs {
			ts := sp.(*ast.TypeSpec)
			st, ok := ts.Type.(*ast.StructType)
			if !ok {
				continue
			}
			info := &otStructInfo{strFields: map[string]bool{}}
			for _, f := range st.Fields.List {
				isStr := false
				switch t := f.Type.(type) {
				case *ast.Ident:
					isStr = t.Name == "string"
				case *ast.ArrayType:
					if id, ok := t.Elt.(*ast.Ident); ok && t.Len == nil && id.Name == "byte" {
						isStr = true
					}
				}
				if len(f.Names) == 0 {
					name := ""
					switch t := f.Type.(type) {
					case *ast.Ident:
						name = t.Name
					case *ast.StarExpr:
						if id, ok := t.X.(*ast.Ident); ok {
							name = id.Name
						}
					}
					info.fields = append(info.fields, name)
					continue
				}
				for _, n := range f.Names {
					info.fields = append(info.fields, n.Name)
					if isStr {
						info.strFields[n.Name] = true
					}
				}
			}
			out[ts.Name.Name] = info
		}
	}
	return out
}

type otWrite struct{ typ, field, mode string }

// otStringWrites: for every String method of a struct type, every occurrence of a string-typed
// field of the receiver in what the method writes, and how it is written:
//
//	quote      argument of strconv.Quote
//	backquote  concatenated between literals that end / begin with a backquote
//	dquoteRaw  concatenated between literals that end / begin with a double quote
//	plain      written as it is
func otStringWrites(file *ast.File, structs map[string]*otStructInfo) ([]otWrite, error) {
	var out []otWrite
	for _, d := range file.Decls {
		fd, ok := d.(*ast.FuncDecl)
		if !ok || fd.Name.Name != "String" || fd.Recv == nil || len(fd.Recv.List) != 1 || fd.Body == nil || len(fd.Recv.List[0].Names) != 1 {
			continue
		}
		t := fd.Recv.List[0].Type
		if st, ok := t.(*ast.StarExpr); ok {
			t = st.X
		}
		tid, ok := t.(*ast.Ident)
		if !ok || structs[tid.Name] == nil {
			continue
		}
		info := structs[tid.Name]
		recv := fd.Recv.List[0].Names[0].Name
		var stack []ast.Node
		var err error
		ast.Inspect(fd.Body, func(n ast.Node) bool {
			if n == nil {
				stack = stack[:len(stack)-1]
				return true
			}
			stack = append(stack, n)
			sel, ok := n.(*ast.SelectorExpr)
			if !ok {
				return true
			}
			id, ok := sel.X.(*ast.Ident)
			if !ok || id.Name != recv || !info.strFields[sel.Sel.Name] {
				return true
			}
			// an occurrence in a condition is not written
			var cur ast.Node = sel
			for i := len(stack) - 2; i >= 0; i-- {
				switch p := stack[i].(type) {
				case *ast.IfStmt:
					if p.Cond == cur {
						return true
					}
				case *ast.SwitchStmt:
					if p.Tag == cur {
						return true
					}
				case *ast.CaseClause:
					for _, e := range p.List {
						if e == cur {
							return true
						}
					}
				}
				cur = stack[i]
			}
			mode := "plain"
			var node ast.Node = sel
			i := len(stack) - 2
			// conversions string(n.F) are transparent
			for i >= 0 {
				call, ok := stack[i].(*ast.CallExpr)
				if !ok {
					break
				}
				if fn, ok := call.Fun.(*ast.Ident); ok && fn.Name == "string" && len(call.Args) == 1 {
					node = call
					i--
					continue
				}
				break
			}
			if i >= 0 {
				switch p := stack[i].(type) {
				case *ast.CallExpr:
					if name, ok := otSelName(p.Fun, "strconv"); ok {
						switch name {
						case "Quote", "QuoteToASCII", "QuoteToGraphic":
							mode = "quote"
						default:
							err = fmt.Errorf("shape not recognised: (*%s).String: %s.%s through strconv.%s", tid.Name, recv, sel.Sel.Name, name)
						}
					} else if name, ok := otSelName(p.Fun, "fmt"); ok && strings.HasPrefix(name, "Sprint") {
						err = fmt.Errorf("shape not recognised: (*%s).String: %s.%s as direct argument of fmt.%s", tid.Name, recv, sel.Sel.Name, name)
					}
				case *ast.BinaryExpr:
					if p.Op == token.ADD {
						// the whole chain of +
						top := p
						for j := i - 1; j >= 0; j-- {
							if b, ok := stack[j].(*ast.BinaryExpr); ok && b.Op == token.ADD {
								top = b
							} else {
								break
							}
						}
						var ops []ast.Expr
						var flat func(e ast.Expr)
						flat = func(e ast.Expr) {
							if b, ok := e.(*ast.BinaryExpr); ok && b.Op == token.ADD {
								flat(b.X)
								flat(b.Y)
								return
							}
							ops = append(ops, e)
						}
						flat(top)
						lit := func(e ast.Expr) (string, bool) {
							bl, ok := e.(*ast.BasicLit)
							if !ok || bl.Kind != token.STRING {
								return "", false
							}
							v, err := strconv.Unquote(bl.Value)
							return v, err == nil
						}
						for k, o := range ops {
							if o != node {
								continue
							}
							before, after := "", ""
							if k > 0 {
								before, _ = lit(ops[k-1])
							}
							if k+1 < len(ops) {
								after, _ = lit(ops[k+1])
							}
							switch {
							case strings.HasSuffix(before, "`") && strings.HasPrefix(after, "`"):
								mode = "backquote"
							case strings.HasSuffix(before, "\"") && strings.HasPrefix(after, "\""):
								mode = "dquoteRaw"
							case strings.HasSuffix(before, "`") || strings.HasSuffix(before, "\"") || strings.HasPrefix(after, "`") || strings.HasPrefix(after, "\""):
								err = fmt.Errorf("shape not recognised: (*%s).String: %s.%s between unbalanced quotes", tid.Name, recv, sel.Sel.Name)
							}
						}
					}
				}
			}
			out = append(out, otWrite{tid.Name, sel.Sel.Name, mode})
			return true
		})
		if err != nil {
			return nil, err
		}
	}
	sort.Slice(out, func(i, j int) bool {
		if out[i].typ != out[j].typ {
			return out[i].typ < out[j].typ
		}
		if out[i].field != out[j].field {
			return out[i].field < out[j].field
		}
		return out[i].mode < out[j].mode
	})
	// one entry per (type, field, mode)
	var uniq []otWrite
	for i, w := range out {
		if i == 0 || w != out[i-1] {
			uniq = append(uniq, w)
		}
	}
	return uniq, nil
}

// otConstructorField: the field of T that the k-th parameter of ast.NewT initialises.
func otConstructorField(file *ast.File, structs map[string]*otStructInfo, ctor string, k int) (string, string, error) {
	fd := otFunc(file, "", ctor)
	if fd == nil {
		return "", "", fmt.Errorf("shape not recognised: ast.%s not found", ctor)
	}
	var params []string
	for _, f := range fd.Type.Params.List {
		for _, n := range f.Names {
			params = append(params, n.Name)
		}
	}
	if k >= len(params) || len(fd.Body.List) == 0 {
		return "", "", fmt.Errorf("shape not recognised: ast.%s parameters", ctor)
	}
	var cl *ast.CompositeLit
	ast.Inspect(fd.Body, func(n ast.Node) bool {
		if c, ok := n.(*ast.CompositeLit); ok && cl == nil {
			if _, ok := c.Type.(*ast.Ident); ok {
				cl = c
			}
		}
		return cl == nil
	})
	if cl == nil {
		return "", "", fmt.Errorf("shape not recognised: ast.%s: no composite literal", ctor)
	}
	typ := cl.Type.(*ast.Ident).Name
	info := structs[typ]
	if info == nil {
		return "", "", fmt.Errorf("shape not recognised: ast.%s builds %s", ctor, typ)
	}
	for i, el := range cl.Elts {
		if kv, ok := el.(*ast.KeyValueExpr); ok {
			if v, ok := kv.Value.(*ast.Ident); ok && v.Name == params[k] {
				return typ, kv.Key.(*ast.Ident).Name, nil
			}
			continue
		}
		if v, ok := el.(*ast.Ident); ok && v.Name == params[k] && i < len(info.fields) {
			return typ, info.fields[i], nil
		}
	}
	return "", "", fmt.Errorf("shape not recognised: ast.%s: parameter %s is not stored in a field", ctor, params[k])
}

// otParserUnquotes: the (type, field) pairs the parser fills with the result of unquoteString.
func otParserUnquotes(astFile *ast.File, structs map[string]*otStructInfo, files []*ast.File) ([]otWrite, error) {
	var out []otWrite
	for _, file := range files {
		for _, d := range file.Decls {
			fd, ok := d.(*ast.FuncDecl)
			if !ok || fd.Body == nil || fd.Name.Name == "unquoteString" {
				continue
			}
			// variables assigned from unquoteString(…), selector targets
			vars := map[string]bool{}
			var err error
			target := func(lhs ast.Expr) {
				switch l := lhs.(type) {
				case *ast.Ident:
					vars[l.Name] = true
				case *ast.SelectorExpr:
					// v.F = unquoteString(…): the type of v from `v := ast.NewT(…)` in the same function
					v, ok := l.X.(*ast.Ident)
					if !ok {
						err = fmt.Errorf("shape not recognised: %s: target of unquoteString", fd.Name.Name)
						return
					}
					typ := ""
					ast.Inspect(fd.Body, func(n ast.Node) bool {
						as, ok := n.(*ast.AssignStmt)
						if !ok || len(as.Lhs) != 1 || len(as.Rhs) != 1 {
							return true
						}
						if id, ok := as.Lhs[0].(*ast.Ident); !ok || id.Name != v.Name {
							return true
						}
						if call, ok := as.Rhs[0].(*ast.CallExpr); ok {
							if name, ok := otSelName(call.Fun, "ast"); ok && strings.HasPrefix(name, "New") {
								if t, _, e := otConstructorField(astFile, structs, name, 0); e == nil {
									typ = t
								}
							}
						}
						return true
					})
					if typ == "" || structs[typ] == nil || !structs[typ].strFields[l.Sel.Name] {
						err = fmt.Errorf("shape not recognised: %s: type of %s in `%s.%s = unquoteString(…)`", fd.Name.Name, v.Name, v.Name, l.Sel.Name)
						return
					}
					out = append(out, otWrite{typ, l.Sel.Name, ""})
				default:
					err = fmt.Errorf("shape not recognised: %s: target of unquoteString", fd.Name.Name)
				}
			}
			isUnq := func(e ast.Expr) bool {
				call, ok := e.(*ast.CallExpr)
				if !ok {
					return false
				}
				id, ok := call.Fun.(*ast.Ident)
				return ok && id.Name == "unquoteString"
			}
			nUnq, nTargets := 0, 0
			ast.Inspect(fd.Body, func(n ast.Node) bool {
				switch s := n.(type) {
				case *ast.CallExpr:
					if isUnq(s) {
						nUnq++
					}
				case *ast.AssignStmt:
					for i, r := range s.Rhs {
						if isUnq(r) && i < len(s.Lhs) {
							target(s.Lhs[i])
							nTargets++
						}
					}
				case *ast.ValueSpec:
					for i, r := range s.Values {
						if isUnq(r) && i < len(s.Names) {
							vars[s.Names[i].Name] = true
							nTargets++
						}
					}
				}
				return true
			})
			if err != nil {
				return nil, err
			}
			if nUnq != nTargets {
				return nil, fmt.Errorf("shape not recognised: %s: unquoteString(…) used other than as the right side of an assignment", fd.Name.Name)
			}
			if len(vars) == 0 {
				continue
			}
			// where those variables go: arguments of ast.NewT
			found := map[string]bool{}
			ast.Inspect(fd.Body, func(n ast.Node) bool {
				call, ok := n.(*ast.CallExpr)
				if !ok {
					return true
				}
				name, ok := otSelName(call.Fun, "ast")
				if !ok || !strings.HasPrefix(name, "New") {
					return true
				}
				for k, a := range call.Args {
					if id, ok := a.(*ast.Ident); ok && vars[id.Name] {
						typ, field, e := otConstructorField(astFile, structs, name, k)
						if e != nil {
							err = e
							return false
						}
						out = append(out, otWrite{typ, field, ""})
						found[id.Name] = true
					}
				}
				return true
			})
			if err != nil {
				return nil, err
			}
			for v := range vars {
				if !found[v] {
					return nil, fmt.Errorf("shape not recognised: %s: the unquoted string %s does not reach an ast constructor", fd.Name.Name, v)
				}
			}
		}
	}
	sort.Slice(out, func(i, j int) bool {
		if out[i].typ != out[j].typ {
			return out[i].typ < out[j].typ
		}
		return out[i].field < out[j].field
	})
	var uniq []otWrite
	for i, w := range out {
		if i == 0 || w != out[i-1] {
			uniq = append(uniq, w)
		}
	}
	return uniq, nil
}

func genOpTokens(repo string) (string, error) {
	fset := token.NewFileSet()
	parse := func(rel ...string) (*ast.File, error) {
		return parser.ParseFile(fset, filepath.Join(append([]string{repo}, rel...)...), nil, 0)
	}
	astFile, err := parse("ast", "ast.go")
	if err != nil {
		return "", err
	}
	tokFile, err := parse("internal", "compiler", "tokens.go")
	if err != nil {
		return "", err
	}
	lexFile, err := parse("internal", "compiler", "lexer.go")
	if err != nil {
		return "", err
	}
	exprFile, err := parse("internal", "compiler", "parser_expressions.go")
	if err != nil {
		return "", err
	}

	ops, err := otEnum(astFile, "OperatorType", "Operator")
	if err != nil {
		return "", err
	}
	isOp := map[string]bool{}
	for _, o := range ops {
		isOp[o] = true
	}
	assigns, err := otEnum(astFile, "AssignmentType", "Assignment")
	if err != nil {
		return "", err
	}
	isAssign := map[string]bool{}
	for _, a := range assigns {
		isAssign[a] = true
	}
	toks, err := otEnum(tokFile, "tokenTyp", "token")
	if err != nil {
		return "", err
	}
	isTok := map[string]bool{}
	for _, t := range toks {
		isTok[t] = true
	}

	// ---- (*Assignment).String(): what is written for each constant
	printed := map[string]string{}
	{
		fd := otFunc(astFile, "Assignment", "String")
		if fd == nil {
			return "", fmt.Errorf("shape not recognised: (*Assignment).String not found")
		}
		recv := fd.Recv.List[0].Names[0].Name
		var sw *ast.SwitchStmt
		count := 0
		for _, st := range fd.Body.List {
			if s, ok := st.(*ast.SwitchStmt); ok {
				sw = s
				count++
			}
		}
		if count != 1 || sw.Init != nil {
			return "", fmt.Errorf("shape not recognised: (*Assignment).String: %d switch statements", count)
		}
		if sel, ok := sw.Tag.(*ast.SelectorExpr); !ok || sel.Sel.Name != "Type" {
			return "", fmt.Errorf("shape not recognised: (*Assignment).String: switch tag")
		} else if id, ok := sel.X.(*ast.Ident); !ok || id.Name != recv {
			return "", fmt.Errorf("shape not recognised: (*Assignment).String: switch tag")
		}
		for _, st := range sw.Body.List {
			cc := st.(*ast.CaseClause)
			if cc.List == nil || len(cc.Body) != 1 {
				return "", fmt.Errorf("shape not recognised: (*Assignment).String: case")
			}
			es, ok := cc.Body[0].(*ast.ExprStmt)
			if !ok {
				return "", fmt.Errorf("shape not recognised: (*Assignment).String: case body")
			}
			call, ok := es.X.(*ast.CallExpr)
			if !ok || len(call.Args) != 1 {
				return "", fmt.Errorf("shape not recognised: (*Assignment).String: case body")
			}
			if sel, ok := call.Fun.(*ast.SelectorExpr); !ok || sel.Sel.Name != "WriteString" {
				return "", fmt.Errorf("shape not recognised: (*Assignment).String: case body is not WriteString")
			}
			bl, ok := call.Args[0].(*ast.BasicLit)
			if !ok || bl.Kind != token.STRING {
				return "", fmt.Errorf("shape not recognised: (*Assignment).String: written value is not a literal")
			}
			text, err := strconv.Unquote(bl.Value)
			if err != nil {
				return "", err
			}
			for _, e := range cc.List {
				id, ok := e.(*ast.Ident)
				if !ok || !isAssign[id.Name] {
					return "", fmt.Errorf("shape not recognised: (*Assignment).String: case label")
				}
				if _, dup := printed[id.Name]; dup {
					return "", fmt.Errorf("shape not recognised: (*Assignment).String: duplicate case %s", id.Name)
				}
				printed[id.Name] = text
			}
		}
	}

	// ---- the node types with a String method
	var stringNodes []string
	for _, d := range astFile.Decls {
		fd, ok := d.(*ast.FuncDecl)
		if !ok || fd.Name.Name != "String" || fd.Recv == nil || len(fd.Recv.List) != 1 {
			continue
		}
		if fd.Type.Params.NumFields() != 0 || fd.Type.Results.NumFields() != 1 {
			continue
		}
		t := fd.Recv.List[0].Type
		if st, ok := t.(*ast.StarExpr); ok {
			t = st.X
		}
		if id, ok := t.(*ast.Ident); ok {
			stringNodes = append(stringNodes, id.Name)
		}
	}
	sort.Strings(stringNodes)
	// the struct types that implement Node through an embedded *Position
	var nodeTypes []string
	for _, d := range astFile.Decls {
		gd, ok := d.(*ast.GenDecl)
		if !ok || gd.Tok != token.TYPE {
			continue
		}
		for _, sp := range gd.Specs {
			ts := sp.(*ast.TypeSpec)
			st, ok := ts.Type.(*ast.StructType)
			if !ok {
				continue
			}
			for _, f := range st.Fields.List {
				if len(f.Names) != 0 {
					continue
				}
				if se, ok := f.Type.(*ast.StarExpr); ok {
					if id, ok := se.X.(*ast.Ident); ok && id.Name == "Position" {
						nodeTypes = append(nodeTypes, ts.Name.Name)
					}
				}
			}
		}
	}
	sort.Strings(nodeTypes)

	// ---- tokenString
	tokStr := map[string]string{}
	{
		found := false
		for _, d := range tokFile.Decls {
			gd, ok := d.(*ast.GenDecl)
			if !ok || gd.Tok != token.VAR {
				continue
			}
			for _, sp := range gd.Specs {
				vs := sp.(*ast.ValueSpec)
				if len(vs.Names) != 1 || vs.Names[0].Name != "tokenString" || len(vs.Values) != 1 {
					continue
				}
				cl, ok := vs.Values[0].(*ast.CompositeLit)
				if !ok {
					return "", fmt.Errorf("shape not recognised: tokenString")
				}
				for _, el := range cl.Elts {
					kv, ok := el.(*ast.KeyValueExpr)
					if !ok {
						return "", fmt.Errorf("shape not recognised: tokenString element")
					}
					k, ok1 := kv.Key.(*ast.Ident)
					v, ok2 := kv.Value.(*ast.BasicLit)
					if !ok1 || !ok2 || !isTok[k.Name] || v.Kind != token.STRING {
						return "", fmt.Errorf("shape not recognised: tokenString element")
					}
					s, err := strconv.Unquote(v.Value)
					if err != nil {
						return "", err
					}
					tokStr[k.Name] = s
				}
				found = true
			}
		}
		if !found {
			return "", fmt.Errorf("shape not recognised: tokenString not found")
		}
	}

	// ---- assignmentType
	assignOf := map[string]string{}
	var assignOrder []string
	{
		fd := otFunc(tokFile, "", "assignmentType")
		if fd == nil || len(fd.Body.List) != 2 {
			return "", fmt.Errorf("shape not recognised: assignmentType")
		}
		sw, ok := fd.Body.List[0].(*ast.SwitchStmt)
		if !ok || sw.Init != nil {
			return "", fmt.Errorf("shape not recognised: assignmentType: switch")
		}
		if sel, ok := sw.Tag.(*ast.SelectorExpr); !ok || sel.Sel.Name != "typ" {
			return "", fmt.Errorf("shape not recognised: assignmentType: switch tag")
		}
		ret, ok := fd.Body.List[1].(*ast.ReturnStmt)
		if !ok || len(ret.Results) != 2 {
			return "", fmt.Errorf("shape not recognised: assignmentType: final return")
		}
		if id, ok := ret.Results[1].(*ast.Ident); !ok || id.Name != "false" {
			return "", fmt.Errorf("shape not recognised: assignmentType: final return")
		}
		for _, st := range sw.Body.List {
			cc := st.(*ast.CaseClause)
			if cc.List == nil || len(cc.Body) != 1 {
				return "", fmt.Errorf("shape not recognised: assignmentType: case")
			}
			r, ok := cc.Body[0].(*ast.ReturnStmt)
			if !ok || len(r.Results) != 2 {
				return "", fmt.Errorf("shape not recognised: assignmentType: case body")
			}
			name, ok := otSelName(r.Results[0], "ast")
			if !ok || !isAssign[name] {
				return "", fmt.Errorf("shape not recognised: assignmentType: returned constant")
			}
			if id, ok := r.Results[1].(*ast.Ident); !ok || id.Name != "true" {
				return "", fmt.Errorf("shape not recognised: assignmentType: case does not return true")
			}
			for _, e := range cc.List {
				id, ok := e.(*ast.Ident)
				if !ok || !isTok[id.Name] {
					return "", fmt.Errorf("shape not recognised: assignmentType: case label")
				}
				if _, dup := assignOf[id.Name]; dup {
					return "", fmt.Errorf("shape not recognised: assignmentType: duplicate case %s", id.Name)
				}
				assignOf[id.Name] = name
				assignOrder = append(assignOrder, id.Name)
			}
		}
	}

	// ---- operatorFromTokenType
	type opCase struct{ tok, ifBinary, otherwise string }
	var opCases []opCase
	{
		fd := otFunc(exprFile, "", "operatorFromTokenType")
		if fd == nil || len(fd.Body.List) != 1 || fd.Type.Params.NumFields() != 2 {
			return "", fmt.Errorf("shape not recognised: operatorFromTokenType")
		}
		var params []string
		for _, f := range fd.Type.Params.List {
			for _, n := range f.Names {
				params = append(params, n.Name)
			}
		}
		sw, ok := fd.Body.List[0].(*ast.SwitchStmt)
		if !ok || sw.Init != nil {
			return "", fmt.Errorf("shape not recognised: operatorFromTokenType: switch")
		}
		if id, ok := sw.Tag.(*ast.Ident); !ok || id.Name != params[0] {
			return "", fmt.Errorf("shape not recognised: operatorFromTokenType: switch tag")
		}
		retOp := func(st ast.Stmt) (string, bool) {
			r, ok := st.(*ast.ReturnStmt)
			if !ok || len(r.Results) != 1 {
				return "", false
			}
			name, ok := otSelName(r.Results[0], "ast")
			if !ok || !isOp[name] {
				return "", false
			}
			return name, true
		}
		seen := map[string]bool{}
		sawDefault := false
		for _, st := range sw.Body.List {
			cc := st.(*ast.CaseClause)
			if cc.List == nil {
				// default: panic(…)
				if len(cc.Body) != 1 {
					return "", fmt.Errorf("shape not recognised: operatorFromTokenType: default")
				}
				es, ok := cc.Body[0].(*ast.ExprStmt)
				if !ok {
					return "", fmt.Errorf("shape not recognised: operatorFromTokenType: default")
				}
				call, ok := es.X.(*ast.CallExpr)
				if !ok {
					return "", fmt.Errorf("shape not recognised: operatorFromTokenType: default")
				}
				if id, ok := call.Fun.(*ast.Ident); !ok || id.Name != "panic" {
					return "", fmt.Errorf("shape not recognised: operatorFromTokenType: default is not a panic")
				}
				sawDefault = true
				continue
			}
			var c opCase
			switch len(cc.Body) {
			case 1:
				o, ok := retOp(cc.Body[0])
				if !ok {
					return "", fmt.Errorf("shape not recognised: operatorFromTokenType: case body")
				}
				c.ifBinary, c.otherwise = o, o
			case 2:
				is, ok := cc.Body[0].(*ast.IfStmt)
				if !ok || is.Init != nil || is.Else != nil || len(is.Body.List) != 1 {
					return "", fmt.Errorf("shape not recognised: operatorFromTokenType: case body")
				}
				if id, ok := is.Cond.(*ast.Ident); !ok || id.Name != params[1] {
					return "", fmt.Errorf("shape not recognised: operatorFromTokenType: condition is not the binary flag")
				}
				a, ok1 := retOp(is.Body.List[0])
				b, ok2 := retOp(cc.Body[1])
				if !ok1 || !ok2 {
					return "", fmt.Errorf("shape not recognised: operatorFromTokenType: case body")
				}
				c.ifBinary, c.otherwise = a, b
			default:
				return "", fmt.Errorf("shape not recognised: operatorFromTokenType: case body")
			}
			for _, e := range cc.List {
				id, ok := e.(*ast.Ident)
				if !ok || !isTok[id.Name] || seen[id.Name] {
					return "", fmt.Errorf("shape not recognised: operatorFromTokenType: case label")
				}
				seen[id.Name] = true
				c.tok = id.Name
				opCases = append(opCases, c)
			}
		}
		if !sawDefault {
			return "", fmt.Errorf("shape not recognised: operatorFromTokenType: no default panic")
		}
	}

	// ---- parseExpr: where operator nodes are built
	type built struct {
		first, second string // token(s); second is "" for a one-token operator
		viaTable      bool   // operatorFromTokenType(tok.typ, binary)
		op            string // literal constant otherwise
	}
	var unaryBuilt, binaryBuilt []built
	{
		fd := otFunc(exprFile, "parsing", "parseExpr")
		if fd == nil {
			return "", fmt.Errorf("shape not recognised: parseExpr not found")
		}
		var walk func(n ast.Node, caseToks []string, conds map[string]string) error
		var walkStmts func(list []ast.Stmt, caseToks []string, conds map[string]string) error
		var inExpr func(e ast.Expr, caseToks []string, conds map[string]string) error
		inExpr = func(e ast.Expr, caseToks []string, conds map[string]string) error {
			var err error
			ast.Inspect(e, func(n ast.Node) bool {
				if _, ok := n.(*ast.FuncLit); ok {
					return false
				}
				call, ok := n.(*ast.CallExpr)
				if !ok || err != nil {
					return err == nil
				}
				name, ok := otSelName(call.Fun, "ast")
				if !ok || (name != "NewUnaryOperator" && name != "NewBinaryOperator") {
					return true
				}
				binary := name == "NewBinaryOperator"
				if len(call.Args) < 2 {
					err = fmt.Errorf("shape not recognised: parseExpr: %s arguments", name)
					return false
				}
				var b built
				if lit, ok := otSelName(call.Args[1], "ast"); ok && isOp[lit] {
					b.op = lit
					b.first, b.second = conds["tok"], conds["next"]
					if b.first == "" || (!binary && b.second != "") {
						err = fmt.Errorf("shape not recognised: parseExpr: %s(…, ast.%s, …) is not under `tok.typ == tokenX`", name, lit)
						return false
					}
				} else if c, ok := call.Args[1].(*ast.CallExpr); ok {
					fn, ok1 := c.Fun.(*ast.Ident)
					if !ok1 || fn.Name != "operatorFromTokenType" || len(c.Args) != 2 {
						err = fmt.Errorf("shape not recognised: parseExpr: operator argument of %s", name)
						return false
					}
					flag, ok2 := c.Args[1].(*ast.Ident)
					sel, ok3 := c.Args[0].(*ast.SelectorExpr)
					if !ok2 || !ok3 || sel.Sel.Name != "typ" || (flag.Name == "true") != binary || (flag.Name != "true" && flag.Name != "false") {
						err = fmt.Errorf("shape not recognised: parseExpr: operatorFromTokenType arguments in %s", name)
						return false
					}
					if len(conds) != 0 || len(caseToks) == 0 {
						err = fmt.Errorf("shape not recognised: parseExpr: %s(operatorFromTokenType(…)) is not directly under a case list", name)
						return false
					}
					b.viaTable = true
					for _, t := range caseToks {
						bb := b
						bb.first = t
						if binary {
							binaryBuilt = append(binaryBuilt, bb)
						} else {
							unaryBuilt = append(unaryBuilt, bb)
						}
					}
					return true
				} else {
					err = fmt.Errorf("shape not recognised: parseExpr: operator argument of %s", name)
					return false
				}
				if binary {
					binaryBuilt = append(binaryBuilt, b)
				} else {
					unaryBuilt = append(unaryBuilt, b)
				}
				return true
			})
			return err
		}
		walkStmts = func(list []ast.Stmt, caseToks []string, conds map[string]string) error {
			for _, st := range list {
				if err := walk(st, caseToks, conds); err != nil {
					return err
				}
			}
			return nil
		}
		walk = func(n ast.Node, caseToks []string, conds map[string]string) error {
			switch s := n.(type) {
			case nil:
				return nil
			case *ast.BlockStmt:
				return walkStmts(s.List, caseToks, conds)
			case *ast.LabeledStmt:
				return walk(s.Stmt, caseToks, conds)
			case *ast.ForStmt:
				return walk(s.Body, caseToks, conds)
			case *ast.RangeStmt:
				return walk(s.Body, caseToks, conds)
			case *ast.SwitchStmt:
				onTok := false
				if sel, ok := s.Tag.(*ast.SelectorExpr); ok && sel.Sel.Name == "typ" {
					if id, ok := sel.X.(*ast.Ident); ok && id.Name == "tok" {
						onTok = true
					}
				}
				for _, cst := range s.Body.List {
					cc := cst.(*ast.CaseClause)
					ct, cd := caseToks, conds
					if onTok {
						ct, cd = nil, map[string]string{}
						for _, e := range cc.List {
							if id, ok := e.(*ast.Ident); ok && isTok[id.Name] {
								ct = append(ct, id.Name)
							}
						}
					}
					if err := walkStmts(cc.Body, ct, cd); err != nil {
						return err
					}
				}
				return nil
			case *ast.TypeSwitchStmt:
				for _, cst := range s.Body.List {
					if err := walkStmts(cst.(*ast.CaseClause).Body, caseToks, conds); err != nil {
						return err
					}
				}
				return nil
			case *ast.IfStmt:
				then := map[string]string{}
				for k, v := range conds {
					then[k] = v
				}
				for _, c := range otConjuncts(s.Cond) {
					if v, t, ok := otTypCond(c); ok && isTok[t] {
						then[v] = t
					}
				}
				if err := walk(s.Body, caseToks, then); err != nil {
					return err
				}
				return walk(s.Else, caseToks, conds)
			case *ast.AssignStmt:
				for _, e := range s.Rhs {
					if err := inExpr(e, caseToks, conds); err != nil {
						return err
					}
				}
				return nil
			case *ast.ExprStmt:
				return inExpr(s.X, caseToks, conds)
			case *ast.ReturnStmt:
				for _, e := range s.Results {
					if err := inExpr(e, caseToks, conds); err != nil {
						return err
					}
				}
				return nil
			case *ast.DeclStmt:
				return nil
			}
			return nil
		}
		if err := walk(fd.Body, nil, map[string]string{}); err != nil {
			return "", err
		}
		if len(unaryBuilt) == 0 || len(binaryBuilt) == 0 {
			return "", fmt.Errorf("shape not recognised: parseExpr: no operator nodes built")
		}
	}

	// ---- lexCode
	var lexTable []otLexEntry
	{
		fd := otFunc(lexFile, "lexer", "lexCode")
		if fd == nil {
			return "", fmt.Errorf("shape not recognised: lexCode not found")
		}
		var sw *ast.SwitchStmt
		ast.Inspect(fd.Body, func(n ast.Node) bool {
			s, ok := n.(*ast.SwitchStmt)
			if !ok || sw != nil {
				return sw == nil
			}
			// switch c := l.src[0]; c {
			as, ok := s.Init.(*ast.AssignStmt)
			if !ok || len(as.Rhs) != 1 {
				return true
			}
			if k, ok := otSrcIndex(as.Rhs[0]); ok && k == 0 {
				sw = s
				return false
			}
			return true
		})
		if sw == nil {
			return "", fmt.Errorf("shape not recognised: lexCode: `switch c := l.src[0]; c` not found")
		}
		for _, cst := range sw.Body.List {
			cc := cst.(*ast.CaseClause)
			if len(cc.List) != 1 {
				// several first bytes (digits, blanks) or default: no fixed-text token there
				var probe []otLexEntry
				if err := otLexEmits(cc.Body, map[int]byte{}, &probe); err != nil {
					// an emit with a fixed length under a multi-byte case would be a text we cannot name
					return "", err
				}
				continue
			}
			bl, ok := cc.List[0].(*ast.BasicLit)
			if !ok || bl.Kind != token.CHAR {
				return "", fmt.Errorf("shape not recognised: lexCode: case label")
			}
			v, err := strconv.Unquote(bl.Value)
			if err != nil || len(v) != 1 {
				return "", fmt.Errorf("shape not recognised: lexCode: case label %s", bl.Value)
			}
			if err := otLexEmits(cc.Body, map[int]byte{0: v[0]}, &lexTable); err != nil {
				return "", err
			}
		}
		seen := map[string]string{}
		for _, e := range lexTable {
			if !isTok[e.tok] {
				return "", fmt.Errorf("shape not recognised: lexCode: emit of unknown token %s", e.tok)
			}
			if t, dup := seen[e.text]; dup && t != e.tok {
				return "", fmt.Errorf("shape not recognised: lexCode: %q is emitted as %s and as %s", e.text, t, e.tok)
			}
			seen[e.text] = e.tok
		}
		if len(lexTable) < 20 {
			return "", fmt.Errorf("shape not recognised: lexCode: only %d fixed-text emits", len(lexTable))
		}
	}

	// ---- lexIdentifierOrKeyword
	var keywords, templateKeywords []otLexEntry
	{
		fd := otFunc(lexFile, "lexer", "lexIdentifierOrKeyword")
		if fd == nil {
			return "", fmt.Errorf("shape not recognised: lexIdentifierOrKeyword not found")
		}
		kwSwitch := func(sw *ast.SwitchStmt) ([]otLexEntry, error) {
			var out []otLexEntry
			for _, cst := range sw.Body.List {
				cc := cst.(*ast.CaseClause)
				if cc.List == nil || len(cc.Body) != 1 {
					return nil, fmt.Errorf("shape not recognised: lexIdentifierOrKeyword: case")
				}
				as, ok := cc.Body[0].(*ast.AssignStmt)
				if !ok || as.Tok != token.ASSIGN || len(as.Lhs) != 1 || len(as.Rhs) != 1 {
					return nil, fmt.Errorf("shape not recognised: lexIdentifierOrKeyword: case body")
				}
				t, ok := as.Rhs[0].(*ast.Ident)
				if !ok || !isTok[t.Name] {
					return nil, fmt.Errorf("shape not recognised: lexIdentifierOrKeyword: case body")
				}
				for _, e := range cc.List {
					bl, ok := e.(*ast.BasicLit)
					if !ok || bl.Kind != token.STRING {
						return nil, fmt.Errorf("shape not recognised: lexIdentifierOrKeyword: case label")
					}
					s, err := strconv.Unquote(bl.Value)
					if err != nil {
						return nil, err
					}
					out = append(out, otLexEntry{s, t.Name})
				}
			}
			return out, nil
		}
		nsw := 0
		for _, st := range fd.Body.List {
			switch s := st.(type) {
			case *ast.SwitchStmt:
				if nsw != 0 {
					return "", fmt.Errorf("shape not recognised: lexIdentifierOrKeyword: second top-level switch")
				}
				nsw++
				keywords, err = kwSwitch(s)
				if err != nil {
					return "", err
				}
			case *ast.IfStmt:
				// if l.templateSyntax && typ == tokenIdentifier { switch id { … } }
				isTemplate := false
				for _, c := range otConjuncts(s.Cond) {
					if sel, ok := c.(*ast.SelectorExpr); ok && sel.Sel.Name == "templateSyntax" {
						isTemplate = true
					}
				}
				if !isTemplate || len(s.Body.List) != 1 || s.Else != nil {
					return "", fmt.Errorf("shape not recognised: lexIdentifierOrKeyword: if statement")
				}
				sw, ok := s.Body.List[0].(*ast.SwitchStmt)
				if !ok {
					return "", fmt.Errorf("shape not recognised: lexIdentifierOrKeyword: template keywords")
				}
				templateKeywords, err = kwSwitch(sw)
				if err != nil {
					return "", err
				}
			}
		}
		if len(keywords) == 0 || len(templateKeywords) == 0 {
			return "", fmt.Errorf("shape not recognised: lexIdentifierOrKeyword: keyword switches not found")
		}
	}

	// ---- output
	var b strings.Builder
	b.WriteString("import ScriggoV.Gen.Precedence\n")
	b.WriteString("/-! Operator tables between the printer and the parser: AssignmentType constants and what\n")
	b.WriteString("(*Assignment).String() writes for each; tokenTyp constants, tokenString, the fixed-text emits of\n")
	b.WriteString("lexCode and the keyword switches of lexIdentifierOrKeyword; assignmentType and\n")
	b.WriteString("operatorFromTokenType; the tokens under which parseExpr builds operator nodes; the node types\n")
	b.WriteString("of ast.go and those with a String method. -/\n")
	b.WriteString("set_option linter.unusedVariables false\nnamespace ScriggoV.Gen.OpTokens\nopen ScriggoV.Gen.Precedence\n\n")

	b.WriteString("/-- the ast.AssignmentType constants (without the `Assignment` prefix), in declaration order -/\ninductive Assign where\n")
	for _, a := range assigns {
		b.WriteString("  | " + strings.TrimPrefix(a, "Assignment") + "\n")
	}
	b.WriteString("  deriving DecidableEq, Repr\n\ndef Assign.all : List Assign := [")
	for i, a := range assigns {
		if i > 0 {
			b.WriteString(", ")
		}
		b.WriteString("." + strings.TrimPrefix(a, "Assignment"))
	}
	b.WriteString("]\n\ndef Assign.name : Assign → String\n")
	for _, a := range assigns {
		fmt.Fprintf(&b, "  | .%s => %q\n", strings.TrimPrefix(a, "Assignment"), strings.TrimPrefix(a, "Assignment"))
	}
	b.WriteString("\n/-- what (*Assignment).String() writes between the two sides (\"\" when the switch has no case) -/\ndef Assign.printed : Assign → String\n")
	for _, a := range assigns {
		fmt.Fprintf(&b, "  | .%s => %s\n", strings.TrimPrefix(a, "Assignment"), strconv.Quote(printed[a]))
	}

	b.WriteString("\n/-- the tokenTyp constants, in declaration order -/\ninductive Tok where\n")
	for _, t := range toks {
		b.WriteString("  | " + t + "\n")
	}
	b.WriteString("  deriving DecidableEq, Repr\n\ndef Tok.all : List Tok := [")
	for i, t := range toks {
		if i > 0 {
			b.WriteString(", ")
		}
		b.WriteString("." + t)
	}
	b.WriteString("]\n\n/-- tokenString (\"\" when the map has no entry) -/\ndef Tok.str : Tok → String\n")
	for _, t := range toks {
		fmt.Fprintf(&b, "  | .%s => %s\n", t, strconv.Quote(tokStr[t]))
	}

	emitTable := func(name, doc string, es []otLexEntry) {
		fmt.Fprintf(&b, "\n/-- %s -/\ndef %s : List (String × Tok) := [", doc, name)
		for i, e := range es {
			if i > 0 {
				b.WriteString(",")
			}
			fmt.Fprintf(&b, "\n  (%s, .%s)", strconv.Quote(e.text), e.tok)
		}
		b.WriteString("]\n")
	}
	emitTable("lexEmits", "lexCode: the emits whose text is fixed by the enclosing conditions", lexTable)
	emitTable("keywords", "lexIdentifierOrKeyword: first switch (both syntaxes)", keywords)
	emitTable("templateKeywords", "lexIdentifierOrKeyword: second switch (template syntax only)", templateKeywords)

	b.WriteString("\n/-- assignmentType(tok); `none` is `0, false` -/\ndef assignmentType : Tok → Option Assign\n")
	for _, t := range assignOrder {
		fmt.Fprintf(&b, "  | .%s => some .%s\n", t, strings.TrimPrefix(assignOf[t], "Assignment"))
	}
	b.WriteString("  | _ => none\n")

	b.WriteString("\n/-- operatorFromTokenType(typ, binary); `none` is the default panic -/\ndef operatorFromTokenType : Tok → Bool → Option Op\n")
	for _, c := range opCases {
		if c.ifBinary == c.otherwise {
			fmt.Fprintf(&b, "  | .%s, _ => some .%s\n", c.tok, strings.TrimPrefix(c.ifBinary, "Operator"))
		} else {
			fmt.Fprintf(&b, "  | .%s, true => some .%s\n  | .%s, false => some .%s\n", c.tok, strings.TrimPrefix(c.ifBinary, "Operator"), c.tok, strings.TrimPrefix(c.otherwise, "Operator"))
		}
	}
	b.WriteString("  | _, _ => none\n")

	emitBuilt := func(name, doc string, bs []built, binary, two bool) error {
		if two {
			fmt.Fprintf(&b, "\n/-- %s -/\ndef %s : Tok → Tok → Option Op\n", doc, name)
		} else {
			fmt.Fprintf(&b, "\n/-- %s -/\ndef %s : Tok → Option Op\n", doc, name)
		}
		seen := map[string]bool{}
		for _, x := range bs {
			if (x.second != "") != two {
				continue
			}
			key := x.first + " " + x.second
			if seen[key] {
				return fmt.Errorf("shape not recognised: parseExpr: two operator nodes built under %s", key)
			}
			seen[key] = true
			rhs := "some ." + strings.TrimPrefix(x.op, "Operator")
			if x.viaTable {
				rhs = fmt.Sprintf("operatorFromTokenType .%s %v", x.first, binary)
			}
			if two {
				fmt.Fprintf(&b, "  | .%s, .%s => %s\n", x.first, x.second, rhs)
			} else {
				fmt.Fprintf(&b, "  | .%s => %s\n", x.first, rhs)
			}
		}
		if two {
			b.WriteString("  | _, _ => none\n")
		} else {
			b.WriteString("  | _ => none\n")
		}
		return nil
	}
	if err := emitBuilt("parseUnary", "parseExpr: the token under which a UnaryOperator node is built, and its operator", unaryBuilt, false, false); err != nil {
		return "", err
	}
	if err := emitBuilt("parseBinary", "parseExpr: the token under which a BinaryOperator node is built, and its operator", binaryBuilt, true, false); err != nil {
		return "", err
	}
	if err := emitBuilt("parseBinary2", "parseExpr: the two-token binary operators (`tok`, `next`)", binaryBuilt, true, true); err != nil {
		return "", err
	}

	emitNames := func(name, doc string, ns []string) {
		fmt.Fprintf(&b, "\n/-- %s -/\ndef %s : List String := [", doc, name)
		for i, n := range ns {
			if i > 0 {
				b.WriteString(", ")
			}
			b.WriteString(strconv.Quote(n))
		}
		b.WriteString("]\n")
	}
	{
		structs := otStructs(astFile)
		writes, err := otStringWrites(astFile, structs)
		if err != nil {
			return "", err
		}
		parserFile, err := parse("internal", "compiler", "parser.go")
		if err != nil {
			return "", err
		}
		unq, err := otParserUnquotes(astFile, structs, []*ast.File{parserFile, exprFile})
		if err != nil {
			return "", err
		}
		if len(writes) == 0 || len(unq) == 0 {
			return "", fmt.Errorf("shape not recognised: no string fields written / unquoted")
		}
		b.WriteString("\n/-- how a String method writes a string-typed field of its node -/\ninductive Write where\n  | quote      -- through strconv.Quote\n  | backquote  -- between backquotes, as it is\n  | dquoteRaw  -- between double quotes, as it is\n  | plain      -- as it is\n  deriving DecidableEq, Repr\n")
		b.WriteString("\n/-- (type, field, how): every occurrence of a string-typed field of the receiver in what a String method of ast.go writes -/\ndef stringWrites : List (String × String × Write) := [")
		for i, w := range writes {
			if i > 0 {
				b.WriteString(",")
			}
			fmt.Fprintf(&b, "\n  (%q, %q, .%s)", w.typ, w.field, w.mode)
		}
		b.WriteString("]\n")
		b.WriteString("\n/-- (type, field): the fields the parser fills with the result of unquoteString (the content of a string literal, not its text) -/\ndef parserUnquotes : List (String × String) := [")
		for i, w := range unq {
			if i > 0 {
				b.WriteString(", ")
			}
			fmt.Fprintf(&b, "(%q, %q)", w.typ, w.field)
		}
		b.WriteString("]\n")
	}
	emitNames("nodeTypes", "the struct types of ast.go that embed *Position (the nodes)", nodeTypes)
	emitNames("stringMethods", "the types of ast.go with a `String() string` method", stringNodes)
	b.WriteString("\nend ScriggoV.Gen.OpTokens\n")
	return b.String(), nil
}
