package main

// Part of generator "SharedWrites" (property C10): where a compiled artefact gets STORAGE at build
// time. compiler.Global.Value is the one channel through which a variable's storage, allocated
// while building, reaches every Run: programs.go/templates.go hand Global.Value itself to the VM
// when it is valid and allocate a fresh variable per run otherwise. Listed, with go/types:
//
//	globalValueStores  every composite literal of type compiler.Global (kind literal; lhs = its
//	                   Value field), every call of a function returning a Global (kind call; lhs =
//	                   the call), every assignment to the Value field of a Global (kind assign;
//	                   target = the conditions it is under), in internal/compiler
//	globalValueUses    every other mention of the Value field of a Global in the module's non-test
//	                   code (kind use; lhs = the enclosing statement's head, target = conditions)
//	buildTimeAllocs    every call of reflect.New/NewAt/MakeMap/MakeMapWithSize/MakeSlice/MakeChan in
//	                   internal/compiler (storage allocated while building)
//	nativeVarImport    the statements of the `case reflect.Pointer:` clause of toTypeCheckerScope
//	                   (how a variable declared by the embedder becomes a typeInfo value)
//
// The allow-list theorems of Props/C10.lean compare them with what was read by hand.

import (
	"fmt"
	"go/ast"
	"go/types"
	"path/filepath"
	"strings"
)

// swCondCtx renders the if-conditions a node is under, outermost first.
func swCondCtx(m *swLoader, stack []ast.Node) string {
	var parts []string
	for i, n := range stack {
		is, ok := n.(*ast.IfStmt)
		if !ok || i+1 >= len(stack) {
			continue
		}
		switch stack[i+1] {
		case ast.Node(is.Body):
			parts = append(parts, "if "+swText(m.fset, is.Cond)+" then")
		case is.Else:
			parts = append(parts, "if "+swText(m.fset, is.Cond)+" else")
		}
	}
	if len(parts) == 0 {
		return "-"
	}
	return strings.Join(parts, "; ")
}

func swHead(s string) string {
	if len(s) > 110 {
		return s[:110] + "…"
	}
	return s
}

func swGlobalValueFacts(m *swLoader, repo, cpPath string) (string, error) {
	cp := m.pkgs[cpPath]
	gtn, _ := cp.Scope().Lookup("Global").(*types.TypeName)
	if gtn == nil {
		return "", fmt.Errorf("shape not recognised: compiler.Global not found")
	}
	st, ok := gtn.Type().Underlying().(*types.Struct)
	if !ok {
		return "", fmt.Errorf("shape not recognised: compiler.Global is not a struct")
	}
	hasValue := false
	for i := 0; i < st.NumFields(); i++ {
		if f := st.Field(i); f.Name() == "Value" {
			hasValue = true
			if f.Type().String() != "reflect.Value" {
				return "", fmt.Errorf("shape not recognised: Global.Value has type %s", f.Type())
			}
		} else if swIsRef(f.Type()) || swHoldsRef(f.Type(), 0) {
			if f.Type().String() != "reflect.Type" {
				return "", fmt.Errorf("shape not recognised: Global has another reference-holding field: %s %s", f.Name(), f.Type())
			}
		}
	}
	if !hasValue {
		return "", fmt.Errorf("shape not recognised: Global has no Value field")
	}
	isGlobal := func(t types.Type) bool {
		if t == nil {
			return false
		}
		if p, ok := t.(*types.Pointer); ok {
			t = p.Elem()
		}
		n, ok := t.(*types.Named)
		return ok && n.Obj() == gtn
	}
	var stores, uses, allocs []swSite
	var importStmts []string
	importClauses := 0
	allocFns := map[string]bool{"New": true, "NewAt": true, "MakeMap": true, "MakeMapWithSize": true, "MakeSlice": true, "MakeChan": true}
	var paths []string
	for p := range m.pkgs {
		if strings.HasPrefix(p, swModule) {
			paths = append(paths, p)
		}
	}
	for _, p := range paths {
		info := m.infos[p]
		for _, f := range m.files[p] {
			rel, _ := filepath.Rel(repo, m.fset.Position(f.Package).Filename)
			for _, d := range f.Decls {
				fd, ok := d.(*ast.FuncDecl)
				if !ok || fd.Body == nil {
					continue
				}
				fn := swFuncName(fd, m.fset)
				var stack []ast.Node
				assigned := map[*ast.SelectorExpr]bool{}
				ast.Inspect(fd.Body, func(n ast.Node) bool {
					if n == nil {
						stack = stack[:len(stack)-1]
						return true
					}
					stack = append(stack, n)
					// the enclosing statement
					var stmt ast.Node = n
					for i := len(stack) - 1; i >= 0; i-- {
						if s, ok := stack[i].(ast.Stmt); ok {
							stmt = s
							break
						}
					}
					switch x := n.(type) {
					case *ast.CompositeLit:
						if p == cpPath && isGlobal(info.TypeOf(x)) {
							val := "-"
							for _, e := range x.Elts {
								if kv, ok := e.(*ast.KeyValueExpr); ok {
									if id, ok := kv.Key.(*ast.Ident); ok && id.Name == "Value" {
										val = swText(m.fset, kv.Value)
									}
								} else {
									val = "positional:" + swText(m.fset, x)
								}
							}
							stores = append(stores, swSite{file: rel, fn: fn, kind: "literal", target: swCondCtx(m, stack), lhs: val, hash: swHash(swText(m.fset, x))})
						}
					case *ast.CallExpr:
						if p == cpPath {
							if sig, ok := info.TypeOf(x.Fun).(*types.Signature); ok && sig.Results().Len() == 1 && isGlobal(sig.Results().At(0).Type()) {
								stores = append(stores, swSite{file: rel, fn: fn, kind: "call", target: swCondCtx(m, stack), lhs: swText(m.fset, x), hash: swHash(swText(m.fset, x))})
							}
							if sel, ok := x.Fun.(*ast.SelectorExpr); ok && allocFns[sel.Sel.Name] {
								if id, ok := sel.X.(*ast.Ident); ok {
									if pn, ok := info.Uses[id].(*types.PkgName); ok && pn.Imported().Path() == "reflect" {
										allocs = append(allocs, swSite{file: rel, fn: fn, kind: "reflect." + sel.Sel.Name, target: swCondCtx(m, stack), lhs: swHead(swText(m.fset, stmt)), hash: swHash(swText(m.fset, stmt))})
									}
								}
							}
						}
					case *ast.AssignStmt:
						for _, l := range x.Lhs {
							if sel, ok := l.(*ast.SelectorExpr); ok && sel.Sel.Name == "Value" && isGlobal(info.TypeOf(sel.X)) {
								assigned[sel] = true
								stores = append(stores, swSite{file: rel, fn: fn, kind: "assign", target: swCondCtx(m, stack), lhs: swText(m.fset, x), hash: swHash(swText(m.fset, x))})
							}
						}
					case *ast.SelectorExpr:
						if x.Sel.Name == "Value" && isGlobal(info.TypeOf(x.X)) && !assigned[x] {
							head := swText(m.fset, stmt)
							if is, ok := stmt.(*ast.IfStmt); ok {
								head = "if " + swText(m.fset, is.Cond)
							}
							uses = append(uses, swSite{file: rel, fn: fn, kind: "use", target: swCondCtx(m, stack), lhs: swHead(head), hash: swHash(head)})
						}
					case *ast.CaseClause:
						if p == cpPath && fd.Name.Name == "toTypeCheckerScope" && len(x.List) == 1 && swText(m.fset, x.List[0]) == "reflect.Pointer" {
							importClauses++
							for _, s := range x.Body {
								importStmts = append(importStmts, swText(m.fset, s))
							}
						}
					}
					return true
				})
			}
		}
	}
	if importClauses != 1 {
		return "", fmt.Errorf("shape not recognised: toTypeCheckerScope has %d `case reflect.Pointer:` clauses", importClauses)
	}
	var b strings.Builder
	swEmitSites(&b, "globalValueStores", "every place in internal/compiler that makes a compiler.Global or sets its Value field: composite literals (kind literal, lhs = the Value field's expression), calls of functions returning a Global (kind call), assignments to .Value (kind assign); target = the if-conditions the place is under", stores)
	swEmitSites(&b, "globalValueUses", "every other mention of the Value field of a compiler.Global in the module (non-test code): lhs = head of the enclosing statement, target = the if-conditions it is under", uses)
	swEmitSites(&b, "buildTimeAllocs", "every call of reflect.New, NewAt, MakeMap, MakeMapWithSize, MakeSlice, MakeChan in internal/compiler: storage allocated while building; lhs = head of the enclosing statement", allocs)
	b.WriteString("/-- toTypeCheckerScope, `case reflect.Pointer:` — how a variable declared by the embedder (a pointer in native.Declarations) becomes a typeInfo value: the statements of the clause -/\ndef nativeVarImport : List String := [")
	for i, s := range importStmts {
		if i > 0 {
			b.WriteString(",")
		}
		b.WriteString("\n  " + swLeanStr(s))
	}
	b.WriteString("]\n\n")
	return b.String(), nil
}
