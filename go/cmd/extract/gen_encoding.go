package main

// Generator "Encoding" (property C20): lean/ScriggoV/Gen/Encoding.lean.
//
// Regenerated from /repo on every check:
//   - every limit constant of internal/compiler/builder.go (the const block that holds
//     maxRegistersCount) and every other max…Count constant of the package;
//   - every encode…/decode… helper of internal/compiler and internal/runtime, translated
//     syntax-directed from straight-line Go integer code to BitVec terms (see goToLean below),
//     plus the inline operand encodings of emitSetVar and the int8(…)/uint8(…) pair that
//     carries a one-byte table index;
//   - the limits table: one row per place where the compiler appends to a table that the VM
//     indexes with an instruction operand, with the guard found in front of that append (none if
//     there is no guard) and the width of the narrowest expression with which
//     internal/runtime indexes that table.
//
// Anything outside the shapes recognised here aborts with "shape not recognised: …".

import (
	"fmt"
	"go/ast"
	"go/parser"
	"go/printer"
	"go/token"
	"math/big"
	"os"
	"path/filepath"
	"sort"
	"strconv"
	"strings"
)

func init() {
	generators = append(generators, generator{name: "Encoding", run: genEncoding})
}

// ---------------------------------------------------------------------------------------------
// parsing

type encPkg struct {
	name  string
	fset  *token.FileSet
	files map[string]*ast.File // base name -> file
	order []string
	funcs map[string]*ast.FuncDecl // plain functions and methods (method name only; last wins is an error)
	types map[string]string        // named type -> underlying basic type name
}

func encParse(dir, name string) (*encPkg, error) {
	p := &encPkg{name: name, fset: token.NewFileSet(), files: map[string]*ast.File{}, funcs: map[string]*ast.FuncDecl{}, types: map[string]string{}}
	ents, err := os.ReadDir(dir)
	if err != nil {
		return nil, err
	}
	for _, e := range ents {
		n := e.Name()
		if e.IsDir() || !strings.HasSuffix(n, ".go") || strings.HasSuffix(n, "_test.go") || strings.HasPrefix(n, "verif_") {
			continue
		}
		src, err := os.ReadFile(filepath.Join(dir, n))
		if err != nil {
			return nil, err
		}
		if strings.HasPrefix(string(src), "//go:build verif") {
			continue
		}
		f, err := parser.ParseFile(p.fset, filepath.Join(dir, n), src, parser.SkipObjectResolution)
		if err != nil {
			return nil, fmt.Errorf("shape not recognised: %s does not parse: %v", n, err)
		}
		p.files[n] = f
		p.order = append(p.order, n)
		for _, d := range f.Decls {
			switch d := d.(type) {
			case *ast.FuncDecl:
				key := d.Name.Name
				if d.Recv != nil {
					key = recvName(d) + "." + key
				}
				p.funcs[key] = d
			case *ast.GenDecl:
				if d.Tok == token.TYPE {
					for _, s := range d.Specs {
						ts := s.(*ast.TypeSpec)
						if id, ok := ts.Type.(*ast.Ident); ok {
							p.types[ts.Name.Name] = id.Name
						}
					}
				}
			}
		}
	}
	sort.Strings(p.order)
	return p, nil
}

func recvName(d *ast.FuncDecl) string {
	t := d.Recv.List[0].Type
	if s, ok := t.(*ast.StarExpr); ok {
		t = s.X
	}
	if id, ok := t.(*ast.Ident); ok {
		return id.Name
	}
	return "?"
}

func (p *encPkg) src(n ast.Node) string {
	var sb strings.Builder
	printer.Fprint(&sb, p.fset, n)
	return sb.String()
}

func (p *encPkg) pos(n ast.Node) string {
	ps := p.fset.Position(n.Pos())
	return fmt.Sprintf("%s:%d", filepath.Base(ps.Filename), ps.Line)
}

// ---------------------------------------------------------------------------------------------
// the Go-integer → BitVec translator

type ity struct {
	bool   bool
	signed bool
	w      int
}

func (t ity) lean() string {
	if t.bool {
		return "Bool"
	}
	return fmt.Sprintf("BitVec %d", t.w)
}

var encBasic = map[string]ity{
	"int8": {signed: true, w: 8}, "int16": {signed: true, w: 16}, "int32": {signed: true, w: 32}, "int64": {signed: true, w: 64},
	"int":   {signed: true, w: 64}, // amd64 (DESIGN §4)
	"uint8": {w: 8}, "byte": {w: 8}, "uint16": {w: 16}, "uint32": {w: 32}, "uint64": {w: 64}, "uint": {w: 64},
	"bool": {bool: true},
}

type encTr struct {
	pkgs map[string]*encPkg // by package name: compiler, runtime, ast
	cur  *encPkg
	// translated functions of the current package: name -> signature
	sigs map[string]*encSig
	ns   string // Lean namespace prefix of the current package's functions ("" or "VM.")
}

type encSig struct {
	lean    string
	params  []ity
	pnames  []string
	results []ity
}

// a translated value: typed term, or an untyped integer constant
type encVal struct {
	t     ity
	term  string
	konst *big.Int // untyped constant (term and t unset)
	tuple []encVal // result of a call with several results
}

func (tr *encTr) resolveType(e ast.Expr) (ity, error) {
	switch e := e.(type) {
	case *ast.Ident:
		return tr.resolveNamed(tr.cur, e.Name, 0)
	case *ast.SelectorExpr:
		if x, ok := e.X.(*ast.Ident); ok {
			if p, ok := tr.pkgs[x.Name]; ok {
				return tr.resolveNamed(p, e.Sel.Name, 0)
			}
		}
	}
	return ity{}, fmt.Errorf("shape not recognised: type %s", tr.cur.src(e))
}

func (tr *encTr) resolveNamed(p *encPkg, name string, depth int) (ity, error) {
	if t, ok := encBasic[name]; ok {
		return t, nil
	}
	if u, ok := p.types[name]; ok && depth < 8 {
		return tr.resolveNamed(p, u, depth+1)
	}
	return ity{}, fmt.Errorf("shape not recognised: type %s.%s is not a named integer type", p.name, name)
}

func (tr *encTr) isTypeExpr(e ast.Expr) bool {
	_, err := tr.resolveType(e)
	if err != nil {
		return false
	}
	// an identifier that is also a function of the package is a call, not a conversion
	if id, ok := e.(*ast.Ident); ok {
		if _, isFn := tr.cur.funcs[id.Name]; isFn {
			return false
		}
	}
	return true
}

func fitsIn(c *big.Int, t ity) bool {
	lo, hi := new(big.Int), new(big.Int)
	if t.signed {
		hi.Lsh(big.NewInt(1), uint(t.w-1))
		lo.Neg(hi)
		hi.Sub(hi, big.NewInt(1))
	} else {
		hi.Lsh(big.NewInt(1), uint(t.w))
		hi.Sub(hi, big.NewInt(1))
	}
	return c.Cmp(lo) >= 0 && c.Cmp(hi) <= 0
}

// typed gives v the type t if it is an untyped constant (Go's implicit conversion).
func (tr *encTr) typed(v encVal, t ity, at ast.Node) (encVal, error) {
	if v.konst == nil {
		return v, nil
	}
	if t.bool || !fitsIn(v.konst, t) {
		return v, fmt.Errorf("shape not recognised: constant %s does not fit its context at %s", v.konst, tr.cur.pos(at))
	}
	if v.konst.Sign() < 0 {
		return encVal{t: t, term: fmt.Sprintf("(BitVec.ofInt %d (%s))", t.w, v.konst)}, nil
	}
	return encVal{t: t, term: fmt.Sprintf("%s#%d", v.konst, t.w)}, nil
}

func (tr *encTr) convert(v encVal, to ity, at ast.Node) (encVal, error) {
	if v.konst != nil {
		return tr.typed(v, to, at)
	}
	if v.t.bool || to.bool {
		return v, fmt.Errorf("shape not recognised: conversion with bool at %s", tr.cur.pos(at))
	}
	switch {
	case to.w == v.t.w:
		return encVal{t: to, term: v.term}, nil
	case to.w < v.t.w:
		return encVal{t: to, term: fmt.Sprintf("(BitVec.setWidth %d %s)", to.w, v.term)}, nil
	case v.t.signed:
		return encVal{t: to, term: fmt.Sprintf("(BitVec.signExtend %d %s)", to.w, v.term)}, nil
	default:
		return encVal{t: to, term: fmt.Sprintf("(BitVec.setWidth %d %s)", to.w, v.term)}, nil
	}
}

type encEnv map[string]encVal

func (tr *encTr) expr(e ast.Expr, env encEnv) (encVal, error) {
	bad := func(what string) (encVal, error) {
		return encVal{}, fmt.Errorf("shape not recognised: %s `%s` at %s", what, tr.cur.src(e), tr.cur.pos(e))
	}
	switch e := e.(type) {
	case *ast.ParenExpr:
		return tr.expr(e.X, env)
	case *ast.BasicLit:
		if e.Kind != token.INT {
			return bad("literal")
		}
		c, ok := new(big.Int).SetString(strings.ReplaceAll(e.Value, "_", ""), 0)
		if !ok {
			return bad("literal")
		}
		return encVal{konst: c}, nil
	case *ast.Ident:
		if e.Name == "true" || e.Name == "false" {
			return encVal{t: ity{bool: true}, term: e.Name}, nil
		}
		if v, ok := env[e.Name]; ok {
			return v, nil
		}
		return bad("identifier")
	case *ast.UnaryExpr:
		x, err := tr.expr(e.X, env)
		if err != nil {
			return x, err
		}
		switch e.Op {
		case token.NOT:
			if !x.t.bool || x.konst != nil {
				return bad("operand of !")
			}
			return encVal{t: x.t, term: "(!" + x.term + ")"}, nil
		case token.SUB:
			if x.konst != nil {
				return encVal{konst: new(big.Int).Neg(x.konst)}, nil
			}
			if x.t.bool {
				return bad("operand of -")
			}
			return encVal{t: x.t, term: "(-" + x.term + ")"}, nil
		case token.XOR:
			if x.konst != nil || x.t.bool {
				return bad("operand of ^")
			}
			return encVal{t: x.t, term: "(~~~" + x.term + ")"}, nil
		}
		return bad("unary operator")
	case *ast.CallExpr:
		if len(e.Args) == 1 && tr.isTypeExpr(e.Fun) {
			to, _ := tr.resolveType(e.Fun)
			x, err := tr.expr(e.Args[0], env)
			if err != nil {
				return x, err
			}
			return tr.convert(x, to, e)
		}
		id, ok := e.Fun.(*ast.Ident)
		if !ok {
			return bad("call")
		}
		sig, ok := tr.sigs[id.Name]
		if !ok || len(sig.params) != len(e.Args) {
			return bad("call of a function that is not translated")
		}
		var args []string
		for i, a := range e.Args {
			x, err := tr.expr(a, env)
			if err != nil {
				return x, err
			}
			x, err = tr.typed(x, sig.params[i], a)
			if err != nil {
				return x, err
			}
			if x.t != sig.params[i] {
				return bad("argument type")
			}
			args = append(args, x.term)
		}
		call := "(" + sig.lean + " " + strings.Join(args, " ") + ")"
		if len(sig.results) == 1 {
			return encVal{t: sig.results[0], term: call}, nil
		}
		var tup []encVal
		for i, rt := range sig.results {
			tup = append(tup, encVal{t: rt, term: tupleProj(call, i, len(sig.results))})
		}
		return encVal{tuple: tup}, nil
	case *ast.BinaryExpr:
		x, err := tr.expr(e.X, env)
		if err != nil {
			return x, err
		}
		y, err := tr.expr(e.Y, env)
		if err != nil {
			return y, err
		}
		if x.tuple != nil || y.tuple != nil {
			return bad("multi-value operand")
		}
		switch e.Op {
		case token.SHL, token.SHR:
			if y.konst == nil || y.konst.Sign() < 0 || !y.konst.IsInt64() || y.konst.Int64() > 64 {
				return bad("shift count that is not a small constant")
			}
			k := uint(y.konst.Int64())
			if x.konst != nil {
				if e.Op == token.SHL {
					return encVal{konst: new(big.Int).Lsh(x.konst, k)}, nil
				}
				return encVal{konst: new(big.Int).Rsh(x.konst, k)}, nil
			}
			if x.t.bool {
				return bad("shift of a bool")
			}
			switch {
			case e.Op == token.SHL:
				return encVal{t: x.t, term: fmt.Sprintf("(%s <<< %d)", x.term, k)}, nil
			case x.t.signed:
				return encVal{t: x.t, term: fmt.Sprintf("(BitVec.sshiftRight %s %d)", x.term, k)}, nil
			default:
				return encVal{t: x.t, term: fmt.Sprintf("(%s >>> %d)", x.term, k)}, nil
			}
		case token.LAND, token.LOR:
			if !x.t.bool || !y.t.bool || x.konst != nil || y.konst != nil {
				return bad("operands of a boolean operator")
			}
			op := map[token.Token]string{token.LAND: "&&", token.LOR: "||"}[e.Op]
			return encVal{t: x.t, term: "(" + x.term + " " + op + " " + y.term + ")"}, nil
		}
		// arithmetic, bitwise and comparison operators: both operands of one type
		if x.konst != nil && y.konst != nil {
			r := new(big.Int)
			switch e.Op {
			case token.OR:
				r.Or(x.konst, y.konst)
			case token.AND:
				r.And(x.konst, y.konst)
			case token.ADD:
				r.Add(x.konst, y.konst)
			case token.SUB:
				r.Sub(x.konst, y.konst)
			case token.MUL:
				r.Mul(x.konst, y.konst)
			default:
				return bad("constant expression")
			}
			return encVal{konst: r}, nil
		}
		if x.konst != nil {
			if x, err = tr.typed(x, y.t, e.X); err != nil {
				return x, err
			}
		}
		if y.konst != nil {
			if y, err = tr.typed(y, x.t, e.Y); err != nil {
				return y, err
			}
		}
		if x.t != y.t {
			return bad("operands of different types in")
		}
		if x.t.bool {
			switch e.Op {
			case token.EQL:
				return encVal{t: x.t, term: "(" + x.term + " == " + y.term + ")"}, nil
			case token.NEQ:
				return encVal{t: x.t, term: "(" + x.term + " != " + y.term + ")"}, nil
			}
			return bad("operator on bools")
		}
		b := ity{bool: true}
		switch e.Op {
		case token.OR:
			return encVal{t: x.t, term: "(" + x.term + " ||| " + y.term + ")"}, nil
		case token.AND:
			return encVal{t: x.t, term: "(" + x.term + " &&& " + y.term + ")"}, nil
		case token.XOR:
			return encVal{t: x.t, term: "(" + x.term + " ^^^ " + y.term + ")"}, nil
		case token.AND_NOT:
			return encVal{t: x.t, term: "(" + x.term + " &&& ~~~" + y.term + ")"}, nil
		case token.ADD:
			return encVal{t: x.t, term: "(" + x.term + " + " + y.term + ")"}, nil
		case token.SUB:
			return encVal{t: x.t, term: "(" + x.term + " - " + y.term + ")"}, nil
		case token.MUL:
			return encVal{t: x.t, term: "(" + x.term + " * " + y.term + ")"}, nil
		case token.EQL:
			return encVal{t: b, term: "(" + x.term + " == " + y.term + ")"}, nil
		case token.NEQ:
			return encVal{t: b, term: "(" + x.term + " != " + y.term + ")"}, nil
		case token.LSS, token.LEQ, token.GTR, token.GEQ:
			fn := map[bool]map[token.Token]string{
				true:  {token.LSS: "BitVec.slt %s %s", token.LEQ: "BitVec.sle %s %s", token.GTR: "BitVec.slt %[2]s %[1]s", token.GEQ: "BitVec.sle %[2]s %[1]s"},
				false: {token.LSS: "BitVec.ult %s %s", token.LEQ: "BitVec.ule %s %s", token.GTR: "BitVec.ult %[2]s %[1]s", token.GEQ: "BitVec.ule %[2]s %[1]s"},
			}[x.t.signed][e.Op]
			return encVal{t: b, term: "(" + fmt.Sprintf(fn, x.term, y.term) + ")"}, nil
		}
		return bad("binary operator")
	}
	return bad("expression")
}

func tupleProj(t string, i, n int) string {
	// right-nested pairs: (a, b, c) = (a, (b, c))
	s := t
	for k := 0; k < i; k++ {
		s += ".2"
	}
	if i < n-1 {
		s += ".1"
	}
	return s
}

var opAssign = map[token.Token]token.Token{
	token.OR_ASSIGN: token.OR, token.AND_ASSIGN: token.AND, token.XOR_ASSIGN: token.XOR, token.AND_NOT_ASSIGN: token.AND_NOT,
	token.ADD_ASSIGN: token.ADD, token.SUB_ASSIGN: token.SUB, token.SHL_ASSIGN: token.SHL, token.SHR_ASSIGN: token.SHR,
}

// block executes straight-line statements symbolically. It returns the values of a return
// statement if the block ends with one.
func (tr *encTr) block(stmts []ast.Stmt, env encEnv, results []string) (ret []encVal, err error) {
	for i, s := range stmts {
		bad := func(what string) ([]encVal, error) {
			return nil, fmt.Errorf("shape not recognised: %s `%s` at %s", what, strings.SplitN(tr.cur.src(s), "\n", 2)[0], tr.cur.pos(s))
		}
		switch s := s.(type) {
		case *ast.AssignStmt:
			if op, ok := opAssign[s.Tok]; ok {
				if len(s.Lhs) != 1 {
					return bad("assignment")
				}
				v, err := tr.expr(&ast.BinaryExpr{X: s.Lhs[0], Op: op, Y: s.Rhs[0], OpPos: s.TokPos}, env)
				if err != nil {
					return nil, err
				}
				env[s.Lhs[0].(*ast.Ident).Name] = v
				continue
			}
			if s.Tok != token.ASSIGN && s.Tok != token.DEFINE {
				return bad("assignment")
			}
			var vals []encVal
			if len(s.Rhs) == 1 && len(s.Lhs) > 1 {
				v, err := tr.expr(s.Rhs[0], env)
				if err != nil {
					return nil, err
				}
				if len(v.tuple) != len(s.Lhs) {
					return bad("assignment count")
				}
				vals = v.tuple
			} else {
				if len(s.Rhs) != len(s.Lhs) {
					return bad("assignment count")
				}
				for _, r := range s.Rhs {
					v, err := tr.expr(r, env)
					if err != nil {
						return nil, err
					}
					vals = append(vals, v)
				}
			}
			for k, l := range s.Lhs {
				id, ok := l.(*ast.Ident)
				if !ok {
					return bad("assignment target")
				}
				v := vals[k]
				if v.tuple != nil {
					return bad("multi-value in single-value context")
				}
				if old, ok := env[id.Name]; ok && s.Tok == token.ASSIGN {
					if v, err = tr.typed(v, old.t, s); err != nil {
						return nil, err
					}
					if v.t != old.t {
						return bad("assignment changes the type in")
					}
				} else if v.konst != nil {
					// x := 3 declares an int
					if v, err = tr.typed(v, encBasic["int"], s); err != nil {
						return nil, err
					}
				}
				if id.Name != "_" {
					env[id.Name] = v
				}
			}
		case *ast.IfStmt:
			if s.Init != nil {
				return bad("if with init")
			}
			c, err := tr.expr(s.Cond, env)
			if err != nil {
				return nil, err
			}
			if !c.t.bool || c.konst != nil {
				return bad("condition")
			}
			thenEnv, elseEnv := encEnv{}, encEnv{}
			for k, v := range env {
				thenEnv[k], elseEnv[k] = v, v
			}
			if r, err := tr.block(s.Body.List, thenEnv, results); err != nil || r != nil {
				if err == nil {
					err = fmt.Errorf("shape not recognised: return inside if at %s", tr.cur.pos(s))
				}
				return nil, err
			}
			switch el := s.Else.(type) {
			case nil:
			case *ast.BlockStmt:
				if r, err := tr.block(el.List, elseEnv, results); err != nil || r != nil {
					if err == nil {
						err = fmt.Errorf("shape not recognised: return inside else at %s", tr.cur.pos(s))
					}
					return nil, err
				}
			default:
				return bad("else-if")
			}
			for k, old := range env {
				a, b := thenEnv[k], elseEnv[k]
				if a.term == old.term && b.term == old.term && a.konst == nil && b.konst == nil {
					continue
				}
				if a.konst != nil || b.konst != nil || a.t != b.t {
					return bad("branches disagree on the type of " + k + " in")
				}
				env[k] = encVal{t: a.t, term: "(if " + c.term + " then " + a.term + " else " + b.term + ")"}
			}
			for k := range thenEnv {
				if _, ok := env[k]; !ok {
					continue // declared inside the branch: out of scope
				}
			}
		case *ast.ReturnStmt:
			if i != len(stmts)-1 {
				return bad("return before the end")
			}
			if len(s.Results) == 0 {
				for _, r := range results {
					ret = append(ret, env[r])
				}
				return ret, nil
			}
			for _, r := range s.Results {
				v, err := tr.expr(r, env)
				if err != nil {
					return nil, err
				}
				if v.tuple != nil {
					ret = append(ret, v.tuple...)
				} else {
					ret = append(ret, v)
				}
			}
			return ret, nil
		default:
			return bad("statement")
		}
	}
	return nil, nil
}

type encFunc struct {
	goName string
	sig    *encSig
	body   string
	pos    string
	rnames []string
}

func (tr *encTr) function(d *ast.FuncDecl, leanName string) (*encFunc, error) {
	sig := &encSig{lean: leanName}
	env := encEnv{}
	for _, f := range d.Type.Params.List {
		t, err := tr.resolveType(f.Type)
		if err != nil {
			return nil, err
		}
		for _, n := range f.Names {
			sig.params = append(sig.params, t)
			sig.pnames = append(sig.pnames, n.Name)
			env[n.Name] = encVal{t: t, term: leanIdent(n.Name)}
		}
	}
	var rnames []string
	if d.Type.Results == nil {
		return nil, fmt.Errorf("shape not recognised: %s has no result", d.Name.Name)
	}
	for _, f := range d.Type.Results.List {
		t, err := tr.resolveType(f.Type)
		if err != nil {
			return nil, err
		}
		if len(f.Names) == 0 {
			sig.results = append(sig.results, t)
			continue
		}
		for _, n := range f.Names {
			sig.results = append(sig.results, t)
			rnames = append(rnames, n.Name)
			if t.bool {
				env[n.Name] = encVal{t: t, term: "false"}
			} else {
				env[n.Name] = encVal{t: t, term: fmt.Sprintf("0#%d", t.w)}
			}
		}
	}
	ret, err := tr.block(d.Body.List, env, rnames)
	if err != nil {
		return nil, err
	}
	if ret == nil {
		return nil, fmt.Errorf("shape not recognised: %s does not end with a return", d.Name.Name)
	}
	if len(ret) != len(sig.results) {
		return nil, fmt.Errorf("shape not recognised: %s returns %d values, declares %d", d.Name.Name, len(ret), len(sig.results))
	}
	var terms []string
	for i := range ret {
		v, err := tr.typed(ret[i], sig.results[i], d)
		if err != nil {
			return nil, err
		}
		if v.t != sig.results[i] {
			return nil, fmt.Errorf("shape not recognised: result %d of %s has an unexpected type", i, d.Name.Name)
		}
		terms = append(terms, v.term)
	}
	body := terms[0]
	if len(terms) > 1 {
		body = "(" + strings.Join(terms, ", ") + ")"
	}
	return &encFunc{goName: d.Name.Name, sig: sig, body: body, pos: tr.cur.pos(d), rnames: rnames}, nil
}

func leanIdent(n string) string {
	switch n {
	case "at", "from", "end", "then", "fun", "show", "have", "in", "open", "def", "by", "do", "let", "if", "else", "match", "with", "where":
		return n + "'"
	}
	return n
}

func (f *encFunc) leanDef(doc string) string {
	var sb strings.Builder
	fmt.Fprintf(&sb, "/-- %s -/\ndef %s", doc, f.sig.lean)
	for i, p := range f.sig.pnames {
		fmt.Fprintf(&sb, " (%s : %s)", leanIdent(p), f.sig.params[i].lean())
	}
	var rts []string
	for _, r := range f.sig.results {
		rts = append(rts, r.lean())
	}
	fmt.Fprintf(&sb, " : %s :=\n  %s\n", strings.Join(rts, " × "), f.body)
	return sb.String()
}

// leanRun is the untyped wrapper the driver calls: decimal integers in, decimal integers out
// (signed types as Go prints them, bools as 0/1).
func (f *encFunc) leanRun() string {
	var sb strings.Builder
	var pats, args []string
	for i, p := range f.sig.params {
		v := fmt.Sprintf("x%d", i)
		pats = append(pats, v)
		if p.bool {
			args = append(args, fmt.Sprintf("(%s != 0)", v))
		} else {
			args = append(args, fmt.Sprintf("(BitVec.ofInt %d %s)", p.w, v))
		}
	}
	var outs []string
	for i, r := range f.sig.results {
		proj := "r"
		if len(f.sig.results) > 1 {
			proj = tupleProj("r", i, len(f.sig.results))
		}
		switch {
		case r.bool:
			outs = append(outs, fmt.Sprintf("(if %s then 1 else 0)", proj))
		case r.signed:
			outs = append(outs, fmt.Sprintf("%s.toInt", proj))
		default:
			outs = append(outs, fmt.Sprintf("Int.ofNat %s.toNat", proj))
		}
	}
	name := strings.ReplaceAll(f.sig.lean, ".", "_")
	fmt.Fprintf(&sb, "def run_%s : List Int → Option (List Int)\n  | [%s] => let r := %s %s; some [%s]\n  | _ => none\n",
		name, strings.Join(pats, ", "), f.sig.lean, strings.Join(args, " "), strings.Join(outs, ", "))
	return sb.String()
}

// ---------------------------------------------------------------------------------------------
// constants

// constValue evaluates a constant expression made of integer literals, <<, |, +, -, *,
// math.MaxUint32-like selectors and previously evaluated constants.
func constValue(e ast.Expr, known map[string]*big.Int) (*big.Int, bool) {
	switch e := e.(type) {
	case *ast.ParenExpr:
		return constValue(e.X, known)
	case *ast.BasicLit:
		if e.Kind != token.INT {
			return nil, false
		}
		return new(big.Int).SetString(strings.ReplaceAll(e.Value, "_", ""), 0)
	case *ast.Ident:
		v, ok := known[e.Name]
		return v, ok
	case *ast.SelectorExpr:
		if x, ok := e.X.(*ast.Ident); ok && x.Name == "math" {
			switch e.Sel.Name {
			case "MaxUint32":
				return big.NewInt(1<<32 - 1), true
			case "MaxUint16":
				return big.NewInt(1<<16 - 1), true
			case "MaxInt16":
				return big.NewInt(1<<15 - 1), true
			case "MaxInt32":
				return big.NewInt(1<<31 - 1), true
			case "MaxUint8":
				return big.NewInt(255), true
			case "MaxInt8":
				return big.NewInt(127), true
			}
		}
		return nil, false
	case *ast.BinaryExpr:
		x, ok1 := constValue(e.X, known)
		y, ok2 := constValue(e.Y, known)
		if !ok1 || !ok2 {
			return nil, false
		}
		r := new(big.Int)
		switch e.Op {
		case token.SHL:
			if !y.IsInt64() || y.Int64() < 0 || y.Int64() > 64 {
				return nil, false
			}
			return r.Lsh(x, uint(y.Int64())), true
		case token.OR:
			return r.Or(x, y), true
		case token.ADD:
			return r.Add(x, y), true
		case token.SUB:
			return r.Sub(x, y), true
		case token.MUL:
			return r.Mul(x, y), true
		}
	}
	return nil, false
}

// ---------------------------------------------------------------------------------------------
// limits table

type encRow struct {
	table        string // e.g. Values.Int
	site         string // function that appends, file:line
	guard        *big.Int
	guardSrc     string
	konst        string // the constant the guard compares with
	message      string // format string of the limit error
	beforeLookup bool
	width        int // bits of the narrowest operand the VM indexes the table with; -1: not indexed by an operand
	reserved     int
	readers      []string
	codec        string
}

// tableOf recognises the tables the compiler fills for the VM: x.Types, x.Values.Int, …
// fields is the set of slice fields of runtime.Function and runtime.Registers; extra maps the
// compiler-side tables that are handed to the VM under another name.
func tableOf(e ast.Expr, fnFields, regFields map[string]bool) (string, bool) {
	sel, ok := e.(*ast.SelectorExpr)
	if !ok {
		return "", false
	}
	name := sel.Sel.Name
	if inner, ok := sel.X.(*ast.SelectorExpr); ok && inner.Sel.Name == "Values" && regFields[name] {
		return "Values." + name, true
	}
	if fnFields[name] {
		// the receiver must be a function: fn, fb.fn, currFn, em.fb.fn …
		switch x := sel.X.(type) {
		case *ast.Ident:
			if strings.HasSuffix(strings.ToLower(x.Name), "fn") {
				return name, true
			}
		case *ast.SelectorExpr:
			if x.Sel.Name == "fn" {
				return name, true
			}
		}
		return "", false
	}
	switch name {
	case "globals": // varStore.globals becomes vm.vars of the main function
		return "Globals", true
	case "labelAddrs":
		return "labelAddrs", true
	}
	return "", false
}

func isCall(e ast.Expr, name string) (*ast.CallExpr, bool) {
	c, ok := e.(*ast.CallExpr)
	if !ok {
		return nil, false
	}
	id, ok := c.Fun.(*ast.Ident)
	return c, ok && id.Name == name
}

// limitPanic recognises `panic(newLimitExceededError(pos, path, "format", …))`.
func limitPanic(s ast.Stmt) (format string, ok bool) {
	es, ok := s.(*ast.ExprStmt)
	if !ok {
		return "", false
	}
	c, ok := isCall(es.X, "panic")
	if !ok || len(c.Args) != 1 {
		return "", false
	}
	n, ok := isCall(c.Args[0], "newLimitExceededError")
	if !ok || len(n.Args) < 3 {
		return "", false
	}
	lit, ok := n.Args[2].(*ast.BasicLit)
	if !ok || lit.Kind != token.STRING {
		return "", false
	}
	f, err := strconv.Unquote(lit.Value)
	return f, err == nil
}

type encGuard struct {
	beforeLookup bool     // a statement between the guard and the append can return (the de-duplication lookup)
	count        *big.Int // largest number of entries the table can have after an append that passed the guard
	src          string
	konst        string
	message      string
}

// guardBefore looks, among the statements that precede the append in its block, for
//
//	if len(T) == maxC { panic(newLimitExceededError(…)) }      (also >=, >)
//	r := len(T) … if r == maxC { panic(…) }
func guardBefore(p *encPkg, before []ast.Stmt, table ast.Expr, consts map[string]*big.Int) (*encGuard, error) {
	tsrc := p.src(table)
	lenVars := map[string]bool{}
	var found *encGuard
	for si, s := range before {
		switch s := s.(type) {
		case *ast.AssignStmt:
			if len(s.Lhs) == 1 && len(s.Rhs) == 1 {
				if c, ok := isCall(s.Rhs[0], "len"); ok && len(c.Args) == 1 && p.src(c.Args[0]) == tsrc {
					if id, ok := s.Lhs[0].(*ast.Ident); ok {
						lenVars[id.Name] = true
					}
				}
			}
		case *ast.IfStmt:
			if len(s.Body.List) == 0 {
				continue
			}
			msg, ok := limitPanic(s.Body.List[0])
			if !ok {
				continue
			}
			be, ok := s.Cond.(*ast.BinaryExpr)
			if !ok {
				return nil, fmt.Errorf("shape not recognised: limit guard `%s` at %s", p.src(s.Cond), p.pos(s))
			}
			isLen := false
			if c, ok := isCall(be.X, "len"); ok && len(c.Args) == 1 && p.src(c.Args[0]) == tsrc {
				isLen = true
			}
			if id, ok := be.X.(*ast.Ident); ok && lenVars[id.Name] {
				isLen = true
			}
			if !isLen {
				continue // a limit check on something else
			}
			cv, ok := constValue(be.Y, consts)
			if !ok {
				return nil, fmt.Errorf("shape not recognised: limit guard `%s` at %s compares with a non-constant", p.src(s.Cond), p.pos(s))
			}
			g := &encGuard{src: p.src(s.Cond), konst: p.src(be.Y), message: msg}
			switch be.Op {
			case token.EQL, token.GEQ:
				// len == C is refused: an append happens only with len < C, so at most C entries.
				// (== is only a guard because len grows by one from zero: stated in the Lean model.)
				g.count = new(big.Int).Set(cv)
			case token.GTR:
				g.count = new(big.Int).Add(cv, big.NewInt(1))
			default:
				return nil, fmt.Errorf("shape not recognised: limit guard `%s` at %s", p.src(s.Cond), p.pos(s))
			}
			// can the function return between this test and the append? Then the limit test runs
			// on a path where nothing is appended: a lookup of an entry that is already in the table
			for _, later := range before[si+1:] {
				ast.Inspect(later, func(n ast.Node) bool {
					if _, ok := n.(*ast.ReturnStmt); ok {
						g.beforeLookup = true
					}
					_, isLit := n.(*ast.FuncLit)
					return !isLit
				})
			}
			found = g
		}
	}
	return found, nil
}

func enclosingFuncName(d *ast.FuncDecl) string {
	if d.Recv != nil {
		return recvName(d) + "." + d.Name.Name
	}
	return d.Name.Name
}

// appendSites finds every `T = append(T, …)` on a VM table in the compiler package.
func appendSites(p *encPkg, fnFields, regFields map[string]bool, consts map[string]*big.Int) (rows []*encRow, bodySites int, err error) {
	for _, fname := range p.order {
		f := p.files[fname]
		for _, d := range f.Decls {
			fd, ok := d.(*ast.FuncDecl)
			if !ok || fd.Body == nil {
				continue
			}
			var walk func(list []ast.Stmt) error
			walk = func(list []ast.Stmt) error {
				for i, s := range list {
					if as, ok := s.(*ast.AssignStmt); ok && len(as.Lhs) == 1 && len(as.Rhs) == 1 {
						if c, ok := isCall(as.Rhs[0], "append"); ok && len(c.Args) >= 1 && p.src(c.Args[0]) == p.src(as.Lhs[0]) {
							if t, ok := tableOf(as.Lhs[0], fnFields, regFields); ok {
								if t == "Body" {
									bodySites++
								} else {
									g, err := guardBefore(p, list[:i], as.Lhs[0], consts)
									if err != nil {
										return err
									}
									r := &encRow{table: t, site: enclosingFuncName(fd) + " " + p.pos(as), width: -1}
									if g != nil {
										r.guard, r.guardSrc, r.konst, r.message = g.count, g.src, g.konst, g.message
										r.beforeLookup = g.beforeLookup
									}
									rows = append(rows, r)
								}
							}
						}
					}
					// nested blocks
					var err error
					ast.Inspect(s, func(n ast.Node) bool {
						if n == s || err != nil {
							return err == nil
						}
						switch b := n.(type) {
						case *ast.BlockStmt:
							err = walk(b.List)
							return false
						case *ast.CaseClause:
							err = walk(b.Body)
							return false
						case *ast.CommClause:
							err = walk(b.Body)
							return false
						case *ast.FuncLit:
							err = walk(b.Body.List)
							return false
						}
						return true
					})
					if err != nil {
						return err
					}
				}
				return nil
			}
			if err := walk(fd.Body.List); err != nil {
				return nil, 0, err
			}
		}
	}
	return rows, bodySites, nil
}

// readerWidths finds every index expression of the runtime package (and of the compiler, which
// reads FieldIndexes back while emitting an assignment) on a VM table and classifies
// the index: uint8(x) → 8 bits, decodeUint16 → 16, decodeInt16 → 15 (a negative index faults),
// the index result of decodeValueIndex → the complement of its mask, a uint8 parameter → 8,
// an element of VarRefs ([]int16, used when ≥ 0) → 15.
func readerWidths(pkgs []*encPkg, valueIndexBits int) (map[string][]string, map[string]int, error) {
	readers := map[string][]string{}
	widths := map[string]int{}
	note := func(table string, w int, what string) {
		readers[table] = append(readers[table], fmt.Sprintf("%s (%d bits)", what, w))
		if old, ok := widths[table]; !ok || w < old {
			widths[table] = w
		}
	}
	fnFields := map[string]bool{"Types": true, "Functions": true, "NativeFunctions": true, "FieldIndexes": true, "Text": true, "FinalRegs": true, "VarRefs": true}
	regFields := map[string]bool{"Int": true, "Float": true, "String": true, "General": true}
	for _, rt := range pkgs {
		for _, fname := range rt.order {
			if rt.name == "compiler" && fname == "disassembler.go" {
				continue // prints code, is not part of building or running it
			}
			for _, d := range rt.files[fname].Decls {
				fd, ok := d.(*ast.FuncDecl)
				if !ok || fd.Body == nil {
					continue
				}
				// identifiers with a known provenance inside this function
				prov := map[string]int{}
				if fd.Type.Params != nil {
					for _, f := range fd.Type.Params.List {
						if id, ok := f.Type.(*ast.Ident); ok && id.Name == "uint8" {
							for _, n := range f.Names {
								prov[n.Name] = 8
							}
						}
					}
				}
				ast.Inspect(fd.Body, func(n ast.Node) bool {
					switch n := n.(type) {
					case *ast.AssignStmt:
						if len(n.Lhs) == 2 && len(n.Rhs) == 1 {
							if _, ok := isCall(n.Rhs[0], "decodeValueIndex"); ok {
								if id, ok := n.Lhs[1].(*ast.Ident); ok {
									prov[id.Name] = valueIndexBits
								}
							}
						}
					case *ast.RangeStmt:
						if sel, ok := n.X.(*ast.SelectorExpr); ok && sel.Sel.Name == "VarRefs" {
							if id, ok := n.Value.(*ast.Ident); ok {
								prov[id.Name] = 15
							}
						}
					}
					return true
				})
				var err error
				ast.Inspect(fd.Body, func(n ast.Node) bool {
					ix, ok := n.(*ast.IndexExpr)
					if !ok {
						return true
					}
					var table string
					if t, ok := tableOf(ix.X, fnFields, regFields); ok {
						table = t
					} else if sel, ok := ix.X.(*ast.SelectorExpr); ok && sel.Sel.Name == "vars" {
						if x, ok := sel.X.(*ast.Ident); ok && x.Name == "vm" {
							table = "Globals"
						}
					}
					if table == "" || table == "labelAddrs" {
						return true
					}
					where := rt.name + "/" + rt.pos(ix) + " `" + rt.src(ix) + "`"
					switch idx := ix.Index.(type) {
					case *ast.CallExpr:
						if id, ok := idx.Fun.(*ast.Ident); ok {
							switch id.Name {
							case "uint8":
								note(table, 8, where)
								return true
							case "decodeUint16":
								note(table, 16, where)
								return true
							case "decodeInt16":
								note(table, 15, where)
								return true
							}
						}
					case *ast.Ident:
						if w, ok := prov[idx.Name]; ok {
							note(table, w, where)
							return true
						}
					}
					err = fmt.Errorf("shape not recognised: index of a VM table %s", where)
					return false
				})
				if err != nil {
					return nil, nil, err
				}
			}
		}
	}
	return readers, widths, nil
}

func structFields(p *encPkg, typeName string) (map[string]bool, error) {
	for _, fname := range p.order {
		for _, d := range p.files[fname].Decls {
			gd, ok := d.(*ast.GenDecl)
			if !ok || gd.Tok != token.TYPE {
				continue
			}
			for _, s := range gd.Specs {
				ts := s.(*ast.TypeSpec)
				st, ok := ts.Type.(*ast.StructType)
				if !ok || ts.Name.Name != typeName {
					continue
				}
				out := map[string]bool{}
				for _, f := range st.Fields.List {
					if _, ok := f.Type.(*ast.ArrayType); ok {
						if at := f.Type.(*ast.ArrayType); at.Len == nil {
							for _, n := range f.Names {
								out[n.Name] = true
							}
						}
					}
				}
				return out, nil
			}
		}
	}
	return nil, fmt.Errorf("shape not recognised: struct %s.%s not found", p.name, typeName)
}

// enumCount counts the constants of a `const ( A T = iota; B; C … )` block of type typ.
func enumCount(p *encPkg, typ string) (int, error) {
	for _, fname := range p.order {
		for _, d := range p.files[fname].Decls {
			gd, ok := d.(*ast.GenDecl)
			if !ok || gd.Tok != token.CONST || len(gd.Specs) == 0 {
				continue
			}
			first := gd.Specs[0].(*ast.ValueSpec)
			id, ok := first.Type.(*ast.Ident)
			if !ok || id.Name != typ || len(first.Values) != 1 {
				continue
			}
			if v, ok := first.Values[0].(*ast.Ident); !ok || v.Name != "iota" {
				continue
			}
			n := 0
			for _, s := range gd.Specs {
				vs := s.(*ast.ValueSpec)
				if s != gd.Specs[0] && (vs.Type != nil || len(vs.Values) != 0) {
					return 0, fmt.Errorf("shape not recognised: const block of %s.%s is not a plain iota enumeration", p.name, typ)
				}
				n += len(vs.Names)
			}
			return n, nil
		}
	}
	return 0, fmt.Errorf("shape not recognised: no iota enumeration of type %s.%s", p.name, typ)
}

// ---------------------------------------------------------------------------------------------

func genEncoding(repo string) (string, error) {
	comp, err := encParse(filepath.Join(repo, "internal", "compiler"), "compiler")
	if err != nil {
		return "", err
	}
	rt, err := encParse(filepath.Join(repo, "internal", "runtime"), "runtime")
	if err != nil {
		return "", err
	}
	astp, err := encParse(filepath.Join(repo, "ast"), "ast")
	if err != nil {
		return "", err
	}
	pkgs := map[string]*encPkg{"compiler": comp, "runtime": rt, "ast": astp}

	var out strings.Builder
	out.WriteString("/-! Limit constants, operand encoders/decoders (as BitVec terms) and the limits table of the\nbytecode builder, regenerated from internal/compiler, internal/runtime and ast. Core Lean only. -/\nnamespace ScriggoV.Gen.Encoding\n\n")

	// ---- constants
	consts := map[string]*big.Int{}
	var constNames []string
	for _, fname := range comp.order {
		for _, d := range comp.files[fname].Decls {
			gd, ok := d.(*ast.GenDecl)
			if !ok || gd.Tok != token.CONST {
				continue
			}
			for _, s := range gd.Specs {
				vs := s.(*ast.ValueSpec)
				for i, n := range vs.Names {
					if !strings.HasPrefix(n.Name, "max") || !strings.HasSuffix(n.Name, "Count") {
						continue
					}
					if i >= len(vs.Values) {
						return "", fmt.Errorf("shape not recognised: constant %s has no value", n.Name)
					}
					v, ok := constValue(vs.Values[i], consts)
					if !ok {
						return "", fmt.Errorf("shape not recognised: value of constant %s: %s", n.Name, comp.src(vs.Values[i]))
					}
					consts[n.Name] = v
					constNames = append(constNames, n.Name)
				}
			}
		}
	}
	if _, ok := consts["maxRegistersCount"]; !ok {
		return "", fmt.Errorf("shape not recognised: constant maxRegistersCount not found")
	}
	out.WriteString("/-! ### limit constants (internal/compiler) -/\n")
	for _, n := range constNames {
		fmt.Fprintf(&out, "def %s : Nat := %s\n", n, consts[n])
	}
	out.WriteString("def limitConstants : List (String × Nat) := [")
	for i, n := range constNames {
		if i > 0 {
			out.WriteString(", ")
		}
		fmt.Fprintf(&out, "(%q, %s)", n, n)
	}
	out.WriteString("]\n\n")

	// ---- encoders / decoders
	var funcs []*encFunc
	translate := func(p *encPkg, ns string, names []string) error {
		tr := &encTr{pkgs: pkgs, cur: p, sigs: map[string]*encSig{}, ns: ns}
		for _, n := range names {
			d, ok := p.funcs[n]
			if !ok {
				return fmt.Errorf("shape not recognised: function %s.%s not found", p.name, n)
			}
			f, err := tr.function(d, ns+n)
			if err != nil {
				return err
			}
			tr.sigs[n] = f.sig
			funcs = append(funcs, f)
			fmt.Fprint(&out, f.leanDef(fmt.Sprintf("internal/%s/%s `%s`", p.name, f.pos, strings.TrimSpace(strings.SplitN(p.src(d.Type), "\n", 2)[0])+" "+n)))
			out.WriteString("\n")
		}
		return nil
	}
	// every encode…/decode… function of the two packages that works on integers
	pick := func(p *encPkg) []string {
		var names []string
		for _, fname := range p.order {
			for _, d := range p.files[fname].Decls {
				if fd, ok := d.(*ast.FuncDecl); ok && fd.Recv == nil && fd.Body != nil {
					n := fd.Name.Name
					if (strings.HasPrefix(n, "encode") || strings.HasPrefix(n, "decode")) && n != "decodeFieldName" {
						names = append(names, n)
					}
				}
			}
		}
		// callees first: a function may call only functions that come before it
		sort.SliceStable(names, func(i, j int) bool { return callDepth(p, names[i]) < callDepth(p, names[j]) })
		return names
	}
	out.WriteString("/-! ### operand encoders and decoders of the compiler (builder.go) -/\n")
	compNames := pick(comp)
	if err := translate(comp, "", compNames); err != nil {
		return "", err
	}
	out.WriteString("/-! ### the decoders of the VM (internal/runtime) -/\n")
	rtNames := pick(rt)
	if err := translate(rt, "VM.", rtNames); err != nil {
		return "", err
	}
	for _, must := range []string{"encodeInt16", "decodeInt16", "encodeUint16", "decodeUint16", "encodeUint24", "decodeUint24", "encodeValueIndex", "decodeValueIndex", "encodeRenderContext", "decodeRenderContext"} {
		if _, ok := comp.funcs[must]; !ok {
			return "", fmt.Errorf("shape not recognised: compiler.%s is gone", must)
		}
	}
	for _, must := range []string{"decodeInt16", "decodeUint16", "decodeUint24", "decodeValueIndex", "decodeRenderContext"} {
		if _, ok := rt.funcs[must]; !ok {
			return "", fmt.Errorf("shape not recognised: runtime.%s is gone", must)
		}
	}

	// ---- inline encodings: emitSetVar writes the variable index as B: int8(v >> 8), C: int8(v);
	// one-byte table indexes are written int8(r) and read uint8(x)
	{
		tr := &encTr{pkgs: pkgs, cur: comp, sigs: map[string]*encSig{}}
		d, ok := comp.funcs["functionBuilder.emitSetVar"]
		if !ok {
			return "", fmt.Errorf("shape not recognised: emitSetVar not found")
		}
		var lit *ast.CompositeLit
		ast.Inspect(d.Body, func(n ast.Node) bool {
			if cl, ok := n.(*ast.CompositeLit); ok && strings.HasSuffix(comp.src(cl.Type), "Instruction") {
				lit = cl
			}
			return true
		})
		if lit == nil {
			return "", fmt.Errorf("shape not recognised: emitSetVar builds no Instruction literal")
		}
		env := encEnv{"v": {t: encBasic["int"], term: "v"}}
		var bc [2]string
		for _, el := range lit.Elts {
			kv, ok := el.(*ast.KeyValueExpr)
			if !ok {
				return "", fmt.Errorf("shape not recognised: Instruction literal of emitSetVar")
			}
			k := comp.src(kv.Key)
			if k != "B" && k != "C" {
				continue
			}
			v, err := tr.expr(kv.Value, env)
			if err != nil {
				return "", err
			}
			if v.konst != nil || v.t != encBasic["int8"] {
				return "", fmt.Errorf("shape not recognised: operand %s of emitSetVar is not an int8", k)
			}
			bc[k[0]-'B'] = v.term
		}
		if bc[0] == "" || bc[1] == "" {
			return "", fmt.Errorf("shape not recognised: emitSetVar does not set B and C")
		}
		f := &encFunc{goName: "emitSetVar", sig: &encSig{lean: "encodeSetVar", params: []ity{encBasic["int"]}, pnames: []string{"v"}, results: []ity{encBasic["int8"], encBasic["int8"]}},
			body: "(" + bc[0] + ", " + bc[1] + ")"}
		fmt.Fprint(&out, f.leanDef("internal/compiler/"+comp.pos(lit)+" operands B, C of the SetVar instruction: `"+comp.src(lit)+"` (read back with decodeInt16(b, c))"))
		out.WriteString("\n")
		funcs = append(funcs, f)
	}

	// one-byte table indexes: every make…/add… function of the builder that returns an int8 ends
	// with `return int8(r)`, r an int; the VM indexes with `uint8(x)`, x an int8 operand
	{
		n := 0
		for name, d := range comp.funcs {
			if !strings.HasPrefix(name, "functionBuilder.make") && !strings.HasPrefix(name, "functionBuilder.add") {
				continue
			}
			if d.Type.Results == nil || len(d.Type.Results.List) != 1 || comp.src(d.Type.Results.List[0].Type) != "int8" {
				continue
			}
			last, ok := d.Body.List[len(d.Body.List)-1].(*ast.ReturnStmt)
			if !ok || len(last.Results) != 1 {
				return "", fmt.Errorf("shape not recognised: %s does not end with a return", name)
			}
			c, ok := last.Results[0].(*ast.CallExpr)
			if _, isId := c.Args[0].(*ast.Ident); !ok || comp.src(c.Fun) != "int8" || len(c.Args) != 1 || !isId {
				return "", fmt.Errorf("shape not recognised: %s ends with `%s`, not with return int8(r)", name, comp.src(last))
			}
			n++
		}
		if n == 0 {
			return "", fmt.Errorf("shape not recognised: no builder function returns a one-byte index")
		}
		tr := &encTr{pkgs: pkgs, cur: comp, sigs: map[string]*encSig{}}
		w, err := tr.expr(&ast.CallExpr{Fun: ast.NewIdent("int8"), Args: []ast.Expr{ast.NewIdent("r")}}, encEnv{"r": {t: encBasic["int"], term: "r"}})
		if err != nil {
			return "", err
		}
		rd, err := tr.expr(&ast.CallExpr{Fun: ast.NewIdent("int"), Args: []ast.Expr{&ast.CallExpr{Fun: ast.NewIdent("uint8"), Args: []ast.Expr{ast.NewIdent("x")}}}}, encEnv{"x": {t: encBasic["int8"], term: "x"}})
		if err != nil {
			return "", err
		}
		fw := &encFunc{sig: &encSig{lean: "encodeIndex8", params: []ity{encBasic["int"]}, pnames: []string{"r"}, results: []ity{encBasic["int8"]}}, body: w.term}
		fr := &encFunc{sig: &encSig{lean: "decodeIndex8", params: []ity{encBasic["int8"]}, pnames: []string{"x"}, results: []ity{encBasic["int"]}}, body: rd.term}
		fmt.Fprint(&out, fw.leanDef(fmt.Sprintf("`return int8(r)` of the %d make…/add… functions of builder.go that return a one-byte table index (r int)", n)))
		fmt.Fprint(&out, fr.leanDef("`T[uint8(x)]` of internal/runtime: a one-byte table index read from an int8 operand"))
		out.WriteString("\n")
		funcs = append(funcs, fw, fr)
	}

	// ---- the limits table
	fnFields, err := structFields(rt, "Function")
	if err != nil {
		return "", err
	}
	regFields, err := structFields(rt, "Registers")
	if err != nil {
		return "", err
	}
	rows, bodySites, err := appendSites(comp, fnFields, regFields, consts)
	if err != nil {
		return "", err
	}
	if bodySites == 0 {
		return "", fmt.Errorf("shape not recognised: nothing appends to Function.Body")
	}
	// width of the index part of a value index: decodeValueIndex masks with &^ (3 << 14)
	valueIndexBits, typeBits, err := valueIndexLayout(rt)
	if err != nil {
		return "", err
	}
	readers, widths, err := readerWidths([]*encPkg{rt, comp}, valueIndexBits)
	if err != nil {
		return "", err
	}
	for _, r := range rows {
		if w, ok := widths[r.table]; ok {
			r.width = w
			r.readers = readers[r.table]
		}
		switch r.width {
		case 8:
			r.codec = "u8"
		case 14:
			r.codec = "valueIndex"
		case 15:
			r.codec = "i16"
		case 16:
			r.codec = "u16"
		default:
			r.codec = "notOperand"
		}
	}
	for _, must := range []string{"Types", "Functions", "NativeFunctions", "FieldIndexes", "Text", "Values.Int", "Values.Float", "Values.String", "Values.General", "Globals"} {
		found := false
		for _, r := range rows {
			found = found || r.table == must
		}
		if !found {
			return "", fmt.Errorf("shape not recognised: no append to the table %s found in internal/compiler", must)
		}
		if _, ok := widths[must]; !ok {
			return "", fmt.Errorf("shape not recognised: internal/runtime never indexes the table %s", must)
		}
	}

	// registers: newRegister's guard and the signed result type
	{
		d, ok := comp.funcs["functionBuilder.newRegister"]
		if !ok {
			return "", fmt.Errorf("shape not recognised: newRegister not found")
		}
		res := d.Type.Results
		if res == nil || len(res.List) != 1 || comp.src(res.List[0].Type) != "int8" {
			return "", fmt.Errorf("shape not recognised: newRegister does not return int8")
		}
		var g *encGuard
		var numVar string
		for _, s := range d.Body.List {
			switch s := s.(type) {
			case *ast.AssignStmt:
				if len(s.Lhs) == 1 && len(s.Rhs) == 1 && strings.HasPrefix(comp.src(s.Rhs[0]), "fb.numRegs[") {
					numVar = comp.src(s.Lhs[0])
				}
			case *ast.IfStmt:
				msg, ok := limitPanic(s.Body.List[0])
				if !ok {
					continue
				}
				be, ok := s.Cond.(*ast.BinaryExpr)
				if !ok || be.Op != token.EQL || comp.src(be.X) != numVar || numVar == "" {
					return "", fmt.Errorf("shape not recognised: guard of newRegister `%s`", comp.src(s.Cond))
				}
				cv, ok := constValue(be.Y, consts)
				if !ok {
					return "", fmt.Errorf("shape not recognised: guard of newRegister `%s`", comp.src(s.Cond))
				}
				g = &encGuard{count: cv, src: comp.src(s.Cond), konst: comp.src(be.Y), message: msg}
			case *ast.ReturnStmt:
				if len(s.Results) != 1 || comp.src(s.Results[0]) != numVar+" + 1" {
					return "", fmt.Errorf("shape not recognised: newRegister returns `%s`", comp.src(s))
				}
			}
		}
		r := &encRow{table: "Registers", site: "functionBuilder.newRegister " + comp.pos(d), width: 7, reserved: 1, codec: "reg",
			readers: []string{"registers.go: an int8 operand r > 0 addresses register r, r < 0 the indirect register -r: 1 … 127 (7 bits, 0 reserved)"}}
		if g != nil {
			// num == C is refused, the register returned is num+1 ≤ C: at most C registers per type
			r.guard, r.guardSrc, r.konst, r.message = g.count, g.src, g.konst, g.message
		}
		rows = append(rows, r)
	}

	// closure variables: setFunctionVarRefs sizes VarRefs with make([]int16, len(closureVars)) and
	// numbers the variables int16(i); the closure's body addresses them like globals (vm.vars)
	{
		d, ok := comp.funcs["emitter.setFunctionVarRefs"]
		if !ok {
			return "", fmt.Errorf("shape not recognised: emitter.setFunctionVarRefs not found")
		}
		var g *encGuard
		var sized string // the expression whose length sizes VarRefs
		var mk ast.Node
		var guards []*ast.IfStmt
		for _, s := range d.Body.List {
			switch s := s.(type) {
			case *ast.IfStmt:
				if len(s.Body.List) > 0 {
					if _, ok := limitPanic(s.Body.List[0]); ok && sized == "" {
						guards = append(guards, s)
					}
				}
			case *ast.AssignStmt:
				if len(s.Lhs) == 1 && len(s.Rhs) == 1 && sized == "" {
					if c, ok := isCall(s.Rhs[0], "make"); ok && len(c.Args) == 2 && comp.src(c.Args[0]) == "[]int16" {
						if l, ok := isCall(c.Args[1], "len"); ok && len(l.Args) == 1 {
							sized, mk = comp.src(l.Args[0]), s
						}
					}
				}
			}
		}
		if sized == "" {
			return "", fmt.Errorf("shape not recognised: setFunctionVarRefs does not size VarRefs with make([]int16, len(x))")
		}
		for _, s := range guards {
			be, ok := s.Cond.(*ast.BinaryExpr)
			if !ok {
				continue
			}
			l, ok := isCall(be.X, "len")
			if !ok || len(l.Args) != 1 || comp.src(l.Args[0]) != sized {
				continue
			}
			cv, ok := constValue(be.Y, consts)
			if !ok {
				return "", fmt.Errorf("shape not recognised: guard of setFunctionVarRefs `%s`", comp.src(s.Cond))
			}
			msg, _ := limitPanic(s.Body.List[0])
			switch be.Op {
			case token.GTR:
				g = &encGuard{count: new(big.Int).Set(cv)}
			case token.GEQ:
				g = &encGuard{count: new(big.Int).Sub(cv, big.NewInt(1))}
			default:
				return "", fmt.Errorf("shape not recognised: guard of setFunctionVarRefs `%s` (only > and >= bound a length that does not grow one by one)", comp.src(s.Cond))
			}
			g.src, g.konst, g.message = comp.src(s.Cond), comp.src(be.Y), msg
		}
		w, ok := widths["Globals"]
		if !ok {
			return "", fmt.Errorf("shape not recognised: internal/runtime never indexes vm.vars")
		}
		r := &encRow{table: "ClosureVars", site: "emitter.setFunctionVarRefs " + comp.pos(mk), width: w, codec: "i16", readers: readers["Globals"]}
		if g != nil {
			r.guard, r.guardSrc, r.konst, r.message = g.count, g.src, g.konst, g.message
		}
		rows = append(rows, r)
		// any other place that appends to a function's VarRefs (varStore.packageVarRef since ccfaf1d) adds
		// a closure variable after setFunctionVarRefs has sized the table: a further site of the same
		// table, whose index travels in the same operands (theorem sites_agree: the same bound)
		for _, o := range rows {
			if o.table == "VarRefs" {
				o.table, o.width, o.codec, o.readers = "ClosureVars", w, "i16", readers["Globals"]
			}
		}
	}

	// select cases: guard in emitSelect, capacity = reflect.Select's 65536 minus the cases the VM adds
	{
		var g *encGuard
		var where string
		for _, fname := range comp.order {
			ast.Inspect(comp.files[fname], func(n ast.Node) bool {
				s, ok := n.(*ast.IfStmt)
				if !ok || len(s.Body.List) == 0 {
					return true
				}
				be, ok := s.Cond.(*ast.BinaryExpr)
				if !ok || comp.src(be.Y) != "maxSelectCasesCount" {
					return true
				}
				if c, ok := isCall(be.X, "len"); !ok || !strings.HasSuffix(comp.src(c.Args[0]), ".Cases") {
					return true
				}
				var msg string
				found := false
				for _, b := range s.Body.List {
					if m, ok := limitPanic(b); ok {
						msg, found = m, true
					}
				}
				if !found {
					return true
				}
				cv := consts["maxSelectCasesCount"]
				switch be.Op {
				case token.GTR:
					g = &encGuard{count: new(big.Int).Set(cv)}
				case token.GEQ:
					g = &encGuard{count: new(big.Int).Sub(cv, big.NewInt(1))}
				default:
					return true
				}
				g.src, g.konst, g.message = comp.src(s.Cond), "maxSelectCasesCount", msg
				where = comp.pos(s)
				return true
			})
		}
		// the VM: how many cases does OpSelect add to the compiled ones?
		extra := 0
		var selWhere string
		ast.Inspect(rt.files["run.go"], func(n ast.Node) bool {
			cc, ok := n.(*ast.CaseClause)
			if !ok || len(cc.List) != 1 || rt.src(cc.List[0]) != "OpSelect" {
				return true
			}
			selWhere = rt.pos(cc)
			for _, s := range cc.Body {
				ast.Inspect(s, func(m ast.Node) bool {
					if as, ok := m.(*ast.AssignStmt); ok && len(as.Lhs) == 1 && len(as.Rhs) == 1 && rt.src(as.Lhs[0]) == "vm.cases" {
						if c, ok := isCall(as.Rhs[0], "append"); ok {
							extra += len(c.Args) - 1
						}
					}
					return true
				})
			}
			return false
		})
		if selWhere == "" {
			return "", fmt.Errorf("shape not recognised: case OpSelect not found in run.go")
		}
		r := &encRow{table: "SelectCases", site: "emitter.emitSelect " + where, width: 16, reserved: extra, codec: "notOperand",
			readers: []string{fmt.Sprintf("%s OpSelect passes the compiled cases plus %d appended by the VM (the context's done case) to reflect.Select, which panics above 65536 = 2^16 cases (a constant of package reflect, validated by the harness)", selWhere, extra)}}
		if g != nil {
			r.guard, r.guardSrc, r.konst, r.message = g.count, g.src, g.konst, g.message
		}
		rows = append(rows, r)
	}

	// Body: guard in end(), jump targets are carried by encodeUint24 and read with decodeUint24
	{
		d, ok := comp.funcs["functionBuilder.end"]
		if !ok {
			return "", fmt.Errorf("shape not recognised: functionBuilder.end not found")
		}
		var g *encGuard
		for _, s := range d.Body.List {
			is, ok := s.(*ast.IfStmt)
			if !ok || len(is.Body.List) == 0 {
				continue
			}
			msg, ok := limitPanic(is.Body.List[0])
			if !ok {
				continue
			}
			be, ok := is.Cond.(*ast.BinaryExpr)
			if !ok || be.Op != token.GTR || !strings.Contains(comp.src(be.X), "len(fn.Body)") {
				return "", fmt.Errorf("shape not recognised: guard of end() `%s`", comp.src(is.Cond))
			}
			cv, ok := constValue(be.Y, consts)
			if !ok {
				return "", fmt.Errorf("shape not recognised: guard of end() `%s`", comp.src(is.Cond))
			}
			g = &encGuard{count: cv, src: comp.src(is.Cond), konst: comp.src(be.Y), message: msg}
		}
		n24 := 0
		ast.Inspect(rt.files["run.go"], func(n ast.Node) bool {
			if c, ok := isCall(nodeExpr(n), "Addr"); ok && len(c.Args) == 1 {
				if _, ok := isCall(c.Args[0], "decodeUint24"); ok {
					n24++
				}
			}
			return true
		})
		if n24 == 0 {
			return "", fmt.Errorf("shape not recognised: run.go no longer reads jump targets with Addr(decodeUint24(…))")
		}
		r := &encRow{table: "Body", site: fmt.Sprintf("%d emit… methods; guard in functionBuilder.end %s", bodySites, comp.pos(d)), width: 24, codec: "u24",
			readers: []string{fmt.Sprintf("run.go: %d jump targets read with Addr(decodeUint24(a, b, c)) (24 bits)", n24)}}
		if g != nil {
			r.guard, r.guardSrc, r.konst, r.message = g.count, g.src, g.konst, g.message
		}
		rows = append(rows, r)
	}

	// enumerations packed into operand bit fields
	type enum struct {
		name  string
		count int
		bits  int
		why   string
	}
	var enums []enum
	{
		n, err := enumCount(astp, "Context")
		if err != nil {
			return "", err
		}
		bits, err := contextBits(rt)
		if err != nil {
			return "", err
		}
		enums = append(enums, enum{"ast.Context", n, bits, "decodeRenderContext keeps c & mask"})
		n, err = enumCount(rt, "registerType")
		if err != nil {
			return "", err
		}
		enums = append(enums, enum{"registerType", n, typeBits, "decodeValueIndex keeps uint8(a) >> shift"})
		n, err = enumCount(rt, "Operation")
		if err != nil {
			return "", err
		}
		if rt.types["Operation"] != "int8" {
			return "", fmt.Errorf("shape not recognised: runtime.Operation is not an int8")
		}
		enums = append(enums, enum{"Operation", n, 7, "Operation is an int8 and -op marks a constant operand"})
	}

	sort.SliceStable(rows, func(i, j int) bool { return rows[i].table < rows[j].table })
	out.WriteString("/-! ### the limits table\n\nOne row per place where the compiler appends to a table of `runtime.Function` (or to the globals)\nthat the VM indexes with an instruction operand.\n`guard` = the largest number of entries the table can reach through that append: the bound of the\n`if len(T) == maxC { panic(newLimitExceededError(…)) }` found in front of the append (`none`: there\nis no such check). `width` = bits of the narrowest index expression of internal/runtime on that\ntable (`none`: no operand indexes it); `reserved` = operand values that do not address an entry;\n`guardBeforeLookup` = the function can return between the limit test and the append (the test runs\nbefore the lookup that finds an entry already in the table, so re-using an entry of a full table\nwould raise the limit error). -/\n")
	out.WriteString("/-- how the index travels in the instruction: u8 = `int8(r)` … `uint8(x)`; u16 = encodeUint16/decodeUint16;\ni16 = encodeInt16 (or the operands of SetVar)/decodeInt16; valueIndex = encodeValueIndex/decodeValueIndex;\nu24 = encodeUint24/decodeUint24; reg = a positive int8; notOperand = no operand carries an index -/\ninductive Codec | u8 | u16 | i16 | valueIndex | u24 | reg | notOperand\n  deriving Repr, DecidableEq\n\n")
	out.WriteString("structure Row where\n  table : String\n  site : String\n  guard : Option Nat\n  message : String\n  width : Option Nat\n  reserved : Nat\n  codec : Codec\n  guardBeforeLookup : Bool\n  deriving Repr, DecidableEq\n\n")
	out.WriteString("def limits : List Row := [\n")
	for i, r := range rows {
		guard := "none"
		if r.guard != nil {
			guard = fmt.Sprintf("(some %s)", r.guard)
		}
		width := "none"
		if r.width >= 0 {
			width = fmt.Sprintf("(some %d)", r.width)
		}
		fmt.Fprintf(&out, "  -- guard: %s; readers: %s\n", orNone(r.guardSrc), orNone(strings.Join(r.readers, "; ")))
		fmt.Fprintf(&out, "  { table := %q, site := %q, guard := %s, message := %q, width := %s, reserved := %d, codec := .%s, guardBeforeLookup := %v }", r.table, r.site, guard, r.message, width, r.reserved, r.codec, r.beforeLookup)
		if i < len(rows)-1 {
			out.WriteString(",")
		}
		out.WriteString("\n")
	}
	out.WriteString("]\n\n")
	out.WriteString("/-- enumerations packed into a bit field of an operand: (name, number of constants, bits of the field) -/\ndef enums : List (String × Nat × Nat) := [")
	for i, e := range enums {
		if i > 0 {
			out.WriteString(", ")
		}
		fmt.Fprintf(&out, "(%q, %d, %d)", e.name, e.count, e.bits)
	}
	out.WriteString("]\n")
	for _, e := range enums {
		fmt.Fprintf(&out, "-- %s: %d constants, %d bits (%s)\n", e.name, e.count, e.bits, e.why)
	}
	fmt.Fprintf(&out, "\n/-- bits of the index part / of the register-type part of a value index (from decodeValueIndex) -/\ndef valueIndexBits : Nat := %d\ndef valueTypeBits : Nat := %d\n\n", valueIndexBits, typeBits)

	// ---- immediates
	guardedFuncs := map[string]bool{}
	for _, r := range rows {
		if r.guard != nil && strings.Contains(r.site, ".") {
			f := strings.Fields(r.site)[0]
			guardedFuncs[f[strings.LastIndex(f, ".")+1:]] = true
		}
	}
	imms, err := immediates(comp, guardedFuncs)
	if err != nil {
		return "", err
	}
	out.WriteString(immediatesLean(imms))

	// ---- function-builder creation sites
	bsites, raising, nilSafe, err := builderSites(comp)
	if err != nil {
		return "", err
	}
	out.WriteString(builderSitesLean(bsites, raising, nilSafe))

	// ---- driver table
	out.WriteString("/-! ### untyped wrappers for the correspondence driver -/\n")
	for _, f := range funcs {
		out.WriteString(f.leanRun())
	}
	out.WriteString("\ndef runTable : List (String × (List Int → Option (List Int))) := [\n")
	for i, f := range funcs {
		sep := ","
		if i == len(funcs)-1 {
			sep = ""
		}
		fmt.Fprintf(&out, "  (%q, run_%s)%s\n", f.sig.lean, strings.ReplaceAll(f.sig.lean, ".", "_"), sep)
	}
	out.WriteString("]\n\nend ScriggoV.Gen.Encoding\n")
	return out.String(), nil
}

func orNone(s string) string {
	if s == "" {
		return "none"
	}
	return s
}

func nodeExpr(n ast.Node) ast.Expr {
	if e, ok := n.(ast.Expr); ok {
		return e
	}
	return nil
}

// callDepth orders functions so that callees are translated before callers.
func callDepth(p *encPkg, name string) int {
	d, ok := p.funcs[name]
	if !ok || d.Body == nil {
		return 0
	}
	depth := 0
	ast.Inspect(d.Body, func(n ast.Node) bool {
		if c, ok := n.(*ast.CallExpr); ok {
			if id, ok := c.Fun.(*ast.Ident); ok && id.Name != name {
				if (strings.HasPrefix(id.Name, "encode") || strings.HasPrefix(id.Name, "decode")) && p.funcs[id.Name] != nil {
					if k := callDepth(p, id.Name) + 1; k > depth {
						depth = k
					}
				}
			}
		}
		return true
	})
	return depth
}

// valueIndexLayout reads `return registerType(uint8(a) >> S), int(decodeUint16(a, b) &^ (M << S'))`
// of runtime.decodeValueIndex: bits of the index part and of the type part.
func valueIndexLayout(rt *encPkg) (indexBits, typeBits int, err error) {
	d, ok := rt.funcs["decodeValueIndex"]
	fail := func() (int, int, error) {
		return 0, 0, fmt.Errorf("shape not recognised: runtime.decodeValueIndex is not `return registerType(uint8(a) >> s), int(decodeUint16(a, b) &^ (m << s'))`")
	}
	if !ok || len(d.Body.List) != 1 {
		return fail()
	}
	ret, ok := d.Body.List[0].(*ast.ReturnStmt)
	if !ok || len(ret.Results) != 2 {
		return fail()
	}
	c0, ok := ret.Results[0].(*ast.CallExpr)
	if !ok || len(c0.Args) != 1 {
		return fail()
	}
	sh, ok := c0.Args[0].(*ast.BinaryExpr)
	if !ok || sh.Op != token.SHR || !strings.HasPrefix(rt.src(sh.X), "uint8(") {
		return fail()
	}
	s, ok := constValue(sh.Y, nil)
	if !ok {
		return fail()
	}
	c1, ok := ret.Results[1].(*ast.CallExpr)
	if !ok || len(c1.Args) != 1 {
		return fail()
	}
	an, ok := c1.Args[0].(*ast.BinaryExpr)
	if !ok || an.Op != token.AND_NOT || !strings.HasPrefix(rt.src(an.X), "decodeUint16(") {
		return fail()
	}
	m, ok := constValue(an.Y, nil)
	if !ok {
		return fail()
	}
	// the mask must clear exactly the bits [k, 16)
	for k := 0; k <= 16; k++ {
		want := new(big.Int).Sub(new(big.Int).Lsh(big.NewInt(1), 16), new(big.Int).Lsh(big.NewInt(1), uint(k)))
		if want.Cmp(m) == 0 {
			return k, 8 - int(s.Int64()), nil
		}
	}
	return fail()
}

// contextBits reads `ctx := ast.Context(c & mask)` of runtime.decodeRenderContext.
func contextBits(rt *encPkg) (int, error) {
	d, ok := rt.funcs["decodeRenderContext"]
	if ok {
		for _, s := range d.Body.List {
			as, ok := s.(*ast.AssignStmt)
			if !ok || len(as.Rhs) != 1 {
				continue
			}
			c, ok := as.Rhs[0].(*ast.CallExpr)
			if !ok || len(c.Args) != 1 || rt.src(c.Fun) != "ast.Context" {
				continue
			}
			be, ok := c.Args[0].(*ast.BinaryExpr)
			if !ok || be.Op != token.AND {
				continue
			}
			m, ok := constValue(be.Y, nil)
			if !ok {
				continue
			}
			for k := 0; k <= 8; k++ {
				if new(big.Int).Sub(new(big.Int).Lsh(big.NewInt(1), uint(k)), big.NewInt(1)).Cmp(m) == 0 {
					return k, nil
				}
			}
		}
	}
	return 0, fmt.Errorf("shape not recognised: runtime.decodeRenderContext does not start with ctx := ast.Context(c & (2^k-1))")
}
