package main

// Generator "ShowDispatch" (property C06, layer 3): regenerates from
// /repo/internal/runtime/renderer.go, for renderer.Show and every showIn* function,
//
//   - the context → showIn* table of renderer.Show's `switch ctx`;
//   - the ordered type-switch cases (`switch v := value.(type)`) with, for each, whether the
//     clause always returns or falls through to the code after the switch;
//   - the kind-switch cases (`switch v.Kind()`);
//   - every WRITE SITE: a call that hands bytes to the output writer — either directly
//     (`w.WriteString(x)`, `out.Write(x)`: sink RAW) or through an escaper (`htmlEscape(w, x)` …:
//     sink ESC name) or the Markdown converter (`env.conv`) or a recursive showIn* call — with the
//     ORIGIN of the written bytes: a literal, a struct field name (developer-controlled), a
//     formatted number/time, a type name, or the bytes of the shown VALUE (`string(v)`,
//     `v.String()`, `v.Error()`, `[]byte`, the result of toString on a string kind, …);
//   - every assignment to the locals `s` / `value` that later reach a write site;
//   - toString's kind → origin table;
//   - the ASCII part of showInTag's replacement condition.
//
// Nothing is decided here: Props/C06.lean evaluates "which raw sites can carry value bytes of an
// untrusted case" over these tables. Any call that mentions the output writer in a form not
// listed above is reported as "shape not recognised" (never guessed).
//
// All identifiers of this file are prefixed sd to stay clear of the other generators.

import (
	"bytes"
	"fmt"
	"go/ast"
	"go/parser"
	"go/printer"
	"go/token"
	"path/filepath"
	"strings"
)

func init() {
	generators = append(generators, generator{name: "ShowDispatch", run: genShowDispatch})
}

type sdGen struct {
	fset *token.FileSet
	file *ast.File
}

func (g *sdGen) src(n ast.Node) string {
	var b bytes.Buffer
	printer.Fprint(&b, g.fset, n)
	return b.String()
}

func (g *sdGen) line(n ast.Node) int { return g.fset.Position(n.Pos()).Line }

// origins, ordered by how much of the shown value they carry
const (
	sdLit = "lit" // string literal
	sdDev = "dev" // struct field name / json tag (developer-controlled)
	sdTyp = "typ" // a type name formatted into a fixed text
	sdNum = "num" // strconv / time formatting of a number, bool or time
	sdVal = "val" // bytes of the shown value
	sdErr = "err" // an error is returned, nothing is written
)

type sdSrc struct {
	kind   string // "direct", "toStr", "varS"
	origin string // for direct
}

func (s sdSrc) lean() string {
	switch s.kind {
	case "direct":
		return ".direct ." + s.origin
	case "toStr":
		return ".toStr"
	default:
		return ".varS"
	}
}

type sdPath struct {
	typeCase []string // nil = not inside the type switch on `value`
	kindCase []string // nil = not inside a kind switch
}

type sdSite struct {
	path sdPath
	src  sdSrc
	sink string // "raw", "esc:<name>", "conv", "rec:<fn>"
	line int
	text string
}

type sdAssign struct {
	path   sdPath
	target string // "s" or "value"
	src    sdSrc
	line   int
	text   string
}

type sdTypeCase struct {
	types []string
	falls bool
}

type sdFn struct {
	name      string
	typeCases []sdTypeCase
	hasType   bool
	kindCases [][]string
	hasKind   bool
	sites     []sdSite
	assigns   []sdAssign
}

var sdEscapers = map[string]bool{
	"htmlEscape": true, "htmlNoEntitiesEscape": true, "attributeEscape": true,
	"cssStringEscape": true, "jsStringEscape": true, "jsonStringEscape": true,
	"pathEscape": true, "queryEscape": true, "escapeBytes": true,
	"markdownEscape": true, "markdownCodeBlockEscape": true,
}

// the names a showIn* function uses for the output writer
var sdWriters = map[string]bool{"w": true, "out": true}

func sdIsIdent(e ast.Expr, name string) bool {
	id, ok := e.(*ast.Ident)
	return ok && id.Name == name
}

// classify gives the origin of an expression handed to a sink or assigned to s/value.
func (g *sdGen) classify(e ast.Expr) (sdSrc, error) {
	direct := func(o string) (sdSrc, error) { return sdSrc{kind: "direct", origin: o}, nil }
	switch x := e.(type) {
	case *ast.BasicLit:
		if x.Kind == token.STRING {
			return direct(sdLit)
		}
	case *ast.Ident:
		switch x.Name {
		case "s":
			return sdSrc{kind: "varS"}, nil
		case "name":
			return direct(sdDev)
		case "v", "b", "value":
			return direct(sdVal)
		}
	case *ast.ParenExpr:
		return g.classify(x.X)
	case *ast.UnaryExpr:
		if x.Op == token.AND {
			return g.classify(x.X)
		}
	case *ast.TypeAssertExpr:
		return direct(sdVal)
	case *ast.SelectorExpr:
		if g.src(x) == "keyPair.key" || g.src(x) == "keyPair.val" {
			return direct(sdVal)
		}
	case *ast.CallExpr:
		fun := g.src(x.Fun)
		switch {
		case fun == "string" || fun == "[]byte":
			return direct(sdVal)
		case fun == "toString":
			return sdSrc{kind: "toStr"}, nil
		case strings.HasPrefix(fun, "strconv.Format"):
			return direct(sdNum)
		case fun == "showTimeInJS" || fun == "v.Format":
			return direct(sdNum)
		case fun == "fmt.Sprintf":
			if len(x.Args) == 2 && g.src(x.Args[1]) == "t" {
				return direct(sdTyp)
			}
		case fun == "html.UnescapeString":
			return direct(sdVal)
		}
		if sel, ok := x.Fun.(*ast.SelectorExpr); ok {
			switch sel.Sel.Name {
			case "String", "Error", "Interface", "HTML", "CSS", "JS", "JSON", "Markdown", "Field", "Index", "Elem":
				return direct(sdVal)
			}
		}
	}
	return sdSrc{}, fmt.Errorf("shape not recognised: origin of `%s` (line %d)", g.src(e), g.line(e))
}

// mentionsWriter reports whether the call passes or uses the output writer.
func (g *sdGen) mentionsWriter(c *ast.CallExpr) bool {
	if sel, ok := c.Fun.(*ast.SelectorExpr); ok {
		if id, ok := sel.X.(*ast.Ident); ok && sdWriters[id.Name] {
			return true
		}
		if g.src(sel.X) == "r.out" {
			return true
		}
	}
	for _, a := range c.Args {
		if id, ok := a.(*ast.Ident); ok && sdWriters[id.Name] {
			return true
		}
		if g.src(a) == "r.out" || g.src(a) == "&b" {
			return true
		}
	}
	return false
}

func (g *sdGen) call(fn *sdFn, c *ast.CallExpr, path sdPath) error {
	fun := g.src(c.Fun)
	add := func(arg ast.Expr, sink string) error {
		src, err := g.classify(arg)
		if err != nil {
			return err
		}
		fn.sites = append(fn.sites, sdSite{path: path, src: src, sink: sink, line: g.line(c), text: g.src(c)})
		return nil
	}
	switch {
	case (fun == "w.WriteString" || fun == "w.Write" || fun == "out.Write" || fun == "out.WriteString") && len(c.Args) == 1:
		return add(c.Args[0], "raw")
	case sdEscapers[fun] && len(c.Args) >= 2 && (sdIsIdent(c.Args[0], "w") || sdIsIdent(c.Args[0], "out") || g.src(c.Args[0]) == "newStringWriter(out)"):
		sink := "esc:" + fun
		for _, extra := range c.Args[2:] {
			sink += "," + g.src(extra)
		}
		return add(c.Args[1], sink)
	case fun == "env.conv" && len(c.Args) == 2 && sdIsIdent(c.Args[1], "out"):
		return add(c.Args[0], "conv")
	case strings.HasPrefix(fun, "showIn") && len(c.Args) >= 3:
		sink := "rec:" + fun
		for _, extra := range c.Args[3:] {
			sink += "," + g.src(extra)
		}
		return add(c.Args[2], sink)
	case fun == "newStringWriter" || fun == "valueOf" || fun == "toString" || fun == "env.TypeOf":
		return nil
	}
	if g.mentionsWriter(c) {
		return fmt.Errorf("shape not recognised: %s: call `%s` (line %d) uses the output writer in an unknown way", fn.name, g.src(c), g.line(c))
	}
	return nil
}

// simple handles a non-compound statement: finds sink calls and assignments to s / value.
func (g *sdGen) simple(fn *sdFn, st ast.Node, path sdPath) error {
	var err error
	ast.Inspect(st, func(n ast.Node) bool {
		if err != nil {
			return false
		}
		switch x := n.(type) {
		case *ast.FuncLit:
			return false
		case *ast.CallExpr:
			if e := g.call(fn, x, path); e != nil {
				err = e
				return false
			}
		case *ast.AssignStmt:
			if len(x.Lhs) >= 1 && len(x.Rhs) == 1 {
				if id, ok := x.Lhs[0].(*ast.Ident); ok && id.Name == "escapeEntities" {
					// showInAttribute: `escapeEntities = true` marks the clauses whose `&` is escaped
					if x.Tok != token.ASSIGN || !sdIsIdent(x.Rhs[0], "true") {
						err = fmt.Errorf("shape not recognised: %s: `%s` (line %d)", fn.name, g.src(x), g.line(x))
						return false
					}
					fn.assigns = append(fn.assigns, sdAssign{path: path, target: id.Name, src: sdSrc{kind: "direct", origin: sdLit}, line: g.line(x), text: g.src(x)})
				}
				if id, ok := x.Lhs[0].(*ast.Ident); ok && (id.Name == "s" || id.Name == "value") {
					if x.Tok != token.ASSIGN && x.Tok != token.DEFINE {
						err = fmt.Errorf("shape not recognised: %s: `%s` (line %d)", fn.name, g.src(x), g.line(x))
						return false
					}
					src, e := g.classify(x.Rhs[0])
					if e != nil {
						err = e
						return false
					}
					fn.assigns = append(fn.assigns, sdAssign{path: path, target: id.Name, src: src, line: g.line(x), text: g.src(x)})
				}
			}
		}
		return true
	})
	return err
}

func sdAlwaysReturns(body []ast.Stmt) bool {
	if len(body) == 0 {
		return false
	}
	_, ok := body[len(body)-1].(*ast.ReturnStmt)
	return ok
}

func (g *sdGen) typeName(e ast.Expr) string { return g.src(e) }

func (g *sdGen) walk(fn *sdFn, stmts []ast.Stmt, path sdPath) error {
	for _, st := range stmts {
		switch x := st.(type) {
		case *ast.BlockStmt:
			if err := g.walk(fn, x.List, path); err != nil {
				return err
			}
		case *ast.IfStmt:
			if x.Init != nil {
				if err := g.simple(fn, x.Init, path); err != nil {
					return err
				}
			}
			if err := g.simple(fn, x.Cond, path); err != nil {
				return err
			}
			if err := g.walk(fn, x.Body.List, path); err != nil {
				return err
			}
			if x.Else != nil {
				if err := g.walk(fn, []ast.Stmt{x.Else}, path); err != nil {
					return err
				}
			}
		case *ast.ForStmt:
			for _, n := range []ast.Node{x.Init, x.Cond, x.Post} {
				if n != nil && !isNilNode(n) {
					if err := g.simple(fn, n, path); err != nil {
						return err
					}
				}
			}
			if err := g.walk(fn, x.Body.List, path); err != nil {
				return err
			}
		case *ast.RangeStmt:
			if err := g.simple(fn, x.X, path); err != nil {
				return err
			}
			if err := g.walk(fn, x.Body.List, path); err != nil {
				return err
			}
		case *ast.TypeSwitchStmt:
			onValue := false
			switch a := x.Assign.(type) {
			case *ast.AssignStmt:
				if ta, ok := a.Rhs[0].(*ast.TypeAssertExpr); ok && sdIsIdent(ta.X, "value") {
					onValue = true
				}
			case *ast.ExprStmt:
				if ta, ok := a.X.(*ast.TypeAssertExpr); ok && sdIsIdent(ta.X, "value") {
					onValue = true
				}
			}
			if onValue && (fn.hasType || path.typeCase != nil || path.kindCase != nil) {
				return fmt.Errorf("shape not recognised: %s: second or nested type switch on value (line %d)", fn.name, g.line(x))
			}
			for _, c := range x.Body.List {
				cc := c.(*ast.CaseClause)
				p := path
				if onValue {
					var names []string
					if cc.List == nil {
						names = []string{"default"}
					}
					for _, e := range cc.List {
						names = append(names, g.typeName(e))
					}
					p.typeCase = names
					fn.typeCases = append(fn.typeCases, sdTypeCase{types: names, falls: !sdAlwaysReturns(cc.Body)})
				}
				if err := g.walk(fn, cc.Body, p); err != nil {
					return err
				}
			}
			if onValue {
				fn.hasType = true
			}
		case *ast.SwitchStmt:
			onKind := x.Tag != nil && g.src(x.Tag) == "v.Kind()"
			if x.Init != nil {
				if err := g.simple(fn, x.Init, path); err != nil {
					return err
				}
			}
			if onKind && (fn.hasKind || path.kindCase != nil) {
				return fmt.Errorf("shape not recognised: %s: second or nested kind switch (line %d)", fn.name, g.line(x))
			}
			var carry []string
			for _, c := range x.Body.List {
				cc := c.(*ast.CaseClause)
				p := path
				if onKind {
					var names []string
					if cc.List == nil {
						names = []string{"default"}
					}
					for _, e := range cc.List {
						s := g.src(e)
						if !strings.HasPrefix(s, "reflect.") {
							return fmt.Errorf("shape not recognised: %s: kind case `%s`", fn.name, s)
						}
						names = append(names, strings.TrimPrefix(s, "reflect."))
					}
					p.kindCase = append(append([]string{}, names...), carry...)
					fn.kindCases = append(fn.kindCases, names)
					carry = nil
					for _, b := range cc.Body {
						if br, ok := b.(*ast.BranchStmt); ok && br.Tok == token.FALLTHROUGH {
							// `case reflect.Slice: … fallthrough`: the sites of the next clause are reached
							// by these kinds too
							carry = p.kindCase
						}
					}
				} else {
					for _, e := range cc.List {
						if err := g.simple(fn, e, path); err != nil {
							return err
						}
					}
				}
				if err := g.walk(fn, cc.Body, p); err != nil {
					return err
				}
			}
			if onKind {
				fn.hasKind = true
			}
		case *ast.BranchStmt, *ast.EmptyStmt, *ast.IncDecStmt:
		case *ast.DeclStmt, *ast.AssignStmt, *ast.ExprStmt, *ast.ReturnStmt:
			if err := g.simple(fn, x, path); err != nil {
				return err
			}
		case *ast.LabeledStmt:
			if err := g.walk(fn, []ast.Stmt{x.Stmt}, path); err != nil {
				return err
			}
		default:
			return fmt.Errorf("shape not recognised: %s: statement %T (line %d)", fn.name, st, g.line(st))
		}
	}
	return nil
}

func isNilNode(n ast.Node) bool {
	switch x := n.(type) {
	case ast.Stmt:
		return x == nil
	case ast.Expr:
		return x == nil
	}
	return false
}

func sdLeanStrList(ss []string) string {
	q := make([]string, len(ss))
	for i, s := range ss {
		q[i] = fmt.Sprintf("%q", s)
	}
	return "[" + strings.Join(q, ", ") + "]"
}

func sdLeanOptList(ss []string) string {
	if ss == nil {
		return "none"
	}
	return "some " + sdLeanStrList(ss)
}

func sdLeanSink(s string) string {
	switch {
	case s == "raw":
		return ".raw"
	case s == "conv":
		return ".conv"
	case strings.HasPrefix(s, "esc:"):
		return fmt.Sprintf(".esc %q", strings.TrimPrefix(s, "esc:"))
	case strings.HasPrefix(s, "rec:"):
		return fmt.Sprintf(".recur %q", strings.TrimPrefix(s, "rec:"))
	}
	return ".raw"
}

var sdAllKinds = []string{"Invalid", "Bool", "Int", "Int8", "Int16", "Int32", "Int64", "Uint", "Uint8", "Uint16",
	"Uint32", "Uint64", "Uintptr", "Float32", "Float64", "Complex64", "Complex128", "Array", "Chan", "Func",
	"Interface", "Map", "Pointer", "Slice", "String", "Struct", "UnsafePointer"}

// toStringTable: for each clause of toString's `switch v.Kind()`, the origin of what is returned.
func (g *sdGen) toStringTable(fd *ast.FuncDecl) ([][2]string, error) {
	var sw *ast.SwitchStmt
	for _, st := range fd.Body.List {
		if s, ok := st.(*ast.SwitchStmt); ok && s.Tag != nil && g.src(s.Tag) == "v.Kind()" {
			sw = s
		}
	}
	if sw == nil {
		return nil, fmt.Errorf("shape not recognised: toString: no switch v.Kind()")
	}
	rank := map[string]int{sdLit: 0, sdDev: 1, sdTyp: 2, sdNum: 3, sdVal: 4}
	var rows [][2]string
	for _, c := range sw.Body.List {
		cc := c.(*ast.CaseClause)
		// origin of the local s inside this clause
		sOrigin := ""
		join := func(cur, o string) string {
			if cur == "" || rank[o] > rank[cur] {
				return o
			}
			return cur
		}
		var err error
		origin := ""
		ast.Inspect(&ast.BlockStmt{List: cc.Body}, func(n ast.Node) bool {
			if err != nil {
				return false
			}
			switch x := n.(type) {
			case *ast.AssignStmt:
				if len(x.Lhs) == 1 && sdIsIdent(x.Lhs[0], "s") && len(x.Rhs) == 1 {
					rhs := x.Rhs[0]
					if be, ok := rhs.(*ast.BinaryExpr); ok && be.Op == token.ADD {
						for _, side := range []ast.Expr{be.X, be.Y} {
							src, e := g.classify(side)
							if e != nil {
								err = e
								return false
							}
							if src.kind == "direct" {
								sOrigin = join(sOrigin, src.origin)
							}
						}
						return true
					}
					src, e := g.classify(rhs)
					if e != nil {
						err = e
						return false
					}
					if src.kind == "direct" {
						sOrigin = join(sOrigin, src.origin)
					}
				}
			case *ast.ReturnStmt:
				if len(x.Results) != 2 {
					err = fmt.Errorf("shape not recognised: toString: return with %d results", len(x.Results))
					return false
				}
				if !sdIsIdent(x.Results[1], "nil") {
					if origin == "" {
						origin = sdErr
					}
					return true
				}
				var o string
				if sdIsIdent(x.Results[0], "s") {
					o = sOrigin
					if o == "" {
						o = sdLit
					}
				} else {
					src, e := g.classify(x.Results[0])
					if e != nil {
						err = e
						return false
					}
					if src.kind != "direct" {
						err = fmt.Errorf("shape not recognised: toString: return `%s`", g.src(x.Results[0]))
						return false
					}
					o = src.origin
				}
				if origin == sdErr {
					origin = ""
				}
				origin = join(origin, o)
			}
			return true
		})
		if err != nil {
			return nil, err
		}
		if origin == "" {
			return nil, fmt.Errorf("shape not recognised: toString: clause without return (line %d)", g.line(cc))
		}
		if cc.List == nil {
			rows = append(rows, [2]string{"default", origin})
		}
		for _, e := range cc.List {
			rows = append(rows, [2]string{strings.TrimPrefix(g.src(e), "reflect."), origin})
		}
	}
	return rows, nil
}

// showSwitch: the `switch ctx` of renderer.Show.
func (g *sdGen) showSwitch(fd *ast.FuncDecl) ([][3]string, bool, error) {
	var rows [][3]string
	urlFirst := false
	seenSwitch := false
	for _, st := range fd.Body.List {
		switch x := st.(type) {
		case *ast.IfStmt:
			if g.src(x.Cond) == "inURL" && len(x.Body.List) == 1 && g.src(x.Body.List[0]) == "return r.showInURL(env, v, ctx)" && !seenSwitch {
				urlFirst = true
			}
		case *ast.SwitchStmt:
			if x.Tag == nil || g.src(x.Tag) != "ctx" {
				continue
			}
			seenSwitch = true
			for _, c := range x.Body.List {
				cc := c.(*ast.CaseClause)
				if cc.List == nil {
					if len(cc.Body) != 1 || !strings.HasPrefix(g.src(cc.Body[0]), "panic(") {
						return nil, false, fmt.Errorf("shape not recognised: Show: default clause")
					}
					continue
				}
				if len(cc.Body) != 1 {
					return nil, false, fmt.Errorf("shape not recognised: Show: clause body (line %d)", g.line(cc))
				}
				as, ok := cc.Body[0].(*ast.AssignStmt)
				if !ok || len(as.Rhs) != 1 {
					return nil, false, fmt.Errorf("shape not recognised: Show: clause body (line %d)", g.line(cc))
				}
				call, ok := as.Rhs[0].(*ast.CallExpr)
				if !ok || len(call.Args) < 3 || g.src(call.Args[0]) != "env" || g.src(call.Args[1]) != "r.out" || g.src(call.Args[2]) != "v" {
					return nil, false, fmt.Errorf("shape not recognised: Show: call `%s`", g.src(as.Rhs[0]))
				}
				extra := ""
				if len(call.Args) == 4 {
					extra = g.src(call.Args[3])
				} else if len(call.Args) > 4 {
					return nil, false, fmt.Errorf("shape not recognised: Show: call `%s`", g.src(call))
				}
				for _, e := range cc.List {
					rows = append(rows, [3]string{strings.TrimPrefix(g.src(e), "ast.Context"), g.src(call.Fun), extra})
				}
			}
		}
	}
	if !seenSwitch {
		return nil, false, fmt.Errorf("shape not recognised: Show: no switch ctx")
	}
	return rows, urlFirst, nil
}

// tagCondition translates the replacement condition of showInTag's rune loop. The two
// disjuncts that are not byte comparisons (`c == utf8.RuneError && j == i+1`,
// `unicode.Is(unicode.Noncharacter_Code_Point, c)`) are false for every ASCII code point and
// are left out; any other unknown disjunct is an error.
func (g *sdGen) tagCondition(fd *ast.FuncDecl) (string, error) {
	var cond ast.Expr
	ast.Inspect(fd.Body, func(n ast.Node) bool {
		if rs, ok := n.(*ast.RangeStmt); ok && g.src(rs.X) == "s" {
			for _, st := range rs.Body.List {
				if is, ok := st.(*ast.IfStmt); ok && cond == nil && strings.Contains(g.src(is.Body), "unicode.ReplacementChar") {
					cond = is.Cond
				}
			}
		}
		return true
	})
	if cond == nil {
		return "", fmt.Errorf("shape not recognised: showInTag: replacement condition not found")
	}
	var disj []ast.Expr
	var flat func(e ast.Expr)
	flat = func(e ast.Expr) {
		if p, ok := e.(*ast.ParenExpr); ok {
			if be, ok := p.X.(*ast.BinaryExpr); ok && be.Op == token.LOR {
				flat(p.X)
				return
			}
		}
		if be, ok := e.(*ast.BinaryExpr); ok && be.Op == token.LOR {
			flat(be.X)
			flat(be.Y)
			return
		}
		disj = append(disj, e)
	}
	flat(cond)
	num := func(e ast.Expr) (string, bool) {
		bl, ok := e.(*ast.BasicLit)
		if !ok {
			return "", false
		}
		switch bl.Kind {
		case token.INT:
			var v int
			if _, err := fmt.Sscanf(bl.Value, "0x%X", &v); err == nil {
				return fmt.Sprint(v), true
			}
			if _, err := fmt.Sscanf(bl.Value, "%d", &v); err == nil {
				return fmt.Sprint(v), true
			}
		case token.CHAR:
			s := bl.Value
			if len(s) == 3 {
				return fmt.Sprint(int(s[1])), true
			}
			if s == `'\''` {
				return "39", true
			}
		}
		return "", false
	}
	var cmp func(e ast.Expr) (string, bool)
	cmp = func(e ast.Expr) (string, bool) {
		be, ok := e.(*ast.BinaryExpr)
		if !ok {
			return "", false
		}
		if be.Op == token.LAND {
			a, ok1 := cmp(be.X)
			b, ok2 := cmp(be.Y)
			if ok1 && ok2 {
				return "(" + a + " && " + b + ")", true
			}
			return "", false
		}
		op := map[token.Token]string{token.EQL: "==", token.LEQ: "≤", token.GEQ: "≥", token.LSS: "<", token.GTR: ">"}[be.Op]
		if op == "" {
			return "", false
		}
		if sdIsIdent(be.X, "c") {
			if n, ok := num(be.Y); ok {
				if op == "==" {
					return "(c == " + n + ")", true
				}
				return "decide (c " + op + " " + n + ")", true
			}
		}
		if sdIsIdent(be.Y, "c") {
			if n, ok := num(be.X); ok {
				if op == "==" {
					return "(" + n + " == c)", true
				}
				return "decide (" + n + " " + op + " c)", true
			}
		}
		return "", false
	}
	var parts []string
	skipped := 0
	for _, d := range disj {
		s := g.src(d)
		if s == "(c == utf8.RuneError && j == i+1)" || s == "unicode.Is(unicode.Noncharacter_Code_Point, c)" {
			skipped++
			continue
		}
		t, ok := cmp(d)
		if !ok {
			return "", fmt.Errorf("shape not recognised: showInTag: disjunct `%s`", s)
		}
		parts = append(parts, t)
	}
	if skipped != 2 {
		return "", fmt.Errorf("shape not recognised: showInTag: expected the RuneError and Noncharacter disjuncts")
	}
	return strings.Join(parts, " ||\n    "), nil
}

func genShowDispatch(repo string) (string, error) {
	g := &sdGen{fset: token.NewFileSet()}
	path := filepath.Join(repo, "internal", "runtime", "renderer.go")
	f, err := parser.ParseFile(g.fset, path, nil, parser.ParseComments)
	if err != nil {
		return "", err
	}
	g.file = f
	var fns []*sdFn
	var toStr [][2]string
	var show [][3]string
	urlFirst := false
	tagCond := ""
	for _, d := range f.Decls {
		fd, ok := d.(*ast.FuncDecl)
		if !ok || fd.Body == nil {
			continue
		}
		name := fd.Name.Name
		switch {
		case name == "toString" && fd.Recv == nil:
			if toStr, err = g.toStringTable(fd); err != nil {
				return "", err
			}
		case name == "Show" && fd.Recv != nil:
			if show, urlFirst, err = g.showSwitch(fd); err != nil {
				return "", err
			}
		case strings.HasPrefix(name, "showIn"):
			fn := &sdFn{name: name}
			if err := g.walk(fn, fd.Body.List, sdPath{}); err != nil {
				return "", err
			}
			if len(fn.sites) == 0 {
				return "", fmt.Errorf("shape not recognised: %s writes nothing", name)
			}
			fns = append(fns, fn)
			if name == "showInTag" {
				if tagCond, err = g.tagCondition(fd); err != nil {
					return "", err
				}
			}
		}
	}
	if toStr == nil || show == nil || tagCond == "" || len(fns) < 12 {
		return "", fmt.Errorf("shape not recognised: renderer.go: toString / Show / showInTag / the showIn* functions not all found (%d)", len(fns))
	}
	if !urlFirst {
		return "", fmt.Errorf("shape not recognised: Show: `if inURL { return r.showInURL(env, v, ctx) }` does not precede the switch")
	}

	var b strings.Builder
	b.WriteString(`/-! Show dispatch of internal/runtime/renderer.go: for renderer.Show and every showIn* function
the type-switch / kind-switch cases in source order and every site that hands bytes to the
output writer, with the origin of the bytes and whether they pass through an escaper. -/
namespace ScriggoV.Gen.ShowDispatch

/-- where written bytes come from -/
inductive Origin
  | lit   -- a string literal of renderer.go
  | dev   -- a struct field name / json tag
  | typ   -- a type name inside a fixed text
  | num   -- strconv / time formatting of a number, bool or time
  | val   -- bytes of the shown value
  | err   -- nothing: an error is returned
  deriving DecidableEq, Repr

inductive Src
  | direct (o : Origin)
  | toStr               -- the result of toString(env, value) for the kinds that reach the site
  | varS                -- the local ` + "`s`" + `: whatever was assigned to it on the way
  deriving DecidableEq, Repr

inductive Sink
  | raw                   -- w.WriteString(x) / out.Write(x)
  | esc (name : String)   -- an escaper of escapers.go (name, extra arguments)
  | conv                  -- the embedder's Markdown converter
  | recur (fn : String)   -- recursive showIn* call
  deriving DecidableEq, Repr

/-- one call that hands bytes to the output; ` + "`typeCase`/`kindCase`" + ` = the clause it is in
(` + "`none`" + ` = after / outside that switch) -/
structure Site where
  typeCase : Option (List String)
  kindCase : Option (List String)
  src : Src
  sink : Sink
  deriving DecidableEq, Repr

/-- an assignment to the local ` + "`s`" + ` or ` + "`value`" + ` -/
structure Assign where
  target : String
  typeCase : Option (List String)
  kindCase : Option (List String)
  src : Src
  deriving DecidableEq, Repr

structure Fn where
  name : String
  /-- clauses of ` + "`switch v := value.(type)`" + ` in source order; the flag says the clause can fall
  through to the code after the switch (it does not end in ` + "`return`" + `) -/
  typeCases : List (List String × Bool)
  /-- clauses of ` + "`switch v.Kind()`" + ` in source order -/
  kindCases : List (List String)
  assigns : List Assign
  sites : List Site
  deriving Repr

/-- reflect.Kind -/
def allKinds : List String := ` + sdLeanStrList(sdAllKinds) + `

`)
	b.WriteString("/-- toString: kind → origin of the returned string (`default` = the remaining kinds) -/\n")
	b.WriteString("def toStringTable : List (String × Origin) := [\n")
	for i, r := range toStr {
		sep := ","
		if i == len(toStr)-1 {
			sep = ""
		}
		fmt.Fprintf(&b, "  (%q, .%s)%s\n", r[0], r[1], sep)
	}
	b.WriteString("]\n\n")
	b.WriteString("/-- renderer.Show: `if inURL { return r.showInURL(…) }` precedes the switch -/\n")
	b.WriteString("def showURLFirst : Bool := true\n\n")
	b.WriteString("/-- renderer.Show's `switch ctx`: (context, callee, extra argument) -/\n")
	b.WriteString("def showSwitch : List (String × String × String) := [\n")
	for i, r := range show {
		sep := ","
		if i == len(show)-1 {
			sep = ""
		}
		fmt.Fprintf(&b, "  (%q, %q, %q)%s\n", r[0], r[1], r[2], sep)
	}
	b.WriteString("]\n\n")
	for _, fn := range fns {
		fmt.Fprintf(&b, "def %s : Fn where\n  name := %q\n", fn.name, fn.name)
		b.WriteString("  typeCases := [")
		for i, tc := range fn.typeCases {
			if i > 0 {
				b.WriteString(", ")
			}
			fmt.Fprintf(&b, "(%s, %v)", sdLeanStrList(tc.types), tc.falls)
		}
		b.WriteString("]\n  kindCases := [")
		for i, kc := range fn.kindCases {
			if i > 0 {
				b.WriteString(", ")
			}
			b.WriteString(sdLeanStrList(kc))
		}
		b.WriteString("]\n  assigns := [")
		for i, a := range fn.assigns {
			if i > 0 {
				b.WriteString(",")
			}
			fmt.Fprintf(&b, "\n    -- line %d: %s\n    { target := %q, typeCase := %s, kindCase := %s, src := %s }", a.line,
				strings.ReplaceAll(a.text, "\n", " "), a.target, sdLeanOptList(a.path.typeCase), sdLeanOptList(a.path.kindCase), a.src.lean())
		}
		b.WriteString("]\n  sites := [")
		for i, s := range fn.sites {
			if i > 0 {
				b.WriteString(",")
			}
			fmt.Fprintf(&b, "\n    -- line %d: %s\n    { typeCase := %s, kindCase := %s, src := %s, sink := %s }", s.line,
				strings.ReplaceAll(s.text, "\n", " "), sdLeanOptList(s.path.typeCase), sdLeanOptList(s.path.kindCase), s.src.lean(), sdLeanSink(s.sink))
		}
		b.WriteString("]\n\n")
	}
	b.WriteString("def fns : List Fn := [")
	for i, fn := range fns {
		if i > 0 {
			b.WriteString(", ")
		}
		b.WriteString(fn.name)
	}
	b.WriteString("]\n\n")
	b.WriteString("/-- showInTag: the code point `c` is replaced by U+FFFD — the comparisons of the condition\n(the `utf8.RuneError` and `unicode.Noncharacter_Code_Point` disjuncts, false for ASCII, are omitted) -/\n")
	b.WriteString("def tagReplaced (c : Nat) : Bool :=\n    " + tagCond + "\n\n")
	b.WriteString("end ScriggoV.Gen.ShowDispatch\n")
	return b.String(), nil
}
