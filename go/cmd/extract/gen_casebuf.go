package main

// Generator "CaseBuf" (property C14): what the VM does to its reusable reflect.SelectCase buffer
// `vm.cases`.
//
// With a context whose Done channel is not nil every blocking channel operation of the VM
// (OpReceive, OpSend, the channel case of OpRange, OpSelect) goes through reflect.Select over
// `vm.cases`: the operation appends its own cases and the Done case to the buffer, selects, and
// must leave the buffer empty on every way out — a case left behind is selected again by the next
// channel operation of the goroutine.
//
// For each of those clauses of (*VM).run, for OpCase (which pushes the cases of a select
// statement) and for (*VM).Reset this generator emits the control-flow skeleton of the clause as a
// tree (`S`): only the statements that change the length of vm.cases, call reflect.Select on it,
// run the body of a range loop, or leave the clause are kept, under the if/for/switch structure
// they are in. The abstract execution of these trees is in Model/CaseBuf.lean.
//
// `recoverHandler` is what the deferred function of runRecoverable does to the buffer when a panic
// leaves run (the shape of runRecoverable is pinned: one deferred literal, `if panicking { msg :=
// recover(); … }`, the flag set before and cleared after the run).
//
// `casesWriters` lists every place of the package where vm.cases is assigned (function / clause):
// nothing else may touch the buffer.
//
// Anything not of the shapes below is "shape not recognised".

import (
	"fmt"
	"go/ast"
	"go/parser"
	"go/token"
	"os"
	"path/filepath"
	"sort"
	"strings"
)

func init() {
	generators = append(generators, generator{name: "CaseBuf", run: genCaseBuf})
}

type cbConv struct {
	fset *token.FileSet
	err  error
}

func (c *cbConv) fail(format string, a ...any) {
	if c.err == nil {
		c.err = fmt.Errorf("shape not recognised: "+format, a...)
	}
}

// cbReads are the ways vm.cases may be read without changing its length.
var cbReads = []string{"reflect.Select(vm.cases)", "append(vm.cases,", "len(vm.cases)", "cap(vm.cases)", "range vm.cases", "vm.cases[:0]", "vm.cases[:i+1]", "vm.cases = "}

// leftover says whether text mentions vm.cases in a way that is not one of the recognised ones
// (element accesses `vm.cases[e]` are reads/writes of elements: the length stays).
func cbLeftover(text string) bool {
	for _, r := range cbReads {
		text = strings.ReplaceAll(text, r, "")
	}
	for {
		i := strings.Index(text, "vm.cases")
		if i < 0 {
			return false
		}
		rest := text[i+len("vm.cases"):]
		if !strings.HasPrefix(rest, "[") || strings.HasPrefix(rest, "[:") {
			return true
		}
		text = rest
	}
}

// simple converts a statement without nested blocks.
func (c *cbConv) simple(n ast.Node) []string {
	t := swText(c.fset, n)
	if strings.Contains(t, "func(") || strings.Contains(t, "func (") {
		if strings.Contains(t, "vm.cases") {
			c.fail("vm.cases inside a function literal: %s", swHead(t))
		}
		return nil
	}
	var out []string
	if as, ok := n.(*ast.AssignStmt); ok {
		for i, l := range as.Lhs {
			if swText(c.fset, l) != "vm.cases" {
				continue
			}
			if len(as.Lhs) != len(as.Rhs) || as.Tok != token.ASSIGN {
				c.fail("assignment to vm.cases: %s", swHead(t))
				return nil
			}
			r := swText(c.fset, as.Rhs[i])
			switch {
			case r == "vm.cases[:0]":
				out = append(out, ".reset")
			case r == "vm.cases[:i+1]":
				out = append(out, ".app 1") // i := len(vm.cases) is checked by the caller
			default:
				call, ok := as.Rhs[i].(*ast.CallExpr)
				if !ok || swText(c.fset, call.Fun) != "append" || len(call.Args) < 2 || swText(c.fset, call.Args[0]) != "vm.cases" || call.Ellipsis.IsValid() {
					c.fail("assignment to vm.cases: %s", swHead(t))
					return nil
				}
				for _, a := range call.Args[1:] {
					if strings.Contains(swText(c.fset, a), "vm.cases") {
						c.fail("assignment to vm.cases: %s", swHead(t))
					}
				}
				out = append(out, fmt.Sprintf(".app %d", len(call.Args)-1))
			}
		}
	}
	if strings.Contains(t, "reflect.Select(") {
		if strings.Count(t, "reflect.Select(") != 1 || !strings.Contains(t, "reflect.Select(vm.cases)") || len(out) > 0 {
			c.fail("reflect.Select: %s", swHead(t))
		}
		out = append(out, ".sel")
	}
	if strings.Contains(t, "vm.run()") {
		if len(out) > 0 || strings.Count(t, "vm.run()") != 1 {
			c.fail("vm.run(): %s", swHead(t))
		}
		out = append(out, ".body")
	}
	if es, ok := n.(*ast.ExprStmt); ok {
		if call, ok := es.X.(*ast.CallExpr); ok && swText(c.fset, call.Fun) == "panic" {
			out = append(out, ".panic")
		}
	}
	if cbLeftover(t) {
		c.fail("use of vm.cases: %s", swHead(t))
	}
	return out
}

func (c *cbConv) cond(e ast.Expr) (string, bool) {
	t := swText(c.fset, e)
	if strings.Contains(t, "vm.cases") && cbLeftover(t) && t != "vm.cases == nil" && t != "vm.cases != nil" {
		c.fail("condition on vm.cases: %s", t)
	}
	switch {
	case t == "vm.cases == nil":
		return ".casesNil", false
	case t == "vm.cases != nil":
		return ".casesNil", true // branches swapped
	case t == "done == nil":
		return ".doneNil", false
	case t == "done != nil":
		return ".doneNil", true // branches swapped
	case strings.HasPrefix(t, "done == nil || ") && !strings.Contains(t[len("done == nil || "):], "done"):
		return ".doneNilOr " + swLeanStr(t[len("done == nil || "):]), false
	case strings.Contains(t, "done"):
		c.fail("condition on done: %s", t)
	}
	return ".other " + swLeanStr(t), false
}

func cbList(items []string) string { return "[" + strings.Join(items, ", ") + "]" }

func (c *cbConv) stmts(list []ast.Stmt) []string {
	var out []string
	for _, s := range list {
		out = append(out, c.stmt(s)...)
	}
	return out
}

func (c *cbConv) stmt(s ast.Stmt) []string {
	switch x := s.(type) {
	case nil:
		return nil
	case *ast.BlockStmt:
		return c.stmts(x.List)
	case *ast.ReturnStmt:
		t := swText(c.fset, x)
		if t == "return vm.stop()" {
			return []string{".stop"}
		}
		if strings.Contains(t, "vm.cases") || strings.Contains(t, "reflect.Select") || strings.Contains(t, "vm.run()") {
			c.fail("return: %s", t)
		}
		return []string{".ret"}
	case *ast.BranchStmt:
		if x.Label != nil {
			c.fail("labelled %s", swText(c.fset, x))
			return nil
		}
		switch x.Tok {
		case token.BREAK:
			return []string{".brk"}
		case token.CONTINUE:
			return []string{".cont"}
		}
		c.fail("%s", swText(c.fset, x))
		return nil
	case *ast.IfStmt:
		out := c.stmt(x.Init)
		cd, swap := c.cond(x.Cond)
		th, el := c.stmts(x.Body.List), c.stmt(x.Else)
		if swap {
			th, el = el, th
		}
		if len(th) == 0 && len(el) == 0 {
			return out
		}
		return append(out, fmt.Sprintf(".ite (%s) %s %s", cd, cbList(th), cbList(el)))
	case *ast.ForStmt:
		for _, n := range []ast.Node{x.Init, x.Cond, x.Post} {
			if n != nil && strings.Contains(swText(c.fset, n), "vm.cases") && cbLeftover(swText(c.fset, n)) {
				c.fail("for header: %s", swText(c.fset, n))
			}
		}
		if x.Init != nil {
			if len(c.simple(x.Init)) > 0 {
				c.fail("for header: %s", swText(c.fset, x.Init))
			}
		}
		if x.Post != nil {
			if len(c.simple(x.Post)) > 0 {
				c.fail("for header: %s", swText(c.fset, x.Post))
			}
		}
		body := c.stmts(x.Body.List)
		if len(body) == 0 {
			return nil
		}
		return []string{fmt.Sprintf(".loop %v %s", x.Cond != nil, cbList(body))}
	case *ast.RangeStmt:
		if t := swText(c.fset, x.X); strings.Contains(t, "vm.cases") && t != "vm.cases" {
			c.fail("range: %s", t)
		}
		body := c.stmts(x.Body.List)
		if len(body) == 0 {
			return nil
		}
		return []string{fmt.Sprintf(".loop true %s", cbList(body))}
	case *ast.SwitchStmt:
		return c.sw(x.Init, x.Tag, x.Body)
	case *ast.TypeSwitchStmt:
		return c.sw(x.Init, nil, x.Body)
	case *ast.LabeledStmt, *ast.SelectStmt, *ast.GoStmt, *ast.DeferStmt:
		if t := swText(c.fset, s); strings.Contains(t, "vm.cases") || strings.Contains(t, "reflect.Select") || strings.Contains(t, "vm.run()") || strings.Contains(t, "return") || strings.Contains(t, "break") || strings.Contains(t, "continue") {
			c.fail("%s", swHead(t))
		}
		return nil
	case *ast.ExprStmt, *ast.AssignStmt, *ast.IncDecStmt, *ast.DeclStmt, *ast.SendStmt, *ast.EmptyStmt:
		return c.simple(s)
	}
	c.fail("statement %T: %s", s, swHead(swText(c.fset, s)))
	return nil
}

func (c *cbConv) sw(init ast.Stmt, tag ast.Expr, body *ast.BlockStmt) []string {
	out := c.stmt(init)
	if tag != nil {
		if t := swText(c.fset, tag); strings.Contains(t, "vm.cases") && cbLeftover(t) {
			c.fail("switch tag: %s", t)
		}
	}
	var branches []string
	hasDefault, any := false, false
	for _, cl := range body.List {
		cc := cl.(*ast.CaseClause)
		if cc.List == nil {
			hasDefault = true
		}
		b := c.stmts(cc.Body)
		for _, st := range cc.Body {
			if br, ok := st.(*ast.BranchStmt); ok && br.Tok == token.FALLTHROUGH {
				c.fail("fallthrough")
			}
		}
		any = any || len(b) > 0
		branches = append(branches, cbList(b))
	}
	if !hasDefault {
		branches = append(branches, "[]")
	}
	if !any {
		return out
	}
	return append(out, fmt.Sprintf(".sw %s", cbList(branches)))
}

const cbHeader = `namespace ScriggoV.Gen.CaseBuf

/-- the condition of an if statement: ` + "`done == nil`" + ` (no Done channel: the plain paths), ` + "`done == nil || …`" + `, anything else -/
inductive Cond where
  | casesNil                           -- vm.cases == nil: a nil buffer has no cases
  | doneNil
  | doneNilOr (rest : String)
  | panicking                          -- runRecoverable's deferred function: a panic is leaving run
  | other (text : String)
deriving Repr

/-- the control-flow skeleton of a clause with respect to vm.cases -/
inductive S where
  | app (n : Nat)                      -- vm.cases grows by n cases (append / re-slice by one)
  | sel                                -- reflect.Select(vm.cases)
  | reset                              -- vm.cases = vm.cases[:0]
  | stop                               -- return vm.stop()
  | body                               -- vm.run(): the body of a range loop runs
  | ret                                -- any other return
  | brk                                -- break
  | cont                               -- continue
  | panic                              -- panic(…)
  | ite (c : Cond) (t e : List S)
  | loop (hasCond : Bool) (b : List S) -- for … { b }
  | sw (branches : List (List S))      -- switch: one list per clause (and an empty one if there is no default)
deriving Repr

`

func genCaseBuf(repo string) (string, error) {
	fset := token.NewFileSet()
	dir := filepath.Join(repo, "internal", "runtime")
	entries, err := os.ReadDir(dir)
	if err != nil {
		return "", err
	}
	files := map[string]*ast.File{}
	for _, e := range entries {
		n := e.Name()
		if !strings.HasSuffix(n, ".go") || strings.HasSuffix(n, "_test.go") {
			continue
		}
		f, err := parser.ParseFile(fset, filepath.Join(dir, n), nil, 0)
		if err != nil {
			return "", err
		}
		if swIsVerifFile(f) {
			continue
		}
		files[n] = f
	}
	method := func(file, name string) *ast.FuncDecl {
		f := files[file]
		if f == nil {
			return nil
		}
		for _, d := range f.Decls {
			if fd, ok := d.(*ast.FuncDecl); ok && fd.Name.Name == name && fd.Recv != nil && fd.Body != nil {
				return fd
			}
		}
		return nil
	}
	run, reset := method("run.go", "run"), method("vm.go", "Reset")
	if run == nil || reset == nil {
		return "", fmt.Errorf("shape not recognised: (*VM).run or (*VM).Reset not found")
	}
	// the clauses of the big switch of run
	var opSwitch *ast.SwitchStmt
	ast.Inspect(run.Body, func(n ast.Node) bool {
		if sw, ok := n.(*ast.SwitchStmt); ok && opSwitch == nil && sw.Tag != nil && swText(fset, sw.Tag) == "op" {
			opSwitch = sw
		}
		return opSwitch == nil
	})
	if opSwitch == nil {
		return "", fmt.Errorf("shape not recognised: run has no `switch op`")
	}
	clauseOf := func(op string) *ast.CaseClause {
		for _, cl := range opSwitch.Body.List {
			cc := cl.(*ast.CaseClause)
			for _, e := range cc.List {
				if swText(fset, e) == op {
					return cc
				}
			}
		}
		return nil
	}
	type region struct {
		name, lean string
		lo, hi     token.Pos
		body       []ast.Stmt
	}
	var regions []region
	for _, op := range []string{"OpCase", "OpReceive", "OpSelect", "OpSend"} {
		cc := clauseOf(op)
		if cc == nil {
			return "", fmt.Errorf("shape not recognised: run has no `case %s:` clause", op)
		}
		regions = append(regions, region{name: "run/" + op, lean: "op" + op[2:], lo: cc.Pos(), hi: cc.End(), body: cc.Body})
	}
	rc := clauseOf("OpRange")
	if rc == nil {
		return "", fmt.Errorf("shape not recognised: run has no `case OpRange:` clause")
	}
	var chanClause *ast.CaseClause
	ast.Inspect(rc, func(n ast.Node) bool {
		if cc, ok := n.(*ast.CaseClause); ok && len(cc.List) == 1 && swText(fset, cc.List[0]) == "reflect.Chan" {
			chanClause = cc
		}
		return chanClause == nil
	})
	if chanClause == nil {
		return "", fmt.Errorf("shape not recognised: OpRange has no `case reflect.Chan:` clause")
	}
	regions = append(regions, region{name: "run/OpRange/reflect.Chan", lean: "opRangeChan", lo: chanClause.Pos(), hi: chanClause.End(), body: chanClause.Body})
	regions = append(regions, region{name: "Reset", lean: "vmReset", lo: reset.Pos(), hi: reset.End(), body: reset.Body.List})

	// runRecoverable: `panicking := true; defer func() { if panicking { msg := recover(); … } }();
	// …; panicking = false; return nil` — the body of `if panicking` is what runs when a panic
	// (raised inside reflect.Select, too: send on a closed channel) leaves run
	rr := method("run.go", "runRecoverable")
	if rr == nil {
		return "", fmt.Errorf("shape not recognised: (*VM).runRecoverable not found")
	}
	var handler *ast.FuncLit
	defers, flagWrites := 0, 0
	ast.Inspect(rr.Body, func(n ast.Node) bool {
		switch x := n.(type) {
		case *ast.DeferStmt:
			defers++
		case *ast.AssignStmt:
			for _, l := range x.Lhs {
				if swText(fset, l) == "panicking" {
					flagWrites++
				}
			}
		case *ast.UnaryExpr:
			if x.Op == token.AND && swText(fset, x.X) == "panicking" {
				flagWrites += 10
			}
		}
		return true
	})
	rl := rr.Body.List
	if len(rl) >= 4 && defers == 1 && flagWrites == 2 && swText(fset, rl[0]) == "panicking := true" &&
		swText(fset, rl[len(rl)-2]) == "panicking = false" && swText(fset, rl[len(rl)-1]) == "return nil" {
		if ds, ok := rl[1].(*ast.DeferStmt); ok && len(ds.Call.Args) == 0 {
			handler, _ = ds.Call.Fun.(*ast.FuncLit)
		}
	}
	var handlerIf *ast.IfStmt
	if handler != nil && len(handler.Body.List) == 1 {
		if is, ok := handler.Body.List[0].(*ast.IfStmt); ok && is.Init == nil && is.Else == nil && swText(fset, is.Cond) == "panicking" &&
			len(is.Body.List) > 0 && swText(fset, is.Body.List[0]) == "msg := recover()" && strings.Count(swText(fset, is), "recover()") == 1 {
			handlerIf = is
		}
	}
	if handlerIf == nil {
		return "", fmt.Errorf("shape not recognised: runRecoverable is not `panicking := true; defer func() { if panicking { msg := recover(); … } }(); …; panicking = false; return nil`")
	}
	regions = append(regions, region{name: "runRecoverable/recovered", lean: "recoverHandler", lo: handlerIf.Body.Pos(), hi: handlerIf.Body.End(), body: handlerIf.Body.List})

	// OpCase re-slices by `i := len(vm.cases)`
	if cc := clauseOf("OpCase"); !strings.Contains(swText(fset, cc), "i := len(vm.cases)") && strings.Contains(swText(fset, cc), "vm.cases[:i+1]") {
		return "", fmt.Errorf("shape not recognised: OpCase re-slices vm.cases by an index that is not len(vm.cases)")
	}

	var b strings.Builder
	b.WriteString(cbHeader)
	for _, r := range regions {
		c := &cbConv{fset: fset}
		tree := c.stmts(r.body)
		if c.err != nil {
			return "", fmt.Errorf("%v (in %s)", c.err, r.name)
		}
		if r.lean == "recoverHandler" {
			tree = []string{fmt.Sprintf(".ite (.panicking) %s []", cbList(tree))}
		}
		fmt.Fprintf(&b, "/-- %s -/\ndef %s : List S := %s\n\n", r.name, r.lean, cbList(tree))
	}

	// every assignment to vm.cases (or use that is not a plain read) in the package, and where
	writers := map[string]bool{}
	var names []string
	for n := range files {
		names = append(names, n)
	}
	sort.Strings(names)
	var bad error
	for _, fname := range names {
		f := files[fname]
		for _, d := range f.Decls {
			fd, ok := d.(*ast.FuncDecl)
			if !ok || fd.Body == nil {
				continue
			}
			ast.Inspect(fd.Body, func(n ast.Node) bool {
				var text string
				switch x := n.(type) {
				case *ast.AssignStmt:
					for _, l := range x.Lhs {
						if strings.HasSuffix(swText(fset, l), ".cases") {
							text = swText(fset, x)
						}
					}
				case *ast.UnaryExpr:
					if x.Op == token.AND && strings.HasSuffix(swText(fset, x.X), ".cases") {
						text = swText(fset, x)
					}
				}
				if text == "" {
					return true
				}
				where := fname + ":" + swFuncName(fd, fset)
				for _, r := range regions {
					if fset.File(r.lo).Name() == fset.File(n.Pos()).Name() && r.lo <= n.Pos() && n.End() <= r.hi {
						where = r.name
					}
				}
				if !strings.HasPrefix(text, "vm.cases = ") && !strings.HasPrefix(text, "nvm.cases = ") {
					bad = fmt.Errorf("shape not recognised: %s: %s", where, swHead(text))
				}
				writers[where] = true
				return true
			})
		}
	}
	if bad != nil {
		return "", bad
	}
	var ws []string
	for w := range writers {
		ws = append(ws, swLeanStr(w))
	}
	sort.Strings(ws)
	fmt.Fprintf(&b, "/-- where (function, or clause of run) vm.cases is assigned or its address taken -/\ndef casesWriters : List String := %s\n\nend ScriggoV.Gen.CaseBuf\n", cbList(ws))
	return b.String(), nil
}
