package main

// Generator "NativeEnv" (property C19): where the per-run execution environment comes from when a
// native function is called. Regenerates from /repo/internal/runtime
//
//	slotRules        (*VM).callNative, the loop `for i := range nunIn` that follows
//	                 `args = fn.argsPool.Get()`: for every class of parameter (native.Env, ordinary,
//	                 variadic — the three branches of the loop body) HOW the slot args[i] of the
//	                 pooled slice is written (unconditionally / only under a test of the slot's own
//	                 old contents / under another condition / not at all) and from WHAT (vm.envArg,
//	                 a register through getIntoReflectValue, a freshly made slice)
//	callSites        the Call / CallSlice of fn.value in callNative, each with its argument and
//	                 whether it is textually after the fill loop
//	envArgSites      every assignment to a field `envArg` together with the assignment to the field
//	                 `env` of the same block: envArg is reflect.ValueOf of that very env
//	envWrites        the number of assignments to a field `env` (each must be one of the above) and
//	                 of composite literals of VM that set env or envArg
//	createSites      every call of create(…): the enclosing function and what it passes as env
//	valueArgs        every call of (*callable).Value(…): what it passes as env
//
// A pooled slice belongs to the compiled NativeFunction and outlives the run; a slot that is not
// overwritten before the call carries the env (print hook, context, …) of an earlier run.
// Anything outside the expected shapes is "shape not recognised". Helpers are prefixed `ne`.

import (
	"fmt"
	"go/ast"
	"go/token"
	"os"
	"path/filepath"
	"sort"
	"strconv"
	"strings"
)

func init() {
	generators = append(generators, generator{name: "NativeEnv", run: genNativeEnv})
}

// neIsSlotWrite: args[i].SetXxx(v) or vm.getIntoReflectValue(_, args[i], _); returns the source written
func neIsSlotWrite(g *vbFile, e ast.Expr) (src string, ok bool) {
	c, isCall := e.(*ast.CallExpr)
	if !isCall {
		return "", false
	}
	sel, isSel := c.Fun.(*ast.SelectorExpr)
	if !isSel {
		return "", false
	}
	if strings.HasPrefix(sel.Sel.Name, "Set") && g.src(sel.X) == "args[i]" && len(c.Args) == 1 {
		return g.src(c.Args[0]), true
	}
	if sel.Sel.Name == "getIntoReflectValue" && len(c.Args) == 3 && g.src(c.Args[1]) == "args[i]" {
		return "register", true
	}
	return "", false
}

func neStmtWrite(g *vbFile, st ast.Stmt) (string, bool) {
	switch x := st.(type) {
	case *ast.ExprStmt:
		return neIsSlotWrite(g, x.X)
	case *ast.AssignStmt:
		for _, r := range x.Rhs {
			if s, ok := neIsSlotWrite(g, r); ok {
				return s, true
			}
		}
	}
	return "", false
}

// neFill classifies how the statements of one branch write args[i].
func neFill(g *vbFile, list []ast.Stmt) (fill, src, cond string) {
	for _, st := range list {
		if s, ok := neStmtWrite(g, st); ok {
			return "always", s, ""
		}
	}
	// a write on both arms of an if/else chain is a write on every path too
	var every func(st ast.Stmt) (string, bool)
	every = func(st ast.Stmt) (string, bool) {
		switch x := st.(type) {
		case *ast.BlockStmt:
			for _, s := range x.List {
				if v, ok := every(s); ok {
					return v, true
				}
			}
		case *ast.IfStmt:
			if x.Else != nil {
				a, ok1 := every(x.Body)
				b, ok2 := every(x.Else)
				if ok1 && ok2 {
					if a != b {
						a = a + " / " + b
					}
					return a, true
				}
			}
		default:
			return neStmtWrite(g, st)
		}
		return "", false
	}
	for _, st := range list {
		if s, ok := every(st); ok {
			return "always", s, ""
		}
	}
	// a write somewhere below a condition
	var found, under string
	var rec func(n ast.Node, conds []string)
	rec = func(n ast.Node, conds []string) {
		if found != "" || n == nil {
			return
		}
		with := func(c string) []string { return append(append([]string(nil), conds...), c) }
		switch x := n.(type) {
		case *ast.IfStmt:
			rec(x.Body, with(g.src(x.Cond)))
			if x.Else != nil {
				rec(x.Else, with("!("+g.src(x.Cond)+")"))
			}
		case *ast.BlockStmt:
			for _, s := range x.List {
				rec(s, conds)
			}
		case *ast.ForStmt:
			rec(x.Body, with("…loop"))
		case *ast.RangeStmt:
			rec(x.Body, with("…loop"))
		case *ast.SwitchStmt:
			rec(x.Body, with("…switch"))
		case *ast.TypeSwitchStmt:
			rec(x.Body, with("…switch"))
		case *ast.CaseClause:
			for _, s := range x.Body {
				rec(s, conds)
			}
		case ast.Stmt:
			if s, ok := neStmtWrite(g, x); ok {
				found, under = s, strings.Join(conds, " && ")
			}
		}
	}
	for _, st := range list {
		rec(st, nil)
	}
	if found != "" {
		own := under == "args[i].IsNil()" || under == "!args[i].IsValid()" || under == "args[i].IsZero()"
		if own {
			return "ifEmpty", found, under
		}
		return "guarded", found, under
	}
	return "never", "", ""
}

func neSrcClass(s string) string {
	switch s {
	case "vm.envArg":
		return "vmEnvArg"
	case "register":
		return "register"
	case "slice":
		return "freshSlice"
	}
	return "other"
}

func genNativeEnv(repo string) (string, error) {
	dir := filepath.Join(repo, "internal/runtime")
	g, err := vbParse(filepath.Join(dir, "vm.go"))
	if err != nil {
		return "", err
	}
	fd, err := g.fn("VM", "callNative")
	if err != nil {
		return "", err
	}
	// the pooled slice and the loop that fills it
	var loop *ast.RangeStmt
	var get ast.Node
	ast.Inspect(fd.Body, func(n ast.Node) bool {
		switch x := n.(type) {
		case *ast.AssignStmt:
			if len(x.Lhs) == 1 && len(x.Rhs) == 1 && g.src(x.Lhs[0]) == "args" && strings.Contains(g.src(x.Rhs[0]), "argsPool.Get()") {
				if get != nil {
					err = g.errf(x, "callNative: argsPool.Get() twice")
				}
				get = x
			}
		case *ast.RangeStmt:
			if get != nil && loop == nil && x.Key != nil && g.src(x.Key) == "i" {
				loop = x
			}
		}
		return true
	})
	if err != nil {
		return "", err
	}
	if get == nil || loop == nil {
		return "", fmt.Errorf("shape not recognised: callNative: `args = fn.argsPool.Get()` followed by `for i := range …` not found")
	}
	if len(loop.Body.List) != 1 {
		return "", g.errf(loop, "callNative: the fill loop's body is not one if statement")
	}
	outer, ok := loop.Body.List[0].(*ast.IfStmt)
	if !ok || g.src(outer.Cond) != "i < lastNonVariadic" || outer.Else == nil || outer.Init != nil {
		return "", g.errf(loop.Body.List[0], "callNative: the fill loop's body is not `if i < lastNonVariadic {…} else {…}`")
	}
	if len(outer.Body.List) != 1 {
		return "", g.errf(outer.Body, "callNative: the non-variadic branch is not one if statement")
	}
	inner, ok := outer.Body.List[0].(*ast.IfStmt)
	if !ok || !strings.Contains(g.src(inner.Cond), "typ.In(i) == envType") || inner.Else == nil || inner.Init != nil {
		return "", g.errf(outer.Body.List[0], "callNative: the non-variadic branch is not `if … typ.In(i) == envType {…} else {…}`")
	}
	regBlock, ok1 := inner.Else.(*ast.BlockStmt)
	varBlock, ok2 := outer.Else.(*ast.BlockStmt)
	if !ok1 || !ok2 {
		return "", g.errf(outer, "callNative: else-if chains in the fill loop")
	}
	type rule struct{ cls, when, fill, src, cond string }
	var rules []rule
	for _, r := range []struct {
		cls, when string
		list      []ast.Stmt
	}{
		{"env", g.src(outer.Cond) + " && " + g.src(inner.Cond), inner.Body.List},
		{"reg", g.src(outer.Cond) + " && !(" + g.src(inner.Cond) + ")", regBlock.List},
		{"variadic", "!(" + g.src(outer.Cond) + ")", varBlock.List},
	} {
		fill, src, cond := neFill(g, r.list)
		rules = append(rules, rule{r.cls, r.when, fill, src, cond})
	}
	// the calls
	type site struct {
		text  string
		args  string
		after bool
	}
	var sites []site
	ast.Inspect(fd.Body, func(n ast.Node) bool {
		c, ok := n.(*ast.CallExpr)
		if !ok {
			return true
		}
		if sel, ok := c.Fun.(*ast.SelectorExpr); ok && (sel.Sel.Name == "Call" || sel.Sel.Name == "CallSlice") && g.src(sel.X) == "fn.value" {
			a := ""
			if len(c.Args) == 1 {
				a = g.src(c.Args[0])
			}
			sites = append(sites, site{g.src(c), a, c.Pos() > loop.End()})
		}
		return true
	})
	if len(sites) == 0 {
		return "", fmt.Errorf("shape not recognised: callNative: no fn.value.Call / CallSlice")
	}

	// env / envArg over the whole package
	entries, err := os.ReadDir(dir)
	if err != nil {
		return "", err
	}
	var names []string
	for _, e := range entries {
		if n := e.Name(); strings.HasSuffix(n, ".go") && !strings.HasSuffix(n, "_test.go") && !strings.HasPrefix(n, "verif_") {
			names = append(names, n)
		}
	}
	sort.Strings(names)
	type envArgSite struct{ fn, envLhs, envRhs, argRhs string }
	var argSites []envArgSite
	envWrites, litSets := 0, 0
	type createSite struct{ fn, arg, cls string }
	var creates []createSite
	type valueArg struct{ fn, arg string }
	var values []valueArg
	for _, name := range names {
		f, err := vbParse(filepath.Join(dir, name))
		if err != nil {
			return "", err
		}
		for _, d := range f.file.Decls {
			fdecl, ok := d.(*ast.FuncDecl)
			if !ok || fdecl.Body == nil {
				continue
			}
			params := map[string]bool{}
			for _, p := range fdecl.Type.Params.List {
				for _, n := range p.Names {
					params[n.Name] = true
				}
			}
			var visit func(n ast.Node) bool
			visit = func(n ast.Node) bool {
				switch x := n.(type) {
				case *ast.BlockStmt:
					// assignments to .env / .envArg in this block
					var envLhs, envRhs string
					for _, st := range x.List {
						as, ok := st.(*ast.AssignStmt)
						if !ok || len(as.Lhs) != 1 || len(as.Rhs) != 1 {
							continue
						}
						sel, ok := as.Lhs[0].(*ast.SelectorExpr)
						if !ok {
							continue
						}
						switch sel.Sel.Name {
						case "env":
							envWrites++
							envLhs, envRhs = f.src(as.Lhs[0]), f.src(as.Rhs[0])
						case "envArg":
							if as.Tok != token.ASSIGN {
								err = f.errf(as, "envArg: not a plain assignment")
							}
							argSites = append(argSites, envArgSite{fdecl.Name.Name, envLhs, envRhs, f.src(as.Rhs[0])})
							if envLhs != "" && strings.TrimSuffix(envLhs, ".env") != f.src(sel.X) {
								err = f.errf(as, "envArg and env of different values are assigned in one block")
							}
							envLhs, envRhs = "", ""
						}
					}
				case *ast.CompositeLit:
					if t := f.src(x.Type); t == "VM" {
						for _, el := range x.Elts {
							if kv, ok := el.(*ast.KeyValueExpr); ok && (f.src(kv.Key) == "env" || f.src(kv.Key) == "envArg") {
								litSets++
							}
						}
					}
				case *ast.CallExpr:
					if id, ok := x.Fun.(*ast.Ident); ok && id.Name == "create" && len(x.Args) == 1 {
						a := f.src(x.Args[0])
						cls := "other"
						switch {
						case a == "&env{}":
							cls = "fresh"
						case a == "vm.env":
							cls = "vmEnv"
						case params[a]:
							cls = "param"
						default:
							// a parameter of an enclosing function literal's function is a parameter too
							if _, isIdent := x.Args[0].(*ast.Ident); isIdent && params[a] {
								cls = "param"
							}
						}
						creates = append(creates, createSite{fdecl.Name.Name, a, cls})
					}
					if sel, ok := x.Fun.(*ast.SelectorExpr); ok && sel.Sel.Name == "Value" && len(x.Args) == 1 {
						values = append(values, valueArg{fdecl.Name.Name, f.src(x.Args[0])})
					}
				}
				return true
			}
			ast.Inspect(fdecl.Body, visit)
			if err != nil {
				return "", err
			}
		}
	}
	if len(argSites) == 0 || len(creates) == 0 {
		return "", fmt.Errorf("shape not recognised: internal/runtime: no assignment to envArg / no call of create")
	}

	q := strconv.Quote
	var b strings.Builder
	b.WriteString("/-! Where the execution environment passed to a native function comes from: how callNative\nfills the pooled argument slice, and how a VM gets its env. Re-read from internal/runtime. -/\nnamespace ScriggoV.Gen.NativeEnv\n\n")
	b.WriteString("/-- how a slot of the pooled argument slice is written before the call -/\ninductive Fill\n  | always   -- on every path through the branch\n  | ifEmpty  -- only when the slot's own old contents are nil/invalid/zero\n  | guarded  -- only under some other condition\n  | never\n  deriving DecidableEq, Repr\n\n")
	b.WriteString("/-- the classes of parameters the fill loop distinguishes -/\ninductive SlotClass\n  | env | reg | variadic\n  deriving DecidableEq, Repr\n\n")
	b.WriteString("/-- what is written -/\ninductive Src\n  | vmEnvArg | register | freshSlice | other\n  deriving DecidableEq, Repr\n\n")
	b.WriteString("structure SlotRule where\n  cls : SlotClass\n  fill : Fill\n  src : Src\n  /-- the branch condition, the written expression and the guard of the write, as in the code -/\n  text : String\n  deriving DecidableEq, Repr\n\n")
	b.WriteString("/-- callNative: the three branches of the loop `for i := range nunIn` after `args = fn.argsPool.Get()` -/\ndef slotRules : List SlotRule := [\n")
	for i, r := range rules {
		sep := ","
		if i == len(rules)-1 {
			sep = ""
		}
		fmt.Fprintf(&b, "  ⟨.%s, .%s, .%s, %s⟩%s\n", r.cls, r.fill, neSrcClass(r.src), q(fmt.Sprintf("when %s: args[i] := %s [%s]", r.when, r.src, r.cond)), sep)
	}
	b.WriteString("]\n\n")
	b.WriteString("/-- callNative: every Call / CallSlice of fn.value: (text, passes `args`, textually after the fill loop) -/\ndef callSites : List (String × Bool × Bool) := [")
	for i, s := range sites {
		if i > 0 {
			b.WriteString(", ")
		}
		fmt.Fprintf(&b, "(%s, %v, %v)", q(s.text), s.args == "args", s.after)
	}
	b.WriteString("]\n\n")
	b.WriteString("/-- every assignment to a field `envArg`: (function, the `env` assignment before it in the same block, the value assigned to envArg, is that value reflect.ValueOf of that env) -/\ndef envArgSites : List (String × String × String × Bool) := [")
	for i, s := range argSites {
		if i > 0 {
			b.WriteString(", ")
		}
		mirrors := s.envLhs != "" && (s.argRhs == "reflect.ValueOf("+s.envLhs+")" || s.argRhs == "reflect.ValueOf("+s.envRhs+")")
		fmt.Fprintf(&b, "(%s, %s, %s, %v)", q(s.fn), q(s.envLhs+" = "+s.envRhs), q(s.argRhs), mirrors)
	}
	b.WriteString("]\n\n")
	fmt.Fprintf(&b, "/-- assignments to a field `env` in internal/runtime; composite literals of VM that set env or envArg -/\ndef envWrites : Nat := %d\ndef vmLiteralsSettingEnv : Nat := %d\n\n", envWrites, litSets)
	b.WriteString("/-- what a new VM is given as env -/\ninductive EnvSrc\n  | fresh   -- &env{}: a new environment (NewVM, once per Run)\n  | vmEnv   -- the env of the VM that creates it\n  | param   -- a parameter of the enclosing function (see valueArgs)\n  | other\n  deriving DecidableEq, Repr\n\n")
	b.WriteString("/-- every call of create: (enclosing function, argument, class) -/\ndef createSites : List (String × String × EnvSrc) := [")
	for i, s := range creates {
		if i > 0 {
			b.WriteString(", ")
		}
		fmt.Fprintf(&b, "(%s, %s, .%s)", q(s.fn), q(s.arg), s.cls)
	}
	b.WriteString("]\n\n")
	b.WriteString("/-- every one-argument call of a method `Value` in internal/runtime ((*callable).Value(env)): (enclosing function, argument) -/\ndef valueArgs : List (String × String) := [")
	for i, s := range values {
		if i > 0 {
			b.WriteString(", ")
		}
		fmt.Fprintf(&b, "(%s, %s)", q(s.fn), q(s.arg))
	}
	b.WriteString("]\n\nend ScriggoV.Gen.NativeEnv\n")
	return b.String(), nil
}
