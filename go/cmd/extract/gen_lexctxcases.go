package main

// Generator "LexCtxCases" (property C06, layer 2): translates the straight-line clauses of
// `switch l.ctx` in lexer.scan (/repo/internal/compiler/lexer.go) for the script / style content
// contexts
//
//	case ast.ContextCSS, ContextCSSString, ContextJS, ContextJSString, ContextJSON, ContextJSONString
//
// into Lean functions over the projected lexer state of Model/LexCtx.lean (`CSt`): which fields a
// byte changes (`l.ctx`, `quote`, `jsComment`) and by how much `p` advances BEFORE the loop's own
// `p++`. Props/C06.lean proves each generated function equal to the hand-written case function of the
// model that the layer-2 theorems are about (`caseJSP`, `caseJSStringP`, `caseJSONP`, `caseCSSP`), so
// a change of the comment / string scanning in the Go lexer (one `p++` less after `/*`, a different
// terminator of `//`, a different escape rule in strings) changes the definition and the equality
// is re-checked.
//
// The translation is by shape, never by guess. Statements of a clause:
//
//	block  := simple* | if | switch
//	if     := `if` cond block [`else` if | `else` block]           (no else: nothing changes)
//	switch := `switch c { case v: block … }`                        -> if c = v … else if …
//	        | `switch l.src[p+1] { case v: block … }`               -> match text[s.pos + 1]? with | some v => …
//	simple := `l.ctx = ast.ContextX | fileContext` | `quote = c | 0 | 'x'` | `jsComment = jsCommentX`
//	        | `p++` | `p += n` | `l.column++` | `l.column += n`     (columns are not projected)
//
// Conditions: `&&`, `||`, `c == 'x'`, `c == quote`, `jsComment == jsCommentX`, `p+1 < len(l.src)`,
// `l.src[p+1] == 'x' | quote`; `isHTML [&& c == '<'] && isEndScript(l.src[p:])` is the model's
// `endScriptP text s c` (which tests `c = '<'` itself; accepted without `c == '<'` only inside
// `case '<'`), likewise isEndStyle; a bound `p+1 < len(l.src)` standing next to an access
// `l.src[p+1] == …` in the same conjunction is dropped (`text[…]?` is `none` out of bounds).
// `isHTML` is true and `fileContext` is ContextHTML: the projection is for an HTML file.
// Anything else: "shape not recognised".

import (
	"fmt"
	"go/ast"
	"go/token"
	"path/filepath"
	"strconv"
	"strings"
)

func init() {
	generators = append(generators, generator{name: "LexCtxCases", run: genLexCtxCases})
}

type lccGen struct {
	lxGen
	jsConsts map[string]int // jsCommentNone …
}

// lccLeaf is the effect of a run of simple statements
type lccLeaf struct {
	ctx, quote, jsComment string
	adv                   int
}

func (l lccLeaf) lean() string {
	var fs []string
	if l.ctx != "" {
		fs = append(fs, "ctx := "+l.ctx)
	}
	if l.adv != 0 {
		fs = append(fs, fmt.Sprintf("pos := s.pos + %d", l.adv))
	}
	if l.quote != "" {
		fs = append(fs, "quote := "+l.quote)
	}
	if l.jsComment != "" {
		fs = append(fs, "jsComment := "+l.jsComment)
	}
	if len(fs) == 0 {
		return "(s, true)"
	}
	return "({ s with " + strings.Join(fs, ", ") + " }, true)"
}

func lccByte(s string) (string, bool) {
	v, err := strconv.Unquote(s)
	if err != nil || len(v) != 1 {
		return "", false
	}
	return fmt.Sprintf("0x%02x", v[0]), true
}

func isIdent(e ast.Expr, name string) bool {
	id, ok := e.(*ast.Ident)
	return ok && id.Name == name
}

func isSel(e ast.Expr, x, sel string) bool {
	s, ok := e.(*ast.SelectorExpr)
	return ok && isIdent(s.X, x) && s.Sel.Name == sel
}

// `p+1`
func isPPlus1(e ast.Expr) bool {
	b, ok := e.(*ast.BinaryExpr)
	if !ok || b.Op != token.ADD || !isIdent(b.X, "p") {
		return false
	}
	l, ok := b.Y.(*ast.BasicLit)
	return ok && l.Value == "1"
}

// `l.src[p+1]`
func isSrcAtP1(e ast.Expr) bool {
	ix, ok := e.(*ast.IndexExpr)
	return ok && isSel(ix.X, "l", "src") && isPPlus1(ix.Index)
}

// a byte value: a rune literal or the variable `quote`
func (g *lccGen) byteVal(e ast.Expr) (string, error) {
	switch v := e.(type) {
	case *ast.BasicLit:
		if v.Kind == token.CHAR {
			if b, ok := lccByte(v.Value); ok {
				return b, nil
			}
		}
		if v.Kind == token.INT && v.Value == "0" {
			return "0", nil
		}
	case *ast.Ident:
		if v.Name == "quote" {
			return "s.quote", nil
		}
		if v.Name == "c" {
			return "c", nil
		}
	}
	return "", g.errf(e, "byte value")
}

func flattenAnd(e ast.Expr) []ast.Expr {
	if p, ok := e.(*ast.ParenExpr); ok {
		return flattenAnd(p.X)
	}
	if b, ok := e.(*ast.BinaryExpr); ok && b.Op == token.LAND {
		return append(flattenAnd(b.X), flattenAnd(b.Y)...)
	}
	return []ast.Expr{e}
}

// isEndCall: `isEndScript(l.src[p:])` / `isEndStyle(l.src[p:])`
func isEndCall(e ast.Expr) (string, bool) {
	c, ok := e.(*ast.CallExpr)
	if !ok || len(c.Args) != 1 {
		return "", false
	}
	fn, ok := c.Fun.(*ast.Ident)
	if !ok || fn.Name != "isEndScript" && fn.Name != "isEndStyle" {
		return "", false
	}
	sl, ok := c.Args[0].(*ast.SliceExpr)
	if !ok || !isSel(sl.X, "l", "src") || !isIdent(sl.Low, "p") || sl.High != nil {
		return "", false
	}
	if fn.Name == "isEndScript" {
		return "endScriptP text s c", true
	}
	return "endStyleP text s c", true
}

func isCEq(e ast.Expr, lit string) bool {
	b, ok := e.(*ast.BinaryExpr)
	if !ok || b.Op != token.EQL || !isIdent(b.X, "c") {
		return false
	}
	l, ok := b.Y.(*ast.BasicLit)
	return ok && l.Value == lit
}

// cond translates a condition; caseByte = the value of `c` known from an enclosing `switch c` case
func (g *lccGen) cond(e ast.Expr, caseByte string) (string, error) {
	if p, ok := e.(*ast.ParenExpr); ok {
		return g.cond(p.X, caseByte)
	}
	ops := flattenAnd(e)
	if len(ops) > 1 {
		// the end-tag test
		for i, o := range ops {
			if name, ok := isEndCall(o); ok {
				hasLT := caseByte == "0x3c"
				for j, r := range ops {
					if j == i {
						continue
					}
					switch {
					case isIdent(r, "isHTML"):
					case isCEq(r, "'<'"):
						hasLT = true
					default:
						return "", g.errf(e, "end-tag test with another operand")
					}
				}
				if !hasLT {
					return "", g.errf(e, "end-tag test without c == '<'")
				}
				return name, nil
			}
		}
		// a bound next to an access is subsumed by `[…]?`
		hasAccess := false
		for _, o := range ops {
			if b, ok := o.(*ast.BinaryExpr); ok && b.Op == token.EQL && isSrcAtP1(b.X) {
				hasAccess = true
			}
		}
		var parts []string
		for _, o := range ops {
			if hasAccess && g.isBound(o) {
				continue
			}
			s, err := g.cond(o, caseByte)
			if err != nil {
				return "", err
			}
			if strings.Contains(s, " ∨ ") {
				s = "(" + s + ")"
			}
			parts = append(parts, s)
		}
		return strings.Join(parts, " ∧ "), nil
	}
	b, ok := e.(*ast.BinaryExpr)
	if !ok {
		return "", g.errf(e, "condition")
	}
	switch b.Op {
	case token.LOR:
		x, err := g.cond(b.X, caseByte)
		if err != nil {
			return "", err
		}
		y, err := g.cond(b.Y, caseByte)
		if err != nil {
			return "", err
		}
		return x + " ∨ " + y, nil
	case token.EQL:
		switch {
		case isIdent(b.X, "c"):
			v, err := g.byteVal(b.Y)
			if err != nil {
				return "", err
			}
			return "c = " + v, nil
		case isIdent(b.X, "jsComment"):
			id, ok := b.Y.(*ast.Ident)
			if !ok {
				return "", g.errf(e, "jsComment comparison")
			}
			n, ok := g.jsConsts[id.Name]
			if !ok {
				return "", g.errf(e, "unknown jsComment constant")
			}
			return fmt.Sprintf("s.jsComment = %d", n), nil
		case isSrcAtP1(b.X):
			v, err := g.byteVal(b.Y)
			if err != nil {
				return "", err
			}
			return "text[s.pos + 1]? = some " + v, nil
		}
	case token.LSS:
		if g.isBound(e) {
			return "s.pos + 1 < text.length", nil
		}
	}
	return "", g.errf(e, "condition")
}

// `p+1 < len(l.src)`
func (g *lccGen) isBound(e ast.Expr) bool {
	b, ok := e.(*ast.BinaryExpr)
	if !ok || b.Op != token.LSS || !isPPlus1(b.X) {
		return false
	}
	c, ok := b.Y.(*ast.CallExpr)
	return ok && isIdent(c.Fun, "len") && len(c.Args) == 1 && isSel(c.Args[0], "l", "src")
}

func (g *lccGen) simple(st ast.Stmt, leaf *lccLeaf) error {
	switch s := st.(type) {
	case *ast.IncDecStmt:
		if s.Tok == token.INC && isIdent(s.X, "p") {
			leaf.adv++
			return nil
		}
		if s.Tok == token.INC && isSel(s.X, "l", "column") {
			return nil
		}
	case *ast.AssignStmt:
		if len(s.Lhs) != 1 || len(s.Rhs) != 1 {
			break
		}
		switch {
		case s.Tok == token.ADD_ASSIGN && (isIdent(s.Lhs[0], "p") || isSel(s.Lhs[0], "l", "column")):
			l, ok := s.Rhs[0].(*ast.BasicLit)
			if !ok || l.Kind != token.INT {
				break
			}
			n, _ := strconv.Atoi(l.Value)
			if isIdent(s.Lhs[0], "p") {
				leaf.adv += n
			}
			return nil
		case s.Tok == token.ASSIGN && isSel(s.Lhs[0], "l", "ctx"):
			if isIdent(s.Rhs[0], "fileContext") {
				leaf.ctx = "ContextHTML"
				return nil
			}
			if sel, ok := s.Rhs[0].(*ast.SelectorExpr); ok && isIdent(sel.X, "ast") && strings.HasPrefix(sel.Sel.Name, "Context") {
				leaf.ctx = sel.Sel.Name
				return nil
			}
		case s.Tok == token.ASSIGN && isIdent(s.Lhs[0], "quote"):
			v, err := g.byteVal(s.Rhs[0])
			if err != nil {
				return err
			}
			leaf.quote = v
			return nil
		case s.Tok == token.ASSIGN && isIdent(s.Lhs[0], "jsComment"):
			if id, ok := s.Rhs[0].(*ast.Ident); ok {
				if n, ok := g.jsConsts[id.Name]; ok {
					leaf.jsComment = strconv.Itoa(n)
					return nil
				}
			}
		}
	}
	return g.errf(st, "statement")
}

const lccNothing = "(s, true)"

// block translates a statement list; ind = indentation of the expression's continuation lines
func (g *lccGen) block(list []ast.Stmt, caseByte, ind string) (string, error) {
	if len(list) == 1 {
		switch s := list[0].(type) {
		case *ast.IfStmt:
			return g.ifStmt(s, caseByte, ind)
		case *ast.SwitchStmt:
			return g.switchStmt(s, ind)
		}
	}
	var leaf lccLeaf
	for _, st := range list {
		if err := g.simple(st, &leaf); err != nil {
			return "", err
		}
	}
	return leaf.lean(), nil
}

func (g *lccGen) ifStmt(s *ast.IfStmt, caseByte, ind string) (string, error) {
	if s.Init != nil {
		return "", g.errf(s, "if with an init statement")
	}
	c, err := g.cond(s.Cond, caseByte)
	if err != nil {
		return "", err
	}
	th, err := g.block(s.Body.List, caseByte, ind+"  ")
	if err != nil {
		return "", err
	}
	el := lccNothing
	switch e := s.Else.(type) {
	case nil:
	case *ast.IfStmt:
		if el, err = g.ifStmt(e, caseByte, ind); err != nil {
			return "", err
		}
		return "if " + c + " then\n" + ind + "  " + th + "\n" + ind + "else " + el, nil
	case *ast.BlockStmt:
		if el, err = g.block(e.List, caseByte, ind+"  "); err != nil {
			return "", err
		}
	default:
		return "", g.errf(s, "else")
	}
	return "if " + c + " then\n" + ind + "  " + th + "\n" + ind + "else\n" + ind + "  " + el, nil
}

func (g *lccGen) switchStmt(s *ast.SwitchStmt, ind string) (string, error) {
	if s.Init != nil || s.Tag == nil {
		return "", g.errf(s, "switch")
	}
	type clause struct {
		val  string
		body string
	}
	onNext := isSrcAtP1(s.Tag)
	if !onNext && !isIdent(s.Tag, "c") {
		return "", g.errf(s, "switch tag")
	}
	var cs []clause
	for _, st := range s.Body.List {
		cc := st.(*ast.CaseClause)
		if len(cc.List) != 1 {
			return "", g.errf(cc, "case list (a default clause or several values)")
		}
		v, err := g.byteVal(cc.List[0])
		if err != nil {
			return "", err
		}
		known := ""
		if !onNext && strings.HasPrefix(v, "0x") {
			known = v
		}
		body, err := g.block(cc.Body, known, ind+"    ")
		if err != nil {
			return "", err
		}
		cs = append(cs, clause{v, body})
	}
	var b strings.Builder
	if onNext {
		b.WriteString("match text[s.pos + 1]? with")
		for _, c := range cs {
			if !strings.HasPrefix(c.val, "0x") {
				return "", g.errf(s, "switch on l.src[p+1] with a non-literal case")
			}
			b.WriteString("\n" + ind + "| some " + c.val + " => " + c.body)
		}
		b.WriteString("\n" + ind + "| _ => " + lccNothing)
		return b.String(), nil
	}
	for i, c := range cs {
		if i > 0 {
			b.WriteString("\n" + ind + "else ")
		}
		b.WriteString("if c = " + c.val + " then\n" + ind + "  " + c.body)
	}
	b.WriteString("\n" + ind + "else " + lccNothing)
	return b.String(), nil
}

func genLexCtxCases(repo string) (string, error) {
	g := &lccGen{jsConsts: map[string]int{}}
	g.fset = token.NewFileSet()
	f, err := g.parse(filepath.Join(repo, "internal", "compiler", "lexer.go"))
	if err != nil {
		return "", err
	}
	// const ( jsCommentNone jsCommentState = iota; jsCommentLine; jsCommentBlock )
	names, err := sfpIotaBlock(f, "jsCommentState")
	if err != nil {
		return "", err
	}
	for i, n := range names {
		g.jsConsts[n] = i
	}
	var scan *ast.FuncDecl
	for _, d := range f.Decls {
		if fd, ok := d.(*ast.FuncDecl); ok && fd.Name.Name == "scan" && fd.Recv != nil {
			scan = fd
		}
	}
	if scan == nil {
		return "", fmt.Errorf("shape not recognised: no method scan in lexer.go")
	}
	want := []string{"ContextCSS", "ContextCSSString", "ContextJS", "ContextJSString", "ContextJSON", "ContextJSONString"}
	clauses := map[string]*ast.CaseClause{}
	ast.Inspect(scan, func(n ast.Node) bool {
		sw, ok := n.(*ast.SwitchStmt)
		if !ok || !isSel(sw.Tag, "l", "ctx") {
			return true
		}
		for _, st := range sw.Body.List {
			cc := st.(*ast.CaseClause)
			for _, e := range cc.List {
				if sel, ok := e.(*ast.SelectorExpr); ok && isIdent(sel.X, "ast") {
					for _, w := range want {
						if sel.Sel.Name == w {
							if len(cc.List) != 1 {
								clauses[w+"!shared"] = cc
							} else if _, dup := clauses[w]; dup {
								clauses[w+"!dup"] = cc
							} else {
								clauses[w] = cc
							}
						}
					}
				}
			}
		}
		return true
	})
	var out strings.Builder
	out.WriteString("import ScriggoV.Model.LexCtx\n")
	out.WriteString("/-! lexer.scan, `switch l.ctx`: the clauses of the script / style content contexts, translated\n")
	out.WriteString("statement by statement (go/cmd/extract/gen_lexctxcases.go) onto the projected state of\n")
	out.WriteString("Model/LexCtx.lean. The Bool is `true`: none of these clauses `continue`s. -/\n")
	out.WriteString("namespace ScriggoV.Gen.LexCtxCases\nopen ScriggoV ScriggoV.Lexer ScriggoV.Gen.LexTables ScriggoV.LexCtx\n\n")
	fmt.Fprintf(&out, "/-- the constants of jsCommentState -/\ndef jsCommentStates : List (String × Nat) := [")
	for i, n := range names {
		if i > 0 {
			out.WriteString(", ")
		}
		fmt.Fprintf(&out, "(%q, %d)", n, i)
	}
	out.WriteString("]\n\n")
	for _, w := range want {
		if cc := clauses[w+"!shared"]; cc != nil {
			return "", g.errf(cc, "case %s shares its clause with another context", w)
		}
		if cc := clauses[w+"!dup"]; cc != nil {
			return "", g.errf(cc, "a second `switch l.ctx` clause for %s", w)
		}
		cc := clauses[w]
		if cc == nil {
			return "", fmt.Errorf("shape not recognised: no clause `case ast.%s` in a `switch l.ctx` of lexer.scan", w)
		}
		body, err := g.block(cc.Body, "", "  ")
		if err != nil {
			return "", err
		}
		fmt.Fprintf(&out, "/-- `case ast.%s:` (lexer.go line %d) -/\ndef case%s (text : Bytes) (s : CSt) (c : UInt8) : CSt × Bool :=\n  %s\n\n",
			w, g.fset.Position(cc.Pos()).Line, strings.TrimPrefix(w, "Context"), body)
	}
	out.WriteString("end ScriggoV.Gen.LexCtxCases\n")
	return out.String(), nil
}
