package main

// Generator "LexCtxCases" (property C06, layer 2): translates the straight-line clauses of
// `switch l.ctx` in lexer.scan (/repo/internal/compiler/lexer.go) for the script / style content
// contexts
//
//	case ast.ContextCSS, ContextCSSString, ContextJS, ContextJSString, ContextJSON, ContextJSONString
//
// into Lean functions over the projected lexer state of Model/LexCtx.lean (`CSt`): which fields a
// byte changes (`l.ctx`, `quote`, `jsComment`) and by how much `p` advances BEFORE the loop's own
// `p++`. Props/C06.lean proves each generated function equal to the hand-written case function of the
// model that the layer-2 theorems are about (`caseJSP`, `caseJSStringP`, `caseJSONP`, `caseCSSP`), so
// a change of the comment / string scanning in the Go lexer (one `p++` less after `/*`, a different
// terminator of `//`, a different escape rule in strings) changes the definition and the equality
// is re-checked.
//
// The translation is by shape, never by guess. Statements of a clause:
//
//	block  := simple* | if | switch
//	if     := `if` cond block [`else` if | `else` block]           (no else: nothing changes)
//	switch := `switch c { case v: block … }`                        -> if c = v … else if …
//	        | `switch l.src[p+1] { case v: block … }`               -> match text[s.pos + 1]? with | some v => …
//	simple := `l.ctx = ast.ContextX | l.base` | `quote = c | 0 | 'x'` | `jsComment = jsCommentX`
//	        | `p++` | `p += n` | `l.column++` | `l.column += n`     (columns are not projected)
//
// Conditions: `&&`, `||`, `c == 'x' | 0xNN`, `c == quote`, `jsComment == jsCommentX`, `p+k < len(l.src)`,
// `l.src[p+k] == 'x' | 0xNN | quote` (k = 1, 2); `isHTML() [&& c == '<'] && isEndScript(l.src[p:])` is the
// model's `endScriptP text s c` (which tests `c = '<'` itself; accepted without `c == '<'` only inside
// `case '<'`), likewise isEndStyle; a bound `p+k < len(l.src)` standing in the same conjunction as a
// conjunct all of whose alternatives are accesses `l.src[p+j] == …` with j ≥ k is dropped (`text[…]?` is
// `none` out of bounds).
//
// The base context. `isHTML` must be the closure `func() bool { return l.base == ast.ContextHTML ||
// l.base == ast.ContextMarkdown }` and `l.base = l.ctx` must stand, once, with it before the main loop of
// scan; every other write of `l.base` in lexer.go must be one of the two in lexCode (the result type of a
// macro / using body, the matching `end`), which are listed in `baseWrites`. The projection is for an HTML
// file whose delimiters are shows: there `l.base` is ContextHTML throughout, so `isHTML()` is true and
// `l.ctx = l.base` is `ctx := ContextHTML`.
// Anything else: "shape not recognised".

import (
	"fmt"
	"go/ast"
	"go/token"
	"path/filepath"
	"strconv"
	"strings"
)

func init() {
	generators = append(generators, generator{name: "LexCtxCases", run: genLexCtxCases})
}

type lccGen struct {
	lxGen
	jsConsts map[string]int // jsCommentNone …
}

// lccLeaf is the effect of a run of simple statements
type lccLeaf struct {
	ctx, quote, jsComment string
	adv                   int
}

func (l lccLeaf) lean() string {
	var fs []string
	if l.ctx != "" {
		fs = append(fs, "ctx := "+l.ctx)
	}
	if l.adv != 0 {
		fs = append(fs, fmt.Sprintf("pos := s.pos + %d", l.adv))
	}
	if l.quote != "" {
		fs = append(fs, "quote := "+l.quote)
	}
	if l.jsComment != "" {
		fs = append(fs, "jsComment := "+l.jsComment)
	}
	if len(fs) == 0 {
		return "(s, true)"
	}
	return "({ s with " + strings.Join(fs, ", ") + " }, true)"
}

func lccByte(s string) (string, bool) {
	v, err := strconv.Unquote(s)
	if err != nil || len(v) != 1 {
		return "", false
	}
	return fmt.Sprintf("0x%02x", v[0]), true
}

func isIdent(e ast.Expr, name string) bool {
	id, ok := e.(*ast.Ident)
	return ok && id.Name == name
}

func isSel(e ast.Expr, x, sel string) bool {
	s, ok := e.(*ast.SelectorExpr)
	return ok && isIdent(s.X, x) && s.Sel.Name == sel
}

// `p+k` for k = 1, 2 (0: no)
func pPlus(e ast.Expr) int {
	b, ok := e.(*ast.BinaryExpr)
	if !ok || b.Op != token.ADD || !isIdent(b.X, "p") {
		return 0
	}
	l, ok := b.Y.(*ast.BasicLit)
	if !ok || l.Kind != token.INT {
		return 0
	}
	switch l.Value {
	case "1":
		return 1
	case "2":
		return 2
	}
	return 0
}

// `l.src[p+k]` for k = 1, 2 (0: no)
func srcAtP(e ast.Expr) int {
	ix, ok := e.(*ast.IndexExpr)
	if !ok || !isSel(ix.X, "l", "src") {
		return 0
	}
	return pPlus(ix.Index)
}

// `l.src[p+1]`
func isSrcAtP1(e ast.Expr) bool { return srcAtP(e) == 1 }

// accessAt: e is `l.src[p+j] == …` or a disjunction of such; the smallest j (0: e is something else)
func accessAt(e ast.Expr) int {
	if p, ok := e.(*ast.ParenExpr); ok {
		return accessAt(p.X)
	}
	b, ok := e.(*ast.BinaryExpr)
	if !ok {
		return 0
	}
	switch b.Op {
	case token.EQL:
		return srcAtP(b.X)
	case token.LOR:
		x, y := accessAt(b.X), accessAt(b.Y)
		if x == 0 || y == 0 {
			return 0
		}
		if y < x {
			return y
		}
		return x
	}
	return 0
}

// a byte value: a rune literal or the variable `quote`
func (g *lccGen) byteVal(e ast.Expr) (string, error) {
	switch v := e.(type) {
	case *ast.BasicLit:
		if v.Kind == token.CHAR {
			if b, ok := lccByte(v.Value); ok {
				return b, nil
			}
		}
		if v.Kind == token.INT && v.Value == "0" {
			return "0", nil
		}
		if v.Kind == token.INT && len(v.Value) == 4 && strings.HasPrefix(v.Value, "0x") {
			if n, err := strconv.ParseUint(v.Value[2:], 16, 8); err == nil {
				return fmt.Sprintf("0x%02x", n), nil
			}
		}
	case *ast.Ident:
		if v.Name == "quote" {
			return "s.quote", nil
		}
		if v.Name == "c" {
			return "c", nil
		}
	}
	return "", g.errf(e, "byte value")
}

func flattenAnd(e ast.Expr) []ast.Expr {
	if p, ok := e.(*ast.ParenExpr); ok {
		return flattenAnd(p.X)
	}
	if b, ok := e.(*ast.BinaryExpr); ok && b.Op == token.LAND {
		return append(flattenAnd(b.X), flattenAnd(b.Y)...)
	}
	return []ast.Expr{e}
}

// isEndCall: `isEndScript(l.src[p:])` / `isEndStyle(l.src[p:])`
func isEndCall(e ast.Expr) (string, bool) {
	c, ok := e.(*ast.CallExpr)
	if !ok || len(c.Args) != 1 {
		return "", false
	}
	fn, ok := c.Fun.(*ast.Ident)
	if !ok || fn.Name != "isEndScript" && fn.Name != "isEndStyle" {
		return "", false
	}
	sl, ok := c.Args[0].(*ast.SliceExpr)
	if !ok || !isSel(sl.X, "l", "src") || !isIdent(sl.Low, "p") || sl.High != nil {
		return "", false
	}
	if fn.Name == "isEndScript" {
		return "endScriptP text s c", true
	}
	return "endStyleP text s c", true
}

// `name()`
func isCallNoArgs(e ast.Expr, name string) bool {
	c, ok := e.(*ast.CallExpr)
	return ok && isIdent(c.Fun, name) && len(c.Args) == 0 && !c.Ellipsis.IsValid()
}

func isCEq(e ast.Expr, lit string) bool {
	b, ok := e.(*ast.BinaryExpr)
	if !ok || b.Op != token.EQL || !isIdent(b.X, "c") {
		return false
	}
	l, ok := b.Y.(*ast.BasicLit)
	return ok && l.Value == lit
}

// cond translates a condition; caseByte = the value of `c` known from an enclosing `switch c` case
func (g *lccGen) cond(e ast.Expr, caseByte string) (string, error) {
	if p, ok := e.(*ast.ParenExpr); ok {
		return g.cond(p.X, caseByte)
	}
	ops := flattenAnd(e)
	if len(ops) > 1 {
		// the end-tag test
		for i, o := range ops {
			if name, ok := isEndCall(o); ok {
				hasLT := caseByte == "0x3c"
				for j, r := range ops {
					if j == i {
						continue
					}
					switch {
					case isCallNoArgs(r, "isHTML"):
					case isCEq(r, "'<'"):
						hasLT = true
					default:
						return "", g.errf(e, "end-tag test with another operand")
					}
				}
				if !hasLT {
					return "", g.errf(e, "end-tag test without c == '<'")
				}
				return name, nil
			}
		}
		// a bound next to an access at the same or a later index is subsumed by `[…]?`
		maxAccess := 0
		for _, o := range ops {
			if j := accessAt(o); j > maxAccess {
				maxAccess = j
			}
		}
		var parts []string
		for _, o := range ops {
			if k := g.boundAt(o); k > 0 && k <= maxAccess {
				continue
			}
			s, err := g.cond(o, caseByte)
			if err != nil {
				return "", err
			}
			if strings.Contains(s, " ∨ ") {
				s = "(" + s + ")"
			}
			parts = append(parts, s)
		}
		return strings.Join(parts, " ∧ "), nil
	}
	b, ok := e.(*ast.BinaryExpr)
	if !ok {
		return "", g.errf(e, "condition")
	}
	switch b.Op {
	case token.LOR:
		x, err := g.cond(b.X, caseByte)
		if err != nil {
			return "", err
		}
		y, err := g.cond(b.Y, caseByte)
		if err != nil {
			return "", err
		}
		return x + " ∨ " + y, nil
	case token.EQL:
		switch {
		case isIdent(b.X, "c"):
			v, err := g.byteVal(b.Y)
			if err != nil {
				return "", err
			}
			return "c = " + v, nil
		case isIdent(b.X, "jsComment"):
			id, ok := b.Y.(*ast.Ident)
			if !ok {
				return "", g.errf(e, "jsComment comparison")
			}
			n, ok := g.jsConsts[id.Name]
			if !ok {
				return "", g.errf(e, "unknown jsComment constant")
			}
			return fmt.Sprintf("s.jsComment = %d", n), nil
		case srcAtP(b.X) > 0:
			v, err := g.byteVal(b.Y)
			if err != nil {
				return "", err
			}
			return fmt.Sprintf("text[s.pos + %d]? = some %s", srcAtP(b.X), v), nil
		}
	case token.LSS:
		if k := g.boundAt(e); k > 0 {
			return fmt.Sprintf("s.pos + %d < text.length", k), nil
		}
	}
	return "", g.errf(e, "condition")
}

// `p+k < len(l.src)`: k (0: no)
func (g *lccGen) boundAt(e ast.Expr) int {
	b, ok := e.(*ast.BinaryExpr)
	if !ok || b.Op != token.LSS || pPlus(b.X) == 0 {
		return 0
	}
	c, ok := b.Y.(*ast.CallExpr)
	if ok && isIdent(c.Fun, "len") && len(c.Args) == 1 && isSel(c.Args[0], "l", "src") {
		return pPlus(b.X)
	}
	return 0
}

func (g *lccGen) simple(st ast.Stmt, leaf *lccLeaf) error {
	switch s := st.(type) {
	case *ast.IncDecStmt:
		if s.Tok == token.INC && isIdent(s.X, "p") {
			leaf.adv++
			return nil
		}
		if s.Tok == token.INC && isSel(s.X, "l", "column") {
			return nil
		}
	case *ast.AssignStmt:
		if len(s.Lhs) != 1 || len(s.Rhs) != 1 {
			break
		}
		switch {
		case s.Tok == token.ADD_ASSIGN && (isIdent(s.Lhs[0], "p") || isSel(s.Lhs[0], "l", "column")):
			l, ok := s.Rhs[0].(*ast.BasicLit)
			if !ok || l.Kind != token.INT {
				break
			}
			n, _ := strconv.Atoi(l.Value)
			if isIdent(s.Lhs[0], "p") {
				leaf.adv += n
			}
			return nil
		case s.Tok == token.ASSIGN && isSel(s.Lhs[0], "l", "ctx"):
			if isSel(s.Rhs[0], "l", "base") {
				leaf.ctx = "ContextHTML"
				return nil
			}
			if sel, ok := s.Rhs[0].(*ast.SelectorExpr); ok && isIdent(sel.X, "ast") && strings.HasPrefix(sel.Sel.Name, "Context") {
				leaf.ctx = sel.Sel.Name
				return nil
			}
		case s.Tok == token.ASSIGN && isIdent(s.Lhs[0], "quote"):
			v, err := g.byteVal(s.Rhs[0])
			if err != nil {
				return err
			}
			leaf.quote = v
			return nil
		case s.Tok == token.ASSIGN && isIdent(s.Lhs[0], "jsComment"):
			if id, ok := s.Rhs[0].(*ast.Ident); ok {
				if n, ok := g.jsConsts[id.Name]; ok {
					leaf.jsComment = strconv.Itoa(n)
					return nil
				}
			}
		}
	}
	return g.errf(st, "statement")
}

const lccNothing = "(s, true)"

// block translates a statement list; ind = indentation of the expression's continuation lines
func (g *lccGen) block(list []ast.Stmt, caseByte, ind string) (string, error) {
	if len(list) == 1 {
		switch s := list[0].(type) {
		case *ast.IfStmt:
			return g.ifStmt(s, caseByte, ind)
		case *ast.SwitchStmt:
			return g.switchStmt(s, ind)
		}
	}
	var leaf lccLeaf
	for _, st := range list {
		if err := g.simple(st, &leaf); err != nil {
			return "", err
		}
	}
	return leaf.lean(), nil
}

func (g *lccGen) ifStmt(s *ast.IfStmt, caseByte, ind string) (string, error) {
	if s.Init != nil {
		return "", g.errf(s, "if with an init statement")
	}
	c, err := g.cond(s.Cond, caseByte)
	if err != nil {
		return "", err
	}
	th, err := g.block(s.Body.List, caseByte, ind+"  ")
	if err != nil {
		return "", err
	}
	el := lccNothing
	switch e := s.Else.(type) {
	case nil:
	case *ast.IfStmt:
		if el, err = g.ifStmt(e, caseByte, ind); err != nil {
			return "", err
		}
		return "if " + c + " then\n" + ind + "  " + th + "\n" + ind + "else " + el, nil
	case *ast.BlockStmt:
		if el, err = g.block(e.List, caseByte, ind+"  "); err != nil {
			return "", err
		}
	default:
		return "", g.errf(s, "else")
	}
	return "if " + c + " then\n" + ind + "  " + th + "\n" + ind + "else\n" + ind + "  " + el, nil
}

func (g *lccGen) switchStmt(s *ast.SwitchStmt, ind string) (string, error) {
	if s.Init != nil || s.Tag == nil {
		return "", g.errf(s, "switch")
	}
	type clause struct {
		val  string
		body string
	}
	onNext := isSrcAtP1(s.Tag)
	if !onNext && !isIdent(s.Tag, "c") {
		return "", g.errf(s, "switch tag")
	}
	var cs []clause
	for _, st := range s.Body.List {
		cc := st.(*ast.CaseClause)
		if len(cc.List) != 1 {
			return "", g.errf(cc, "case list (a default clause or several values)")
		}
		v, err := g.byteVal(cc.List[0])
		if err != nil {
			return "", err
		}
		known := ""
		if !onNext && strings.HasPrefix(v, "0x") {
			known = v
		}
		body, err := g.block(cc.Body, known, ind+"    ")
		if err != nil {
			return "", err
		}
		cs = append(cs, clause{v, body})
	}
	var b strings.Builder
	if onNext {
		b.WriteString("match text[s.pos + 1]? with")
		for _, c := range cs {
			if !strings.HasPrefix(c.val, "0x") {
				return "", g.errf(s, "switch on l.src[p+1] with a non-literal case")
			}
			b.WriteString("\n" + ind + "| some " + c.val + " => " + c.body)
		}
		b.WriteString("\n" + ind + "| _ => " + lccNothing)
		return b.String(), nil
	}
	for i, c := range cs {
		if i > 0 {
			b.WriteString("\n" + ind + "else ")
		}
		b.WriteString("if c = " + c.val + " then\n" + ind + "  " + c.body)
	}
	b.WriteString("\n" + ind + "else " + lccNothing)
	return b.String(), nil
}

// pinBase checks how scan establishes the base context and lists every write of `l.base` in the file.
func (g *lccGen) pinBase(f *ast.File, scan *ast.FuncDecl) ([][2]string, error) {
	const wantIsHTML = "isHTML := func() bool { return l.base == ast.ContextHTML || l.base == ast.ContextMarkdown }"
	// the block of scan that holds the labelled main loop
	var blk *ast.BlockStmt
	loopAt := -1
	ast.Inspect(scan, func(n ast.Node) bool {
		b, ok := n.(*ast.BlockStmt)
		if !ok {
			return true
		}
		for i, st := range b.List {
			if ls, ok := st.(*ast.LabeledStmt); ok && ls.Label.Name == "LOOP" {
				if _, ok := ls.Stmt.(*ast.ForStmt); ok && blk == nil {
					blk, loopAt = b, i
				}
			}
		}
		return true
	})
	if blk == nil {
		return nil, fmt.Errorf("shape not recognised: no `LOOP: for` in lexer.scan")
	}
	nBase, nIsHTML := 0, 0
	for _, st := range blk.List[:loopAt] {
		switch g.src(st) {
		case "l.base = l.ctx":
			nBase++
		case wantIsHTML:
			nIsHTML++
		}
	}
	if nBase != 1 || nIsHTML != 1 {
		return nil, g.errf(blk, "before the main loop of scan: %d `l.base = l.ctx`, %d `%s` (want one each)", nBase, nIsHTML, wantIsHTML)
	}
	// no other definition or assignment of isHTML, no other mention of l.base on a left-hand side in scan
	var bad ast.Node
	var writes [][2]string
	for _, d := range f.Decls {
		fd, ok := d.(*ast.FuncDecl)
		if !ok || fd.Body == nil {
			continue
		}
		ast.Inspect(fd.Body, func(n ast.Node) bool {
			switch x := n.(type) {
			case *ast.AssignStmt:
				for i, l := range x.Lhs {
					if isSel(l, "l", "base") {
						if x.Tok != token.ASSIGN || len(x.Lhs) != len(x.Rhs) {
							bad = x
							break
						}
						writes = append(writes, [2]string{fd.Name.Name, g.src(x.Rhs[i])})
					}
					if fd == scan && isIdent(l, "isHTML") && g.src(x) != wantIsHTML {
						bad = x
					}
				}
			case *ast.IncDecStmt:
				if isSel(x.X, "l", "base") {
					bad = x
				}
			case *ast.UnaryExpr:
				if x.Op == token.AND && (isSel(x.X, "l", "base") || isIdent(x.X, "isHTML")) {
					bad = x
				}
			}
			return true
		})
	}
	if bad != nil {
		return nil, g.errf(bad, "write of l.base / isHTML in an unexpected form")
	}
	want := [][2]string{{"scan", "l.ctx"}, {"lexCode", "l.ctx"}, {"lexCode", "l.bases[last]"}}
	if len(writes) != len(want) {
		return nil, g.errf(scan, "%d writes of l.base in lexer.go (want %d: %v)", len(writes), len(want), want)
	}
	for i := range want {
		if writes[i] != want[i] {
			return nil, g.errf(scan, "write %d of l.base is %v (want %v)", i, writes[i], want[i])
		}
	}
	return writes, nil
}

func genLexCtxCases(repo string) (string, error) {
	g := &lccGen{jsConsts: map[string]int{}}
	g.fset = token.NewFileSet()
	f, err := g.parse(filepath.Join(repo, "internal", "compiler", "lexer.go"))
	if err != nil {
		return "", err
	}
	// const ( jsCommentNone jsCommentState = iota; jsCommentLine; jsCommentBlock )
	names, err := sfpIotaBlock(f, "jsCommentState")
	if err != nil {
		return "", err
	}
	for i, n := range names {
		g.jsConsts[n] = i
	}
	var scan *ast.FuncDecl
	for _, d := range f.Decls {
		if fd, ok := d.(*ast.FuncDecl); ok && fd.Name.Name == "scan" && fd.Recv != nil {
			scan = fd
		}
	}
	if scan == nil {
		return "", fmt.Errorf("shape not recognised: no method scan in lexer.go")
	}
	baseWrites, err := g.pinBase(f, scan)
	if err != nil {
		return "", err
	}
	want := []string{"ContextCSS", "ContextCSSString", "ContextJS", "ContextJSString", "ContextJSON", "ContextJSONString"}
	clauses := map[string]*ast.CaseClause{}
	ast.Inspect(scan, func(n ast.Node) bool {
		sw, ok := n.(*ast.SwitchStmt)
		if !ok || !isSel(sw.Tag, "l", "ctx") {
			return true
		}
		for _, st := range sw.Body.List {
			cc := st.(*ast.CaseClause)
			for _, e := range cc.List {
				if sel, ok := e.(*ast.SelectorExpr); ok && isIdent(sel.X, "ast") {
					for _, w := range want {
						if sel.Sel.Name == w {
							if len(cc.List) != 1 {
								clauses[w+"!shared"] = cc
							} else if _, dup := clauses[w]; dup {
								clauses[w+"!dup"] = cc
							} else {
								clauses[w] = cc
							}
						}
					}
				}
			}
		}
		return true
	})
	var out strings.Builder
	out.WriteString("import ScriggoV.Model.LexCtx\n")
	out.WriteString("/-! lexer.scan, `switch l.ctx`: the clauses of the script / style content contexts, translated\n")
	out.WriteString("statement by statement (go/cmd/extract/gen_lexctxcases.go) onto the projected state of\n")
	out.WriteString("Model/LexCtx.lean. The Bool is `true`: none of these clauses `continue`s. -/\n")
	out.WriteString("namespace ScriggoV.Gen.LexCtxCases\nopen ScriggoV ScriggoV.Lexer ScriggoV.Gen.LexTables ScriggoV.LexCtx\n\n")
	fmt.Fprintf(&out, "/-- the constants of jsCommentState -/\ndef jsCommentStates : List (String × Nat) := [")
	for i, n := range names {
		if i > 0 {
			out.WriteString(", ")
		}
		fmt.Fprintf(&out, "(%q, %d)", n, i)
	}
	out.WriteString("]\n\n")
	out.WriteString("/-- every assignment to `l.base` in lexer.go: (function, right-hand side). The one in scan stands before\n")
	out.WriteString("the main loop; the others belong to the statements of a macro / using body, which the projection excludes. -/\n")
	out.WriteString("def baseWrites : List (String × String) := [")
	for i, w := range baseWrites {
		if i > 0 {
			out.WriteString(", ")
		}
		fmt.Fprintf(&out, "(%q, %q)", w[0], w[1])
	}
	out.WriteString("]\n\n")
	for _, w := range want {
		if cc := clauses[w+"!shared"]; cc != nil {
			return "", g.errf(cc, "case %s shares its clause with another context", w)
		}
		if cc := clauses[w+"!dup"]; cc != nil {
			return "", g.errf(cc, "a second `switch l.ctx` clause for %s", w)
		}
		cc := clauses[w]
		if cc == nil {
			return "", fmt.Errorf("shape not recognised: no clause `case ast.%s` in a `switch l.ctx` of lexer.scan", w)
		}
		body, err := g.block(cc.Body, "", "  ")
		if err != nil {
			return "", err
		}
		fmt.Fprintf(&out, "/-- `case ast.%s:` (lexer.go line %d) -/\ndef case%s (text : Bytes) (s : CSt) (c : UInt8) : CSt × Bool :=\n  %s\n\n",
			w, g.fset.Position(cc.Pos()).Line, strings.TrimPrefix(w, "Context"), body)
	}
	out.WriteString("end ScriggoV.Gen.LexCtxCases\n")
	return out.String(), nil
}
