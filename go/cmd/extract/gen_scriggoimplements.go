package main

// Generator "ScriggoImplements" (property C09): regenerates from /repo/internal/compiler/types
// how a type created in template code answers `t.Implements(y)` — the question checkShow,
// checkShowJS and checkShowJSON ask of the static type:
//
//	func (x <kind>Type) Implements(y reflect.Type) bool { return Implements(<arg>, y) }
//
// for every type of the package with such a method; recorded per type: whether <arg> is the
// receiver itself (then the package-level Implements sees a runtime.ScriggoType and answers
// `y.NumMethod() == 0`: only the empty interface) or something else (`x.Type`: the embedded,
// underlying type would be asked). And of the package-level function that it starts with
//
//	if _, ok := x.(runtime.ScriggoType); ok { return y.NumMethod() == 0 }
//
// Anything else is "shape not recognised".

import (
	"fmt"
	"go/ast"
	"go/parser"
	"go/token"
	"path/filepath"
	"sort"
	"strings"
)

func init() {
	generators = append(generators, generator{name: "ScriggoImplements", run: genScriggoImplements})
}

func genScriggoImplements(repo string) (string, error) {
	fset := token.NewFileSet()
	g := &cpGen{fset: fset, helpers: map[string]*ast.FuncDecl{}}
	files, err := filepath.Glob(filepath.Join(repo, "internal/compiler/types", "*.go"))
	if err != nil {
		return "", err
	}
	sort.Strings(files)
	type rec struct {
		typ  string
		self bool
	}
	var recs []rec
	pkgLevel := false
	for _, fn := range files {
		if strings.HasSuffix(fn, "_test.go") {
			continue
		}
		file, err := parser.ParseFile(fset, fn, nil, 0)
		if err != nil {
			return "", err
		}
		for _, d := range file.Decls {
			fd, ok := d.(*ast.FuncDecl)
			if !ok || fd.Name.Name != "Implements" || fd.Body == nil {
				continue
			}
			if fd.Recv == nil {
				if len(fd.Body.List) == 0 || !paramsAre(g, fd, "x", "y") ||
					g.src(fd.Body.List[0]) != "if _, ok := x.(runtime.ScriggoType); ok { return y.NumMethod() == 0 }" {
					return "", g.errf(fd, "package-level Implements (expected to start with the ScriggoType case answering y.NumMethod() == 0)")
				}
				pkgLevel = true
				continue
			}
			if len(fd.Recv.List) != 1 || len(fd.Recv.List[0].Names) != 1 || !paramsAre(g, fd, "y") || len(fd.Body.List) != 1 {
				return "", g.errf(fd, "Implements method")
			}
			recv := fd.Recv.List[0].Names[0].Name
			ret, ok := fd.Body.List[0].(*ast.ReturnStmt)
			if !ok || len(ret.Results) != 1 {
				return "", g.errf(fd, "Implements method (expected a single return)")
			}
			call, ok := ret.Results[0].(*ast.CallExpr)
			if !ok || g.src(call.Fun) != "Implements" || len(call.Args) != 2 || g.src(call.Args[1]) != "y" {
				return "", g.errf(fd, "Implements method (expected return Implements(<arg>, y))")
			}
			arg := g.src(call.Args[0])
			if arg != recv && arg != recv+".Type" {
				return "", g.errf(fd, "Implements method (argument is neither the receiver nor its embedded type)")
			}
			recs = append(recs, rec{g.src(fd.Recv.List[0].Type), arg == recv})
		}
	}
	if !pkgLevel || len(recs) == 0 {
		return "", fmt.Errorf("shape not recognised: Implements function or methods not found in internal/compiler/types")
	}
	var b strings.Builder
	b.WriteString("/-! How the types created in template code (internal/compiler/types) answer `t.Implements(y)`,\nregenerated from /repo. -/\nnamespace ScriggoV.Gen.ScriggoImplements\n\n")
	b.WriteString("/-- per type with an `Implements` method: does it pass the receiver itself to the package-level\n`Implements` (true) or its embedded underlying type (false) -/\ndef methods : List (String × Bool) :=\n  [")
	for i, r := range recs {
		if i > 0 {
			b.WriteString(", ")
		}
		fmt.Fprintf(&b, "(%q, %v)", r.typ, r.self)
	}
	b.WriteString("]\n\n/-- the package-level `Implements` answers `y.NumMethod() == 0` for a `runtime.ScriggoType` -/\ndef scriggoTypeImplementsOnlyEmptyInterface : Bool := true\n\nend ScriggoV.Gen.ScriggoImplements\n")
	return b.String(), nil
}

// paramsAre: the function's parameters are exactly `names… reflect.Type`
func paramsAre(g *cpGen, fd *ast.FuncDecl, names ...string) bool {
	l := fd.Type.Params.List
	if len(l) != 1 || len(l[0].Names) != len(names) || g.src(l[0].Type) != "reflect.Type" {
		return false
	}
	for i, n := range names {
		if l[0].Names[i].Name != n {
			return false
		}
	}
	return true
}
