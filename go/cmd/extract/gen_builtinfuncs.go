package main

// Generator "BuiltinFuncs" (property C25, second part): from /repo/builtin/builtin.go
//   - Capitalize: the three slice bounds `s[i:]`, `s[:i]`, `s[i+size:]`;
//   - ToKebab: the two case guards and the two dash conditions (with their rune-slice indexing)
//     as checked expressions over Basic/GoExpr.lean, parametrised by the unicode predicates;
//   - Reverse: init / condition / step of the swap loop;
//   - FormatFloat: the accepted format strings and the index used on `format`;
//   - the normalised source text of every function whose control flow is modelled by hand
//     (Model/Builtins*.lean compare it with the text they were written against).
// Shares the expression translator of gen_builtintables.go.

import (
	"fmt"
	"go/ast"
	"go/parser"
	"go/token"
	"path/filepath"
	"strconv"
	"strings"
)

func init() {
	generators = append(generators, generator{name: "BuiltinFuncs", run: genBuiltinFuncs})
}

// leanString renders s as a Lean string literal (ASCII printable only).
func leanString(s string) (string, error) {
	var b strings.Builder
	b.WriteByte('"')
	for _, c := range []byte(s) {
		switch {
		case c == '"' || c == '\\':
			b.WriteByte('\\')
			b.WriteByte(c)
		case c < 0x20 || c > 0x7e:
			return "", fmt.Errorf("shape not recognised: source text has the non-printable or non-ASCII byte %#x", c)
		default:
			b.WriteByte(c)
		}
	}
	b.WriteByte('"')
	return b.String(), nil
}

// findNode returns the first node in root accepted by f.
func findNodes[T ast.Node](root ast.Node, f func(T) bool) []T {
	var out []T
	ast.Inspect(root, func(n ast.Node) bool {
		if t, ok := n.(T); ok && f(t) {
			out = append(out, t)
		}
		return true
	})
	return out
}

func genBuiltinFuncs(repo string) (string, error) {
	g := &btGen{fset: token.NewFileSet()}
	var err error
	g.file, err = parser.ParseFile(g.fset, filepath.Join(repo, "builtin", "builtin.go"), nil, 0)
	if err != nil {
		return "", err
	}
	var out strings.Builder
	out.WriteString("import ScriggoV.Basic.Bytes\nimport ScriggoV.Basic.GoExpr\n")
	out.WriteString("/-! Definitions regenerated from /repo/builtin/builtin.go (Capitalize, ToKebab, Reverse, FormatFloat,\nsource texts of the hand-modelled functions). -/\n")
	out.WriteString("set_option linter.unusedVariables false\nnamespace ScriggoV.Gen.BuiltinFuncs\nopen ScriggoV ScriggoV.GoExpr\n\n")

	// 1. Capitalize: s[i:] (argument of DecodeRuneInString), s[:i], s[i+size:]
	{
		f, err := g.fn("Capitalize")
		if err != nil {
			return "", err
		}
		p, ok := btSingleParam(f)
		if !ok {
			return "", g.errf(f, "Capitalize: one parameter expected")
		}
		slices := findNodes(f.Body, func(e *ast.SliceExpr) bool { return btIsIdent(e.X, p) })
		if len(slices) != 3 {
			return "", g.errf(f.Name, "Capitalize: expected exactly three slices of %s, found %d", p, len(slices))
		}
		env := &btEnv{bytesVar: p, ints: map[string]bool{"i": true, "size": true}}
		bound := func(e ast.Expr, dflt string) (string, error) {
			if e == nil {
				return dflt, nil
			}
			return g.pureInt(e, env)
		}
		names := []string{"capTail", "capPre", "capPost"}
		want := []string{p + "[i:]", p + "[:i]", p + "[i+size:]"}
		for k, sl := range slices {
			if sl.Slice3 {
				return "", g.errf(sl, "Capitalize: three-index slice")
			}
			lo, err := bound(sl.Low, "(0 : Int)")
			if err != nil {
				return "", err
			}
			hi, err := bound(sl.High, "(data.length : Int)")
			if err != nil {
				return "", err
			}
			fmt.Fprintf(&out, "/-- Capitalize, slice %d of 3 in source order: `%s` (written against `%s`) -/\n", k+1, g.src(sl), want[k])
			fmt.Fprintf(&out, "def %sLo (data : Bytes) (i size : Int) : Int := %s\ndef %sHi (data : Bytes) (i size : Int) : Int := %s\n\n", names[k], lo, names[k], hi)
		}
	}

	// 2. ToKebab
	{
		f, err := g.fn("ToKebab")
		if err != nil {
			return "", err
		}
		sw := findNodes(f.Body, func(s *ast.SwitchStmt) bool { return s.Tag == nil && s.Init == nil })
		if len(sw) != 1 || len(sw[0].Body.List) != 3 {
			return "", g.errf(f.Name, "ToKebab: expected one tagless switch with three clauses")
		}
		env := &btEnv{ints: map[string]bool{"i": true, "n": true}, bools: map[string]bool{"noDash": true}, runesVar: "runes"}
		// a case guard is a pure predicate of the rune r
		guard := func(e ast.Expr) (string, error) {
			var rec func(e ast.Expr) (string, error)
			rec = func(e ast.Expr) (string, error) {
				switch e := e.(type) {
				case *ast.ParenExpr:
					return rec(e.X)
				case *ast.BinaryExpr:
					if e.Op == token.LOR || e.Op == token.LAND {
						l, err := rec(e.X)
						if err != nil {
							return "", err
						}
						r, err := rec(e.Y)
						if err != nil {
							return "", err
						}
						return "(" + l + " " + e.Op.String() + " " + r + ")", nil
					}
				case *ast.CallExpr:
					if sel, ok := e.Fun.(*ast.SelectorExpr); ok && btIsIdent(sel.X, "unicode") && unicodeFns[sel.Sel.Name] != "" && len(e.Args) == 1 && btIsIdent(e.Args[0], "r") {
						return "U." + unicodeFns[sel.Sel.Name] + " r", nil
					}
				}
				return "", g.errf(e, "ToKebab: case guard is not a combination of unicode predicates of r")
			}
			return rec(e)
		}
		for k := 0; k < 2; k++ {
			cc := sw[0].Body.List[k].(*ast.CaseClause)
			if len(cc.List) != 1 {
				return "", g.errf(cc, "ToKebab: case with %d expressions", len(cc.List))
			}
			gs, err := guard(cc.List[0])
			if err != nil {
				return "", err
			}
			fmt.Fprintf(&out, "/-- ToKebab: `case %s:` -/\ndef kebabCase%d (U : UnicodeFns) (r : Nat) : Bool := %s\n\n", g.src(cc.List[0]), k+1, gs)
		}
		if cc := sw[0].Body.List[2].(*ast.CaseClause); cc.List != nil {
			return "", g.errf(cc, "ToKebab: third clause is not `default`")
		}
		for k, name := range []string{"", "kebabUpperDash", "kebabDefaultDash"} {
			if k == 0 {
				continue
			}
			cc := sw[0].Body.List[k].(*ast.CaseClause)
			ifs := findNodes(cc, func(s *ast.IfStmt) bool { return true })
			if len(ifs) != 1 || ifs[0].Init != nil || ifs[0].Else != nil {
				return "", g.errf(cc, "ToKebab: clause %d does not contain exactly one plain `if`", k+1)
			}
			c, err := g.checkedBool(ifs[0].Cond, env)
			if err != nil {
				return "", err
			}
			fmt.Fprintf(&out, "/-- ToKebab, clause %d: `if %s` -/\n", k+1, g.src(ifs[0].Cond))
			fmt.Fprintf(&out, "def %s (U : UnicodeFns) (runes : List Nat) (noDash : Bool) (i n : Int) : Except Fault Bool :=\n  %s\n\n", name, c)
		}
	}

	// 3. Reverse: for i, j := E1, E2; COND; i, j = E3, E4 { swap(i, j) }
	{
		f, err := g.fn("Reverse")
		if err != nil {
			return "", err
		}
		loops := findNodes(f.Body, func(s *ast.ForStmt) bool { return true })
		if len(loops) != 1 {
			return "", g.errf(f.Name, "Reverse: expected one for statement")
		}
		lp := loops[0]
		ini, ok1 := lp.Init.(*ast.AssignStmt)
		post, ok2 := lp.Post.(*ast.AssignStmt)
		if !ok1 || !ok2 || lp.Cond == nil || ini.Tok != token.DEFINE || post.Tok != token.ASSIGN ||
			len(ini.Lhs) != 2 || len(ini.Rhs) != 2 || len(post.Lhs) != 2 || len(post.Rhs) != 2 ||
			!btIsIdent(ini.Lhs[0], "i") || !btIsIdent(ini.Lhs[1], "j") || !btIsIdent(post.Lhs[0], "i") || !btIsIdent(post.Lhs[1], "j") ||
			len(lp.Body.List) != 1 || g.src(lp.Body.List[0]) != "swap(i, j)" {
			return "", g.errf(lp, "Reverse: loop is not `for i, j := E1, E2; COND; i, j = E3, E4 { swap(i, j) }`")
		}
		envL := &btEnv{ints: map[string]bool{"l": true}}
		envIJ := &btEnv{ints: map[string]bool{"i": true, "j": true, "l": true}}
		var e [4]string
		for k, x := range []ast.Expr{ini.Rhs[0], ini.Rhs[1]} {
			if e[k], err = g.pureInt(x, envL); err != nil {
				return "", err
			}
		}
		for k, x := range []ast.Expr{post.Rhs[0], post.Rhs[1]} {
			if e[2+k], err = g.pureInt(x, envIJ); err != nil {
				return "", err
			}
		}
		cond, err := g.checkedBool(lp.Cond, envIJ)
		if err != nil {
			return "", err
		}
		fmt.Fprintf(&out, "/-- Reverse: `for %s; %s; %s { swap(i, j) }` (l = length of the slice) -/\n", g.src(ini), g.src(lp.Cond), g.src(post))
		fmt.Fprintf(&out, "def revInitI (l : Int) : Int := %s\ndef revInitJ (l : Int) : Int := %s\n", e[0], e[1])
		fmt.Fprintf(&out, "def revCond (i j l : Int) : Except Fault Bool := %s\n", cond)
		fmt.Fprintf(&out, "def revNextI (i j l : Int) : Int := %s\ndef revNextJ (i j l : Int) : Int := %s\n\n", e[2], e[3])
	}

	// 4. FormatFloat: switch format { case "e", "f", "g": default: panic }, then format[K]
	{
		f, err := g.fn("FormatFloat")
		if err != nil {
			return "", err
		}
		sw := findNodes(f.Body, func(s *ast.SwitchStmt) bool { return btIsIdent(s.Tag, "format") })
		idx := findNodes(f.Body, func(e *ast.IndexExpr) bool { return btIsIdent(e.X, "format") })
		if len(sw) != 1 || len(sw[0].Body.List) != 2 || len(idx) != 1 {
			return "", g.errf(f.Name, "FormatFloat: expected `switch format` with two clauses and one index of format")
		}
		acc, dflt := sw[0].Body.List[0].(*ast.CaseClause), sw[0].Body.List[1].(*ast.CaseClause)
		if acc.List == nil || len(acc.Body) != 0 || dflt.List != nil || len(dflt.Body) != 1 || !strings.HasPrefix(g.src(dflt.Body[0]), "panic(") {
			return "", g.errf(sw[0], "FormatFloat: not `case <formats>: default: panic(…)`")
		}
		var formats []string
		for _, e := range acc.List {
			lit, ok := e.(*ast.BasicLit)
			if !ok || lit.Kind != token.STRING {
				return "", g.errf(e, "FormatFloat: format is not a string literal")
			}
			v, err := strconv.Unquote(lit.Value)
			if err != nil {
				return "", err
			}
			formats = append(formats, btLeanBytes([]byte(v)))
		}
		k, ok := g.intLit(idx[0].Index)
		if !ok {
			return "", g.errf(idx[0], "FormatFloat: index of format is not a literal")
		}
		fmt.Fprintf(&out, "/-- FormatFloat: `%s` accepts these formats (anything else: documented panic) -/\n", g.src(acc))
		fmt.Fprintf(&out, "def formatFloatFormats : List Bytes := [%s]\n/-- FormatFloat: `%s` -/\ndef formatFloatIndex : Int := %d\n\n", strings.Join(formats, ", "), g.src(idx[0]), k)
	}

	// 5. source texts of the functions whose control flow is modelled by hand
	for _, name := range []string{"Abbreviate", "Abs", "Max", "Min", "QueryEscape", "Capitalize", "CapitalizeAll", "ToKebab", "Reverse", "isSeparator", "IndentJSON", "MarshalJSONIndent"} {
		f, err := g.fn(name)
		if err != nil {
			return "", err
		}
		lit, err := leanString(g.src(f.Type) + " " + g.src(f.Body))
		if err != nil {
			return "", fmt.Errorf("%s: %v", name, err)
		}
		fmt.Fprintf(&out, "/-- normalised source of `%s` -/\ndef src%s : String :=\n  %s\n\n", name, strings.ToUpper(name[:1])+name[1:], lit)
	}
	out.WriteString("end ScriggoV.Gen.BuiltinFuncs\n")
	return out.String(), nil
}
