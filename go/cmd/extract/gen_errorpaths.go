package main

// Generator "ErrorPaths" (property C21): where the file name that a build error carries comes from.
// Regenerated from /repo/internal/compiler/*.go (tests and verif_* hooks excluded).
//
// A SINK is a place that stores a file name that ends up in an error's Path():
//
//	field      an assignment `X.path = e`, or `path: e` (or the positional element) in a composite
//	           literal of a struct type of the package that has a field `path` (typechecker, scopes,
//	           functionBuilder, SyntaxError, CheckingError, CycleError, LimitExceededError, GoModError, …);
//	treeField  an assignment `X.Path = e` where X is a tree (see below): the loader's own product;
//	arg        an argument of a call to a function or method of the package whose parameter flows
//	           into a sink (newTypechecker, newScopes, checkPackage, checkError, newBuilder, changePath,
//	           newLimitExceededError, parseSource, … — found as a fixpoint, not listed by hand).
//
// The stored expression e is classified:
//
//	treePath   `T.Path` where T is the identifier `tree`, or a selector that ends in `.Tree`
//	           (extends.Tree.Path, impor.Tree.Path, node.Tree.Path, imports[i].Tree.Path), or an element
//	           `M[k]` of a local map of trees M (declared `map[K]*ast.Tree{}`, only ever indexed, every
//	           store `M[k] = v` stores a tree — ParseProgram's `importers`): the name the loader gave the
//	           tree it read;
//	loader     a local variable whose last assignment before the use (in an enclosing block) is the
//	           result of rooted(…) — the loader's resolution of a written path against the referring file;
//	param      a parameter of the enclosing function (every call of that function is a sink of kind arg);
//	field      another stored name: `X.path`, `X.getPath()`, `X.File`, `pp.paths[…]`;
//	lit        a string literal;
//	nodePath   `N.Path` for any other N: the path AS WRITTEN in a statement node (extends.Path, n.Path, p.Path);
//	local      a local variable whose last assignment is none of the above and not a node path: a name
//	           computed from a directory listing or a module path (parsePackage).
//
// Anything else is "shape not recognised". The C21 theorem `error_paths_from_loader` is a `decide` over this table.

import (
	"fmt"
	"go/ast"
	"go/token"
	"os"
	"path/filepath"
	"sort"
	"strings"
)

func init() {
	generators = append(generators, generator{name: "ErrorPaths", run: genErrorPaths})
}

type epSite struct {
	file, fn, sink, sinkName, src, expr string
	line                              int
}

// key is the function's name, "(m)." before the name of a method.
func (f *epFunc) key() string {
	if f.decl.Recv != nil {
		return "(m)." + f.decl.Name.Name
	}
	return f.decl.Name.Name
}

type epFunc struct {
	g      *vbFile
	file   string
	decl   *ast.FuncDecl
	params []string
}

func genErrorPaths(repo string) (string, error) {
	dir := filepath.Join(repo, "internal", "compiler")
	ents, err := os.ReadDir(dir)
	if err != nil {
		return "", err
	}
	var files []*vbFile
	var names []string
	for _, e := range ents {
		n := e.Name()
		if !strings.HasSuffix(n, ".go") || strings.HasSuffix(n, "_test.go") || strings.HasPrefix(n, "verif_") {
			continue
		}
		g, err := vbParse(filepath.Join(dir, n))
		if err != nil {
			return "", err
		}
		files = append(files, g)
		names = append(names, n)
	}
	// struct types with a field `path`: index of the field
	pathStructs := map[string]int{}
	for _, g := range files {
		ast.Inspect(g.file, func(n ast.Node) bool {
			ts, ok := n.(*ast.TypeSpec)
			if !ok {
				return true
			}
			st, ok := ts.Type.(*ast.StructType)
			if !ok {
				return true
			}
			idx := 0
			for _, f := range st.Fields.List {
				for _, nm := range f.Names {
					if nm.Name == "path" {
						pathStructs[ts.Name.Name] = idx
					}
					idx++
				}
				if len(f.Names) == 0 {
					idx++
				}
			}
			return true
		})
	}
	// functions of the package by name (methods by their bare name: the names involved are unique)
	funcs := map[string][]*epFunc{}
	for i, g := range files {
		for _, d := range g.file.Decls {
			fd, ok := d.(*ast.FuncDecl)
			if !ok || fd.Body == nil {
				continue
			}
			f := &epFunc{g: g, file: names[i], decl: fd}
			for _, p := range fd.Type.Params.List {
				for _, nm := range p.Names {
					f.params = append(f.params, nm.Name)
				}
				if len(p.Names) == 0 {
					f.params = append(f.params, "_")
				}
			}
			funcs[f.key()] = append(funcs[f.key()], f)
		}
	}

	var sites []epSite
	pathParams := map[string]map[int]bool{} // function name -> parameter indexes that flow into a sink
	var firstErr error
	fail := func(e error) {
		if firstErr == nil {
			firstErr = e
		}
	}

	isTree := func(x ast.Expr) bool {
		switch t := x.(type) {
		case *ast.Ident:
			return t.Name == "tree"
		case *ast.SelectorExpr:
			return t.Sel.Name == "Tree"
		}
		return false
	}

	// treeMaps: the local variables of f that are maps of trees filled with trees only: declared once as
	// `M := map[K]*ast.Tree{}` (no elements), every other occurrence of M is the operand of an index
	// expression `M[k]` (so the map is neither re-assigned nor handed to other code), and every store
	// `M[k] = v` has a tree for v (`tree`, `X.Tree`). Then `M[k].Path` is the Path of a tree the loader
	// read (ParseProgram: `importers[imp] = n.Tree` … `importers[n].Path`).
	treeMapsOf := map[*epFunc]map[string]bool{}
	treeMaps := func(f *epFunc) map[string]bool {
		if m, ok := treeMapsOf[f]; ok {
			return m
		}
		cand := map[string]*ast.Ident{} // name -> the defining identifier
		bad := map[string]bool{}
		ast.Inspect(f.decl.Body, func(n ast.Node) bool {
			a, ok := n.(*ast.AssignStmt)
			if !ok || a.Tok != token.DEFINE || len(a.Lhs) != len(a.Rhs) {
				return true
			}
			for i, l := range a.Lhs {
				id, ok := l.(*ast.Ident)
				if !ok {
					continue
				}
				cl, ok := a.Rhs[i].(*ast.CompositeLit)
				if !ok || len(cl.Elts) != 0 {
					continue
				}
				mt, ok := cl.Type.(*ast.MapType)
				if !ok {
					continue
				}
				st, ok := mt.Value.(*ast.StarExpr)
				if !ok {
					continue
				}
				sel, ok := st.X.(*ast.SelectorExpr)
				if !ok || sel.Sel.Name != "Tree" {
					continue
				}
				if pk, ok := sel.X.(*ast.Ident); !ok || pk.Name != "ast" {
					continue
				}
				if cand[id.Name] != nil {
					bad[id.Name] = true
				}
				cand[id.Name] = id
			}
			return true
		})
		// every other occurrence is `M[k]`; every store through it stores a tree
		indexed := map[*ast.Ident]bool{}
		ast.Inspect(f.decl.Body, func(n ast.Node) bool {
			switch t := n.(type) {
			case *ast.IndexExpr:
				if id, ok := t.X.(*ast.Ident); ok && cand[id.Name] != nil {
					indexed[id] = true
				}
			case *ast.AssignStmt:
				for i, l := range t.Lhs {
					ix, ok := l.(*ast.IndexExpr)
					if !ok {
						continue
					}
					id, ok := ix.X.(*ast.Ident)
					if !ok || cand[id.Name] == nil {
						continue
					}
					if t.Tok != token.ASSIGN || len(t.Lhs) != len(t.Rhs) || !isTree(t.Rhs[i]) {
						bad[id.Name] = true
					}
				}
			}
			return true
		})
		ast.Inspect(f.decl.Body, func(n ast.Node) bool {
			if id, ok := n.(*ast.Ident); ok && cand[id.Name] != nil && id != cand[id.Name] && !indexed[id] {
				bad[id.Name] = true
			}
			return true
		})
		m := map[string]bool{}
		for name := range cand {
			if !bad[name] {
				m[name] = true
			}
		}
		treeMapsOf[f] = m
		return m
	}
	// isTreeIn: a tree by its spelling, or an element of a map of trees of f
	isTreeIn := func(f *epFunc, x ast.Expr) bool {
		if isTree(x) {
			return true
		}
		if ix, ok := x.(*ast.IndexExpr); ok {
			if id, ok := ix.X.(*ast.Ident); ok {
				return treeMaps(f)[id.Name]
			}
		}
		return false
	}

	// classify e, used inside function f at position of node `at`
	var classify func(f *epFunc, e ast.Expr, at ast.Node, depth int) (string, error)
	classify = func(f *epFunc, e ast.Expr, at ast.Node, depth int) (string, error) {
		switch t := e.(type) {
		case *ast.BasicLit:
			if t.Kind == token.STRING {
				return "lit", nil
			}
		case *ast.ParenExpr:
			return classify(f, t.X, at, depth)
		case *ast.SelectorExpr:
			switch t.Sel.Name {
			case "Path":
				if isTreeIn(f, t.X) {
					return "treePath", nil
				}
				return "nodePath", nil
			case "path", "File":
				return "field", nil
			}
		case *ast.CallExpr:
			if s, ok := t.Fun.(*ast.SelectorExpr); ok && s.Sel.Name == "getPath" && len(t.Args) == 0 {
				return "field", nil
			}
			if id, ok := t.Fun.(*ast.Ident); ok && id.Name == "rooted" {
				return "loader", nil
			}
		case *ast.IndexExpr:
			if s, ok := t.X.(*ast.SelectorExpr); ok && s.Sel.Name == "paths" {
				return "field", nil
			}
		case *ast.Ident:
			// the last assignment to the identifier before `at` inside f; none: a parameter
			var last ast.Expr
			var lastPos token.Pos
			found := false
			ast.Inspect(f.decl.Body, func(n ast.Node) bool {
				if n == nil || n.Pos() >= at.Pos() {
					return n != nil && n.Pos() < at.Pos()
				}
				switch a := n.(type) {
				case *ast.AssignStmt:
					if a.End() > at.Pos() { // the statement that contains the use
						return true
					}
					for i, l := range a.Lhs {
						if id, ok := l.(*ast.Ident); ok && id.Name == t.Name && a.Pos() > lastPos {
							found, lastPos = true, a.Pos()
							if len(a.Rhs) == len(a.Lhs) {
								last = a.Rhs[i]
							} else {
								last = a.Rhs[0] // a, err = f(…)
							}
						}
					}
				case *ast.ValueSpec:
					for i, nm := range a.Names {
						if nm.Name == t.Name && a.Pos() > lastPos && a.End() <= at.Pos() {
							found, lastPos = true, a.Pos()
							last = nil
							if i < len(a.Values) {
								last = a.Values[i]
							}
						}
					}
				}
				return true
			})
			if !found {
				for i, p := range f.params {
					if p == t.Name {
						if pathParams[f.key()] == nil {
							pathParams[f.key()] = map[int]bool{}
						}
						pathParams[f.key()][i] = true
						return "param", nil
					}
				}
				return "", f.g.errf(e, "identifier %s is neither assigned before its use nor a parameter of %s", t.Name, f.decl.Name.Name)
			}
			if last == nil || depth > 4 {
				return "local", nil
			}
			c, err := classify(f, last, last, depth+1)
			if err != nil {
				// computed some other way (strings, a directory listing): a node path anywhere inside it counts as one
				written := false
				ast.Inspect(last, func(n ast.Node) bool {
					if s, ok := n.(*ast.SelectorExpr); ok && s.Sel.Name == "Path" && !isTreeIn(f, s.X) {
						written = true
					}
					return true
				})
				if written {
					return "nodePath", nil
				}
				return "local", nil
			}
			if c == "param" || c == "lit" || c == "field" {
				return c, nil
			}
			return c, nil
		}
		return "", f.g.errf(e, "stored file name of a shape that is not recognised")
	}

	add := func(f *epFunc, sink, sinkName string, e ast.Expr, at ast.Node) {
		c, err := classify(f, e, at, 0)
		if err != nil {
			fail(err)
			return
		}
		sites = append(sites, epSite{file: f.file, fn: f.decl.Name.Name, sink: sink, sinkName: sinkName, src: c, expr: f.g.src(e), line: f.g.fset.Position(at.Pos()).Line})
	}

	litType := func(c *ast.CompositeLit) string {
		if id, ok := c.Type.(*ast.Ident); ok {
			return id.Name
		}
		return ""
	}

	// pass 1: field sinks
	var allFuncs []*epFunc
	for _, fs := range funcs {
		allFuncs = append(allFuncs, fs...)
	}
	sort.Slice(allFuncs, func(i, j int) bool {
		if allFuncs[i].file != allFuncs[j].file {
			return allFuncs[i].file < allFuncs[j].file
		}
		return allFuncs[i].decl.Pos() < allFuncs[j].decl.Pos()
	})
	for _, f := range allFuncs {
		f := f
		ast.Inspect(f.decl.Body, func(n ast.Node) bool {
			switch t := n.(type) {
			case *ast.AssignStmt:
				for i, l := range t.Lhs {
					s, ok := l.(*ast.SelectorExpr)
					if !ok || len(t.Rhs) != len(t.Lhs) {
						continue
					}
					if s.Sel.Name == "path" {
						add(f, "field", f.g.src(s), t.Rhs[i], t)
					} else if s.Sel.Name == "Path" && isTree(s.X) {
						add(f, "treeField", f.g.src(s), t.Rhs[i], t)
					}
				}
			case *ast.CompositeLit:
				idx, ok := pathStructs[litType(t)]
				if !ok {
					return true
				}
				for i, el := range t.Elts {
					if kv, ok := el.(*ast.KeyValueExpr); ok {
						if k, ok := kv.Key.(*ast.Ident); ok && k.Name == "path" {
							add(f, "field", litType(t)+".path", kv.Value, t)
						}
					} else if i == idx {
						add(f, "field", litType(t)+".path", el, t)
					}
				}
			}
			return true
		})
	}
	// pass 2: the arguments of the calls of functions whose parameters flow into a sink (fixpoint)
	done := map[string]bool{}
	for round := 0; round < 8; round++ {
		changed := false
		var fnames []string
		for fn := range pathParams {
			fnames = append(fnames, fn)
		}
		sort.Strings(fnames)
		for _, fn := range fnames {
			var idxs []int
			for i := range pathParams[fn] {
				idxs = append(idxs, i)
			}
			sort.Ints(idxs)
			for _, idx := range idxs {
				key := fmt.Sprintf("%s#%d", strings.TrimPrefix(fn, "(m)."), idx)
				if done[key] {
					continue
				}
				done[key] = true
				changed = true
				if len(funcs[fn]) != 1 {
					fail(fmt.Errorf("shape not recognised: %d functions named %s", len(funcs[fn]), fn))
					continue
				}
				ncalls := 0
				for _, f := range allFuncs {
					f := f
					ast.Inspect(f.decl.Body, func(n ast.Node) bool {
						c, ok := n.(*ast.CallExpr)
						if !ok {
							return true
						}
						name := ""
						switch fun := c.Fun.(type) {
						case *ast.Ident:
							name = fun.Name
						case *ast.SelectorExpr:
							name = "(m)." + fun.Sel.Name
						}
						if name != fn || idx >= len(c.Args) {
							return true
						}
						ncalls++
						add(f, "arg", key, c.Args[idx], c)
						return true
					})
				}
				if ncalls == 0 && !ast.IsExported(strings.TrimPrefix(fn, "(m).")) {
					fail(fmt.Errorf("shape not recognised: no call of %s found", fn))
				}
			}
		}
		if !changed {
			break
		}
	}
	if firstErr != nil {
		return "", firstErr
	}
	if len(sites) < 20 {
		return "", fmt.Errorf("shape not recognised: only %d sinks found", len(sites))
	}
	sort.SliceStable(sites, func(i, j int) bool {
		if sites[i].file != sites[j].file {
			return sites[i].file < sites[j].file
		}
		return sites[i].line < sites[j].line
	})

	var sb strings.Builder
	sb.WriteString("-- Where the file name of a build error comes from: every store into a `path` field, into a tree's Path,\n")
	sb.WriteString("-- and every argument that flows into one (internal/compiler; see go/cmd/extract/gen_errorpaths.go).\n")
	sb.WriteString("namespace ScriggoV.Gen.ErrorPaths\n\n")
	sb.WriteString("inductive Sink | field | treeField | arg\n  deriving DecidableEq, Repr\n\n")
	sb.WriteString("inductive Src | treePath | loader | param | field | lit | «local» | nodePath\n  deriving DecidableEq, Repr\n\n")
	sb.WriteString("/-- The owner of the stored name, for the sinks the theorems single out. -/\n")
	sb.WriteString("inductive Owner | checker | scopes | builder | cycleError | other\n  deriving DecidableEq, Repr\n\n")
	sb.WriteString("structure Site where\n  file : String\n  func : String\n  line : Nat\n  sink : Sink\n  owner : Owner\n  name : String\n  src : Src\n  expr : String\n  deriving Repr\n\n")
	sb.WriteString("def sites : List Site := [\n")
	for i, s := range sites {
		owner := ".other"
		switch {
		case s.sinkName == "tc.path" || s.sinkName == "typechecker.path" || strings.HasPrefix(s.sinkName, "newTypechecker#") || strings.HasPrefix(s.sinkName, "checkPackage#") || strings.HasPrefix(s.sinkName, "checkError#"):
			owner = ".checker"
		case s.sinkName == "scopes.path" || strings.HasPrefix(s.sinkName, "newScopes#"):
			owner = ".scopes"
		case s.sinkName == "fb.path" || s.sinkName == "functionBuilder.path" || strings.HasPrefix(s.sinkName, "newBuilder#") || strings.HasPrefix(s.sinkName, "changePath#"):
			owner = ".builder"
		case s.sinkName == "CycleError.path":
			owner = ".cycleError"
		}
		src := "." + s.src
		if s.src == "local" {
			src = ".«local»"
		}
		fmt.Fprintf(&sb, "  ⟨%s, %s, %d, .%s, %s, %s, %s, %s⟩", leanStr(s.file), leanStr(s.fn), s.line, s.sink, owner, leanStr(s.sinkName), src, leanStr(s.expr))
		if i+1 < len(sites) {
			sb.WriteString(",")
		}
		sb.WriteString("\n")
	}
	sb.WriteString("]\n\n")
	// the two stores of the loop of typecheck() that swaps a template with the file it extends
	one := func(what string, pred func(s epSite) bool) (string, error) {
		var got []epSite
		for _, s := range sites {
			if pred(s) {
				got = append(got, s)
			}
		}
		if len(got) != 1 {
			return "", fmt.Errorf("shape not recognised: %d stores of %s in typecheck (want 1)", len(got), what)
		}
		if got[0].src == "local" {
			return ".«local»", nil
		}
		return "." + got[0].src, nil
	}
	tcSrc, err := one("tc.path", func(s epSite) bool { return s.file == "checker.go" && s.fn == "typecheck" && s.sinkName == "tc.path" })
	if err != nil {
		return "", err
	}
	treeSrc, err := one("tree.Path", func(s epSite) bool { return s.file == "checker.go" && s.fn == "typecheck" && s.sink == "treeField" })
	if err != nil {
		return "", err
	}
	sb.WriteString("/-- what `tc.path = …` stores in the extends loop of typecheck() -/\ndef typecheckTcPathSrc : Src := " + tcSrc + "\n\n")
	sb.WriteString("/-- what `tree.Path = …` stores in the extends loop of typecheck() -/\ndef typecheckTreePathSrc : Src := " + treeSrc + "\n\n")
	sb.WriteString("end ScriggoV.Gen.ErrorPaths\n")
	return sb.String(), nil
}
